#!/usr/bin/env python3
"""usage: seed_meta.py <seed-dir-name> <property> <needs> <caught_by csv> [missed_by csv]
Writes /verif/seeded/<name>/meta.json from confirm.log plus the given facts."""
import json, sys, os, re
name, prop, needs, caught = sys.argv[1:5]
missed = sys.argv[5] if len(sys.argv) > 5 else ""
d = f"/verif/seeded/{name}"
log = open(os.path.join(d, "confirm.log")).read() if os.path.exists(os.path.join(d, "confirm.log")) else ""
g = lambda k: (re.search(k + r"=(\d+)", log) or [None, None])[1]
meta = {
 "property": prop,
 "source": "independent sub-agent given only the property text and a scratch worktree",
 "needs_to_manifest": needs,
 "confirmed": {
   "build_ok": "BUILD_OK" in log,
   "existing_suite_exit_with_change": g("SUITE_EXIT"),
   "demo_exit_with_change": g("DEMO_WITH_EXIT"),
   "demo_exit_without_change": g("DEMO_WITHOUT_EXIT"),
   "how": "tools/confirm_seed.sh: fresh worktree of /repo HEAD, git apply patch.diff, go build ./..., go test -vet=off -count=1 ./..., demo test with and without the change; log in confirm.log",
 },
 "checks_run_against_it": "git -C /repo apply patch.diff; ./run <id> quick; git -C /repo checkout -- .",
 "caught_by": [x for x in caught.split(",") if x],
 "missed_by": [x for x in missed.split(",") if x],
}
json.dump(meta, open(os.path.join(d, "meta.json"), "w"), indent=1)
print(name, meta["confirmed"], meta["caught_by"])
