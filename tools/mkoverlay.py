#!/usr/bin/env python3
"""Builds the scheduling overlay from /repo's current working tree:
every non-test Go file of the target packages that imports sync or sync/atomic
is copied with those imports redirected to the harness shims, and the files under
/verif/mc/sched/inject/<pkg path>/ are added to the packages (state-reset hooks).
Writes /verif/.cache/overlay/overlay.json. /repo itself is not touched."""
import json, os, re, sys, shutil
REPO = '/repo'
OUT = sys.argv[1] if len(sys.argv) > 1 else '/verif/.cache/overlay'
TARGETS = ['internal/impl', 'internal/protolazy', 'internal/filedesc', 'internal/filetype', 'reflect/protoregistry', 'internal/order', 'types/dynamicpb', 'reflect/protodesc', 'internal/encoding/messageset', 'proto']
XSYNC = 'google.golang.org/protobuf/verifmc/sched/xsync'
XATOMIC = 'google.golang.org/protobuf/verifmc/sched/xatomic'
shutil.rmtree(OUT, ignore_errors=True)
os.makedirs(OUT, exist_ok=True)
replace = {}
n = 0
for t in TARGETS:
    d = os.path.join(REPO, t)
    if not os.path.isdir(d):
        continue
    for f in sorted(os.listdir(d)):
        if not f.endswith('.go') or f.endswith('_test.go'):
            continue
        p = os.path.join(d, f)
        s = open(p).read()
        s2 = re.sub(r'(?m)^(\s*)(?:\w+\s+)?"sync"\s*$', r'\1sync "%s"' % XSYNC, s)
        s2 = re.sub(r'(?m)^(\s*)(?:\w+\s+)?"sync/atomic"\s*$', r'\1atomic "%s"' % XATOMIC, s2)
        s2 = re.sub(r'(?m)^import "sync"\s*$', 'import sync "%s"' % XSYNC, s2)
        s2 = re.sub(r'(?m)^import "sync/atomic"\s*$', 'import atomic "%s"' % XATOMIC, s2)
        if s2 != s:
            o = os.path.join(OUT, t, f)
            os.makedirs(os.path.dirname(o), exist_ok=True)
            open(o, 'w').write(s2)
            replace[p] = o
            n += 1
inj = '/verif/mc/sched/inject'
for root, _, files in os.walk(inj):
    for f in files:
        if f.endswith('.go.txt'):
            rel = os.path.relpath(root, inj)
            dst = os.path.join(REPO, rel, f[:-4])
            replace[dst] = os.path.join(root, f)
json.dump({'Replace': replace}, open(os.path.join(OUT, 'overlay.json'), 'w'), indent=1)
print('overlay: %d files rewritten, %d total entries' % (n, len(replace)))
