#!/bin/bash
# usage: confirm_seed.sh <seed-name> <agent-worktree> <demo-test-relpath> [go test -run pattern] [extra go test flags]
# Confirms a sub-agent's seeded change in a fresh scratch worktree of /repo HEAD:
#  suite passes with the change, demo fails with it and passes without it.
set -u
NAME=$1; SRC=$2; DEMO=$3; PAT=${4:-.}; EXTRA=${5:-}
export GOFLAGS=-mod=mod GOPROXY=off GOSUMDB=off GOTOOLCHAIN=local
OUT=/verif/seeded/$NAME
WT=/tmp/confirm/$NAME
mkdir -p "$OUT" /tmp/confirm
rm -rf "$WT"; git -C /repo worktree prune
git -C /repo worktree add -q --detach "$WT" HEAD || exit 2
cp "$SRC/seed.patch" "$OUT/patch.diff"
cp "$SRC/$DEMO" "$OUT/$(basename $DEMO)"
[ -f "$SRC/SEED_REPORT.md" ] && cp "$SRC/SEED_REPORT.md" "$OUT/SEED_REPORT.md"
cd "$WT"
if ! git apply "$OUT/patch.diff"; then echo "PATCH DOES NOT APPLY" | tee "$OUT/confirm.log"; git -C /repo worktree remove --force "$WT"; exit 1; fi
{
echo "== build with change"; go build ./... && echo BUILD_OK
echo "== suite with change"; go test -vet=off -count=1 -timeout 25m ./... 2>&1 | grep -v "no test files" | grep -v "^ok" ; echo "SUITE_EXIT=${PIPESTATUS[0]}"
mkdir -p "$(dirname $DEMO)"; cp "$OUT/$(basename $DEMO)" "$DEMO"
echo "== demo with change (expect FAIL)"; go test -vet=off -count=1 -run "$PAT" ./$(dirname $DEMO)/ $EXTRA 2>&1 | tail -15; echo "DEMO_WITH_EXIT=${PIPESTATUS[0]}"
git apply -R "$OUT/patch.diff"
echo "== demo without change (expect PASS)"; go test -vet=off -count=1 -run "$PAT" ./$(dirname $DEMO)/ $EXTRA 2>&1 | tail -5; echo "DEMO_WITHOUT_EXIT=${PIPESTATUS[0]}"
} > "$OUT/confirm.log" 2>&1
cd /; git -C /repo worktree remove --force "$WT"
grep -E "BUILD_OK|SUITE_EXIT|DEMO_WITH_EXIT|DEMO_WITHOUT_EXIT" "$OUT/confirm.log"
