#!/usr/bin/env python3
"""Generates /verif/MANIFEST.json from tools/checks.json (one record per claimed property)."""
import json, os, sys
R = os.path.dirname(os.path.dirname(os.path.abspath(__file__)))
checks = json.load(open(os.path.join(R, "tools", "checks.json")))
props = [json.loads(l) for l in open(os.path.join(R, "properties.jsonl"))]
ids = [p["id"] for p in props]
claimed = {c["id"] for c in checks["checks"]}
na = {n["property_id"]: n["reason"] for n in checks.get("not_applicable", [])}
m = {
  "version": 1,
  "setup_cmd": "cd /verif && ./run build",
  "hooks": {
    "guard": "verif",
    "enable": "no source hooks in /repo: instrumentation is spliced in at build time with `go build -overlay` (generated under /verif/.cache from /repo's working tree by /verif/run); accessor files carry //go:build verif",
    "baseline_off_cmd": "cd /repo && GOFLAGS=-mod=mod go test -vet=off -count=1 -timeout 25m ./...",
    "source_commits": [],
    "add_only": True,
  },
  "engines": checks["engines"],
  "checks": [],
  "notes": checks.get("notes", ""),
  "not_applicable": [],
}
for c in checks["checks"]:
    e = {
      "property_id": c["id"],
      "quick_cmd": f"cd /verif && ./run {c['id']} quick",
      "thorough_cmd": f"cd /verif && ./run {c['id']} thorough",
      "evidence_file": f"/verif/evidence/{c['id']}.json",
      "replay_cmd_template": "cat {path}",
      "engine": c["engine"],
      "level_claimed": {"category": c["level"], "text": c["text"], "design_ref": f"DESIGN.md section 4, {c['id']}"},
      "level_note": c["note"],
      "technique": c["technique"],
    }
    m["checks"].append(e)
for i in ids:
    if i not in claimed:
        m["not_applicable"].append({"property_id": i, "reason": na.get(i, "check not built yet in this session (planned in DESIGN.md section 4); not claimed")})
json.dump(m, open(os.path.join(R, "MANIFEST.json"), "w"), indent=1)
print("claimed", len(claimed), "not_applicable", len(m["not_applicable"]))
