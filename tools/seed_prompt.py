#!/usr/bin/env python3
"""Prints the sub-agent prompt for one property (property text only; nothing from /verif's machinery)."""
import json, sys
pid, wt = sys.argv[1], sys.argv[2]
extra = sys.argv[3] if len(sys.argv) > 3 else ""
for l in open('/verif/properties.jsonl'):
    p = json.loads(l)
    if p['id'] == pid:
        t = open('/verif/tools/seed_prompt.tmpl').read()
        t = t.replace('__WT__', wt).replace('__ID__', pid).replace('__TITLE__', p['title']).replace('__STATEMENT__', p['statement']).replace('__QUANT__', p['quantifier']['text']).replace('__FILES__', ', '.join(p['anchors']['files']))
        if extra:
            t += "\nAdditional guidance: " + extra + "\n"
        print(t)
