#!/bin/bash
# usage: suite_at.sh <commit> <logfile>  — run the repository's own test suite on a scratch worktree of <commit>
export GOFLAGS=-mod=mod GOPROXY=off GOSUMDB=off GOTOOLCHAIN=local GOCACHE=/verif/.cache/gocache
C=$1; LOG=$2; D=/tmp/suite/$C
rm -rf $D; git -C /repo worktree prune; git -C /repo worktree add --detach $D $C >/dev/null 2>&1 || exit 2
cd $D && go test -vet=off -count=1 -timeout 25m ./... 2>&1 | grep -v "no test files" | grep -v "^ok" > $LOG; echo "SUITE_EXIT=${PIPESTATUS[0]}" >> $LOG
git -C /repo worktree remove --force $D
