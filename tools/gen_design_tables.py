#!/usr/bin/env python3
"""Regenerates the machine-derived tables of DESIGN.md (between the BEGIN/END GENERATED markers)
from tools/checks.json, known_findings.json, seeded/*/meta.json and evidence/*.json."""
import json, os, glob, re
V='/verif'
checks=json.load(open(f'{V}/tools/checks.json'))['checks']
kf=json.load(open(f'{V}/known_findings.json'))
kf=kf if isinstance(kf,list) else kf['findings']
props={json.loads(l)['id']:json.loads(l) for l in open(f'{V}/properties.jsonl')}
out=[]
out.append('### 0.3 Checks as built (generated from tools/checks.json and the last evidence files)\n')
out.append('| id | engine | what is enumerated (bound) | last quick run: evaluations / wall |')
out.append('|---|---|---|---|')
for c in sorted(checks,key=lambda c:c['id']):
    ev={}
    p=f"{V}/evidence/{c['id']}.json"
    if os.path.exists(p):
        try: ev=json.load(open(p))
        except Exception: ev={}
    cov=ev.get('coverage',{})
    stat=f"{cov.get('evaluations','?')} / {ev.get('wall_s','?')} s ({ev.get('tier','?')})"
    text=c['text'].replace('|','/').replace('\n',' ')
    out.append(f"| {c['id']} | {c['engine']} | {text} | {stat} |")
out.append('')
out.append('### 0.4 Findings (generated from known_findings.json)\n')
out.append('| id | property | status | commit | what fails |')
out.append('|---|---|---|---|---|')
for f in kf:
    what=(f.get('line') or f.get('description') or '').replace('|','/')
    what=re.sub(r'^fixed: property=\S+ \S+ ','',what)
    out.append(f"| {f['id']} | {f['property']} | {f['status']} | {f.get('commit','-')} | {what} |")
out.append('')
out.append('### 0.5 Seeded changes and the checks that catch them (generated from seeded/*/meta.json)\n')
out.append('| seeded change | property | needs to manifest | suite passes with it | caught by | missed by |')
out.append('|---|---|---|---|---|---|')
for d in sorted(glob.glob(f'{V}/seeded/*')):
    m=os.path.join(d,'meta.json')
    if not os.path.exists(m): continue
    j=json.load(open(m))
    cf=j.get('confirmed',{})
    ok='yes' if str(cf.get('existing_suite_exit_with_change'))=='0' and str(cf.get('demo_exit_with_change'))!='0' and str(cf.get('demo_exit_without_change'))=='0' else 'see confirm.log'
    out.append(f"| {os.path.basename(d)} | {j['property']} | {j['needs_to_manifest'].replace('|','/')} | {ok} | {', '.join(j['caught_by'])} | {', '.join(j.get('missed_by',[])) or '-'} |")
frag='\n'.join(out)+'\n'
p=f'{V}/DESIGN.md'
s=open(p).read()
b,e='<!-- BEGIN GENERATED -->','<!-- END GENERATED -->'
if b in s:
    s=s[:s.index(b)+len(b)]+'\n'+frag+s[s.index(e):]
    open(p,'w').write(s)
    print('tables regenerated')
else:
    print(frag)
