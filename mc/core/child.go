package core

import (
	"encoding/json"
	"fmt"
	"os"
	"os/exec"
	"path/filepath"
	"strings"
)

// Child is a check run in another build configuration of the harness (a
// second binary from VERIF_BIN) whose violations are folded into this check.
type Child struct {
	done chan struct{}
	out  []byte
	err  error
	root string
	id   string
	cfg  string
	// Supplementary children (e.g. a sampling race-detector pass) do not
	// affect the parent's exhaustive flag.
	Supplementary bool
}

// StartChild starts `verifmc-<cfg> -check <id>` in the background with its
// own evidence root under .cache/<id>-<cfg>.
func (c *Ctx) StartChild(cfg, id string, env ...string) *Child {
	return c.StartChildBin(filepath.Join(os.Getenv("VERIF_BIN"), "verifmc-"+cfg), cfg, id, env...)
}

// StartChildBin is StartChild for an explicitly given binary.
func (c *Ctx) StartChildBin(bin, cfg, id string, env ...string) *Child {
	if _, err := os.Stat(bin); err != nil {
		fmt.Fprintf(os.Stderr, "%s: harness binary for configuration %s missing: %s\n", c.ID, cfg, bin)
		os.Exit(2)
	}
	ch := &Child{done: make(chan struct{}), id: id, cfg: cfg, root: filepath.Join(Root, ".cache", "child-"+id+"-"+cfg)}
	os.MkdirAll(filepath.Join(ch.root, "evidence"), 0o755)
	os.MkdirAll(filepath.Join(ch.root, "replay"), 0o755)
	os.Remove(filepath.Join(ch.root, "evidence", id+".json"))
	go func() {
		defer close(ch.done)
		cmd := exec.Command(bin, "-check", id, "-tier", c.Tier)
		cmd.Env = append(append(os.Environ(), "VERIF_CHILD=1", "VERIF_ROOT="+ch.root, "VERIF_SHOW=50"), env...)
		ch.out, ch.err = cmd.CombinedOutput()
	}()
	return ch
}

// IsChild reports whether this process is such a child.
func IsChild() bool { return os.Getenv("VERIF_CHILD") != "" }

// Crashed waits for the child and reports whether it died without writing
// evidence (e.g. a panic in code under test that is linked into the child),
// together with its output. A check for which that is a verdict, not a harness
// failure, calls it before Join.
func (ch *Child) Crashed() (bool, string) {
	<-ch.done
	if _, err := os.Stat(filepath.Join(ch.root, "evidence", ch.id+".json")); err == nil {
		return false, ""
	}
	return true, string(ch.out)
}

// Join waits for the child and folds its evaluations and violations in.
func (c *Ctx) Join(ch *Child) {
	<-ch.done
	var ev struct {
		Coverage struct {
			Evaluations int64 `json:"evaluations"`
			Distinct    int64 `json:"distinct_nontrivial"`
			Exhaustive  bool  `json:"exhaustive"`
		} `json:"coverage"`
		Violations int `json:"violations"`
	}
	b, err := os.ReadFile(filepath.Join(ch.root, "evidence", ch.id+".json"))
	if err == nil {
		err = json.Unmarshal(b, &ev)
	}
	if err != nil {
		fmt.Fprintf(os.Stderr, "%s: child %s (%s build) produced no evidence: %v %v\n%s\n", c.ID, ch.id, ch.cfg, err, ch.err, ch.out)
		os.Exit(2)
	}
	nsig := 0
	if i := strings.Index(string(ch.out), "WARNING: DATA RACE"); i >= 0 {
		nsig++
		excerpt := string(ch.out)[i:]
		if len(excerpt) > 3000 {
			excerpt = excerpt[:3000]
		}
		c.Violation("["+ch.cfg+" build] the Go race detector reports a data race in the free-running pass of "+ch.id, excerpt)
	}
	for _, l := range strings.Split(string(ch.out), "\n") {
		if strings.HasPrefix(l, "  signature: ") {
			nsig++
			c.Violation("["+ch.cfg+" build] "+strings.TrimPrefix(l, "  signature: "), nil)
		}
	}
	if (ev.Violations > 0 || ch.err != nil) && nsig == 0 {
		fmt.Fprintf(os.Stderr, "%s: child %s (%s build) failed: %v\n%s\n", c.ID, ch.id, ch.cfg, ch.err, ch.out)
		os.Exit(2)
	}
	if !ev.Coverage.Exhaustive && !ch.Supplementary {
		c.Exhaustive = false
	}
	c.Eval(ev.Coverage.Evaluations)
	c.DistinctN(ev.Coverage.Distinct)
	c.Extra("child_"+ch.id+"_"+ch.cfg+"_evaluations", ev.Coverage.Evaluations)
}
