// Package core is the shared run-time of every check: tier/seed handling,
// parallel exhaustive enumeration, coverage accounting, violation reporting
// with known-findings matching, and evidence output.
package core

import (
	"crypto/sha256"
	"encoding/hex"
	"encoding/json"
	"fmt"
	"hash/fnv"
	"os"
	"path/filepath"
	"regexp"
	"runtime"
	"runtime/debug"
	"sort"
	"strconv"
	"strings"
	"sync"
	"sync/atomic"
	"time"
)

// Root is the /verif directory (overridable for tests of the framework).
var Root = func() string {
	if r := os.Getenv("VERIF_ROOT"); r != "" {
		return r
	}
	return "/verif"
}()

// maxViol stops enumeration early once this many distinct violations were
// seen (VERIF_MAXVIOL raises it when classifying findings).
var maxViol = func() int {
	if n, err := strconv.Atoi(os.Getenv("VERIF_MAXVIOL")); err == nil && n > 0 {
		return n
	}
	return 100
}()

type Finding struct {
	Property    string `json:"property"`
	Status      string `json:"status"` // "known" | "fixed"
	ID          string `json:"id"`
	Match       string `json:"match"` // regexp over the violation signature
	Description string `json:"description"`
	Commit      string `json:"commit,omitempty"`
	re          *regexp.Regexp
}

type Violation struct {
	Sig    string `json:"signature"`
	Detail any    `json:"detail,omitempty"`
}

// Ctx is the per-run context of one check.
type Ctx struct {
	ID    string
	Tier  string // "quick" | "thorough"
	Seed  int64
	Level string
	Start time.Time

	Rule        string
	Assumptions []string
	Bounds      map[string]any
	Exhaustive  bool
	// Deadline is an internal budget; hitting it ends enumeration early with
	// Exhaustive=false (never a violation).
	Deadline time.Time

	evals     atomic.Int64
	distinctN atomic.Int64 // distinct-by-construction non-trivial cases
	states    atomic.Int64
	trans     atomic.Int64
	traces    atomic.Int64

	mu       sync.Mutex
	distinct [64]map[uint64]struct{}
	dmu      [64]sync.Mutex
	samples  []any
	outcomes map[string]int64
	extra    map[string]any
	viol     []Violation
	violSeen map[string]bool
	known    map[string]int64 // finding id -> count
	findings []*Finding
	capped   atomic.Bool
}

func NewCtx(id, tier, level string) *Ctx {
	c := &Ctx{ID: id, Tier: tier, Level: level, Start: time.Now(),
		Bounds: map[string]any{}, outcomes: map[string]int64{}, extra: map[string]any{},
		violSeen: map[string]bool{}, known: map[string]int64{}}
	if s := os.Getenv("VERIF_SEED"); s != "" {
		c.Seed, _ = strconv.ParseInt(s, 10, 64)
	}
	for i := range c.distinct {
		c.distinct[i] = map[uint64]struct{}{}
	}
	c.loadFindings()
	return c
}

func (c *Ctx) Quick() bool    { return c.Tier != "thorough" }
func (c *Ctx) Thorough() bool { return c.Tier == "thorough" }

// Pick returns q in the quick tier and t in the thorough tier.
func Pick[T any](c *Ctx, q, t T) T {
	if c.Thorough() {
		return t
	}
	return q
}

func (c *Ctx) loadFindings() {
	b, err := os.ReadFile(filepath.Join(Root, "known_findings.json"))
	if err != nil {
		return
	}
	var all struct {
		Findings []*Finding `json:"findings"`
	}
	if err := json.Unmarshal(b, &all); err != nil {
		fmt.Fprintf(os.Stderr, "known_findings.json: %v\n", err)
		os.Exit(2)
	}
	for _, f := range all.Findings {
		if f.Property != c.ID || f.Status != "known" {
			continue
		}
		f.re = regexp.MustCompile(f.Match)
		c.findings = append(c.findings, f)
	}
}

// Eval counts n evaluated cases.
func (c *Ctx) Eval(n int64) { c.evals.Add(n) }

// DistinctN counts n cases that are distinct by construction and non-trivial.
func (c *Ctx) DistinctN(n int64) { c.distinctN.Add(n) }

// Distinct records a non-trivial case by its canonical key; duplicates are
// counted once.
func (c *Ctx) Distinct(key string) {
	h := fnv.New64a()
	h.Write([]byte(key))
	c.DistinctHash(h.Sum64())
}

func (c *Ctx) DistinctHash(v uint64) {
	i := v & 63
	c.dmu[i].Lock()
	c.distinct[i][v] = struct{}{}
	c.dmu[i].Unlock()
}

func (c *Ctx) States(n int64)      { c.states.Add(n) }
func (c *Ctx) Transitions(n int64) { c.trans.Add(n) }
func (c *Ctx) Traces(n int64)      { c.traces.Add(n) }

// Sample keeps up to 12 written-out cases (the first few in enumeration order
// plus seed-rotated later ones).
func (c *Ctx) Sample(v any) {
	c.mu.Lock()
	if len(c.samples) < 12 {
		c.samples = append(c.samples, v)
	}
	c.mu.Unlock()
}

func (c *Ctx) NumSamples() int {
	c.mu.Lock()
	defer c.mu.Unlock()
	return len(c.samples)
}

// Outcome counts an observed outcome class (used to show non-vacuity).
func (c *Ctx) Outcome(class string) {
	c.mu.Lock()
	c.outcomes[class]++
	c.mu.Unlock()
}

func (c *Ctx) OutcomeN(class string, n int64) {
	c.mu.Lock()
	c.outcomes[class] += n
	c.mu.Unlock()
}

func (c *Ctx) Extra(k string, v any) {
	c.mu.Lock()
	c.extra[k] = v
	c.mu.Unlock()
}

func (c *Ctx) Assume(s string) {
	c.mu.Lock()
	for _, a := range c.Assumptions {
		if a == s {
			c.mu.Unlock()
			return
		}
	}
	c.Assumptions = append(c.Assumptions, s)
	c.mu.Unlock()
}

// Expired reports whether the internal budget has been used up; callers stop
// enumerating and the run is reported as non-exhaustive.
func (c *Ctx) Expired() bool {
	if c.Deadline.IsZero() {
		return false
	}
	if time.Now().After(c.Deadline) {
		c.capped.Store(true)
		return true
	}
	return false
}

// Violation reports a property violation with a canonical signature. It is
// matched against the known-findings file; unlisted signatures make the run
// fail.
var showKnown = os.Getenv("VERIF_SHOWKNOWN") != ""

func (c *Ctx) Violation(sig string, detail any) {
	c.mu.Lock()
	defer c.mu.Unlock()
	for _, f := range c.findings {
		if f.re.MatchString(sig) {
			c.known[f.ID]++
			if showKnown {
				fmt.Fprintf(os.Stderr, "known[%s] %s\n", f.ID, sig)
			}
			return
		}
	}
	if c.violSeen[sig] {
		return
	}
	c.violSeen[sig] = true
	if len(c.viol) < 2*maxViol {
		c.viol = append(c.viol, Violation{sig, detail})
	}
}

func (c *Ctx) Violations() int {
	c.mu.Lock()
	defer c.mu.Unlock()
	return len(c.violSeen)
}

// Guard runs f and converts a panic into a violation with the given signature
// prefix; it returns true if f panicked.
func (c *Ctx) Guard(sig func() string, f func()) (panicked bool) {
	defer func() {
		if r := recover(); r != nil {
			panicked = true
			c.Violation("panic "+sig(), map[string]any{"panic": fmt.Sprint(r), "stack": string(debug.Stack())})
		}
	}()
	f()
	return false
}

// Par runs f(i) for i in [0,n) on all cores, in ascending chunks, stopping
// early when the budget expires or too many violations accumulated.
func (c *Ctx) Par(n int, f func(i int)) {
	workers := runtime.GOMAXPROCS(0)
	if workers > n {
		workers = n
	}
	if workers < 1 {
		return
	}
	var next atomic.Int64
	var wg sync.WaitGroup
	for w := 0; w < workers; w++ {
		wg.Add(1)
		go func() {
			defer wg.Done()
			for {
				i := int(next.Add(1) - 1)
				if i >= n {
					return
				}
				if c.Expired() || c.Violations() > maxViol {
					return
				}
				c.safely(func() { f(i) })
			}
		}()
	}
	wg.Wait()
}

// safely is the last line of defence for check bodies that do not wrap a call
// into the library with Guard: a panic is a verdict about the code under test,
// never a crash of the checker. The signature names the panic value and the
// innermost frame inside /repo so that it is stable across runs.
// Safely is safely for callers outside the package.
func (c *Ctx) Safely(f func()) { c.safely(f) }

func (c *Ctx) safely(f func()) {
	defer func() {
		if r := recover(); r != nil {
			st := string(debug.Stack())
			frame := ""
			lines := strings.Split(st, "\n")
			for i, l := range lines {
				if strings.HasPrefix(l, "google.golang.org/protobuf/") && !strings.HasPrefix(l, "google.golang.org/protobuf/verifmc/") && i+1 < len(lines) {
					frame = strings.TrimSpace(l)
					if k := strings.LastIndex(frame, "("); k > 0 {
						frame = frame[:k]
					}
					break
				}
			}
			c.Violation(fmt.Sprintf("panic in the library: %v in %s", r, frame), map[string]any{"panic": fmt.Sprint(r), "stack": st})
		}
	}()
	f()
}

// ParRange splits [lo,hi) into chunks and runs f(lo,hi) on all cores.
func (c *Ctx) ParRange(lo, hi, chunk uint64, f func(lo, hi uint64)) {
	n := int((hi - lo + chunk - 1) / chunk)
	c.Par(n, func(i int) {
		a := lo + uint64(i)*chunk
		b := a + chunk
		if b > hi || b < a {
			b = hi
		}
		f(a, b)
	})
}

type evidence struct {
	PropertyID  string         `json:"property_id"`
	Tier        string         `json:"tier"`
	Seed        int64          `json:"seed"`
	Level       string         `json:"level"`
	Coverage    map[string]any `json:"coverage"`
	Assumptions []string       `json:"assumptions"`
	WallS       float64        `json:"wall_s"`
	Violations  int            `json:"violations"`
}

// Finish writes the evidence file, prints KNOWN-FINDING / VIOLATION lines and
// returns the process exit code.
func (c *Ctx) Finish() int {
	c.mu.Lock()
	defer c.mu.Unlock()
	var distinct int64 = c.distinctN.Load()
	for i := range c.distinct {
		distinct += int64(len(c.distinct[i]))
	}
	cov := map[string]any{
		"evaluations":         c.evals.Load(),
		"distinct_nontrivial": distinct,
		"rule":                c.Rule,
		"samples":             c.samples,
		"exhaustive":          c.Exhaustive && !c.capped.Load(),
		"bounds":              c.Bounds,
		"outcomes":            c.outcomes,
	}
	if c.capped.Load() {
		cov["budget_cap_hit"] = true
	}
	if c.Level == "model_checking" {
		cov["states"] = c.states.Load()
		cov["transitions"] = c.trans.Load()
		cov["traces_validated_against_impl"] = c.traces.Load()
	}
	for k, v := range c.extra {
		cov[k] = v
	}
	kn := map[string]int64{}
	for k, v := range c.known {
		kn[k] = v
	}
	cov["known_findings_hit"] = kn
	if len(c.samples) == 0 {
		cov["samples"] = []any{"(none recorded)"}
	}
	ass := c.Assumptions
	if ass == nil {
		ass = []string{}
	}
	ev := evidence{c.ID, c.Tier, c.Seed, c.Level, cov, ass,
		time.Since(c.Start).Seconds(), len(c.violSeen)}
	if ev.Tier != "thorough" {
		ev.Tier = "quick"
	}
	b, err := json.MarshalIndent(ev, "", " ")
	if err != nil {
		fmt.Fprintf(os.Stderr, "evidence: %v\n", err)
		return 2
	}
	os.MkdirAll(filepath.Join(Root, "evidence"), 0o755)
	if err := os.WriteFile(filepath.Join(Root, "evidence", c.ID+".json"), b, 0o644); err != nil {
		fmt.Fprintf(os.Stderr, "evidence: %v\n", err)
		return 2
	}
	ids := make([]string, 0, len(c.known))
	for id := range c.known {
		ids = append(ids, id)
	}
	sort.Strings(ids)
	for _, id := range ids {
		for _, f := range c.findings {
			if f.ID == id {
				fmt.Printf("KNOWN-FINDING: property=%s %s: %s (%d cases)\n", c.ID, f.ID, f.Description, c.known[id])
			}
		}
	}
	fmt.Printf("%s %s: evaluations=%d distinct=%d states=%d transitions=%d exhaustive=%v violations=%d wall=%.1fs\n",
		c.ID, c.Tier, c.evals.Load(), distinct, c.states.Load(), c.trans.Load(), cov["exhaustive"], len(c.violSeen), ev.WallS)
	if len(c.viol) == 0 {
		return 0
	}
	os.MkdirAll(filepath.Join(Root, "replay"), 0o755)
	sort.SliceStable(c.viol, func(i, j int) bool { return len(c.viol[i].Sig) < len(c.viol[j].Sig) })
	show := 10
	if s := os.Getenv("VERIF_SHOW"); s != "" {
		show, _ = strconv.Atoi(s)
	}
	for i, v := range c.viol {
		if i >= show {
			break
		}
		h := sha256.Sum256([]byte(v.Sig))
		p := filepath.Join(Root, "replay", c.ID+"-"+hex.EncodeToString(h[:6])+".json")
		rb, _ := json.MarshalIndent(map[string]any{"property": c.ID, "signature": v.Sig, "detail": v.Detail}, "", " ")
		os.WriteFile(p, rb, 0o644)
		fmt.Printf("VIOLATION property=%s replay=%s\n", c.ID, p)
		fmt.Printf("  signature: %s\n", v.Sig)
	}
	return 1
}

// Registry of checks.
type Check struct {
	ID    string
	Level string
	Run   func(c *Ctx)
}

var Checks = map[string]*Check{}

func Register(id, level string, run func(c *Ctx)) {
	Checks[id] = &Check{id, level, run}
}
