package univ

import (
	"fmt"

	"google.golang.org/protobuf/encoding/protowire"
	"google.golang.org/protobuf/reflect/protoreflect"
	"google.golang.org/protobuf/types/descriptorpb"
)

// Rec is one symbol of a wire-record alphabet: a (possibly malformed) chunk
// of wire bytes with a symbolic name.
type Rec struct {
	Name string
	B    []byte
}

type WireOpt struct {
	AllFields bool // every field, not one representative per field class
	Small     bool // reduced per-field record set (valid / invalid / wrong type)
	Depth     int  // nesting depth for message payloads (default 1)
	NoGeneric bool
	// NonMinUnknownTag adds an unknown record whose tag is a non-minimal
	// varint. Only for checks that compare unknown fields up to the encoding of
	// their tags: the fast path re-encodes the tag, the reflection path keeps
	// the bytes, and no property constrains that choice.
	NonMinUnknownTag bool
}

// EnforceUTF8 is the reference answer to "must this string field be valid
// UTF-8": proto3 yes, proto2 no, editions the utf8_validation feature resolved
// here, independently of the implementation, as the edition default (VERIFY for
// every edition >= 2023) overridden by the nearest explicit setting along the
// file / enclosing-scope / field options chain.
func EnforceUTF8(fd protoreflect.FieldDescriptor) bool {
	if xtd, ok := fd.(protoreflect.ExtensionTypeDescriptor); ok {
		fd = xtd.Descriptor()
	}
	switch fd.Syntax() {
	case protoreflect.Proto3:
		return true
	case protoreflect.Proto2:
		return false
	}
	val := descriptorpb.FeatureSet_VERIFY
	apply := func(fs *descriptorpb.FeatureSet) {
		if fs != nil && fs.Utf8Validation != nil {
			val = fs.GetUtf8Validation()
		}
	}
	var chain []protoreflect.Descriptor
	for d := protoreflect.Descriptor(fd); d != nil; d = d.Parent() {
		chain = append(chain, d)
	}
	for i := len(chain) - 1; i >= 0; i-- {
		switch o := chain[i].Options().(type) {
		case *descriptorpb.FileOptions:
			apply(o.GetFeatures())
		case *descriptorpb.MessageOptions:
			apply(o.GetFeatures())
		case *descriptorpb.FieldOptions:
			apply(o.GetFeatures())
		}
	}
	return val == descriptorpb.FeatureSet_VERIFY
}

// WantPresence is the reference answer to "does this field track presence",
// derived from the schema alone (syntax, label, oneof membership, kind and, for
// editions, the field_presence feature resolved here along the options chain),
// independently of the implementation's HasPresence.
func WantPresence(fd protoreflect.FieldDescriptor) bool {
	if xtd, ok := fd.(protoreflect.ExtensionTypeDescriptor); ok {
		fd = xtd.Descriptor()
	}
	switch {
	case fd.Cardinality() == protoreflect.Repeated:
		return false
	case fd.IsExtension(), fd.ContainingOneof() != nil, fd.Kind() == protoreflect.MessageKind, fd.Kind() == protoreflect.GroupKind:
		return true
	}
	switch fd.Syntax() {
	case protoreflect.Proto2:
		return true
	case protoreflect.Proto3:
		return false
	}
	val := descriptorpb.FeatureSet_EXPLICIT
	var chain []protoreflect.Descriptor
	for d := protoreflect.Descriptor(fd); d != nil; d = d.Parent() {
		chain = append(chain, d)
	}
	for i := len(chain) - 1; i >= 0; i-- {
		var fs *descriptorpb.FeatureSet
		switch o := chain[i].Options().(type) {
		case *descriptorpb.FileOptions:
			fs = o.GetFeatures()
		case *descriptorpb.MessageOptions:
			fs = o.GetFeatures()
		case *descriptorpb.FieldOptions:
			fs = o.GetFeatures()
		}
		if fs != nil && fs.FieldPresence != nil {
			val = fs.GetFieldPresence()
		}
	}
	return val != descriptorpb.FeatureSet_IMPLICIT
}

// ImplEnforceUTF8 reads the implementation's own pseudo-internal accessor (for
// accessor dumps that compare two constructions of the same descriptor).
func ImplEnforceUTF8(fd protoreflect.FieldDescriptor) bool {
	if xtd, ok := fd.(protoreflect.ExtensionTypeDescriptor); ok {
		fd = xtd.Descriptor()
	}
	if x, ok := fd.(interface{ EnforceUTF8() bool }); ok {
		return x.EnforceUTF8()
	}
	return fd.Syntax() == protoreflect.Proto3
}

func IsLazy(fd protoreflect.FieldDescriptor) bool {
	if x, ok := fd.(interface{ IsLazy() bool }); ok {
		return x.IsLazy()
	}
	return false
}

// FieldClass is the shape key under which fields are considered equivalent for
// the table-driven codecs.
func FieldClass(fd protoreflect.FieldDescriptor) string {
	s := fmt.Sprintf("%v/%v/packed=%v/pres=%v/oneof=%v/lazy=%v/ext=%v/utf8=%v", fd.Kind(), fd.Cardinality(), fd.IsPacked(), fd.HasPresence(), fd.ContainingOneof() != nil && !fd.ContainingOneof().IsSynthetic(), IsLazy(fd), fd.IsExtension(), EnforceUTF8(fd))
	if fd.IsMap() {
		s += fmt.Sprintf("/map<%v,%v>", fd.MapKey().Kind(), fd.MapValue().Kind())
		if fd.MapValue().Message() != nil {
			s += string(fd.MapValue().Message().FullName())
		}
		if fd.MapValue().Enum() != nil {
			s += fmt.Sprintf("closed=%v", fd.MapValue().Enum().IsClosed())
		}
	} else if fd.Message() != nil {
		s += "/" + string(fd.Message().FullName())
	}
	if fd.Enum() != nil {
		s += fmt.Sprintf("/closed=%v", fd.Enum().IsClosed())
	}
	return s
}

// ClassFields returns one representative field per field class (the first in
// number order), or all fields.
func ClassFields(md protoreflect.MessageDescriptor, all bool, withExt bool) []protoreflect.FieldDescriptor {
	var fds []protoreflect.FieldDescriptor
	fds = append(fds, SortedFields(md)...)
	if withExt {
		for _, xt := range Extensions(md) {
			fds = append(fds, xt.TypeDescriptor())
		}
	}
	if all {
		return fds
	}
	seen := map[string]bool{}
	var out []protoreflect.FieldDescriptor
	for _, fd := range fds {
		k := FieldClass(fd)
		if !seen[k] {
			seen[k] = true
			out = append(out, fd)
		}
	}
	return out
}

func wireTypeOf(k protoreflect.Kind) protowire.Type {
	switch k {
	case protoreflect.Fixed32Kind, protoreflect.Sfixed32Kind, protoreflect.FloatKind:
		return protowire.Fixed32Type
	case protoreflect.Fixed64Kind, protoreflect.Sfixed64Kind, protoreflect.DoubleKind:
		return protowire.Fixed64Type
	case protoreflect.StringKind, protoreflect.BytesKind, protoreflect.MessageKind:
		return protowire.BytesType
	case protoreflect.GroupKind:
		return protowire.StartGroupType
	}
	return protowire.VarintType
}

func tag(n protoreflect.FieldNumber, t protowire.Type) []byte {
	return protowire.AppendTag(nil, n, t)
}

func cat(bs ...[]byte) []byte {
	var out []byte
	for _, b := range bs {
		out = append(out, b...)
	}
	return out
}

func lenPrefixed(b []byte) []byte { return protowire.AppendBytes(nil, b) }

// scalarPayloads returns named value encodings (without tag) for a scalar of
// kind k in its natural wire type.
func scalarPayloads(fd protoreflect.FieldDescriptor, small bool) []Rec {
	var out []Rec
	add := func(n string, b []byte) { out = append(out, Rec{n, b}) }
	switch wireTypeOf(fd.Kind()) {
	case protowire.VarintType:
		add("1", []byte{1})
		if fd.Kind() == protoreflect.EnumKind {
			add("undeclared", protowire.AppendVarint(nil, 12345))
		}
		if !small {
			add("0", []byte{0})
			add("max10", []byte{0xff, 0xff, 0xff, 0xff, 0xff, 0xff, 0xff, 0xff, 0xff, 0x01})
			add("nonmin1", []byte{0x81, 0x80, 0x00})
			add("overflow10", overflow10)
			add("2^32", protowire.AppendVarint(nil, 1<<32))
		}
	case protowire.Fixed32Type:
		add("f32", []byte{1, 0, 0, 0x40})
		if !small {
			add("f32zero", []byte{0, 0, 0, 0})
		}
	case protowire.Fixed64Type:
		add("f64", []byte{1, 0, 0, 0, 0, 0, 0, 0x40})
		if !small {
			add("f64zero", []byte{0, 0, 0, 0, 0, 0, 0, 0})
		}
	case protowire.BytesType:
		add("'a'", lenPrefixed([]byte("a")))
		add("badutf8", lenPrefixed([]byte{0xff}))
		if !small {
			add("empty", lenPrefixed(nil))
			add("nonminlen", []byte{0x81, 0x00, 'b'})
		}
	}
	return out
}

// msgPayloads returns named payload bodies (without length/tag) for a message
// of descriptor md.
func msgPayloads(md protoreflect.MessageDescriptor, depth int, small bool) []Rec {
	out := []Rec{{"empty", nil}}
	if depth <= 0 {
		return out
	}
	// one valid inner record per the first few field classes, one malformed, one unknown
	inner := WireAlphabet(md, WireOpt{Small: true, Depth: depth - 1, NoGeneric: true})
	limit := 6
	if small {
		limit = 2
	}
	cnt := 0
	for _, r := range inner {
		if cnt >= limit {
			break
		}
		out = append(out, Rec{"<" + r.Name + ">", r.B})
		cnt++
	}
	// required-bearing or interesting: also two inner records of the same field
	out = append(out, Rec{"<trunc>", []byte{0x08}})
	if un := UnusedNumbers(md); len(un) > 0 {
		out = append(out, Rec{"<unk>", cat(tag(un[0], protowire.VarintType), []byte{5})})
	}
	return out
}

func fieldRecs(fd protoreflect.FieldDescriptor, o WireOpt) []Rec {
	var out []Rec
	n := fd.Number()
	pfx := fmt.Sprintf("%d", n)
	add := func(name string, b []byte) { out = append(out, Rec{pfx + ":" + name, b}) }
	depth := o.Depth
	switch {
	case fd.IsMap():
		kd, vd := fd.MapKey(), fd.MapValue()
		kp := scalarPayloads(kd, true)[0]
		key := cat(tag(1, wireTypeOf(kd.Kind())), kp.B)
		var vals []Rec
		if vd.Message() != nil {
			for _, p := range msgPayloads(vd.Message(), depth, true) {
				vals = append(vals, Rec{p.Name, cat(tag(2, protowire.BytesType), lenPrefixed(p.B))})
			}
		} else {
			for _, p := range scalarPayloads(vd, true) {
				vals = append(vals, Rec{p.Name, cat(tag(2, wireTypeOf(vd.Kind())), p.B)})
			}
		}
		add("entry{}", cat(tag(n, protowire.BytesType), lenPrefixed(nil)))
		add("entry{k}", cat(tag(n, protowire.BytesType), lenPrefixed(key)))
		if len(vals) >= 2 {
			// the value field twice inside one entry: message values merge, scalar values: last wins
			a, b := vals[0], vals[len(vals)-1]
			add("entry{k,v="+a.Name+",v="+b.Name+"}", cat(tag(n, protowire.BytesType), lenPrefixed(cat(key, a.B, b.B))))
			add("entry{k,v="+b.Name+",v="+a.Name+"}", cat(tag(n, protowire.BytesType), lenPrefixed(cat(key, b.B, a.B))))
		}
		for i, v := range vals {
			add("entry{k,v="+v.Name+"}", cat(tag(n, protowire.BytesType), lenPrefixed(cat(key, v.B))))
			if i == 0 {
				add("entry{v}", cat(tag(n, protowire.BytesType), lenPrefixed(v.B)))
				if !o.Small {
					add("entry{v,k}", cat(tag(n, protowire.BytesType), lenPrefixed(cat(v.B, key))))
					add("entry{k,v,unk}", cat(tag(n, protowire.BytesType), lenPrefixed(cat(key, v.B, tag(3, protowire.VarintType), []byte{1}))))
					add("entry{k,k,v}", cat(tag(n, protowire.BytesType), lenPrefixed(cat(key, key, v.B))))
					add("entry{k:wrongtype}", cat(tag(n, protowire.BytesType), lenPrefixed(cat(tag(1, protowire.Fixed64Type), []byte{1, 2, 3, 4, 5, 6, 7, 8}, v.B))))
					add("entry{trunc}", cat(tag(n, protowire.BytesType), lenPrefixed(cat(key, []byte{0x10}))))
				}
			}
		}
	case fd.Kind() == protoreflect.GroupKind:
		for _, p := range msgPayloads(fd.Message(), depth, o.Small) {
			add("group{"+p.Name+"}", cat(tag(n, protowire.StartGroupType), p.B, tag(n, protowire.EndGroupType)))
		}
		add("group-unterminated", tag(n, protowire.StartGroupType))
		add("group-wrongend", cat(tag(n, protowire.StartGroupType), tag(n+1, protowire.EndGroupType)))
		if !o.Small {
			add("group-as-bytes", cat(tag(n, protowire.BytesType), lenPrefixed(nil)))
		}
	case fd.Message() != nil:
		for _, p := range msgPayloads(fd.Message(), depth, o.Small) {
			add("msg{"+p.Name+"}", cat(tag(n, protowire.BytesType), lenPrefixed(p.B)))
		}
		if !o.Small {
			add("msg-nonminlen", cat(tag(n, protowire.BytesType), []byte{0x80, 0x00}))
			add("msg-as-group", cat(tag(n, protowire.StartGroupType), tag(n, protowire.EndGroupType)))
		}
	default:
		wt := wireTypeOf(fd.Kind())
		for _, p := range scalarPayloads(fd, o.Small) {
			add(p.Name, cat(tag(n, wt), p.B))
		}
		if fd.IsList() && wt != protowire.BytesType {
			ps := scalarPayloads(fd, true)
			add("packed[2]", cat(tag(n, protowire.BytesType), lenPrefixed(cat(ps[0].B, ps[0].B))))
			if wt == protowire.Fixed32Type || wt == protowire.Fixed64Type {
				// a payload that ends in the middle of an element: one and a half elements
				// (for 64-bit kinds that is a multiple of 4 but not of 8)
				half := ps[0].B[:len(ps[0].B)/2]
				add("packed[1.5]", cat(tag(n, protowire.BytesType), lenPrefixed(cat(ps[0].B, half))))
			}
			if wt == protowire.VarintType {
				// a 10-byte element whose last byte overflows 64 bits is malformed wherever it sits
				add("packed[1,overflow10]", cat(tag(n, protowire.BytesType), lenPrefixed(cat(ps[0].B, overflow10))))
				add("packed[max10,1]", cat(tag(n, protowire.BytesType), lenPrefixed(cat(overflow10[:9], []byte{0x01, 0x01}))))
			}
			if !o.Small {
				add("packed[]", cat(tag(n, protowire.BytesType), lenPrefixed(nil)))
				add("packed[trunc]", cat(tag(n, protowire.BytesType), lenPrefixed(cat(ps[0].B, []byte{0x80}))))
			}
		}
	}
	// wrong wire types
	exp := wireTypeOf(fd.Kind())
	packable := fd.IsList() && exp != protowire.BytesType && exp != protowire.StartGroupType
	wrongs := []struct {
		t    protowire.Type
		name string
		b    []byte
	}{
		{protowire.VarintType, "wrong:varint", []byte{7}},
		{protowire.Fixed32Type, "wrong:fixed32", []byte{1, 2, 3, 4}},
		{protowire.Fixed64Type, "wrong:fixed64", []byte{1, 2, 3, 4, 5, 6, 7, 8}},
		{protowire.BytesType, "wrong:bytes", []byte{2, 8, 5}},
		{protowire.StartGroupType, "wrong:group", tag(n, protowire.EndGroupType)},
	}
	for i, w := range wrongs {
		if w.t == exp || (packable && w.t == protowire.BytesType) {
			continue
		}
		if o.Small && i != 0 && i != 3 {
			continue
		}
		add(w.name, cat(tag(n, w.t), w.b))
	}
	if !o.Small {
		add("nonmintag", cat(appendNonMinTag(n, exp), firstPayload(fd)))
		add("tagonly", tag(n, exp))
	}
	return out
}

// overflow10 is a ten-byte varint whose last byte carries bits beyond 2^64.
var overflow10 = []byte{0xff, 0xff, 0xff, 0xff, 0xff, 0xff, 0xff, 0xff, 0xff, 0x02}

func firstPayload(fd protoreflect.FieldDescriptor) []byte {
	switch wireTypeOf(fd.Kind()) {
	case protowire.VarintType:
		return []byte{1}
	case protowire.Fixed32Type:
		return []byte{1, 0, 0, 0x40}
	case protowire.Fixed64Type:
		return []byte{1, 0, 0, 0, 0, 0, 0, 0x40}
	case protowire.BytesType:
		return []byte{0}
	default:
		return tag(fd.Number(), protowire.EndGroupType)
	}
}

func appendNonMinTag(n protoreflect.FieldNumber, t protowire.Type) []byte {
	b := tag(n, t)
	b[len(b)-1] |= 0x80
	return append(b, 0x00)
}

// WireAlphabet derives a record alphabet from md.
func WireAlphabet(md protoreflect.MessageDescriptor, o WireOpt) []Rec {
	var out []Rec
	for _, fd := range ClassFields(md, o.AllFields, !o.NoGeneric) {
		out = append(out, fieldRecs(fd, o)...)
	}
	if o.NoGeneric {
		return out
	}
	un := UnusedNumbers(md)
	if len(un) > 0 {
		u := un[0]
		out = append(out,
			Rec{fmt.Sprintf("unk%d:varint", u), cat(tag(u, protowire.VarintType), []byte{7})},
			Rec{fmt.Sprintf("unk%d:bytes", u), cat(tag(u, protowire.BytesType), lenPrefixed([]byte("u")))},
		)
		if o.NonMinUnknownTag {
			// a legal but non-minimal tag on an unknown record: number, type and payload must survive
			out = append(out, Rec{fmt.Sprintf("unk%d:nonmintag", u), cat(appendNonMinTag(u, protowire.Fixed32Type), []byte{9, 8, 7, 6})})
		}
		if !o.Small {
			u2 := un[len(un)-1]
			out = append(out,
				Rec{fmt.Sprintf("unk%d:fixed32", u2), cat(tag(u2, protowire.Fixed32Type), []byte{1, 2, 3, 4})},
				Rec{fmt.Sprintf("unk%d:fixed64", u), cat(tag(u, protowire.Fixed64Type), []byte{1, 2, 3, 4, 5, 6, 7, 8})},
				Rec{fmt.Sprintf("unk%d:group", u2), cat(tag(u2, protowire.StartGroupType), tag(u, protowire.VarintType), []byte{1}, tag(u2, protowire.EndGroupType))},
				Rec{fmt.Sprintf("unk%d:nonminvarint", u), cat(tag(u, protowire.VarintType), []byte{0x87, 0x00})},
			)
		}
	}
	out = append(out,
		Rec{"field0", []byte{0x00, 0x00}},
		Rec{"endgroup-alone", tag(1, protowire.EndGroupType)},
		Rec{"reserved-type6", []byte{0x0e}},
	)
	if !o.Small {
		out = append(out,
			Rec{"num2^29", cat(protowire.AppendVarint(nil, uint64(1<<29)<<3), []byte{1})},
			Rec{"varint11", []byte{0x08, 0xff, 0xff, 0xff, 0xff, 0xff, 0xff, 0xff, 0xff, 0xff, 0xff, 0x01}},
			Rec{"len>rest", []byte{0x0a, 0x05, 0x00}},
			Rec{"hugelen", cat([]byte{0x0a}, protowire.AppendVarint(nil, 1<<63))},
		)
	}
	return out
}

// Concat joins records.
func Concat(a []Rec, idx []int) ([]byte, string) {
	var b []byte
	name := "["
	for i, j := range idx {
		b = append(b, a[j].B...)
		if i > 0 {
			name += " ; "
		}
		name += a[j].Name
	}
	return b, name + "]"
}
