package univ

import (
	"fmt"

	"google.golang.org/protobuf/proto"
	"google.golang.org/protobuf/types/descriptorpb"
)

// Shape is one symbol of the field-shape alphabet of the schema universe.
type Shape struct {
	Name     string
	Type     descriptorpb.FieldDescriptorProto_Type
	Label    descriptorpb.FieldDescriptorProto_Label
	Packed   *bool
	Oneof    bool
	Ext      bool
	P3Opt    bool
	Default  string
	MapKey   descriptorpb.FieldDescriptorProto_Type // non-zero: map field with this key type (Type = value type)
	Lazy     bool
	Features *descriptorpb.FeatureSet
	JSONName string
}

type Syntax string

const (
	Proto2 Syntax = "proto2"
	Proto3 Syntax = "proto3"
	Ed2023 Syntax = "editions2023"
	Ed2024 Syntax = "editions2024"
)

var scalarTypes = []descriptorpb.FieldDescriptorProto_Type{
	descriptorpb.FieldDescriptorProto_TYPE_DOUBLE, descriptorpb.FieldDescriptorProto_TYPE_FLOAT,
	descriptorpb.FieldDescriptorProto_TYPE_INT64, descriptorpb.FieldDescriptorProto_TYPE_UINT64,
	descriptorpb.FieldDescriptorProto_TYPE_INT32, descriptorpb.FieldDescriptorProto_TYPE_FIXED64,
	descriptorpb.FieldDescriptorProto_TYPE_FIXED32, descriptorpb.FieldDescriptorProto_TYPE_BOOL,
	descriptorpb.FieldDescriptorProto_TYPE_STRING, descriptorpb.FieldDescriptorProto_TYPE_BYTES,
	descriptorpb.FieldDescriptorProto_TYPE_UINT32, descriptorpb.FieldDescriptorProto_TYPE_ENUM,
	descriptorpb.FieldDescriptorProto_TYPE_SFIXED32, descriptorpb.FieldDescriptorProto_TYPE_SFIXED64,
	descriptorpb.FieldDescriptorProto_TYPE_SINT32, descriptorpb.FieldDescriptorProto_TYPE_SINT64,
}

func tname(t descriptorpb.FieldDescriptorProto_Type) string {
	return t.String()[len("TYPE_"):]
}

func packable(t descriptorpb.FieldDescriptorProto_Type) bool {
	switch t {
	case descriptorpb.FieldDescriptorProto_TYPE_STRING, descriptorpb.FieldDescriptorProto_TYPE_BYTES, descriptorpb.FieldDescriptorProto_TYPE_MESSAGE, descriptorpb.FieldDescriptorProto_TYPE_GROUP:
		return false
	}
	return true
}

func defaultFor(t descriptorpb.FieldDescriptorProto_Type) string {
	switch t {
	case descriptorpb.FieldDescriptorProto_TYPE_DOUBLE, descriptorpb.FieldDescriptorProto_TYPE_FLOAT:
		return "-1.5"
	case descriptorpb.FieldDescriptorProto_TYPE_BOOL:
		return "true"
	case descriptorpb.FieldDescriptorProto_TYPE_STRING:
		return "dflt \"q\""
	case descriptorpb.FieldDescriptorProto_TYPE_BYTES:
		return "\\001\\377x"
	case descriptorpb.FieldDescriptorProto_TYPE_ENUM:
		return "E_ONE"
	case descriptorpb.FieldDescriptorProto_TYPE_UINT32, descriptorpb.FieldDescriptorProto_TYPE_UINT64, descriptorpb.FieldDescriptorProto_TYPE_FIXED32, descriptorpb.FieldDescriptorProto_TYPE_FIXED64:
		return "7"
	}
	return "-7"
}

// Shapes returns the field-shape alphabet for a syntax. full=false keeps one
// representative per wire class of scalar (varint, zigzag, fixed32, fixed64,
// string, bytes, enum, bool).
func Shapes(syn Syntax, full bool) []Shape {
	opt := descriptorpb.FieldDescriptorProto_LABEL_OPTIONAL
	req := descriptorpb.FieldDescriptorProto_LABEL_REQUIRED
	rep := descriptorpb.FieldDescriptorProto_LABEL_REPEATED
	msgT := descriptorpb.FieldDescriptorProto_TYPE_MESSAGE
	grpT := descriptorpb.FieldDescriptorProto_TYPE_GROUP
	types := scalarTypes
	if !full {
		types = []descriptorpb.FieldDescriptorProto_Type{descriptorpb.FieldDescriptorProto_TYPE_INT32, descriptorpb.FieldDescriptorProto_TYPE_SINT64, descriptorpb.FieldDescriptorProto_TYPE_FIXED32, descriptorpb.FieldDescriptorProto_TYPE_DOUBLE, descriptorpb.FieldDescriptorProto_TYPE_BOOL, descriptorpb.FieldDescriptorProto_TYPE_STRING, descriptorpb.FieldDescriptorProto_TYPE_BYTES, descriptorpb.FieldDescriptorProto_TYPE_ENUM}
	}
	var out []Shape
	add := func(s Shape) { out = append(out, s) }
	tr, fa := proto.Bool(true), proto.Bool(false)
	fs := func(f *descriptorpb.FeatureSet) *descriptorpb.FeatureSet { return f }
	for _, t := range append(append([]descriptorpb.FieldDescriptorProto_Type{}, types...), msgT) {
		n := tname(t)
		switch syn {
		case Proto2:
			add(Shape{Name: "optional " + n, Type: t, Label: opt})
			add(Shape{Name: "required " + n, Type: t, Label: req})
			add(Shape{Name: "repeated " + n, Type: t, Label: rep})
			add(Shape{Name: "oneof " + n, Type: t, Label: opt, Oneof: true})
			add(Shape{Name: "extension " + n, Type: t, Label: opt, Ext: true})
			if packable(t) {
				add(Shape{Name: "repeated packed " + n, Type: t, Label: rep, Packed: tr})
				add(Shape{Name: "repeated extension packed " + n, Type: t, Label: rep, Ext: true, Packed: tr})
			}
			if t != msgT {
				add(Shape{Name: "optional default " + n, Type: t, Label: opt, Default: defaultFor(t)})
			} else {
				add(Shape{Name: "optional lazy " + n, Type: t, Label: opt, Lazy: true})
			}
		case Proto3:
			add(Shape{Name: "implicit " + n, Type: t, Label: opt})
			add(Shape{Name: "proto3_optional " + n, Type: t, Label: opt, P3Opt: true})
			add(Shape{Name: "repeated " + n, Type: t, Label: rep})
			add(Shape{Name: "oneof " + n, Type: t, Label: opt, Oneof: true})
			if packable(t) {
				add(Shape{Name: "repeated unpacked " + n, Type: t, Label: rep, Packed: fa})
			}
		case Ed2023, Ed2024:
			add(Shape{Name: "explicit " + n, Type: t, Label: opt})
			add(Shape{Name: "repeated " + n, Type: t, Label: rep})
			add(Shape{Name: "oneof " + n, Type: t, Label: opt, Oneof: true})
			add(Shape{Name: "extension " + n, Type: t, Label: opt, Ext: true})
			add(Shape{Name: "legacy_required " + n, Type: t, Label: opt, Features: fs(&descriptorpb.FeatureSet{FieldPresence: descriptorpb.FeatureSet_LEGACY_REQUIRED.Enum()})})
			if t != msgT {
				add(Shape{Name: "implicit " + n, Type: t, Label: opt, Features: fs(&descriptorpb.FeatureSet{FieldPresence: descriptorpb.FeatureSet_IMPLICIT.Enum()})})
				add(Shape{Name: "explicit default " + n, Type: t, Label: opt, Default: defaultFor(t)})
			} else {
				add(Shape{Name: "delimited " + n, Type: t, Label: opt, Features: fs(&descriptorpb.FeatureSet{MessageEncoding: descriptorpb.FeatureSet_DELIMITED.Enum()})})
				add(Shape{Name: "repeated delimited " + n, Type: t, Label: rep, Features: fs(&descriptorpb.FeatureSet{MessageEncoding: descriptorpb.FeatureSet_DELIMITED.Enum()})})
				add(Shape{Name: "lazy " + n, Type: t, Label: opt, Lazy: true})
				add(Shape{Name: "lazy delimited " + n, Type: t, Label: opt, Lazy: true, Features: fs(&descriptorpb.FeatureSet{MessageEncoding: descriptorpb.FeatureSet_DELIMITED.Enum()})})
			}
			if packable(t) {
				add(Shape{Name: "repeated expanded " + n, Type: t, Label: rep, Features: fs(&descriptorpb.FeatureSet{RepeatedFieldEncoding: descriptorpb.FeatureSet_EXPANDED.Enum()})})
			}
			if t == descriptorpb.FieldDescriptorProto_TYPE_STRING {
				add(Shape{Name: "utf8 none " + n, Type: t, Label: opt, Features: fs(&descriptorpb.FeatureSet{Utf8Validation: descriptorpb.FeatureSet_NONE.Enum()})})
			}
		}
	}
	if syn == Proto2 {
		add(Shape{Name: "optional group", Type: grpT, Label: opt})
		add(Shape{Name: "repeated group", Type: grpT, Label: rep})
		add(Shape{Name: "oneof group", Type: grpT, Label: opt, Oneof: true})
		add(Shape{Name: "optional explicit json_name", Type: descriptorpb.FieldDescriptorProto_TYPE_INT32, Label: opt, JSONName: "Custom_Json"})
	}
	// maps (all syntaxes)
	for _, k := range []descriptorpb.FieldDescriptorProto_Type{descriptorpb.FieldDescriptorProto_TYPE_STRING, descriptorpb.FieldDescriptorProto_TYPE_INT32, descriptorpb.FieldDescriptorProto_TYPE_BOOL, descriptorpb.FieldDescriptorProto_TYPE_UINT64} {
		for _, v := range []descriptorpb.FieldDescriptorProto_Type{descriptorpb.FieldDescriptorProto_TYPE_INT32, descriptorpb.FieldDescriptorProto_TYPE_STRING, msgT, descriptorpb.FieldDescriptorProto_TYPE_ENUM} {
			if !full && !(k == descriptorpb.FieldDescriptorProto_TYPE_STRING || v == msgT) {
				continue
			}
			add(Shape{Name: fmt.Sprintf("map<%s,%s>", tname(k), tname(v)), Type: v, Label: rep, MapKey: k})
		}
	}
	return out
}

func camel(s string) string {
	out := []byte{}
	up := true
	for i := 0; i < len(s); i++ {
		c := s[i]
		if c == '_' {
			up = true
			continue
		}
		if up && c >= 'a' && c <= 'z' {
			c -= 'a' - 'A'
		}
		up = false
		out = append(out, c)
	}
	return string(out)
}

// SchemaFile builds a FileDescriptorProto with message M holding one field per
// shape (f1, f2, ...), helper types Sub, E, and extendee X. pkg must be unique
// per file when several are registered in one resolver.
func SchemaFile(path, pkg string, syn Syntax, shapes []Shape) *descriptorpb.FileDescriptorProto {
	fdp := &descriptorpb.FileDescriptorProto{Name: proto.String(path), Package: proto.String(pkg)}
	switch syn {
	case Proto2:
		// ToFileDescriptorProto leaves the syntax of proto2 files unset (documented normalisation)
	case Proto3:
		fdp.Syntax = proto.String("proto3")
	case Ed2023:
		fdp.Syntax = proto.String("editions")
		fdp.Edition = descriptorpb.Edition_EDITION_2023.Enum()
	case Ed2024:
		fdp.Syntax = proto.String("editions")
		fdp.Edition = descriptorpb.Edition_EDITION_2024.Enum()
	}
	opt := descriptorpb.FieldDescriptorProto_LABEL_OPTIONAL
	i32 := descriptorpb.FieldDescriptorProto_TYPE_INT32
	q := "." + pkg
	sub := &descriptorpb.DescriptorProto{Name: proto.String("Sub"), Field: []*descriptorpb.FieldDescriptorProto{
		{Name: proto.String("a"), Number: proto.Int32(1), Type: i32.Enum(), Label: opt.Enum(), JsonName: proto.String("a")},
		{Name: proto.String("s"), Number: proto.Int32(2), Type: descriptorpb.FieldDescriptorProto_TYPE_STRING.Enum(), Label: opt.Enum(), JsonName: proto.String("s")},
	}}
	en := &descriptorpb.EnumDescriptorProto{Name: proto.String("E"), Value: []*descriptorpb.EnumValueDescriptorProto{
		{Name: proto.String("E_ZERO"), Number: proto.Int32(0)}, {Name: proto.String("E_ONE"), Number: proto.Int32(1)}, {Name: proto.String("E_NEG"), Number: proto.Int32(-1)},
	}}
	m := &descriptorpb.DescriptorProto{Name: proto.String("M")}
	x := &descriptorpb.DescriptorProto{Name: proto.String("X"), ExtensionRange: []*descriptorpb.DescriptorProto_ExtensionRange{{Start: proto.Int32(100), End: proto.Int32(1000)}}}
	hasExt := false
	for i, s := range shapes {
		name := fmt.Sprintf("f%d", i+1)
		num := int32(i + 1)
		f := &descriptorpb.FieldDescriptorProto{Name: proto.String(name), Number: proto.Int32(num), Type: s.Type.Enum(), Label: s.Label.Enum(), JsonName: proto.String(name)}
		if s.JSONName != "" {
			f.JsonName = proto.String(s.JSONName)
		}
		switch s.Type {
		case descriptorpb.FieldDescriptorProto_TYPE_MESSAGE:
			f.TypeName = proto.String(q + ".Sub")
		case descriptorpb.FieldDescriptorProto_TYPE_ENUM:
			f.TypeName = proto.String(q + ".E")
		case descriptorpb.FieldDescriptorProto_TYPE_GROUP:
			gname := fmt.Sprintf("F%d", i+1)
			f.Name = proto.String(fmt.Sprintf("f%d", i+1))
			f.JsonName = proto.String(fmt.Sprintf("f%d", i+1))
			m.NestedType = append(m.NestedType, &descriptorpb.DescriptorProto{Name: proto.String(gname), Field: []*descriptorpb.FieldDescriptorProto{
				{Name: proto.String("a"), Number: proto.Int32(1), Type: i32.Enum(), Label: opt.Enum(), JsonName: proto.String("a")}}})
			f.TypeName = proto.String(q + ".M." + gname)
		}
		if s.MapKey != 0 {
			ename := camel(name) + "Entry"
			entry := &descriptorpb.DescriptorProto{Name: proto.String(ename), Options: &descriptorpb.MessageOptions{MapEntry: proto.Bool(true)}, Field: []*descriptorpb.FieldDescriptorProto{
				{Name: proto.String("key"), Number: proto.Int32(1), Type: s.MapKey.Enum(), Label: opt.Enum(), JsonName: proto.String("key")},
				{Name: proto.String("value"), Number: proto.Int32(2), Type: s.Type.Enum(), Label: opt.Enum(), JsonName: proto.String("value"), TypeName: f.TypeName},
			}}
			m.NestedType = append(m.NestedType, entry)
			f.Type = descriptorpb.FieldDescriptorProto_TYPE_MESSAGE.Enum()
			f.TypeName = proto.String(q + ".M." + ename)
		}
		if s.Packed != nil || s.Lazy {
			f.Options = &descriptorpb.FieldOptions{}
			if s.Packed != nil {
				f.Options.Packed = s.Packed
			}
			if s.Lazy {
				f.Options.Lazy = proto.Bool(true)
			}
		}
		if s.Features != nil {
			if f.Options == nil {
				f.Options = &descriptorpb.FieldOptions{}
			}
			f.Options.Features = proto.Clone(s.Features).(*descriptorpb.FeatureSet)
		}
		if s.Default != "" {
			f.DefaultValue = proto.String(s.Default)
		}
		switch {
		case s.Ext:
			f.Number = proto.Int32(100 + num)
			f.Extendee = proto.String(q + ".X")
			f.Name = proto.String("x" + name)
			f.JsonName = proto.String("x" + name)
			fdp.Extension = append(fdp.Extension, f)
			hasExt = true
			continue
		case s.Oneof:
			// each oneof shape gets a oneof shared with the previous oneof shape if adjacent
			if len(m.OneofDecl) == 0 || !(i > 0 && shapes[i-1].Oneof) {
				m.OneofDecl = append(m.OneofDecl, &descriptorpb.OneofDescriptorProto{Name: proto.String(fmt.Sprintf("o%d", len(m.OneofDecl)+1))})
			}
			f.OneofIndex = proto.Int32(int32(len(m.OneofDecl) - 1))
		}
		m.Field = append(m.Field, f)
	}
	// proto3 optional: synthetic oneofs go after the real ones
	for i, s := range shapes {
		if !s.P3Opt {
			continue
		}
		name := fmt.Sprintf("f%d", i+1)
		for _, f := range m.Field {
			if f.GetName() == name {
				f.Proto3Optional = proto.Bool(true)
				m.OneofDecl = append(m.OneofDecl, &descriptorpb.OneofDescriptorProto{Name: proto.String("_" + name)})
				f.OneofIndex = proto.Int32(int32(len(m.OneofDecl) - 1))
			}
		}
	}
	fdp.MessageType = []*descriptorpb.DescriptorProto{m, sub}
	if hasExt {
		fdp.MessageType = append(fdp.MessageType, x)
	}
	fdp.EnumType = []*descriptorpb.EnumDescriptorProto{en}
	return fdp
}

// SchemaUniverse enumerates schema files with <= f shapes per syntax. The
// callback receives a stable index, the syntax and the shapes.
func SchemaUniverse(f int, full bool, syntaxes []Syntax, fn func(idx int, syn Syntax, shapes []Shape)) int {
	idx := 0
	for _, syn := range syntaxes {
		sh := Shapes(syn, full)
		n := TupleCount(len(sh), f)
		for i := 1; i < n; i++ {
			t := TupleAt(len(sh), f, i, nil)
			// at most one consecutive run of oneof members is generated per tuple position; skip
			// tuples whose order only permutes different shapes (keep sorted index order) except pairs of oneof members
			sorted := true
			for j := 1; j < len(t); j++ {
				if t[j] < t[j-1] {
					sorted = false
				}
			}
			if !sorted {
				continue
			}
			var ss []Shape
			for _, j := range t {
				ss = append(ss, sh[j])
			}
			fn(idx, syn, ss)
			idx++
		}
	}
	return idx
}

func ShapeNames(ss []Shape) string {
	s := "["
	for i, x := range ss {
		if i > 0 {
			s += " ; "
		}
		s += x.Name
	}
	return s + "]"
}
