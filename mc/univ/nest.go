package univ

import (
	"fmt"

	"google.golang.org/protobuf/encoding/protowire"
	"google.golang.org/protobuf/reflect/protoreflect"
)

// Nestings builds inputs that nest through message, group, map-entry and lazy
// wrappers, depth 0..maxDepth, with 1..breadth sibling copies of the wrapper
// at the innermost / outermost level.
func Nestings(md protoreflect.MessageDescriptor, maxDepth int, leaf func(md protoreflect.MessageDescriptor) []byte) []Rec {
	type wrapper struct {
		name string
		wrap func(inner []byte) []byte
		next protoreflect.MessageDescriptor
		cost int
	}
	wrappersOf := func(md protoreflect.MessageDescriptor) []wrapper {
		var ws []wrapper
		seen := map[string]bool{}
		for _, fd := range SortedFields(md) {
			fd := fd
			n := fd.Number()
			var cls string
			var w wrapper
			switch {
			case fd.IsMap() && fd.MapValue().Message() != nil:
				cls = "map"
				w = wrapper{fmt.Sprintf("%d:map", n), func(inner []byte) []byte {
					e := protowire.AppendBytes(protowire.AppendTag(protowire.AppendVarint(protowire.AppendTag(nil, 1, wireTypeOf(fd.MapKey().Kind())), 0)[:0], 2, protowire.BytesType), inner)
					// key omitted (default key); entry = value only
					return protowire.AppendBytes(protowire.AppendTag(nil, n, protowire.BytesType), e)
				}, fd.MapValue().Message(), 2}
			case fd.Kind() == protoreflect.GroupKind:
				cls = "group"
				w = wrapper{fmt.Sprintf("%d:group", n), func(inner []byte) []byte {
					return protowire.AppendTag(append(protowire.AppendTag(nil, n, protowire.StartGroupType), inner...), n, protowire.EndGroupType)
				}, fd.Message(), 1}
			case fd.Message() != nil && !fd.IsMap():
				cls = "msg"
				if IsLazy(fd) {
					cls = "lazy"
				}
				if fd.IsList() {
					cls += "rep"
				}
				w = wrapper{fmt.Sprintf("%d:%s", n, cls), func(inner []byte) []byte {
					return protowire.AppendBytes(protowire.AppendTag(nil, n, protowire.BytesType), inner)
				}, fd.Message(), 1}
			default:
				continue
			}
			key := cls + string(w.next.FullName())
			if seen[key] {
				continue
			}
			seen[key] = true
			ws = append(ws, w)
		}
		// message- and group-typed extensions nest like fields do
		for _, xt := range Extensions(md) {
			xd := xt.TypeDescriptor()
			if xd.Message() == nil || xd.IsList() {
				continue
			}
			n := xd.Number()
			var w wrapper
			cls := "extmsg"
			if xd.Kind() == protoreflect.GroupKind {
				cls = "extgroup"
				w = wrapper{fmt.Sprintf("x%d:group", n), func(inner []byte) []byte {
					return protowire.AppendTag(append(protowire.AppendTag(nil, n, protowire.StartGroupType), inner...), n, protowire.EndGroupType)
				}, xd.Message(), 1}
			} else {
				w = wrapper{fmt.Sprintf("x%d:msg", n), func(inner []byte) []byte {
					return protowire.AppendBytes(protowire.AppendTag(nil, n, protowire.BytesType), inner)
				}, xd.Message(), 1}
			}
			key := cls + string(w.next.FullName())
			if seen[key] {
				continue
			}
			seen[key] = true
			ws = append(ws, w)
		}
		return ws
	}
	var out []Rec
	var rec func(md protoreflect.MessageDescriptor, depth int, name string, build func(inner []byte) []byte)
	rec = func(md protoreflect.MessageDescriptor, depth int, name string, build func(inner []byte) []byte) {
		var lf []byte
		if leaf != nil {
			lf = leaf(md)
		}
		out = append(out, Rec{Name: name + "{}", B: build(lf)})
		if depth == maxDepth {
			return
		}
		for _, w := range wrappersOf(md) {
			w := w
			rec(w.next, depth+1, name+"/"+w.name, func(inner []byte) []byte { return build(w.wrap(inner)) })
			// sibling copies at this level (breadth, not depth)
			for _, br := range []int{2, 3, 7} {
				br := br
				out = append(out, Rec{Name: fmt.Sprintf("%s/%sx%d{}", name, w.name, br), B: build(repeatBytes(w.wrap(lf), br))})
			}
		}
	}
	rec(md, 0, "", func(inner []byte) []byte { return inner })
	return out
}

func repeatBytes(b []byte, n int) []byte {
	var out []byte
	for i := 0; i < n; i++ {
		out = append(out, b...)
	}
	return out
}
