package univ

import (
	"fmt"
	"sort"

	"google.golang.org/protobuf/reflect/protoreflect"
	"google.golang.org/protobuf/reflect/protoregistry"

	_ "google.golang.org/protobuf/internal/testprotos/annotation"
	_ "google.golang.org/protobuf/internal/testprotos/conformance"
	_ "google.golang.org/protobuf/internal/testprotos/conformance/editions"
	_ "google.golang.org/protobuf/internal/testprotos/conformance/editionsmigration"
	_ "google.golang.org/protobuf/internal/testprotos/editionsfuzztest"
	_ "google.golang.org/protobuf/internal/testprotos/enums"
	_ "google.golang.org/protobuf/internal/testprotos/enums/enums_hybrid"
	_ "google.golang.org/protobuf/internal/testprotos/enums/enums_opaque"
	_ "google.golang.org/protobuf/internal/testprotos/examples/ext"
	_ "google.golang.org/protobuf/internal/testprotos/fieldtrack"
	_ "google.golang.org/protobuf/internal/testprotos/fuzz"
	_ "google.golang.org/protobuf/internal/testprotos/lazy"
	_ "google.golang.org/protobuf/internal/testprotos/lazy/lazy_hybrid"
	_ "google.golang.org/protobuf/internal/testprotos/lazy/lazy_opaque"
	_ "google.golang.org/protobuf/internal/testprotos/messageset/messagesetpb"
	_ "google.golang.org/protobuf/internal/testprotos/messageset/messagesetpb/messagesetpb_hybrid"
	_ "google.golang.org/protobuf/internal/testprotos/messageset/messagesetpb/messagesetpb_opaque"
	_ "google.golang.org/protobuf/internal/testprotos/messageset/msetextpb"
	_ "google.golang.org/protobuf/internal/testprotos/messageset/msetextpb/msetextpb_hybrid"
	_ "google.golang.org/protobuf/internal/testprotos/messageset/msetextpb/msetextpb_opaque"
	_ "google.golang.org/protobuf/internal/testprotos/mixed"
	_ "google.golang.org/protobuf/internal/testprotos/news"
	_ "google.golang.org/protobuf/internal/testprotos/order"
	_ "google.golang.org/protobuf/internal/testprotos/registry"
	_ "google.golang.org/protobuf/internal/testprotos/required"
	_ "google.golang.org/protobuf/internal/testprotos/required/required_hybrid"
	_ "google.golang.org/protobuf/internal/testprotos/required/required_opaque"
	_ "google.golang.org/protobuf/internal/testprotos/test"
	_ "google.golang.org/protobuf/internal/testprotos/test/test_nopackage"
	_ "google.golang.org/protobuf/internal/testprotos/test3"
	_ "google.golang.org/protobuf/internal/testprotos/test3/test3_hybrid"
	_ "google.golang.org/protobuf/internal/testprotos/test3/test3_opaque"
	_ "google.golang.org/protobuf/internal/testprotos/testeditions"
	_ "google.golang.org/protobuf/internal/testprotos/testeditions/testeditions_hybrid"
	_ "google.golang.org/protobuf/internal/testprotos/testeditions/testeditions_opaque"
	_ "google.golang.org/protobuf/internal/testprotos/textpb2"
	_ "google.golang.org/protobuf/internal/testprotos/textpb3"
	_ "google.golang.org/protobuf/internal/testprotos/textpbeditions"
	_ "google.golang.org/protobuf/internal/testprotos/textpbeditions/textpbeditions_hybrid"
	_ "google.golang.org/protobuf/internal/testprotos/textpbeditions/textpbeditions_opaque"
	_ "google.golang.org/protobuf/types/descriptorpb"
	_ "google.golang.org/protobuf/types/gofeaturespb"
	_ "google.golang.org/protobuf/types/known/anypb"
	_ "google.golang.org/protobuf/types/known/apipb"
	_ "google.golang.org/protobuf/types/known/durationpb"
	_ "google.golang.org/protobuf/types/known/emptypb"
	_ "google.golang.org/protobuf/types/known/fieldmaskpb"
	_ "google.golang.org/protobuf/types/known/sourcecontextpb"
	_ "google.golang.org/protobuf/types/known/structpb"
	_ "google.golang.org/protobuf/types/known/timestamppb"
	_ "google.golang.org/protobuf/types/known/typepb"
	_ "google.golang.org/protobuf/types/known/wrapperspb"
	_ "google.golang.org/protobuf/types/pluginpb"
)

// MT returns the registered message type with the given full name.
func MT(name string) protoreflect.MessageType {
	mt, err := protoregistry.GlobalTypes.FindMessageByName(protoreflect.FullName(name))
	if err != nil {
		panic(fmt.Sprintf("corpus: %s: %v", name, err))
	}
	return mt
}

// AllMessageTypes returns every registered message type sorted by name.
func AllMessageTypes() []protoreflect.MessageType {
	var out []protoreflect.MessageType
	protoregistry.GlobalTypes.RangeMessages(func(mt protoreflect.MessageType) bool {
		out = append(out, mt)
		return true
	})
	sort.Slice(out, func(a, b int) bool { return out[a].Descriptor().FullName() < out[b].Descriptor().FullName() })
	return out
}

// AllFiles returns every registered file sorted by path.
func AllFiles() []protoreflect.FileDescriptor {
	var out []protoreflect.FileDescriptor
	protoregistry.GlobalFiles.RangeFiles(func(fd protoreflect.FileDescriptor) bool {
		out = append(out, fd)
		return true
	})
	sort.Slice(out, func(a, b int) bool { return out[a].Path() < out[b].Path() })
	return out
}
