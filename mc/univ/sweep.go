package univ

import (
	"fmt"
	"strings"

	"google.golang.org/protobuf/reflect/protoreflect"
)

// SweepLengths are payload lengths around the varint length-prefix boundaries.
func SweepLengths(thorough bool) []int {
	var out []int
	add := func(lo, hi int) {
		for i := lo; i <= hi; i++ {
			out = append(out, i)
		}
	}
	add(0, 3)
	add(118, 135)
	if thorough {
		add(4, 117)
		add(136, 300)
		add(16370, 16392)
	} else {
		add(250, 258)
		add(16378, 16388)
	}
	return out
}

// LengthSweep returns slot lists that give every length-delimited container
// class of md (singular / repeated / oneof / lazy message field, group, map
// entry with string or message value, packed repeated scalar, string, bytes)
// a payload whose encoded size sweeps the given lengths.
func LengthSweep(md protoreflect.MessageDescriptor, lengths []int) [][]*Slot {
	var out [][]*Slot
	strOf := func(sub protoreflect.MessageDescriptor) protoreflect.FieldDescriptor {
		for _, fd := range SortedFields(sub) {
			if (fd.Kind() == protoreflect.BytesKind || fd.Kind() == protoreflect.StringKind) && !fd.IsList() && !fd.IsMap() && fd.ContainingOneof() == nil {
				return fd
			}
		}
		return nil
	}
	filler := func(fd protoreflect.FieldDescriptor, n int) protoreflect.Value {
		if fd.Kind() == protoreflect.BytesKind {
			return protoreflect.ValueOfBytes([]byte(strings.Repeat("b", n)))
		}
		return protoreflect.ValueOfString(strings.Repeat("s", n))
	}
	// inner slot that makes a message of type sub about n bytes long
	inner := func(sub protoreflect.MessageDescriptor, n int) *Slot {
		if sfd := strOf(sub); sfd != nil {
			return &Slot{Num: sfd.Number(), Op: OpSet, Val: filler(sfd, n), Name: fmt.Sprintf("%d=str*%d", sfd.Number(), n)}
		}
		// no string field: a nested message field one level down that has one
		for _, fd := range SortedFields(sub) {
			if fd.Message() != nil && !fd.IsList() && !fd.IsMap() {
				if sfd := strOf(fd.Message()); sfd != nil {
					return &Slot{Num: fd.Number(), Op: OpMsg, Name: fmt.Sprintf("%d{%d=str*%d}", fd.Number(), sfd.Number(), n),
						Sub: &Slot{Num: sfd.Number(), Op: OpSet, Val: filler(sfd, n), Name: fmt.Sprintf("%d=str*%d", sfd.Number(), n)}}
				}
			}
		}
		return nil
	}
	seen := map[string]bool{}
	addField := func(fd protoreflect.FieldDescriptor, ext bool) {
		cls := FieldClass(fd)
		if seen[cls] {
			return
		}
		pfx := fmt.Sprint(fd.Number())
		if ext {
			pfx = "x" + pfx
		}
		switch {
		case fd.IsMap():
			seen[cls] = true
			k := MapKeys(fd.MapKey(), Opt{Thin: true})[0]
			for _, n := range lengths {
				if vd := fd.MapValue(); vd.Message() != nil {
					if in := inner(vd.Message(), n); in != nil {
						out = append(out, []*Slot{{Num: fd.Number(), Ext: ext, Op: OpMapMsg, Key: k, Sub: in, Name: fmt.Sprintf("%s[k]{%s}", pfx, in.Name)}})
					}
				} else if vd.Kind() == protoreflect.StringKind || vd.Kind() == protoreflect.BytesKind {
					out = append(out, []*Slot{{Num: fd.Number(), Ext: ext, Op: OpMapPut, Key: k, Val: filler(vd, n), Name: fmt.Sprintf("%s[k]=str*%d", pfx, n)}})
				}
			}
		case fd.Message() != nil:
			seen[cls] = true
			for _, n := range lengths {
				in := inner(fd.Message(), n)
				if in == nil {
					continue
				}
				op := OpMsg
				if fd.IsList() {
					op = OpAppendMsg
				}
				out = append(out, []*Slot{{Num: fd.Number(), Ext: ext, Op: op, Sub: in, Name: fmt.Sprintf("%s{%s}", pfx, in.Name)}})
			}
		case fd.IsList() && fd.IsPacked():
			seen[cls] = true
			vals := ScalarValues(fd, Opt{Thin: true})
			v := vals[0]
			for _, n := range lengths {
				if n > 400 {
					continue
				}
				var sl []*Slot
				for i := 0; i < n; i++ {
					sl = append(sl, &Slot{Num: fd.Number(), Ext: ext, Op: OpAppend, Val: v, Name: fmt.Sprintf("%s+=%s(x%d)", pfx, FormatValue(v), n)})
				}
				if n > 0 {
					sl[0].Name = fmt.Sprintf("%s+=%s x%d", pfx, FormatValue(v), n)
					for i := 1; i < len(sl); i++ {
						sl[i].Name = ""
					}
				}
				out = append(out, sl)
			}
		case (fd.Kind() == protoreflect.StringKind || fd.Kind() == protoreflect.BytesKind) && !fd.IsList():
			seen[cls] = true
			for _, n := range lengths {
				out = append(out, []*Slot{{Num: fd.Number(), Ext: ext, Op: OpSet, Val: filler(fd, n), Name: fmt.Sprintf("%s=str*%d", pfx, n)}})
			}
		}
	}
	for _, fd := range SortedFields(md) {
		addField(fd, false)
	}
	for _, xt := range Extensions(md) {
		addField(xt.TypeDescriptor(), true)
	}
	return out
}

// SweepName names a sweep slot list compactly.
func SweepName(slots []*Slot) string {
	if len(slots) == 0 {
		return "[]"
	}
	return "[" + slots[0].Name + "]"
}
