package univ

import (
	"google.golang.org/protobuf/proto"
	"google.golang.org/protobuf/reflect/protoreflect"
	"google.golang.org/protobuf/reflect/protoregistry"
	"google.golang.org/protobuf/types/dynamicpb"
	"google.golang.org/protobuf/verifmc/core"
)

// Resolver is what proto.UnmarshalOptions needs plus ExtResolver.
type Resolver interface {
	FindExtensionByName(field protoreflect.FullName) (protoreflect.ExtensionType, error)
	FindExtensionByNumber(message protoreflect.FullName, field protoreflect.FieldNumber) (protoreflect.ExtensionType, error)
}

// DynTypes resolves extensions (and messages) to dynamicpb types over the
// descriptors in the global registry.
type DynTypes struct{}

func (DynTypes) FindExtensionByName(field protoreflect.FullName) (protoreflect.ExtensionType, error) {
	xt, err := protoregistry.GlobalTypes.FindExtensionByName(field)
	if err != nil {
		return nil, err
	}
	return dynamicpb.NewExtensionType(xt.TypeDescriptor().Descriptor()), nil
}

func (DynTypes) FindExtensionByNumber(message protoreflect.FullName, field protoreflect.FieldNumber) (protoreflect.ExtensionType, error) {
	xt, err := protoregistry.GlobalTypes.FindExtensionByNumber(message, field)
	if err != nil {
		return nil, err
	}
	return dynamicpb.NewExtensionType(xt.TypeDescriptor().Descriptor()), nil
}

func (DynTypes) FindMessageByName(name protoreflect.FullName) (protoreflect.MessageType, error) {
	mt, err := protoregistry.GlobalTypes.FindMessageByName(name)
	if err != nil {
		return nil, err
	}
	return dynamicpb.NewMessageType(mt.Descriptor()), nil
}

func (DynTypes) FindMessageByURL(url string) (protoreflect.MessageType, error) {
	mt, err := protoregistry.GlobalTypes.FindMessageByURL(url)
	if err != nil {
		return nil, err
	}
	return dynamicpb.NewMessageType(mt.Descriptor()), nil
}

// Flavor is one implementation of a schema: a generated type or its dynamicpb
// twin.
type Flavor struct {
	Name    string
	MT      protoreflect.MessageType
	Res     Resolver
	Dynamic bool
}

func Gen(name string) Flavor {
	return Flavor{Name: name, MT: MT(name), Res: protoregistry.GlobalTypes}
}

func Dyn(name string) Flavor {
	return Flavor{Name: "dynamicpb:" + name, MT: dynamicpb.NewMessageType(MT(name).Descriptor()), Res: DynTypes{}, Dynamic: true}
}

func (f Flavor) Build(slots []*Slot) protoreflect.Message { return Build(f.MT, slots, f.Res) }

func (f Flavor) Unmarshal(b []byte, o proto.UnmarshalOptions) (protoreflect.Message, error) {
	m := f.MT.New()
	o.Resolver = f.Res
	err := o.Unmarshal(b, m.Interface())
	return m, err
}

// ForTuples enumerates, in parallel and shortest-first, all index tuples of
// length <= k over an alphabet of n symbols.
func ForTuples(c *core.Ctx, n, k int, f func(idx []int)) {
	total := TupleCount(n, k)
	const chunk = 256
	nchunks := (total + chunk - 1) / chunk
	c.Par(nchunks, func(ci int) {
		buf := make([]int, 0, k)
		hi := (ci + 1) * chunk
		if hi > total {
			hi = total
		}
		for i := ci * chunk; i < hi; i++ {
			f(TupleAt(n, k, i, buf))
		}
	})
}

// Pick returns the slots at the given indices.
func PickSlots(a []*Slot, idx []int, out []*Slot) []*Slot {
	out = out[:0]
	for _, i := range idx {
		out = append(out, a[i])
	}
	return out
}

// Initialized is an independent "all required fields present" walk through
// protoreflect (the reference for CheckInitialized-related clauses).
func Initialized(m protoreflect.Message) bool {
	md := m.Descriptor()
	nums := md.RequiredNumbers()
	for i := 0; i < nums.Len(); i++ {
		if !m.Has(md.Fields().ByNumber(nums.Get(i))) {
			return false
		}
	}
	ok := true
	m.Range(func(fd protoreflect.FieldDescriptor, v protoreflect.Value) bool {
		switch {
		case fd.IsList() && fd.Message() != nil:
			for i := 0; i < v.List().Len() && ok; i++ {
				ok = Initialized(v.List().Get(i).Message())
			}
		case fd.IsMap() && fd.MapValue().Message() != nil:
			v.Map().Range(func(_ protoreflect.MapKey, mv protoreflect.Value) bool {
				ok = Initialized(mv.Message())
				return ok
			})
		case fd.Message() != nil && !fd.IsMap() && !fd.IsList():
			ok = Initialized(v.Message())
		}
		return ok
	})
	return ok
}
