// Package univ defines the finite universes the checks enumerate: value
// alphabets per kind, message "slots" (single population actions applied
// through protoreflect, so the same slot list builds open/hybrid/opaque/dynamic
// twins), wire-record alphabets and the corpus of message types.
package univ

import (
	"fmt"
	"math"
	"sort"
	"strconv"
	"strings"

	"google.golang.org/protobuf/encoding/protowire"
	"google.golang.org/protobuf/reflect/protoreflect"
)

type Opt struct {
	Thin        bool // two values per kind
	InvalidUTF8 bool // include invalid UTF-8 strings
	NoUnknown   bool // omit unknown-field slots
	NoExt       bool // omit extension slots
	MaxNested   int  // cap on nested alphabet size per message-typed field (0 = 24)
	NoNegZero   bool
	Fill        bool // add FILL slots that set all required fields of a message
	// EmptyComposite adds slots that call Mutable on a list / map field without
	// adding anything (a stored-but-empty composite, content-equal to absent).
	EmptyComposite bool
}

var (
	ints32   = []int32{0, 1, -1, math.MaxInt32, math.MinInt32}
	ints64   = []int64{0, 1, -1, math.MaxInt64, math.MinInt64, 1<<53 + 1}
	uints32  = []uint32{0, 1, 1 << 31, math.MaxUint32}
	uints64  = []uint64{0, 1, 1 << 63, math.MaxUint64, 1<<53 + 1}
	floats32 = []float32{0, float32(math.Copysign(0, -1)), 1.5, -1.5, float32(math.NaN()), float32(math.Inf(1)), float32(math.Inf(-1)), math.MaxFloat32, math.SmallestNonzeroFloat32, 0.1}
	floats64 = []float64{0, math.Copysign(0, -1), 1.5, -1.5, math.NaN(), math.Inf(1), math.Inf(-1), math.MaxFloat64, math.SmallestNonzeroFloat64, 0.1, float64(float32(0.1))}
	strs     = []string{"", "a", "é", "€", "😀", "\x7f", "\ufffd"} // U+FFFD is VALID UTF-8 that decodes to utf8.RuneError
	badStrs  = []string{"\x80", "\xc0\x80", "\xed\xa0\x80", "\xe2\x82", "a\xffb"}
	byteses  = [][]byte{nil, {}, {0}, []byte("ab"), {0xff, 0xfe}}
)

func thin[T any](o Opt, full []T, idx ...int) []T {
	if !o.Thin {
		return full
	}
	out := make([]T, 0, len(idx))
	for _, i := range idx {
		out = append(out, full[i])
	}
	return out
}

// ScalarValues returns the value alphabet of a scalar (non-message) kind.
func ScalarValues(fd protoreflect.FieldDescriptor, o Opt) []protoreflect.Value {
	var out []protoreflect.Value
	switch fd.Kind() {
	case protoreflect.BoolKind:
		out = append(out, protoreflect.ValueOfBool(false), protoreflect.ValueOfBool(true))
	case protoreflect.Int32Kind, protoreflect.Sint32Kind, protoreflect.Sfixed32Kind:
		for _, v := range thin(o, ints32, 0, 2, 3) {
			out = append(out, protoreflect.ValueOfInt32(v))
		}
	case protoreflect.Int64Kind, protoreflect.Sint64Kind, protoreflect.Sfixed64Kind:
		for _, v := range thin(o, ints64, 0, 2, 4) {
			out = append(out, protoreflect.ValueOfInt64(v))
		}
	case protoreflect.Uint32Kind, protoreflect.Fixed32Kind:
		for _, v := range thin(o, uints32, 0, 3) {
			out = append(out, protoreflect.ValueOfUint32(v))
		}
	case protoreflect.Uint64Kind, protoreflect.Fixed64Kind:
		for _, v := range thin(o, uints64, 0, 3) {
			out = append(out, protoreflect.ValueOfUint64(v))
		}
	case protoreflect.FloatKind:
		for _, v := range thin(o, floats32, 0, 1, 2, 4) {
			if o.NoNegZero && v == 0 && math.Signbit(float64(v)) {
				continue
			}
			out = append(out, protoreflect.ValueOfFloat32(v))
		}
	case protoreflect.DoubleKind:
		for _, v := range thin(o, floats64, 0, 1, 3, 4) {
			if o.NoNegZero && v == 0 && math.Signbit(v) {
				continue
			}
			out = append(out, protoreflect.ValueOfFloat64(v))
		}
	case protoreflect.StringKind:
		for _, v := range thin(o, strs, 0, 1, 3) {
			out = append(out, protoreflect.ValueOfString(v))
		}
		if o.InvalidUTF8 {
			for _, v := range thin(o, badStrs, 0, 4) {
				out = append(out, protoreflect.ValueOfString(v))
			}
		}
	case protoreflect.BytesKind:
		for _, v := range thin(o, byteses, 1, 4) {
			out = append(out, protoreflect.ValueOfBytes(v))
		}
	case protoreflect.EnumKind:
		ed := fd.Enum()
		vals := ed.Values()
		nums := []protoreflect.EnumNumber{vals.Get(0).Number()}
		if vals.Len() > 1 {
			nums = append(nums, vals.Get(vals.Len()-1).Number())
		}
		if !o.Thin {
			for i := 1; i < vals.Len()-1; i++ {
				if vals.Get(i).Number() < 0 || i == 1 {
					nums = append(nums, vals.Get(i).Number())
				}
			}
			if !ed.IsClosed() {
				// an undeclared number
				for _, cand := range []protoreflect.EnumNumber{12345, -7} {
					if vals.ByNumber(cand) == nil {
						nums = append(nums, cand)
					}
				}
			}
		}
		seen := map[protoreflect.EnumNumber]bool{}
		for _, n := range nums {
			if !seen[n] {
				seen[n] = true
				out = append(out, protoreflect.ValueOfEnum(n))
			}
		}
	}
	return out
}

// MapKeys returns the key alphabet of a map key field.
func MapKeys(kd protoreflect.FieldDescriptor, o Opt) []protoreflect.MapKey {
	var out []protoreflect.MapKey
	add := func(v protoreflect.Value) { out = append(out, v.MapKey()) }
	switch kd.Kind() {
	case protoreflect.BoolKind:
		add(protoreflect.ValueOfBool(false))
		add(protoreflect.ValueOfBool(true))
	case protoreflect.Int32Kind, protoreflect.Sint32Kind, protoreflect.Sfixed32Kind:
		add(protoreflect.ValueOfInt32(0))
		add(protoreflect.ValueOfInt32(-1))
		if !o.Thin {
			add(protoreflect.ValueOfInt32(10))
			add(protoreflect.ValueOfInt32(9))
		}
	case protoreflect.Int64Kind, protoreflect.Sint64Kind, protoreflect.Sfixed64Kind:
		add(protoreflect.ValueOfInt64(0))
		add(protoreflect.ValueOfInt64(math.MinInt64))
		if !o.Thin {
			add(protoreflect.ValueOfInt64(10))
			add(protoreflect.ValueOfInt64(9))
		}
	case protoreflect.Uint32Kind, protoreflect.Fixed32Kind:
		add(protoreflect.ValueOfUint32(0))
		add(protoreflect.ValueOfUint32(math.MaxUint32))
		if !o.Thin {
			add(protoreflect.ValueOfUint32(10))
			add(protoreflect.ValueOfUint32(9))
		}
	case protoreflect.Uint64Kind, protoreflect.Fixed64Kind:
		add(protoreflect.ValueOfUint64(0))
		add(protoreflect.ValueOfUint64(math.MaxUint64))
		if !o.Thin {
			add(protoreflect.ValueOfUint64(10))
			add(protoreflect.ValueOfUint64(9))
		}
	case protoreflect.StringKind:
		add(protoreflect.ValueOfString(""))
		add(protoreflect.ValueOfString("b"))
		if !o.Thin {
			add(protoreflect.ValueOfString("a"))
			add(protoreflect.ValueOfString("é"))
		}
		if o.InvalidUTF8 {
			add(protoreflect.ValueOfString("\xff"))
			add(protoreflect.ValueOfString("\ufffd"))
		}
	}
	return out
}

// FormatValue prints a scalar value canonically (floats by bit pattern class).
func FormatValue(v protoreflect.Value) string {
	switch x := v.Interface().(type) {
	case bool:
		return strconv.FormatBool(x)
	case int32:
		return "i" + strconv.FormatInt(int64(x), 10)
	case int64:
		return "I" + strconv.FormatInt(x, 10)
	case uint32:
		return "u" + strconv.FormatUint(uint64(x), 10)
	case uint64:
		return "U" + strconv.FormatUint(x, 10)
	case float32:
		if x != x {
			return "f:nan"
		}
		return fmt.Sprintf("f:%08x", math.Float32bits(x))
	case float64:
		if x != x {
			return "d:nan"
		}
		return fmt.Sprintf("d:%016x", math.Float64bits(x))
	case string:
		return strconv.Quote(x)
	case []byte:
		return "y" + fmt.Sprintf("%x", x)
	case protoreflect.EnumNumber:
		return "e" + strconv.FormatInt(int64(x), 10)
	}
	return fmt.Sprintf("?%T", v.Interface())
}

func formatKey(k protoreflect.MapKey) string { return FormatValue(k.Value()) }

func sortKeys(keys []protoreflect.MapKey) {
	sort.Slice(keys, func(i, j int) bool {
		a, b := keys[i].Interface(), keys[j].Interface()
		switch x := a.(type) {
		case bool:
			return !x && b.(bool)
		case int32:
			return x < b.(int32)
		case int64:
			return x < b.(int64)
		case uint32:
			return x < b.(uint32)
		case uint64:
			return x < b.(uint64)
		case string:
			return x < b.(string)
		}
		return false
	})
}

// Snapshot is a canonical, type-name-free dump of the content of m as seen
// through protoreflect: populated fields by number, lists, maps by sorted key,
// extensions by number, unknown bytes. NaNs are identified.
func Snapshot(m protoreflect.Message) string {
	var sb strings.Builder
	snapshot(&sb, m, false)
	return sb.String()
}

// EqualKey is the reference model of proto.Equal: two messages of one type
// are equal iff their keys are. It differs from Snapshot in identifying -0
// with +0 (Equal compares floats with ==) and in grouping unknown records by
// field number (order within a number is kept).
func EqualKey(m protoreflect.Message) string {
	var sb strings.Builder
	snapshot(&sb, m, true)
	return sb.String()
}

func snapshot(sb *strings.Builder, m protoreflect.Message, eqkey bool) {
	mode := 0
	if eqkey {
		mode = 1
	}
	snapshotMode(sb, m, mode)
}

func snapshotMode(sb *strings.Builder, m protoreflect.Message, mode int) {
	eqkey := mode == 1
	if !m.IsValid() {
		sb.WriteString("<invalid>")
	}
	sb.WriteByte('{')
	fds := m.Descriptor().Fields()
	idx := make([]int, fds.Len())
	for i := range idx {
		idx[i] = i
	}
	sort.Slice(idx, func(a, b int) bool { return fds.Get(idx[a]).Number() < fds.Get(idx[b]).Number() })
	for _, i := range idx {
		fd := fds.Get(i)
		if !m.Has(fd) {
			continue
		}
		fmt.Fprintf(sb, "%d:", fd.Number())
		snapValue(sb, fd, m.Get(fd), mode)
		sb.WriteByte(' ')
	}
	var exts []protoreflect.FieldDescriptor
	vals := map[protoreflect.FieldNumber]protoreflect.Value{}
	m.Range(func(fd protoreflect.FieldDescriptor, v protoreflect.Value) bool {
		if fd.IsExtension() {
			exts = append(exts, fd)
			vals[fd.Number()] = v
		}
		return true
	})
	sort.Slice(exts, func(a, b int) bool { return exts[a].Number() < exts[b].Number() })
	for _, fd := range exts {
		fmt.Fprintf(sb, "x%d:", fd.Number())
		snapValue(sb, fd, vals[fd.Number()], mode)
		sb.WriteByte(' ')
	}
	if u := m.GetUnknown(); len(u) > 0 {
		if eqkey {
			u = groupUnknown(u)
		}
		if mode == 3 {
			u = NormUnknownRecords(u)
		}
		if mode == 2 {
			u = NormUnknownTags(u)
		}
		fmt.Fprintf(sb, "?:%x", []byte(u))
	}
	sb.WriteByte('}')
}

// SnapshotNorm is Snapshot with the tag of every unknown record re-encoded in
// minimal form (the fast path normalises unknown tags, the reflection path
// keeps them verbatim; payload bytes are never changed).
func SnapshotNorm(m protoreflect.Message) string {
	var sb strings.Builder
	snapshotMode(&sb, m, 2)
	return sb.String()
}

// SnapshotCanon is Snapshot with unknown fields compared as records (number,
// wire type, payload): tags and the length prefixes of length-delimited
// records are re-encoded minimally, the payload bytes are kept.
func SnapshotCanon(m protoreflect.Message) string {
	var sb strings.Builder
	snapshotMode(&sb, m, 3)
	return sb.String()
}

// NormUnknownRecords re-encodes the tag and, for length-delimited records,
// the length prefix of each top-level record minimally.
func NormUnknownRecords(u []byte) []byte {
	var out []byte
	b := u
	for len(b) > 0 {
		num, typ, tn := protowire.ConsumeTag(b)
		if tn < 0 {
			return u
		}
		n := protowire.ConsumeFieldValue(num, typ, b[tn:])
		if n < 0 {
			return u
		}
		out = protowire.AppendTag(out, num, typ)
		if typ == protowire.BytesType {
			v, _ := protowire.ConsumeBytes(b[tn:])
			out = protowire.AppendBytes(out, v)
		} else {
			out = append(out, b[tn:tn+n]...)
		}
		b = b[tn+n:]
	}
	return out
}

// NormUnknownTags re-encodes the tag of each top-level record minimally.
func NormUnknownTags(u []byte) []byte {
	var out []byte
	b := u
	for len(b) > 0 {
		num, typ, tn := protowire.ConsumeTag(b)
		if tn < 0 {
			return u
		}
		n := protowire.ConsumeFieldValue(num, typ, b[tn:])
		if n < 0 {
			return u
		}
		out = protowire.AppendTag(out, num, typ)
		out = append(out, b[tn:tn+n]...)
		b = b[tn+n:]
	}
	return out
}

// groupUnknown stable-sorts unknown records by field number.
func groupUnknown(u protoreflect.RawFields) protoreflect.RawFields {
	type rec struct {
		num protowire.Number
		b   []byte
	}
	var recs []rec
	b := []byte(u)
	for len(b) > 0 {
		num, _, n := protowire.ConsumeField(b)
		if n < 0 {
			return u
		}
		recs = append(recs, rec{num, b[:n]})
		b = b[n:]
	}
	sort.SliceStable(recs, func(i, j int) bool { return recs[i].num < recs[j].num })
	var out []byte
	for _, r := range recs {
		out = append(out, r.b...)
	}
	return out
}

func snapValue(sb *strings.Builder, fd protoreflect.FieldDescriptor, v protoreflect.Value, eqkey int) {
	switch {
	case fd.IsList():
		l := v.List()
		sb.WriteByte('[')
		for i := 0; i < l.Len(); i++ {
			if i > 0 {
				sb.WriteByte(',')
			}
			snapSingle(sb, fd, l.Get(i), eqkey)
		}
		sb.WriteByte(']')
	case fd.IsMap():
		mp := v.Map()
		var keys []protoreflect.MapKey
		mp.Range(func(k protoreflect.MapKey, _ protoreflect.Value) bool { keys = append(keys, k); return true })
		sortKeys(keys)
		sb.WriteByte('<')
		for i, k := range keys {
			if i > 0 {
				sb.WriteByte(',')
			}
			sb.WriteString(formatKey(k))
			sb.WriteByte('=')
			snapSingle(sb, fd.MapValue(), mp.Get(k), eqkey)
		}
		sb.WriteByte('>')
	default:
		snapSingle(sb, fd, v, eqkey)
	}
}

func snapSingle(sb *strings.Builder, fd protoreflect.FieldDescriptor, v protoreflect.Value, mode int) {
	if fd.Message() != nil {
		snapshotMode(sb, v.Message(), mode)
		return
	}
	if mode == 1 {
		switch x := v.Interface().(type) {
		case float32:
			if x == 0 {
				v = protoreflect.ValueOfFloat32(0)
			}
		case float64:
			if x == 0 {
				v = protoreflect.ValueOfFloat64(0)
			}
		}
	}
	if fd.Kind() == protoreflect.BytesKind {
		// nil and empty bytes are the same content
		fmt.Fprintf(sb, "y%x", v.Bytes())
		return
	}
	sb.WriteString(FormatValue(v))
}

// NormSnap is a no-op hook kept for symmetry with SnapshotNorm: snapshots of
// built messages carry unknown records whose tags are already minimal.
func NormSnap(s string) string { return s }
