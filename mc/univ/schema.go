package univ

import (
	"fmt"

	"google.golang.org/protobuf/proto"
	"google.golang.org/protobuf/reflect/protodesc"
	"google.golang.org/protobuf/reflect/protoreflect"
	"google.golang.org/protobuf/reflect/protoregistry"
	"google.golang.org/protobuf/types/descriptorpb"
	"google.golang.org/protobuf/types/dynamicpb"
)

// DynFlavor wraps a descriptor that exists only dynamically.
func DynFlavor(md protoreflect.MessageDescriptor) Flavor {
	return Flavor{Name: "dynamicpb:" + string(md.FullName()), MT: dynamicpb.NewMessageType(md), Res: DynTypes{}, Dynamic: true}
}

func fieldProto(name string, num int32, typ descriptorpb.FieldDescriptorProto_Type, label descriptorpb.FieldDescriptorProto_Label, typeName string) *descriptorpb.FieldDescriptorProto {
	f := &descriptorpb.FieldDescriptorProto{Name: proto.String(name), Number: proto.Int32(num), Type: typ.Enum(), Label: label.Enum(), JsonName: nil}
	if typeName != "" {
		f.TypeName = proto.String(typeName)
	}
	return f
}

// OneofPositionSchemas returns messages in which a oneof with q members
// follows p ordinary fields (p in 0..3, q in 1..4), for proto2 and proto3.
func OneofPositionSchemas() []protoreflect.MessageDescriptor {
	var out []protoreflect.MessageDescriptor
	opt := descriptorpb.FieldDescriptorProto_LABEL_OPTIONAL
	for _, syntax := range []string{"proto2", "proto3"} {
		fdp := &descriptorpb.FileDescriptorProto{
			Name:    proto.String("verif/oneofpos_" + syntax + ".proto"),
			Package: proto.String("verif.oneofpos." + syntax),
			Syntax:  proto.String(syntax),
		}
		pkg := "." + fdp.GetPackage()
		fdp.EnumType = []*descriptorpb.EnumDescriptorProto{{Name: proto.String("Kind"), Value: []*descriptorpb.EnumValueDescriptorProto{{Name: proto.String("KIND_ZERO"), Number: proto.Int32(0)}, {Name: proto.String("KIND_ONE"), Number: proto.Int32(1)}}}}
		fdp.MessageType = append(fdp.MessageType, &descriptorpb.DescriptorProto{Name: proto.String("Inner"), Field: []*descriptorpb.FieldDescriptorProto{
			fieldProto("a", 1, descriptorpb.FieldDescriptorProto_TYPE_INT32, opt, ""),
			fieldProto("b", 2, descriptorpb.FieldDescriptorProto_TYPE_STRING, opt, ""),
		}})
		for p := 0; p <= 3; p++ {
			for q := 1; q <= 4; q++ {
				m := &descriptorpb.DescriptorProto{Name: proto.String(fmt.Sprintf("M_p%d_q%d", p, q))}
				num := int32(1)
				for i := 0; i < p; i++ {
					m.Field = append(m.Field, fieldProto(fmt.Sprintf("f%d", i), num, descriptorpb.FieldDescriptorProto_TYPE_INT32, opt, ""))
					num++
				}
				m.OneofDecl = []*descriptorpb.OneofDescriptorProto{{Name: proto.String("payload")}}
				kinds := []struct {
					t  descriptorpb.FieldDescriptorProto_Type
					tn string
				}{
					{descriptorpb.FieldDescriptorProto_TYPE_STRING, ""},
					{descriptorpb.FieldDescriptorProto_TYPE_MESSAGE, pkg + ".Inner"},
					{descriptorpb.FieldDescriptorProto_TYPE_BYTES, ""},
					{descriptorpb.FieldDescriptorProto_TYPE_ENUM, pkg + ".Kind"},
				}
				for i := 0; i < q; i++ {
					f := fieldProto(fmt.Sprintf("m%d", i), num, kinds[i].t, opt, kinds[i].tn)
					f.OneofIndex = proto.Int32(0)
					m.Field = append(m.Field, f)
					num++
				}
				m.Field = append(m.Field, fieldProto("tail", num, descriptorpb.FieldDescriptorProto_TYPE_INT32, opt, ""))
				fdp.MessageType = append(fdp.MessageType, m)
			}
		}
		fd, err := protodesc.NewFile(fdp, protoregistry.GlobalFiles)
		if err != nil {
			panic(fmt.Sprintf("univ: oneof position schema: %v", err))
		}
		for i := 0; i < fd.Messages().Len(); i++ {
			if md := fd.Messages().Get(i); md.Name() != "Inner" {
				out = append(out, md)
			}
		}
	}
	return out
}
