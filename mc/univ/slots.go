package univ

import (
	"fmt"
	"sort"
	"strings"

	"google.golang.org/protobuf/encoding/protowire"
	"google.golang.org/protobuf/reflect/protoreflect"
	"google.golang.org/protobuf/reflect/protoregistry"
	"google.golang.org/protobuf/types/dynamicpb"
)

type Op int

const (
	OpSet Op = iota
	OpAppend
	OpMapPut
	OpMsg
	OpAppendMsg
	OpMapMsg
	OpUnknown
	OpFill  // set every required field of the message (recursively for required message fields)
	OpTouch // Mutable on a list / map without adding anything (stored-but-empty composite)
)

// Slot is one population action, addressed by field number so that it applies
// to any message type with the same schema shape.
type Slot struct {
	Num  protoreflect.FieldNumber
	Ext  bool
	Op   Op
	Val  protoreflect.Value
	Key  protoreflect.MapKey
	Sub  *Slot
	Raw  []byte
	Name string
}

func (s *Slot) String() string { return s.Name }

// ExtResolver finds extension types for a message.
type ExtResolver interface {
	FindExtensionByNumber(message protoreflect.FullName, field protoreflect.FieldNumber) (protoreflect.ExtensionType, error)
}

// DynamicExt resolves extensions to dynamicpb extension types over the
// descriptors registered in GlobalTypes (for dynamicpb twins).
type DynamicExt struct{}

func (DynamicExt) FindExtensionByNumber(message protoreflect.FullName, field protoreflect.FieldNumber) (protoreflect.ExtensionType, error) {
	xt, err := protoregistry.GlobalTypes.FindExtensionByNumber(message, field)
	if err != nil {
		return nil, err
	}
	return dynamicpb.NewExtensionType(xt.TypeDescriptor().Descriptor()), nil
}

func copyVal(v protoreflect.Value) protoreflect.Value {
	if b, ok := v.Interface().([]byte); ok {
		if b == nil {
			return protoreflect.ValueOfBytes(nil)
		}
		return protoreflect.ValueOfBytes(append([]byte{}, b...))
	}
	return v
}

func fieldOf(m protoreflect.Message, s *Slot, res ExtResolver) protoreflect.FieldDescriptor {
	if s.Ext {
		if res == nil {
			res = protoregistry.GlobalTypes
		}
		xt, err := res.FindExtensionByNumber(m.Descriptor().FullName(), s.Num)
		if err != nil {
			panic(fmt.Sprintf("univ: no extension %d of %s", s.Num, m.Descriptor().FullName()))
		}
		return xt.TypeDescriptor()
	}
	fd := m.Descriptor().Fields().ByNumber(s.Num)
	if fd == nil {
		panic(fmt.Sprintf("univ: no field %d in %s", s.Num, m.Descriptor().FullName()))
	}
	return fd
}

// Apply performs the slot's action on m.
func Apply(m protoreflect.Message, s *Slot, res ExtResolver) {
	if s.Op == OpUnknown {
		m.SetUnknown(append(append(protoreflect.RawFields{}, m.GetUnknown()...), s.Raw...))
		return
	}
	if s.Op == OpFill {
		FillRequired(m)
		return
	}
	fd := fieldOf(m, s, res)
	switch s.Op {
	case OpSet:
		m.Set(fd, copyVal(s.Val))
	case OpTouch:
		m.Mutable(fd)
	case OpAppend:
		m.Mutable(fd).List().Append(copyVal(s.Val))
	case OpMapPut:
		m.Mutable(fd).Map().Set(s.Key, copyVal(s.Val))
	case OpMsg:
		sub := m.Mutable(fd).Message()
		if s.Sub != nil {
			Apply(sub, s.Sub, res)
		}
	case OpAppendMsg:
		l := m.Mutable(fd).List()
		e := l.NewElement()
		if s.Sub != nil {
			Apply(e.Message(), s.Sub, res)
		}
		l.Append(e)
	case OpMapMsg:
		mp := m.Mutable(fd).Map()
		v := mp.Mutable(s.Key).Message()
		if s.Sub != nil {
			Apply(v, s.Sub, res)
		}
	}
}

// FillRequired sets every required field of m that is not yet populated.
func FillRequired(m protoreflect.Message) {
	md := m.Descriptor()
	nums := md.RequiredNumbers()
	for i := 0; i < nums.Len(); i++ {
		fd := md.Fields().ByNumber(nums.Get(i))
		if fd.Message() != nil {
			FillRequired(m.Mutable(fd).Message())
			continue
		}
		if m.Has(fd) {
			continue
		}
		vals := ScalarValues(fd, Opt{Thin: true})
		m.Set(fd, copyVal(vals[len(vals)-1]))
	}
}

// HasRequired reports whether md or anything reachable from it declares a
// required field.
func HasRequired(md protoreflect.MessageDescriptor) bool {
	return hasRequired(md, map[protoreflect.FullName]bool{})
}

func hasRequired(md protoreflect.MessageDescriptor, seen map[protoreflect.FullName]bool) bool {
	if seen[md.FullName()] {
		return false
	}
	seen[md.FullName()] = true
	if md.RequiredNumbers().Len() > 0 {
		return true
	}
	for i := 0; i < md.Fields().Len(); i++ {
		if sub := md.Fields().Get(i).Message(); sub != nil && hasRequired(sub, seen) {
			return true
		}
	}
	return false
}

// Build applies slots in order to a new message of type mt.
func Build(mt protoreflect.MessageType, slots []*Slot, res ExtResolver) protoreflect.Message {
	m := mt.New()
	for _, s := range slots {
		Apply(m, s, res)
	}
	return m
}

func Names(slots []*Slot) string {
	var parts []string
	for _, s := range slots {
		parts = append(parts, s.Name)
	}
	return "[" + strings.Join(parts, " ; ") + "]"
}

// SortedFields returns the fields of md in field-number order.
func SortedFields(md protoreflect.MessageDescriptor) []protoreflect.FieldDescriptor {
	fds := md.Fields()
	out := make([]protoreflect.FieldDescriptor, fds.Len())
	for i := range out {
		out[i] = fds.Get(i)
	}
	sort.Slice(out, func(a, b int) bool { return out[a].Number() < out[b].Number() })
	return out
}

// Extensions returns the registered extensions of md in field-number order
// (RangeExtensionsByMessage is map-ordered).
func Extensions(md protoreflect.MessageDescriptor) []protoreflect.ExtensionType {
	var out []protoreflect.ExtensionType
	protoregistry.GlobalTypes.RangeExtensionsByMessage(md.FullName(), func(xt protoreflect.ExtensionType) bool {
		out = append(out, xt)
		return true
	})
	sort.Slice(out, func(a, b int) bool {
		return out[a].TypeDescriptor().Number() < out[b].TypeDescriptor().Number()
	})
	return out
}

// UnusedNumbers returns field numbers of md that are neither declared fields
// nor registered extensions.
func UnusedNumbers(md protoreflect.MessageDescriptor) []protoreflect.FieldNumber {
	used := map[protoreflect.FieldNumber]bool{}
	for _, fd := range SortedFields(md) {
		used[fd.Number()] = true
	}
	for _, xt := range Extensions(md) {
		used[xt.TypeDescriptor().Number()] = true
	}
	var out []protoreflect.FieldNumber
	for _, cand := range []protoreflect.FieldNumber{1, 2, 3, 7, 15, 16, 99, 1999, 2047, 2048, 100000, 1<<29 - 1} {
		if !used[cand] && !(cand >= 19000 && cand <= 19999) {
			out = append(out, cand)
		}
	}
	return out
}

// Alphabet returns the slot alphabet of md down to the given nesting depth.
func Alphabet(md protoreflect.MessageDescriptor, depth int, o Opt) []*Slot {
	var out []*Slot
	maxNested := o.MaxNested
	if maxNested == 0 {
		maxNested = 24
	}
	nested := func(sub protoreflect.MessageDescriptor) []*Slot {
		subs := []*Slot{nil}
		if o.Fill && depth <= 1 && sub.RequiredNumbers().Len() > 0 {
			subs = append(subs, &Slot{Op: OpFill, Name: "FILL"})
		}
		if depth > 1 {
			so := o
			so.Thin = true
			so.NoExt = true
			a := Alphabet(sub, depth-1, so)
			if len(a) > maxNested {
				// keep a spread of the nested alphabet
				step := float64(len(a)) / float64(maxNested)
				var b []*Slot
				for i := 0; i < maxNested; i++ {
					b = append(b, a[int(float64(i)*step)])
				}
				a = b
			}
			subs = append(subs, a...)
		}
		return subs
	}
	subName := func(s *Slot) string {
		if s == nil {
			return ""
		}
		return s.Name
	}
	addField := func(fd protoreflect.FieldDescriptor, ext bool) {
		pfx := fmt.Sprintf("%d", fd.Number())
		if ext {
			pfx = "x" + pfx
		}
		if o.EmptyComposite && (fd.IsMap() || fd.IsList()) {
			out = append(out, &Slot{Num: fd.Number(), Ext: ext, Op: OpTouch, Name: pfx + ".touch"})
		}
		switch {
		case fd.IsMap():
			all := MapKeys(fd.MapKey(), o)
			keys := all
			if o.Thin {
				keys = keys[:1]
			} else if len(keys) > 2 {
				keys = keys[:2]
			}
			if o.InvalidUTF8 && fd.MapKey().Kind() == protoreflect.StringKind {
				// the keys this option exists for must survive the trimming
				keys = append(append([]protoreflect.MapKey{}, keys...), all[len(all)-2:]...)
			}
			vd := fd.MapValue()
			for _, k := range keys {
				if vd.Message() != nil {
					for _, sub := range nested(vd.Message()) {
						out = append(out, &Slot{Num: fd.Number(), Ext: ext, Op: OpMapMsg, Key: k, Sub: sub,
							Name: fmt.Sprintf("%s[%s]{%s}", pfx, formatKey(k), subName(sub))})
					}
				} else {
					vo := o
					vo.Thin = true
					for _, v := range ScalarValues(vd, vo) {
						out = append(out, &Slot{Num: fd.Number(), Ext: ext, Op: OpMapPut, Key: k, Val: v,
							Name: fmt.Sprintf("%s[%s]=%s", pfx, formatKey(k), FormatValue(v))})
					}
				}
			}
		case fd.IsList():
			if fd.Message() != nil {
				for _, sub := range nested(fd.Message()) {
					out = append(out, &Slot{Num: fd.Number(), Ext: ext, Op: OpAppendMsg, Sub: sub,
						Name: fmt.Sprintf("%s+={%s}", pfx, subName(sub))})
				}
			} else {
				for _, v := range ScalarValues(fd, o) {
					out = append(out, &Slot{Num: fd.Number(), Ext: ext, Op: OpAppend, Val: v,
						Name: fmt.Sprintf("%s+=%s", pfx, FormatValue(v))})
				}
			}
		default:
			if fd.Message() != nil {
				for _, sub := range nested(fd.Message()) {
					out = append(out, &Slot{Num: fd.Number(), Ext: ext, Op: OpMsg, Sub: sub,
						Name: fmt.Sprintf("%s{%s}", pfx, subName(sub))})
				}
			} else {
				for _, v := range ScalarValues(fd, o) {
					out = append(out, &Slot{Num: fd.Number(), Ext: ext, Op: OpSet, Val: v,
						Name: fmt.Sprintf("%s=%s", pfx, FormatValue(v))})
				}
			}
		}
	}
	if o.Fill && md.RequiredNumbers().Len() > 0 {
		out = append(out, &Slot{Op: OpFill, Name: "FILL"})
	}
	for _, fd := range SortedFields(md) {
		addField(fd, false)
	}
	if !o.NoExt {
		for _, xt := range Extensions(md) {
			addField(xt.TypeDescriptor(), true)
		}
	}
	if !o.NoUnknown {
		if un := UnusedNumbers(md); len(un) > 0 {
			n1 := un[0]
			n2 := un[len(un)-1]
			raws := [][]byte{
				protowire.AppendVarint(protowire.AppendTag(nil, n1, protowire.VarintType), 7),
				protowire.AppendBytes(protowire.AppendTag(nil, n2, protowire.BytesType), []byte("u")),
			}
			if !o.Thin {
				raws = append(raws,
					protowire.AppendFixed32(protowire.AppendTag(nil, n1, protowire.Fixed32Type), 0x01020304),
					protowire.AppendTag(protowire.AppendTag(nil, n2, protowire.StartGroupType), n2, protowire.EndGroupType),
					protowire.AppendFixed64(protowire.AppendTag(nil, n2, protowire.Fixed64Type), 0x0102030405060708),
				)
			}
			for _, r := range raws {
				out = append(out, &Slot{Op: OpUnknown, Raw: r, Name: fmt.Sprintf("unk(%x)", r)})
			}
		}
	}
	return out
}

// Tuples enumerates all slot lists of length <= k over alphabet a, shortest
// first, in lexicographic index order. f receives a slice it must not retain.
// idx is the flattened enumeration index space: use TupleCount/TupleAt for
// sharding.
func TupleCount(n, k int) int {
	total, p := 0, 1
	for i := 0; i <= k; i++ {
		total += p
		p *= n
	}
	return total
}

// TupleAt decodes enumeration index i into slot indices (length 0..k).
func TupleAt(n, k, i int, buf []int) []int {
	buf = buf[:0]
	p := 1
	for l := 0; l <= k; l++ {
		if i < p {
			// length l, index i within n^l
			for j := 0; j < l; j++ {
				buf = append(buf, 0)
			}
			for j := l - 1; j >= 0; j-- {
				buf[j] = i % n
				i /= n
			}
			return buf
		}
		i -= p
		p *= n
	}
	panic("TupleAt: index out of range")
}
