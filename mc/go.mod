module google.golang.org/protobuf/verifmc

go 1.23

require (
	github.com/google/go-cmp v0.7.0
	google.golang.org/protobuf v0.0.0
)

replace google.golang.org/protobuf => /repo
