module google.golang.org/protobuf/verifmc

go 1.23

require google.golang.org/protobuf v0.0.0

replace google.golang.org/protobuf => /repo
