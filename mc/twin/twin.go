// Package twin compares two implementations of one schema (a generated or
// legacy type and dynamicpb over the same descriptor) on everything the
// properties observe: reflection snapshot, deterministic bytes, Size,
// CheckInitialized, protojson, prototext, cross decoding.
package twin

import (
	"fmt"
	"strings"

	"google.golang.org/protobuf/encoding/protojson"
	"google.golang.org/protobuf/encoding/prototext"
	"google.golang.org/protobuf/proto"
	"google.golang.org/protobuf/reflect/protoreflect"
	"google.golang.org/protobuf/reflect/protoregistry"
	"google.golang.org/protobuf/verifmc/core"
	"google.golang.org/protobuf/verifmc/univ"
)

type Twin struct {
	Name     string
	Leg, Dyn univ.Flavor
	// noUnknown: the old Go type has no storage for unknown fields (generated proto3 code before
	// 2018 has no XXX_unrecognized); content with unknown fields does not exist for such a type,
	// so both sides decode with DiscardUnknown and unknown-field slots are left out.
	NoUnknown bool
	// What names the first flavour in violation signatures ("legacy message", "generated message").
	What string
}

func New(what, name string, leg, dyn univ.Flavor) Twin {
	m := leg.MT.New()
	m.SetUnknown([]byte{0x08, 0x07})
	return Twin{name, leg, dyn, len(m.GetUnknown()) == 0, what}
}

// observe renders everything the property compares for one message.
func Observe(m protoreflect.Message) (string, []byte) {
	var sb strings.Builder
	sb.WriteString("snap=" + univ.Snapshot(m))
	b, err := proto.MarshalOptions{Deterministic: true, AllowPartial: true}.Marshal(m.Interface())
	fmt.Fprintf(&sb, "\nwire=%x err=%v size=%d", b, err != nil, proto.Size(m.Interface()))
	if len(b) != proto.Size(m.Interface()) {
		sb.WriteString(" SIZE!=LEN")
	}
	fmt.Fprintf(&sb, "\ninit=%v", proto.CheckInitialized(m.Interface()) == nil)
	j, err := protojson.MarshalOptions{AllowPartial: true}.Marshal(m.Interface())
	fmt.Fprintf(&sb, "\njson=%s err=%v", j, err != nil)
	j2, err := protojson.MarshalOptions{AllowPartial: true, EmitUnpopulated: true, UseProtoNames: true, UseEnumNumbers: true}.Marshal(m.Interface())
	fmt.Fprintf(&sb, "\njson2=%s err=%v", j2, err != nil)
	t, err := prototext.MarshalOptions{AllowPartial: true}.Marshal(m.Interface())
	fmt.Fprintf(&sb, "\ntext=%s err=%v", t, err != nil)
	return sb.String(), b
}

func CompareBuilt(c *core.Ctx, tw Twin, slots []*univ.Slot) {
	name := univ.Names(slots)
	c.Eval(1)
	c.Guard(func() string { return fmt.Sprintf("type=%s case=%s", tw.Name, name) }, func() {
		ml, md := tw.Leg.Build(slots), tw.Dyn.Build(slots)
		ol, bl := Observe(ml)
		od, bd := Observe(md)
		if ol != od {
			c.Violation(fmt.Sprintf("%s and dynamicpb twin differ type=%s case=%s", tw.What, tw.Name, name), map[string]any{"first": ol, "dynamicpb": od})
			return
		}
		// decode each other's output
		xl, err1 := tw.Leg.Unmarshal(bd, proto.UnmarshalOptions{AllowPartial: true})
		xd, err2 := tw.Dyn.Unmarshal(bl, proto.UnmarshalOptions{AllowPartial: true})
		if err1 != nil || err2 != nil {
			c.Violation(fmt.Sprintf("cross decoding fails type=%s case=%s", tw.Name, name), fmt.Sprint(err1, " / ", err2))
			return
		}
		if univ.SnapshotNorm(xl) != univ.SnapshotNorm(ml) || univ.SnapshotNorm(xd) != univ.SnapshotNorm(md) || !proto.Equal(xl.Interface(), ml.Interface()) {
			c.Violation(fmt.Sprintf("content changes when %s and dynamicpb decode each other's output type=%s case=%s", tw.What, tw.Name, name), map[string]any{"legacy<-dyn": univ.Snapshot(xl), "dyn<-legacy": univ.Snapshot(xd), "orig": univ.Snapshot(ml)})
		}
		// clone / merge through the legacy wrapper
		cl := proto.Clone(ml.Interface())
		if univ.Snapshot(cl.ProtoReflect()) != univ.Snapshot(ml) {
			c.Violation(fmt.Sprintf("Clone of %s differs type=%s case=%s", tw.What, tw.Name, name), nil)
		}
		// JSON / text parse back into the legacy type
		j, err := protojson.MarshalOptions{AllowPartial: true}.Marshal(md.Interface())
		if err == nil {
			back := tw.Leg.MT.New()
			if err := (protojson.UnmarshalOptions{AllowPartial: true, Resolver: protoregistry.GlobalTypes}).Unmarshal(j, back.Interface()); err != nil {
				c.Violation(fmt.Sprintf("%s rejects the JSON of its twin type=%s case=%s", tw.What, tw.Name, name), err.Error())
			} else if univ.SnapshotNorm(back) != univ.SnapshotNorm(dropUnknown(ml)) {
				c.Violation(fmt.Sprintf("%s parses JSON of its twin to different content type=%s case=%s", tw.What, tw.Name, name), map[string]any{"json": string(j), "got": univ.Snapshot(back), "want": univ.Snapshot(ml)})
			}
		}
	})
}

func dropUnknown(m protoreflect.Message) protoreflect.Message {
	c := proto.Clone(m.Interface()).ProtoReflect()
	var walk func(m protoreflect.Message)
	walk = func(m protoreflect.Message) {
		m.SetUnknown(nil)
		m.Range(func(fd protoreflect.FieldDescriptor, v protoreflect.Value) bool {
			switch {
			case fd.IsList() && fd.Message() != nil:
				for i := 0; i < v.List().Len(); i++ {
					walk(v.List().Get(i).Message())
				}
			case fd.IsMap() && fd.MapValue().Message() != nil:
				v.Map().Range(func(_ protoreflect.MapKey, mv protoreflect.Value) bool { walk(mv.Message()); return true })
			case fd.Message() != nil && !fd.IsMap() && !fd.IsList():
				walk(v.Message())
			}
			return true
		})
	}
	walk(c)
	return c
}

func CompareWire(c *core.Ctx, tw Twin, in []byte, name string) {
	c.Eval(1)
	c.Guard(func() string { return fmt.Sprintf("type=%s wire=%s", tw.Name, name) }, func() {
		for _, partial := range []bool{true, false} {
			ml, el := tw.Leg.Unmarshal(in, proto.UnmarshalOptions{AllowPartial: partial, DiscardUnknown: tw.NoUnknown})
			md, ed := tw.Dyn.Unmarshal(in, proto.UnmarshalOptions{AllowPartial: partial, DiscardUnknown: tw.NoUnknown})
			if (el == nil) != (ed == nil) {
				c.Violation(fmt.Sprintf("Unmarshal verdict differs (AllowPartial=%v) type=%s wire=%s", partial, tw.Name, name), fmt.Sprint(el, " / ", ed))
				return
			}
			if el != nil {
				continue
			}
			ol, _ := ObserveNorm(ml)
			od, _ := ObserveNorm(md)
			if ol != od {
				c.Violation(fmt.Sprintf("decoded %s and dynamicpb twin differ type=%s wire=%s", tw.What, tw.Name, name), map[string]any{"first": ol, "dynamicpb": od})
				return
			}
		}
	})
}

// observeNorm is observe with unknown-field tags normalised (the table-driven
// and reflective decoders may keep non-minimal tag varints differently).
func ObserveNorm(m protoreflect.Message) (string, []byte) {
	s, b := Observe(m)
	i := strings.Index(s, "\nwire=")
	return "snap=" + univ.SnapshotNorm(m) + s[i:], b
}
