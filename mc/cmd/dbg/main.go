package main

import (
	"fmt"

	"google.golang.org/protobuf/proto"
	"google.golang.org/protobuf/verifmc/univ"
)

func main() {
	for _, f := range []univ.Flavor{univ.Gen("goproto.proto.test.TestAllTypes"), univ.Dyn("goproto.proto.test.TestAllTypes")} {
		// field 21 optional_nested_enum = 12345 ; 51 repeated_nested_enum ; map 73 map_string_nested_enum
		in := []byte{0xa8, 0x01, 0xb9, 0x60}
		m, err := f.Unmarshal(in, proto.UnmarshalOptions{})
		fmt.Println(f.Name, err, univ.Snapshot(m))
	}
}
