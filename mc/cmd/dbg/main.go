package main

import (
	"fmt"

	"google.golang.org/protobuf/proto"
	"google.golang.org/protobuf/verifmc/univ"
)

func main() {
	f := univ.Gen("opaque.lazy_tree.Node")
	in := []byte{0x9a, 0x06, 0x02, 0x08, 0x05, 0x9a, 0x06, 0x00}
	// 99:msg{<unk>}: find unknown number
	md := f.MT.Descriptor()
	fmt.Println(univ.UnusedNumbers(md))
	in = []byte{0x9a, 0x06, 0x03, 0x80, 0x01, 0x05, 0x9a, 0x06, 0x00}
	m, err := f.Unmarshal(in, proto.UnmarshalOptions{AllowPartial: true})
	fmt.Println(err)
	mi := m.Interface()
	mo := proto.MarshalOptions{AllowPartial: true}
	fmt.Println("size", mo.Size(mi))
	b, _ := mo.Marshal(mi)
	fmt.Printf("marshal %x\n", b)
	fmt.Println("size", mo.Size(mi))
	for _, p := range [][]byte{nil, {}, make([]byte, 0, 64), {1}, {1, 2, 3}} {
		out, err := mo.MarshalAppend(p, mi)
		fmt.Printf("append %x %v\n", out, err)
	}
	b, _ = mo.Marshal(mi)
	fmt.Printf("marshal %x\n", b)
}
