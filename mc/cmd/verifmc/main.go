// Command verifmc runs one model-checking check of /verif against /repo.
package main

import (
	"flag"
	"fmt"
	"os"
	"sort"
	"time"

	"google.golang.org/protobuf/verifmc/core"
)

func main() {
	id := flag.String("check", "", "property id (Cnn)")
	tier := flag.String("tier", "quick", "quick|thorough")
	budget := flag.Duration("budget", 0, "internal time budget (0 = tier default)")
	list := flag.Bool("list", false, "list checks")
	flag.Parse()
	if *list {
		var ids []string
		for k := range core.Checks {
			ids = append(ids, k)
		}
		sort.Strings(ids)
		for _, k := range ids {
			fmt.Println(k, core.Checks[k].Level)
		}
		return
	}
	ck := core.Checks[*id]
	if ck == nil {
		fmt.Fprintf(os.Stderr, "unknown check %q (not linked in this configuration)\n", *id)
		os.Exit(2)
	}
	c := core.NewCtx(ck.ID, *tier, ck.Level)
	b := *budget
	if b == 0 {
		b = core.Pick(c, 150*time.Second, 40*time.Minute)
	}
	c.Deadline = time.Now().Add(b)
	// a panic that escapes the check's main goroutine is a verdict about the library
	// (checks guard their own harness code), not a crash of the checker
	c.Safely(func() { ck.Run(c) })
	os.Exit(c.Finish())
}
