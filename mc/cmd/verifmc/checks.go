package main

import (
	_ "google.golang.org/protobuf/verifmc/checks/c01"
	_ "google.golang.org/protobuf/verifmc/checks/c02"
	_ "google.golang.org/protobuf/verifmc/checks/c03"
	_ "google.golang.org/protobuf/verifmc/checks/c05"
	_ "google.golang.org/protobuf/verifmc/checks/c06"
	_ "google.golang.org/protobuf/verifmc/checks/c07"
	_ "google.golang.org/protobuf/verifmc/checks/c08"
	_ "google.golang.org/protobuf/verifmc/checks/c09"
	_ "google.golang.org/protobuf/verifmc/checks/c10"
	_ "google.golang.org/protobuf/verifmc/checks/c13"
	_ "google.golang.org/protobuf/verifmc/checks/c14"
	_ "google.golang.org/protobuf/verifmc/checks/c15"
	_ "google.golang.org/protobuf/verifmc/checks/c16"
	_ "google.golang.org/protobuf/verifmc/checks/c17"
	_ "google.golang.org/protobuf/verifmc/checks/c20"
	_ "google.golang.org/protobuf/verifmc/checks/c21"
	_ "google.golang.org/protobuf/verifmc/checks/c24"
	_ "google.golang.org/protobuf/verifmc/checks/c30"
	_ "google.golang.org/protobuf/verifmc/checks/refl"
)
