package main

import (
	"fmt"

	"google.golang.org/protobuf/verifmc/univ"
)

func main() {
	ts := univ.AllMessageTypes()
	fmt.Println("types", len(ts), "files", len(univ.AllFiles()))
	for _, n := range []string{"goproto.proto.test.TestAllTypes", "goproto.proto.test3.TestAllTypes", "goproto.proto.testeditions.TestAllTypes", "opaque.goproto.proto.testeditions.TestAllTypes", "goproto.proto.test.TestAllExtensions", "opaque.lazy_tree.Node", "goproto.proto.fuzz.Fuzz"} {
		md := univ.MT(n).Descriptor()
		for _, d := range []int{1, 2} {
			a := univ.Alphabet(md, d, univ.Opt{})
			at := univ.Alphabet(md, d, univ.Opt{Thin: true})
			fmt.Printf("%s depth=%d alphabet=%d thin=%d\n", n, d, len(a), len(at))
		}
	}
}
