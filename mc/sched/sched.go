// Package sched is a cooperative scheduler and stateless schedule explorer for
// real Go code whose synchronisation operations have been redirected (by a
// build overlay) to the shim packages xsync and xatomic. Exactly one
// scheduled goroutine runs at a time; at every synchronisation operation it
// hands control to the controller, which picks the next thread. The explorer
// enumerates every schedule with at most B preemptions (iterative context
// bounding, Musuvathi & Qadeer 2007) by depth-first replay of choice prefixes.
//
// The package uses only the standard library so that the shims can be
// imported from inside the library under test.
package sched

import (
	"fmt"
	"runtime"
	"runtime/debug"
	"strings"
	"unsafe"
)

// ShimLinked is set by the shim packages; it tells a check whether the binary
// was built with the overlay.
var ShimLinked bool

type thread struct {
	id      int
	wake    chan struct{}
	done    bool
	blocked any // the lock object this thread waits for
	started bool
}

// Decision is one scheduling point of an execution.
type Decision struct {
	Running int    // thread that reached the point (-1 at start)
	Kind    string // operation about to be performed
	Enabled []int  // enabled thread ids in canonical order (running first)
	Chosen  int    // index into Enabled
}

type coldLoad struct {
	site uintptr
	addr unsafe.Pointer
}

type run struct {
	written map[unsafe.Pointer]bool
	cold    []coldLoad
	threads []*thread
	cur     *thread
	yield   chan struct{}
	choices []int
	trace   []Decision
	kind    string
	active  bool
	failure string
}

var cur *run

// Active reports whether an exploration run is in progress.
func Active() bool { return cur != nil && cur.active }

// hot is the set of call sites of atomic loads (and other read-like
// operations) that have been seen to read a location written during the same
// execution. Only those loads are scheduling points: a load of a location that
// no thread writes during the execution commutes with every other operation,
// so leaving it out loses no behaviour. Explore learns the set and restarts
// the exploration whenever it grows; the final complete pass has verified, for
// every one of its executions, that no skipped load touched a written location.
var hot map[uintptr]bool

func callerSite() uintptr {
	var pc [1]uintptr
	runtime.Callers(4, pc[:])
	return pc[0]
}

// Load is called by the shims before a read-like synchronisation operation on addr.
func Load(kind string, addr unsafe.Pointer) {
	r := cur
	if r == nil || !r.active || r.cur == nil {
		return
	}
	site := callerSite()
	if !hot[site] {
		r.cold = append(r.cold, coldLoad{site, addr})
		return
	}
	Point(kind)
}

// Write is called by the shims before a write-like operation (store, CAS,
// lock, unlock, ...) on addr; it is always a scheduling point.
func Write(kind string, addr unsafe.Pointer) {
	r := cur
	if r == nil || !r.active || r.cur == nil {
		return
	}
	r.written[addr] = true
	Point(kind)
}

// After is called by the shims after a write-like operation took effect. A
// preemption here exposes the window between a publication (store, CAS,
// sync.Map.Store) and the publisher's following plain code; for data-race-free
// code it adds nothing, for code that publishes too early it is the only place
// where the other thread can observe the half-built state deterministically.
func After(kind string) {
	r := cur
	if r == nil || !r.active || r.cur == nil {
		return
	}
	Point("after " + kind)
}

// Point is an unconditional scheduling point.
func Point(kind string) {
	r := cur
	if r == nil || !r.active || r.cur == nil {
		return
	}
	t := r.cur
	r.kind = kind
	r.yield <- struct{}{}
	<-t.wake
}

// Block parks the running thread until Wake(obj) is called; the caller must
// re-check its condition afterwards.
func Block(obj any) {
	r := cur
	if r == nil || !r.active || r.cur == nil {
		panic("sched: Block outside a run")
	}
	t := r.cur
	t.blocked = obj
	r.kind = "blocked"
	r.yield <- struct{}{}
	<-t.wake
}

// Wake makes every thread blocked on obj runnable again.
func Wake(obj any) {
	r := cur
	if r == nil || !r.active {
		return
	}
	for _, t := range r.threads {
		if t.blocked == obj {
			t.blocked = nil
		}
	}
}

// CurrentThread returns the id of the running scheduled thread (or -1).
func CurrentThread() int {
	if cur == nil || !cur.active || cur.cur == nil {
		return -1
	}
	return cur.cur.id
}

// Execution is the record of one explored schedule.
type Execution struct {
	Choices  []int
	Trace    []Decision
	Failure  string // deadlock / panic text, "" if none
	Deadlock bool
	NewHot   []uintptr // skipped load sites that turned out to read a written location
}

func (x *Execution) preemptionsBefore(i int) int {
	n := 0
	for j := 0; j < i; j++ {
		d := x.Trace[j]
		if d.Running >= 0 && len(d.Enabled) > 0 && d.Enabled[0] == d.Running && d.Chosen != 0 {
			n++
		}
	}
	return n
}

// Schedule renders the thread sequence, e.g. "0 0 1 1 0".
func (x *Execution) Schedule() string {
	var sb strings.Builder
	for i, d := range x.Trace {
		if i > 0 {
			sb.WriteByte(' ')
		}
		fmt.Fprintf(&sb, "%d", d.Enabled[d.Chosen])
	}
	return sb.String()
}

// Detailed renders the schedule with the operation each thread was about to perform.
func (x *Execution) Detailed() []string {
	var out []string
	for _, d := range x.Trace {
		out = append(out, fmt.Sprintf("at %s of T%d -> run T%d (enabled %v)", d.Kind, d.Running, d.Enabled[d.Chosen], d.Enabled))
	}
	return out
}

// runOnce executes bodies under the schedule given by prefix (then default
// choices). It must be called from the controller goroutine.
func runOnce(bodies []func(), prefix []int, maxSteps int) *Execution {
	r := &run{yield: make(chan struct{}), choices: prefix, written: map[unsafe.Pointer]bool{}}
	for i := range bodies {
		r.threads = append(r.threads, &thread{id: i, wake: make(chan struct{})})
	}
	x := &Execution{}
	cur = r
	r.active = true
	for i, body := range bodies {
		t, body := r.threads[i], body
		go func() {
			<-t.wake
			defer func() {
				if p := recover(); p != nil {
					r.failure = fmt.Sprintf("panic in T%d: %v\n%s", t.id, p, debug.Stack())
				}
				t.done = true
				r.kind = "exit"
				r.yield <- struct{}{}
			}()
			body()
		}()
	}
	running := -1
	for step := 0; ; step++ {
		var enabled []int
		if running >= 0 && !r.threads[running].done && r.threads[running].blocked == nil {
			enabled = append(enabled, running)
		}
		for _, t := range r.threads {
			if t.id != running && !t.done && t.blocked == nil {
				enabled = append(enabled, t.id)
			}
		}
		if len(enabled) == 0 {
			alldone := true
			for _, t := range r.threads {
				if !t.done {
					alldone = false
				}
			}
			if !alldone {
				x.Deadlock = true
				x.Failure = "deadlock: no enabled thread"
				// leak the parked goroutines of this execution
			}
			break
		}
		if step >= maxSteps {
			x.Failure = fmt.Sprintf("horizon of %d scheduling points exceeded (livelock?)", maxSteps)
			break
		}
		choice := 0
		if step < len(prefix) {
			choice = prefix[step]
			if choice >= len(enabled) {
				panic(fmt.Sprintf("sched: replay diverged at step %d: choice %d of %v", step, choice, enabled))
			}
		}
		x.Trace = append(x.Trace, Decision{Running: running, Kind: r.kind, Enabled: enabled, Chosen: choice})
		x.Choices = append(x.Choices, choice)
		t := r.threads[enabled[choice]]
		running = t.id
		r.cur = t
		t.wake <- struct{}{}
		<-r.yield
		if r.failure != "" {
			x.Failure = r.failure
			break
		}
	}
	r.active = false
	r.cur = nil
	cur = nil
	for _, l := range r.cold {
		if r.written[l.addr] {
			x.NewHot = append(x.NewHot, l.site)
		}
	}
	return x
}

// Scenario builds fresh state and returns the thread bodies and a checker
// that runs after all threads finished (outside the scheduler).
type Scenario func() (bodies []func(), check func() string)

// Result summarises an exploration.
type Result struct {
	Executions  int
	Points      int // scheduling points over all executions
	MaxPoints   int
	Bound       int
	Complete    bool // every schedule within the bound was run
	Failures    []*Execution
	FailureText []string
	Outcomes    map[string]int
	Restarts    int // exploration restarts after the set of conflicting load sites grew
	HotSites    int
}

// Explore runs every schedule of the scenario with at most bound preemptions.
// stop, if non-nil, is polled to end early (Complete=false).
func Explore(sc Scenario, bound, maxSteps int, stop func() bool, outcome func() string) *Result {
	hot = map[uintptr]bool{}
	restarts := 0
	for {
		res, grew := exploreOnce(sc, bound, maxSteps, stop, outcome)
		if !grew {
			res.Restarts = restarts
			res.HotSites = len(hot)
			return res
		}
		restarts++
	}
}

func exploreOnce(sc Scenario, bound, maxSteps int, stop func() bool, outcome func() string) (*Result, bool) {
	res := &Result{Bound: bound, Complete: true, Outcomes: map[string]int{}}
	grew := false
	var explore func(prefix []int)
	explore = func(prefix []int) {
		if grew {
			return
		}
		if stop != nil && stop() || len(res.Failures) >= 5 {
			res.Complete = false
			return
		}
		bodies, check := sc()
		x := runOnce(bodies, prefix, maxSteps)
		if len(x.NewHot) > 0 {
			for _, s := range x.NewHot {
				hot[s] = true
			}
			grew = true
			return
		}
		res.Executions++
		res.Points += len(x.Trace)
		if len(x.Trace) > res.MaxPoints {
			res.MaxPoints = len(x.Trace)
		}
		msg := x.Failure
		if msg == "" && check != nil {
			msg = check()
		}
		if outcome != nil && x.Failure == "" {
			res.Outcomes[outcome()]++
		}
		if msg != "" {
			res.Failures = append(res.Failures, x)
			res.FailureText = append(res.FailureText, msg)
			return
		}
		for i := len(prefix); i < len(x.Trace); i++ {
			d := x.Trace[i]
			cost := x.preemptionsBefore(i)
			runningEnabled := d.Running >= 0 && len(d.Enabled) > 0 && d.Enabled[0] == d.Running
			if runningEnabled {
				cost++
			}
			if cost > bound {
				continue
			}
			for alt := 1; alt < len(d.Enabled); alt++ {
				explore(append(append([]int{}, x.Choices[:i]...), alt))
			}
		}
	}
	explore(nil)
	return res, grew
}

// Replay runs one recorded schedule.
func Replay(sc Scenario, choices []int, maxSteps int) (*Execution, string) {
	// replay with every load visible (choices recorded under a learnt set are
	// replayed under the same set by Explore; standalone replays use HotAll)
	bodies, check := sc()
	x := runOnce(bodies, choices, maxSteps)
	msg := x.Failure
	if msg == "" && check != nil {
		msg = check()
	}
	return x, msg
}
