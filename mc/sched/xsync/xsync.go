// Package xsync stands in for package sync inside the library under test when
// the harness is built with the scheduling overlay. Outside an exploration
// run every type behaves like its sync counterpart.
package xsync

import (
	"sync"
	"unsafe"

	"google.golang.org/protobuf/verifmc/sched"
)

func init() { sched.ShimLinked = true }

type (
	WaitGroup = sync.WaitGroup
	Locker    = sync.Locker
)

// Mutex: a real mutex outside runs, a modelled lock inside runs.
type Mutex struct {
	real   sync.Mutex
	locked bool
}

func (m *Mutex) Lock() {
	if !sched.Active() {
		m.real.Lock()
		return
	}
	sched.Write("Mutex.Lock", unsafe.Pointer(m))
	for m.locked {
		sched.Block(m)
	}
	m.locked = true
}

func (m *Mutex) Unlock() {
	if !sched.Active() {
		m.real.Unlock()
		return
	}
	sched.Write("Mutex.Unlock", unsafe.Pointer(m))
	if !m.locked {
		panic("xsync: unlock of unlocked mutex")
	}
	m.locked = false
	sched.Wake(m)
}

func (m *Mutex) TryLock() bool {
	if !sched.Active() {
		return m.real.TryLock()
	}
	sched.Write("Mutex.TryLock", unsafe.Pointer(m))
	if m.locked {
		return false
	}
	m.locked = true
	return true
}

type RWMutex struct {
	real    sync.RWMutex
	writer  bool
	readers int
}

func (m *RWMutex) Lock() {
	if !sched.Active() {
		m.real.Lock()
		return
	}
	sched.Write("RWMutex.Lock", unsafe.Pointer(m))
	for m.writer || m.readers > 0 {
		sched.Block(m)
	}
	m.writer = true
}

func (m *RWMutex) Unlock() {
	if !sched.Active() {
		m.real.Unlock()
		return
	}
	sched.Write("RWMutex.Unlock", unsafe.Pointer(m))
	m.writer = false
	sched.Wake(m)
}

func (m *RWMutex) RLock() {
	if !sched.Active() {
		m.real.RLock()
		return
	}
	sched.Load("RWMutex.RLock", unsafe.Pointer(m))
	for m.writer {
		sched.Block(m)
	}
	m.readers++
}

func (m *RWMutex) RUnlock() {
	if !sched.Active() {
		m.real.RUnlock()
		return
	}
	sched.Load("RWMutex.RUnlock", unsafe.Pointer(m))
	m.readers--
	sched.Wake(m)
}

func (m *RWMutex) RLocker() sync.Locker { return (*rlocker)(m) }

type rlocker RWMutex

func (r *rlocker) Lock()   { (*RWMutex)(r).RLock() }
func (r *rlocker) Unlock() { (*RWMutex)(r).RUnlock() }

// Once with the observable structure of sync.Once: an atomic fast-path load,
// then a mutex, the function, and the store.
type Once struct {
	done bool
	m    Mutex
}

func (o *Once) Do(f func()) {
	sched.Load("Once.load", unsafe.Pointer(o))
	if o.done {
		return
	}
	o.m.Lock()
	defer o.m.Unlock()
	if !o.done {
		defer func() {
			sched.Write("Once.store", unsafe.Pointer(o))
			o.done = true
		}()
		f()
	}
}

// Map: every method is one atomic step of the real sync.Map.
type Map struct{ m sync.Map }

func (m *Map) Load(key any) (any, bool) {
	sched.Load("Map.Load", unsafe.Pointer(m))
	return m.m.Load(key)
}
func (m *Map) Store(key, value any) {
	sched.Write("Map.Store", unsafe.Pointer(m))
	m.m.Store(key, value)
	sched.After("Map.Store")
}
func (m *Map) LoadOrStore(key, value any) (any, bool) {
	sched.Write("Map.LoadOrStore", unsafe.Pointer(m))
	a, l := m.m.LoadOrStore(key, value)
	sched.After("Map.LoadOrStore")
	return a, l
}
func (m *Map) LoadAndDelete(key any) (any, bool) {
	sched.Write("Map.LoadAndDelete", unsafe.Pointer(m))
	return m.m.LoadAndDelete(key)
}
func (m *Map) Delete(key any) { sched.Write("Map.Delete", unsafe.Pointer(m)); m.m.Delete(key) }
func (m *Map) Swap(key, value any) (any, bool) {
	sched.Write("Map.Swap", unsafe.Pointer(m))
	return m.m.Swap(key, value)
}
func (m *Map) CompareAndSwap(key, old, new any) bool {
	sched.Write("Map.CompareAndSwap", unsafe.Pointer(m))
	return m.m.CompareAndSwap(key, old, new)
}
func (m *Map) CompareAndDelete(key, old any) bool {
	sched.Write("Map.CompareAndDelete", unsafe.Pointer(m))
	return m.m.CompareAndDelete(key, old)
}
func (m *Map) Range(f func(key, value any) bool) {
	sched.Load("Map.Range", unsafe.Pointer(m))
	m.m.Range(f)
}

// Pool never reuses during a run (reuse is unobservable by contract and would
// make replays depend on the Go runtime's per-P caches).
type Pool struct {
	real sync.Pool
	New  func() any
}

func (p *Pool) Get() any {
	if !sched.Active() {
		p.real.New = p.New
		return p.real.Get()
	}
	if p.New != nil {
		return p.New()
	}
	return nil
}

func (p *Pool) Put(x any) {
	if !sched.Active() {
		p.real.Put(x)
	}
}

func OnceFunc(f func()) func() {
	var o Once
	return func() { o.Do(f) }
}
