// Package xatomic stands in for sync/atomic inside the library under test:
// a scheduling point, then the real (sequentially consistent) operation.
package xatomic

import (
	"sync/atomic"
	"unsafe"

	"google.golang.org/protobuf/verifmc/sched"
)

func init() { sched.ShimLinked = true }

func LoadUint32(addr *uint32) uint32 {
	sched.Load("atomic.LoadUint32", unsafe.Pointer(addr))
	return atomic.LoadUint32(addr)
}
func StoreUint32(addr *uint32, v uint32) {
	sched.Write("atomic.StoreUint32", unsafe.Pointer(addr))
	atomic.StoreUint32(addr, v)
	sched.After("atomic.StoreUint32")
}
func CompareAndSwapUint32(addr *uint32, old, new uint32) bool {
	sched.Write("atomic.CompareAndSwapUint32", unsafe.Pointer(addr))
	r := atomic.CompareAndSwapUint32(addr, old, new)
	sched.After("atomic.CompareAndSwapUint32")
	return r
}
func AddUint32(addr *uint32, d uint32) uint32 {
	sched.Write("atomic.AddUint32", unsafe.Pointer(addr))
	r := atomic.AddUint32(addr, d)
	sched.After("atomic.AddUint32")
	return r
}
func LoadInt32(addr *int32) int32 {
	sched.Load("atomic.LoadInt32", unsafe.Pointer(addr))
	return atomic.LoadInt32(addr)
}
func StoreInt32(addr *int32, v int32) {
	sched.Write("atomic.StoreInt32", unsafe.Pointer(addr))
	atomic.StoreInt32(addr, v)
	sched.After("atomic.StoreInt32")
}
func CompareAndSwapInt32(addr *int32, old, new int32) bool {
	sched.Write("atomic.CompareAndSwapInt32", unsafe.Pointer(addr))
	r := atomic.CompareAndSwapInt32(addr, old, new)
	sched.After("atomic.CompareAndSwapInt32")
	return r
}
func AddInt32(addr *int32, d int32) int32 {
	sched.Write("atomic.AddInt32", unsafe.Pointer(addr))
	r := atomic.AddInt32(addr, d)
	sched.After("atomic.AddInt32")
	return r
}
func LoadInt64(addr *int64) int64 {
	sched.Load("atomic.LoadInt64", unsafe.Pointer(addr))
	return atomic.LoadInt64(addr)
}
func StoreInt64(addr *int64, v int64) {
	sched.Write("atomic.StoreInt64", unsafe.Pointer(addr))
	atomic.StoreInt64(addr, v)
	sched.After("atomic.StoreInt64")
}
func AddInt64(addr *int64, d int64) int64 {
	sched.Write("atomic.AddInt64", unsafe.Pointer(addr))
	r := atomic.AddInt64(addr, d)
	sched.After("atomic.AddInt64")
	return r
}
func LoadUint64(addr *uint64) uint64 {
	sched.Load("atomic.LoadUint64", unsafe.Pointer(addr))
	return atomic.LoadUint64(addr)
}
func StoreUint64(addr *uint64, v uint64) {
	sched.Write("atomic.StoreUint64", unsafe.Pointer(addr))
	atomic.StoreUint64(addr, v)
	sched.After("atomic.StoreUint64")
}
func AddUint64(addr *uint64, d uint64) uint64 {
	sched.Write("atomic.AddUint64", unsafe.Pointer(addr))
	r := atomic.AddUint64(addr, d)
	sched.After("atomic.AddUint64")
	return r
}
func LoadPointer(addr *unsafe.Pointer) unsafe.Pointer {
	sched.Load("atomic.LoadPointer", unsafe.Pointer(addr))
	return atomic.LoadPointer(addr)
}
func StorePointer(addr *unsafe.Pointer, v unsafe.Pointer) {
	sched.Write("atomic.StorePointer", unsafe.Pointer(addr))
	atomic.StorePointer(addr, v)
	sched.After("atomic.StorePointer")
}
func CompareAndSwapPointer(addr *unsafe.Pointer, old, new unsafe.Pointer) bool {
	sched.Write("atomic.CompareAndSwapPointer", unsafe.Pointer(addr))
	r := atomic.CompareAndSwapPointer(addr, old, new)
	sched.After("atomic.CompareAndSwapPointer")
	return r
}
func SwapPointer(addr *unsafe.Pointer, v unsafe.Pointer) unsafe.Pointer {
	sched.Write("atomic.SwapPointer", unsafe.Pointer(addr))
	r := atomic.SwapPointer(addr, v)
	sched.After("atomic.SwapPointer")
	return r
}

type Int64 struct{ v atomic.Int64 }

func (x *Int64) Load() int64   { sched.Load("atomic.Int64.Load", unsafe.Pointer(x)); return x.v.Load() }
func (x *Int64) Store(v int64) { sched.Write("atomic.Int64.Store", unsafe.Pointer(x)); x.v.Store(v) }
func (x *Int64) Add(d int64) int64 {
	sched.Write("atomic.Int64.Add", unsafe.Pointer(x))
	return x.v.Add(d)
}
func (x *Int64) CompareAndSwap(o, n int64) bool {
	sched.Write("atomic.Int64.CompareAndSwap", unsafe.Pointer(x))
	return x.v.CompareAndSwap(o, n)
}

type Uint64 struct{ v atomic.Uint64 }

func (x *Uint64) Load() uint64 {
	sched.Load("atomic.Uint64.Load", unsafe.Pointer(x))
	return x.v.Load()
}
func (x *Uint64) Store(v uint64) { sched.Write("atomic.Uint64.Store", unsafe.Pointer(x)); x.v.Store(v) }
func (x *Uint64) Add(d uint64) uint64 {
	sched.Write("atomic.Uint64.Add", unsafe.Pointer(x))
	return x.v.Add(d)
}
func (x *Uint64) CompareAndSwap(o, n uint64) bool {
	sched.Write("atomic.Uint64.CompareAndSwap", unsafe.Pointer(x))
	return x.v.CompareAndSwap(o, n)
}

type Int32 struct{ v atomic.Int32 }

func (x *Int32) Load() int32   { sched.Load("atomic.Int32.Load", unsafe.Pointer(x)); return x.v.Load() }
func (x *Int32) Store(v int32) { sched.Write("atomic.Int32.Store", unsafe.Pointer(x)); x.v.Store(v) }
func (x *Int32) Add(d int32) int32 {
	sched.Write("atomic.Int32.Add", unsafe.Pointer(x))
	return x.v.Add(d)
}
func (x *Int32) CompareAndSwap(o, n int32) bool {
	sched.Write("atomic.Int32.CompareAndSwap", unsafe.Pointer(x))
	return x.v.CompareAndSwap(o, n)
}

type Uint32 struct{ v atomic.Uint32 }

func (x *Uint32) Load() uint32 {
	sched.Load("atomic.Uint32.Load", unsafe.Pointer(x))
	return x.v.Load()
}
func (x *Uint32) Store(v uint32) { sched.Write("atomic.Uint32.Store", unsafe.Pointer(x)); x.v.Store(v) }
func (x *Uint32) Add(d uint32) uint32 {
	sched.Write("atomic.Uint32.Add", unsafe.Pointer(x))
	return x.v.Add(d)
}
func (x *Uint32) CompareAndSwap(o, n uint32) bool {
	sched.Write("atomic.Uint32.CompareAndSwap", unsafe.Pointer(x))
	return x.v.CompareAndSwap(o, n)
}

type Bool struct{ v atomic.Bool }

func (x *Bool) Load() bool   { sched.Load("atomic.Bool.Load", unsafe.Pointer(x)); return x.v.Load() }
func (x *Bool) Store(v bool) { sched.Write("atomic.Bool.Store", unsafe.Pointer(x)); x.v.Store(v) }

type Value struct{ v atomic.Value }

func (x *Value) Load() any   { sched.Load("atomic.Value.Load", unsafe.Pointer(x)); return x.v.Load() }
func (x *Value) Store(v any) { sched.Write("atomic.Value.Store", unsafe.Pointer(x)); x.v.Store(v) }

type Pointer[T any] struct{ v atomic.Pointer[T] }

func (x *Pointer[T]) Load() *T {
	sched.Load("atomic.Pointer.Load", unsafe.Pointer(x))
	return x.v.Load()
}
func (x *Pointer[T]) Store(v *T) {
	sched.Write("atomic.Pointer.Store", unsafe.Pointer(x))
	x.v.Store(v)
}
func (x *Pointer[T]) CompareAndSwap(o, n *T) bool {
	sched.Write("atomic.Pointer.CompareAndSwap", unsafe.Pointer(x))
	return x.v.CompareAndSwap(o, n)
}
