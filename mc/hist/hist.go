// Package hist is the explicit-state engine: breadth-first search over
// operation histories applied to real objects. Live messages cannot be cloned
// together with their hidden state (presence bits, size cache, lazy buffers),
// so a successor state is produced by replaying the shortest known path on a
// fresh instance plus one operation. States are deduplicated by a canonical
// key supplied by the system under test.
package hist

import (
	"strings"
	"sync"

	"google.golang.org/protobuf/verifmc/core"
)

// System describes one state space.
type System[S any] struct {
	Name string
	// New returns a fresh initial state (real objects).
	New func() S
	// Ops is the operation alphabet, simplest first.
	Ops []Op[S]
	// Key returns the canonical key of a state; states with equal keys must
	// have the same futures. If nil, every history is its own state.
	Key func(S) string
	// Check is evaluated in every state reached (after every transition).
	// hist names the history. It reports violations through c.
	Check func(c *core.Ctx, s S, hist string)
	// Enabled optionally filters operations by state.
	Enabled func(s S, op int) bool
}

type Op[S any] struct {
	Name string
	// Do applies the operation; it may report violations (e.g. a result
	// differing from the reference model) through c. hist names the history
	// including this op.
	Do func(c *core.Ctx, s S, hist string)
}

type Result struct {
	States, Transitions, MaxDepth int
	FrontierExhausted             bool
}

func histName[S any](sys *System[S], path []uint16) string {
	var sb strings.Builder
	sb.WriteString(sys.Name)
	sb.WriteString(":[")
	for i, o := range path {
		if i > 0 {
			sb.WriteString(" ; ")
		}
		sb.WriteString(sys.Ops[o].Name)
	}
	sb.WriteString("]")
	return sb.String()
}

// Replay rebuilds the state reached by path on a fresh instance.
func Replay[S any](c *core.Ctx, sys *System[S], path []uint16) S {
	s := sys.New()
	for i, o := range path {
		sys.Ops[o].Do(c, s, histName(sys, path[:i+1]))
	}
	return s
}

// BFS explores all histories up to the given depth, merging states with equal
// keys. It stops early when the frontier empties (fixpoint).
func BFS[S any](c *core.Ctx, sys *System[S], depth int) Result {
	seen := map[string]struct{}{}
	var mu sync.Mutex
	var res Result
	init := sys.New()
	if sys.Key != nil {
		seen[sys.Key(init)] = struct{}{}
	}
	if sys.Check != nil {
		sys.Check(c, init, sys.Name+":[]")
	}
	res.States = 1
	frontier := [][]uint16{{}}
	for d := 1; d <= depth && len(frontier) > 0; d++ {
		cand := map[string][]uint16{}
		var plain [][]uint16
		var trans, fresh int
		c.Par(len(frontier), func(fi int) {
			path := frontier[fi]
			for oi := range sys.Ops {
				if c.Expired() {
					return
				}
				var s S
				name := ""
				panicked := c.Guard(func() string { return "history=" + histName(sys, append(append([]uint16{}, path...), uint16(oi))) }, func() {
					s = sys.New()
					for i, o := range path {
						// replaying a known-good prefix: use a throw-away name
						_ = i
						sys.Ops[o].Do(nopCtx, s, "")
					}
					if sys.Enabled != nil && !sys.Enabled(s, oi) {
						name = "-"
						return
					}
					np := append(append(make([]uint16, 0, len(path)+1), path...), uint16(oi))
					name = histName(sys, np)
					sys.Ops[oi].Do(c, s, name)
					if sys.Check != nil {
						sys.Check(c, s, name)
					}
				})
				if panicked || name == "-" {
					continue
				}
				np := append(append(make([]uint16, 0, len(path)+1), path...), uint16(oi))
				if sys.Key == nil {
					// every history is its own state: nothing to deduplicate, and
					// the last level needs no frontier
					mu.Lock()
					trans++
					fresh++
					if d < depth {
						plain = append(plain, np)
					}
					mu.Unlock()
					continue
				}
				key := sys.Key(s)
				mu.Lock()
				trans++
				if _, ok := seen[key]; !ok {
					// keep the lexicographically least path per new state so
					// that the exploration is independent of worker timing
					if old, ok := cand[key]; !ok || lessPath(np, old) {
						cand[key] = np
					}
				}
				mu.Unlock()
			}
		})
		next := make([][]uint16, 0, len(cand)+len(plain))
		for k, p := range cand {
			seen[k] = struct{}{}
			next = append(next, p)
		}
		next = append(next, plain...)
		res.Transitions += trans
		if sys.Key == nil {
			res.States += fresh
		} else {
			res.States += len(next)
		}
		if len(next) > 0 || fresh > 0 {
			res.MaxDepth = d
		}
		// keep enumeration order deterministic regardless of worker timing
		sortPaths(next)
		frontier = next
	}
	res.FrontierExhausted = len(frontier) == 0 && !(sys.Key == nil && res.MaxDepth == depth)
	c.States(int64(res.States))
	c.Transitions(int64(res.Transitions))
	c.Traces(int64(res.Transitions))
	c.Eval(int64(res.Transitions))
	return res
}

// nopCtx swallows violations raised while replaying an already-checked prefix.
var nopCtx = core.NewCtx("replay", "quick", "model_checking")

func lessPath(a, b []uint16) bool {
	for i := 0; i < len(a) && i < len(b); i++ {
		if a[i] != b[i] {
			return a[i] < b[i]
		}
	}
	return len(a) < len(b)
}

func sortPaths(p [][]uint16) { sortSlice(p, lessPath) }
