package hist

import "sort"

func sortSlice(p [][]uint16, less func(a, b []uint16) bool) {
	sort.Slice(p, func(i, j int) bool { return less(p[i], p[j]) })
}
