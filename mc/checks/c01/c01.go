// Package c01: wire primitives round-trip and report exact sizes.
package c01

import (
	"bytes"
	"fmt"
	"math"
	"sync/atomic"

	"google.golang.org/protobuf/encoding/protowire"
	"google.golang.org/protobuf/verifmc/core"
	"google.golang.org/protobuf/verifmc/ref/refwire"
)

func init() { core.Register("C01", "exploration", Run) }

var suffixes = [][]byte{nil, {0x00}, {0x80}, {0xff}, {0x01, 0x80}}

func checkVarint(c *core.Ctx, v uint64) {
	want := refwire.AppendVarint(nil, v)
	got := protowire.AppendVarint(nil, v)
	if !bytes.Equal(got, want) {
		c.Violation(fmt.Sprintf("varint.append v=%#x got=%x want=%x", v, got, want), nil)
		return
	}
	if protowire.SizeVarint(v) != len(want) {
		c.Violation(fmt.Sprintf("varint.size v=%#x got=%d want=%d", v, protowire.SizeVarint(v), len(want)), nil)
	}
	// appended after a prefix: prefix untouched, same bytes
	pre := []byte{0xaa, 0x55}
	got2 := protowire.AppendVarint(pre[:2:2], v)
	if !bytes.Equal(got2[:2], pre) || !bytes.Equal(got2[2:], want) {
		c.Violation(fmt.Sprintf("varint.append.prefix v=%#x", v), nil)
	}
	for _, s := range suffixes {
		in := append(append([]byte{}, got...), s...)
		x, n := protowire.ConsumeVarint(in)
		if x != v || n != len(want) {
			c.Violation(fmt.Sprintf("varint.consume v=%#x suffix=%x got=(%#x,%d)", v, s, x, n), nil)
		}
	}
}

func checkZigZag(c *core.Ctx, v uint64) {
	x := int64(v)
	e := protowire.EncodeZigZag(x)
	if e != refwire.ZigZag(x) {
		c.Violation(fmt.Sprintf("zigzag.encode x=%d got=%#x want=%#x", x, e, refwire.ZigZag(x)), nil)
	}
	if protowire.DecodeZigZag(e) != x {
		c.Violation(fmt.Sprintf("zigzag.decode(encode) x=%d", x), nil)
	}
	d := protowire.DecodeZigZag(v)
	if d != refwire.UnZigZag(v) {
		c.Violation(fmt.Sprintf("zigzag.decode u=%#x got=%d want=%d", v, d, refwire.UnZigZag(v)), nil)
	}
	if protowire.EncodeZigZag(d) != v {
		c.Violation(fmt.Sprintf("zigzag.encode(decode) u=%#x", v), nil)
	}
}

func checkFixed(c *core.Ctx, v uint64) {
	b := protowire.AppendFixed64(nil, v)
	want := []byte{byte(v), byte(v >> 8), byte(v >> 16), byte(v >> 24), byte(v >> 32), byte(v >> 40), byte(v >> 48), byte(v >> 56)}
	if !bytes.Equal(b, want) || protowire.SizeFixed64() != 8 {
		c.Violation(fmt.Sprintf("fixed64.append v=%#x", v), nil)
	}
	for _, s := range suffixes {
		x, n := protowire.ConsumeFixed64(append(append([]byte{}, b...), s...))
		if x != v || n != 8 {
			c.Violation(fmt.Sprintf("fixed64.consume v=%#x", v), nil)
		}
	}
	w := uint32(v)
	b = protowire.AppendFixed32(nil, w)
	if !bytes.Equal(b, []byte{byte(w), byte(w >> 8), byte(w >> 16), byte(w >> 24)}) || protowire.SizeFixed32() != 4 {
		c.Violation(fmt.Sprintf("fixed32.append v=%#x", w), nil)
	}
	for _, s := range suffixes {
		x, n := protowire.ConsumeFixed32(append(append([]byte{}, b...), s...))
		if x != w || n != 4 {
			c.Violation(fmt.Sprintf("fixed32.consume v=%#x", w), nil)
		}
	}
}

func checkTag(c *core.Ctx, num protowire.Number, typ protowire.Type) {
	e := protowire.EncodeTag(num, typ)
	if e != uint64(num)<<3|uint64(typ) {
		c.Violation(fmt.Sprintf("tag.encode num=%d typ=%d", num, typ), nil)
	}
	n2, t2 := protowire.DecodeTag(e)
	if n2 != num || t2 != typ {
		c.Violation(fmt.Sprintf("tag.decode(encode) num=%d typ=%d got=(%d,%d)", num, typ, n2, t2), nil)
	}
	var buf [16]byte
	b := protowire.AppendTag(buf[:0], num, typ)
	want := refwire.AppendVarint(nil, e)
	if !bytes.Equal(b, want) {
		c.Violation(fmt.Sprintf("tag.append num=%d typ=%d got=%x want=%x", num, typ, b, want), nil)
	}
	if protowire.SizeTag(num) != len(want) {
		c.Violation(fmt.Sprintf("tag.size num=%d got=%d want=%d", num, protowire.SizeTag(num), len(want)), nil)
	}
	b = append(b, 0x80)
	n3, t3, l := protowire.ConsumeTag(b)
	if n3 != num || t3 != typ || l != len(want) {
		c.Violation(fmt.Sprintf("tag.consume num=%d typ=%d got=(%d,%d,%d)", num, typ, n3, t3, l), nil)
	}
}

// lattice returns the boundary-value lattice over uint64.
func lattice() []uint64 {
	seen := map[uint64]bool{}
	var out []uint64
	add := func(v uint64) {
		if !seen[v] {
			seen[v] = true
			out = append(out, v)
		}
	}
	for bl := 0; bl <= 64; bl++ {
		if bl == 0 {
			add(0)
			continue
		}
		top := uint64(1) << uint(bl-1)
		mask := top | (top - 1)
		add(top)
		add(mask)
		add(0xaaaaaaaaaaaaaaaa&mask | top)
		add(0x5555555555555555&mask | top)
		add(top | 1)
	}
	for k := uint(0); k <= 63; k++ {
		for d := int64(-2); d <= 2; d++ {
			add(uint64(1)<<k + uint64(d))
			add((uint64(1)<<k)*3 + uint64(d))
		}
	}
	for d := int64(-3); d <= 3; d++ {
		add(uint64(d))
		add(uint64(math.MaxInt64) + uint64(d))
		add(uint64(math.MaxInt32) + uint64(d))
		add(uint64(math.MaxUint32) + uint64(d))
	}
	return out
}

func Run(c *core.Ctx) {
	c.Rule = "every value of the stated lattices/ranges is a distinct case by construction; each is run through Append/Size/Consume (5 suffixes), ZigZag both ways, Fixed32/64, Tag encode/decode/append/consume and compared with a loop-based LEB128 reference; bytes/strings and groups over all byte strings of bounded length"
	lat := lattice()
	var n atomic.Int64
	for _, v := range lat {
		checkVarint(c, v)
		checkZigZag(c, v)
		checkFixed(c, v)
	}
	n.Add(int64(len(lat)))
	c.Sample(map[string]any{"varint": fmt.Sprintf("%#x", lat[len(lat)/2]), "bytes": fmt.Sprintf("%x", protowire.AppendVarint(nil, lat[len(lat)/2]))})

	// all small values
	small := core.Pick(c, uint64(1)<<20, uint64(1)<<24)
	c.ParRange(0, small, 1<<14, func(lo, hi uint64) {
		for v := lo; v < hi; v++ {
			checkVarint(c, v)
			checkZigZag(c, v)
		}
		n.Add(int64(hi - lo))
	})
	c.Bounds["varint_small_all_below"] = small
	if c.Thorough() {
		// all 2^32 values zero-extended, sign-extended and shifted left 32
		c.ParRange(0, 1<<32, 1<<20, func(lo, hi uint64) {
			for v := lo; v < hi; v++ {
				checkVarint(c, v)
				checkVarint(c, uint64(int64(int32(uint32(v)))))
				checkVarint(c, v<<32)
				checkZigZag(c, v)
				checkZigZag(c, v<<32|v>>1)
			}
			n.Add(3 * int64(hi-lo))
		})
		c.Bounds["varint_all_2^32_x3_forms"] = true
	}

	// tags
	var tagN atomic.Int64
	maxNum := core.Pick(c, uint64(1)<<16, uint64(1)<<29)
	c.ParRange(1, maxNum, 1<<16, func(lo, hi uint64) {
		for v := lo; v < hi; v++ {
			for t := 0; t < 6; t++ {
				checkTag(c, protowire.Number(v), protowire.Type(t))
			}
		}
		tagN.Add(6 * int64(hi-lo))
	})
	for k := uint(0); k < 29; k++ {
		for d := int64(-2); d <= 2; d++ {
			v := int64(1)<<k + d
			if v >= 1 && v <= 1<<29-1 {
				for t := 0; t < 8; t++ {
					checkTag(c, protowire.Number(v), protowire.Type(t))
				}
				tagN.Add(8)
			}
		}
	}
	// MessageSet-range numbers up to MaxInt32
	for _, v := range []int64{1 << 29, 1<<29 + 1, 1 << 30, math.MaxInt32 - 1, math.MaxInt32} {
		for t := 0; t < 8; t++ {
			checkTag(c, protowire.Number(v), protowire.Type(t))
		}
		tagN.Add(8)
	}
	c.Bounds["tag_numbers_all_below"] = maxNum
	c.Sample(map[string]any{"tag": "num=2047 typ=2", "bytes": fmt.Sprintf("%x", protowire.AppendTag(nil, 2047, 2))})

	// bool
	for _, v := range lat {
		if protowire.DecodeBool(v) != (v != 0) {
			c.Violation(fmt.Sprintf("bool.decode v=%#x", v), nil)
		}
	}
	if protowire.EncodeBool(false) != 0 || protowire.EncodeBool(true) != 1 || protowire.DecodeBool(protowire.EncodeBool(true)) != true || protowire.DecodeBool(protowire.EncodeBool(false)) != false {
		c.Violation("bool.encode", nil)
	}

	// bytes / strings: all byte strings over a 6-byte alphabet up to length L, plus boundary lengths.
	alpha := []byte{0x00, 0x01, 0x7f, 0x80, 0xc3, 0xff}
	L := core.Pick(c, 4, 6)
	var bn atomic.Int64
	var rec func(cur []byte)
	checkBytes := func(v []byte) {
		b := protowire.AppendBytes([]byte{9}, v)
		want := append(refwire.AppendVarint([]byte{9}, uint64(len(v))), v...)
		if !bytes.Equal(b, want) || protowire.SizeBytes(len(v)) != len(want)-1 {
			c.Violation(fmt.Sprintf("bytes.append len=%d v=%.16x", len(v), v), nil)
		}
		bs := protowire.AppendString([]byte{9}, string(v))
		if !bytes.Equal(bs, want) {
			c.Violation(fmt.Sprintf("string.append len=%d", len(v)), nil)
		}
		for _, s := range suffixes {
			in := append(append([]byte{}, want[1:]...), s...)
			x, n := protowire.ConsumeBytes(in)
			if !bytes.Equal(x, v) || n != len(want)-1 {
				c.Violation(fmt.Sprintf("bytes.consume len=%d v=%.16x suffix=%x n=%d", len(v), v, s, n), nil)
			}
			xs, n := protowire.ConsumeString(in)
			if xs != string(v) || n != len(want)-1 {
				c.Violation(fmt.Sprintf("string.consume len=%d", len(v)), nil)
			}
		}
		bn.Add(1)
	}
	rec = func(cur []byte) {
		checkBytes(cur)
		if len(cur) == L {
			return
		}
		for _, a := range alpha {
			rec(append(cur, a))
		}
	}
	rec(nil)
	for _, l := range []int{127, 128, 129, 16383, 16384, 16385, 1 << 21, 1<<21 - 1} {
		v := bytes.Repeat([]byte{0xa5}, l)
		checkBytes(v)
	}
	c.Bounds["bytes_alphabet"] = fmt.Sprintf("%x", alpha)
	c.Bounds["bytes_maxlen"] = L

	// groups: bodies = sequences of <= 3 records over a record alphabet; field numbers at tag-size boundaries;
	// minimal and non-minimal end tags.
	recs := [][]byte{
		{0x08, 0x00}, {0x08, 0xff, 0x01}, {0x15, 1, 2, 3, 4}, {0x19, 1, 2, 3, 4, 5, 6, 7, 8},
		{0x12, 0x00}, {0x12, 0x02, 0x80, 0x00}, {0x1b, 0x1c}, {0x1b, 0x08, 0x01, 0x1c}, {0x1b, 0x23, 0x24, 0x1c},
		{0x80, 0x01, 0x00},       // field 16 non-minimal? (tag 0x80 0x01 = 128 => num 16 typ 0)
		{0x88, 0x80, 0x00, 0x05}, // non-minimal tag for field 1
	}
	nums := []protowire.Number{1, 15, 16, 2047, 2048, 1<<29 - 1}
	var gn atomic.Int64
	var bodies [][]byte
	var build func(cur []byte, depth int)
	build = func(cur []byte, depth int) {
		bodies = append(bodies, append([]byte{}, cur...))
		if depth == core.Pick(c, 2, 3) {
			return
		}
		for _, r := range recs {
			build(append(append([]byte{}, cur...), r...), depth+1)
		}
	}
	build(nil, 0)
	c.Par(len(bodies), func(i int) {
		body := bodies[i]
		for _, num := range nums {
			g := protowire.AppendGroup([]byte{7}, num, body)
			want := append(append([]byte{7}, body...), refwire.AppendVarint(nil, uint64(num)<<3|4)...)
			if !bytes.Equal(g, want) || protowire.SizeGroup(num, len(body)) != len(want)-1 {
				c.Violation(fmt.Sprintf("group.append num=%d body=%x", num, body), nil)
			}
			// end tag padded with 0..3 non-minimal continuation bytes
			for pad := 0; pad <= 3; pad++ {
				end := refwire.AppendVarint(nil, uint64(num)<<3|4)
				for p := 0; p < pad; p++ {
					end[len(end)-1] |= 0x80
					end = append(end, 0x00)
				}
				for _, s := range suffixes {
					in := append(append(append([]byte{}, body...), end...), s...)
					v, n := protowire.ConsumeGroup(num, in)
					// body records must not contain an end tag for num at top level; our alphabet uses only field 3/4 groups
					if !bytes.Equal(v, body) || n != len(body)+len(end) {
						c.Violation(fmt.Sprintf("group.consume num=%d body=%x pad=%d suffix=%x got=(%x,%d)", num, body, pad, s, v, n), nil)
					}
				}
				gn.Add(1)
			}
		}
	})
	c.Sample(map[string]any{"group": "num=2047", "body": fmt.Sprintf("%x", bodies[len(bodies)/2])})
	c.Bounds["group_bodies"] = len(bodies)

	total := n.Load() + tagN.Load() + bn.Load() + gn.Load()
	c.Eval(total)
	c.DistinctN(total - 1) // every enumerated case is distinct; the value 0 is the only trivial one
	c.Outcome("varint_cases")
	c.OutcomeN("varint_cases", n.Load()-1)
	c.OutcomeN("tag_cases", tagN.Load())
	c.OutcomeN("bytes_cases", bn.Load())
	c.OutcomeN("group_cases", gn.Load())
	c.Exhaustive = true
}
