// Package c16: the size cache never makes Marshal output stale.
package c16

import (
	"fmt"
	"reflect"
	"strings"

	"google.golang.org/protobuf/proto"
	"google.golang.org/protobuf/reflect/protoreflect"
	"google.golang.org/protobuf/reflect/protoregistry"
	"google.golang.org/protobuf/types/dynamicpb"
	"google.golang.org/protobuf/verifmc/core"
	"google.golang.org/protobuf/verifmc/hist"
	"google.golang.org/protobuf/verifmc/univ"
)

func init() { core.Register("C16", "model_checking", run) }

// state is a three-level message root{mid{leaf}} reached through field
// numbers that exist in every TestAllTypes flavor: root.18 = NestedMessage
// (mid), mid.2 = corecursive TestAllTypes (leaf).
type state struct {
	root protoreflect.Message
	dyn  protoreflect.MessageType
	twin protoreflect.Message // lazy system only: eager dynamicpb message mutated in lock-step (observing root would expand it)
}

func fld(m protoreflect.Message, n int) protoreflect.FieldDescriptor {
	return m.Descriptor().Fields().ByNumber(protoreflect.FieldNumber(n))
}

func (s *state) mid() protoreflect.Message  { return s.root.Mutable(fld(s.root, 18)).Message() }
func (s *state) leaf() protoreflect.Message { m := s.mid(); return m.Mutable(fld(m, 2)).Message() }

// sizeCaches reads the unexported size cache words of every message in the
// tree (hidden state that the dedup key must include).
func sizeCaches(m protoreflect.Message, sb *strings.Builder) {
	if !m.IsValid() {
		return
	}
	v := reflect.ValueOf(m.Interface())
	if v.Kind() == reflect.Ptr && !v.IsNil() && v.Elem().Kind() == reflect.Struct {
		for _, n := range []string{"sizeCache", "XXX_sizecache"} {
			if f := v.Elem().FieldByName(n); f.IsValid() {
				fmt.Fprintf(sb, "/%d", f.Int())
			}
		}
	}
	m.Range(func(fd protoreflect.FieldDescriptor, val protoreflect.Value) bool {
		switch {
		case fd.IsList() && fd.Message() != nil:
			for i := 0; i < val.List().Len(); i++ {
				sizeCaches(val.List().Get(i).Message(), sb)
			}
		case fd.IsMap() && fd.MapValue().Message() != nil:
			val.Map().Range(func(_ protoreflect.MapKey, v protoreflect.Value) bool { sizeCaches(v.Message(), sb); return true })
		case fd.Message() != nil && !fd.IsMap() && !fd.IsList():
			sizeCaches(val.Message(), sb)
		}
		return true
	})
}

func key(s *state) string {
	var sb strings.Builder
	sb.WriteString(univ.Snapshot(s.root))
	sizeCaches(s.root, &sb)
	return sb.String()
}

// verify checks that bytes b encode the current content of the root.
// recursiveField finds a singular message field of parent whose type is child's type.
func recursiveField(parent, child protoreflect.MessageDescriptor) protoreflect.FieldDescriptor {
	for i := 0; i < parent.Fields().Len(); i++ {
		fd := parent.Fields().Get(i)
		if fd.Message() != nil && !fd.IsList() && !fd.IsMap() && fd.ContainingOneof() == nil && fd.Message().FullName() == child.FullName() {
			return fd
		}
	}
	return nil
}

func verify(c *core.Ctx, s *state, b []byte, err error, what, h string) {
	if err != nil {
		c.Violation(fmt.Sprintf("%s returns error: %s", what, h), err.Error())
		return
	}
	// independent decode: dynamicpb of the same descriptor (reflection decoder)
	d := s.dyn.New()
	if err := (proto.UnmarshalOptions{AllowPartial: true}).Unmarshal(b, d.Interface()); err != nil {
		c.Violation(fmt.Sprintf("%s output does not decode: %s", what, h), map[string]any{"err": err.Error(), "bytes": fmt.Sprintf("%x", b)})
		return
	}
	if want, got := univ.Snapshot(s.root), univ.Snapshot(d); want != got {
		c.Violation(fmt.Sprintf("%s output is stale: %s", what, h), map[string]any{"content": want, "decoded": got, "bytes": fmt.Sprintf("%x", b)})
	}
}

var big = strings.Repeat("x", 130) // crosses the 1-byte length-prefix boundary

func ops() []hist.Op[*state] {
	type S = *state
	mk := func(name string, f func(c *core.Ctx, s S, h string)) hist.Op[S] { return hist.Op[S]{Name: name, Do: f} }
	setLeaf := func(n int, v protoreflect.Value) func(c *core.Ctx, s S, h string) {
		return func(c *core.Ctx, s S, h string) { l := s.leaf(); l.Set(fld(l, n), v) }
	}
	return []hist.Op[S]{
		mk("leaf.int32=1", setLeaf(1, protoreflect.ValueOfInt32(1))),
		mk("leaf.int32=-1", setLeaf(1, protoreflect.ValueOfInt32(-1))),
		mk("leaf.clear(int32)", func(c *core.Ctx, s S, h string) { l := s.leaf(); l.Clear(fld(l, 1)) }),
		mk("leaf.string=big", setLeaf(14, protoreflect.ValueOfString(big))),
		mk("leaf.clear(string)", func(c *core.Ctx, s S, h string) { l := s.leaf(); l.Clear(fld(l, 14)) }),
		mk("leaf.rep+=7", func(c *core.Ctx, s S, h string) {
			l := s.leaf()
			l.Mutable(fld(l, 31)).List().Append(protoreflect.ValueOfInt32(7))
		}),
		mk("leaf.rep.truncate", func(c *core.Ctx, s S, h string) { l := s.leaf(); l.Mutable(fld(l, 31)).List().Truncate(0) }),
		mk("mid.a=5", func(c *core.Ctx, s S, h string) { m := s.mid(); m.Set(fld(m, 1), protoreflect.ValueOfInt32(5)) }),
		mk("mid.clear(a)", func(c *core.Ctx, s S, h string) { m := s.mid(); m.Clear(fld(m, 1)) }),
		mk("mid.clear(leaf)", func(c *core.Ctx, s S, h string) { m := s.mid(); m.Clear(fld(m, 2)) }),
		mk("root.replist+={a=1}", func(c *core.Ctx, s S, h string) {
			l := s.root.Mutable(fld(s.root, 48)).List()
			e := l.NewElement()
			e.Message().Set(fld(e.Message(), 1), protoreflect.ValueOfInt32(1))
			l.Append(e)
		}),
		mk("root.replist[0].clear(a)", func(c *core.Ctx, s S, h string) {
			l := s.root.Mutable(fld(s.root, 48)).List()
			if l.Len() > 0 {
				e := l.Get(0).Message()
				e.Clear(fld(e, 1))
			}
		}),
		mk("root.map[k]{a=big}", func(c *core.Ctx, s S, h string) {
			mp := s.root.Mutable(fld(s.root, 71)).Map()
			v := mp.Mutable(protoreflect.ValueOfString("k").MapKey()).Message()
			v.Set(fld(v, 1), protoreflect.ValueOfInt32(-1))
		}),
		mk("root.map[k].clear(a)", func(c *core.Ctx, s S, h string) {
			mp := s.root.Mutable(fld(s.root, 71)).Map()
			k := protoreflect.ValueOfString("k").MapKey()
			if mp.Has(k) {
				v := mp.Mutable(k).Message()
				v.Clear(fld(v, 1))
			}
		}),
		mk("root.oneofmsg{a=1}", func(c *core.Ctx, s S, h string) {
			v := s.root.Mutable(fld(s.root, 112)).Message()
			v.Set(fld(v, 1), protoreflect.ValueOfInt32(1))
		}),
		mk("root.oneofmsg.clear(a)", func(c *core.Ctx, s S, h string) {
			if s.root.Has(fld(s.root, 112)) {
				v := s.root.Mutable(fld(s.root, 112)).Message()
				v.Clear(fld(v, 1))
			}
		}),
		mk("Size(root)", func(c *core.Ctx, s S, h string) {
			n := proto.Size(s.root.Interface())
			b, err := proto.MarshalOptions{AllowPartial: true}.Marshal(s.root.Interface())
			if err == nil && n != len(b) {
				c.Violation("Size(root)!=len(Marshal): "+h, nil)
			}
		}),
		mk("Size(mid)", func(c *core.Ctx, s S, h string) { proto.Size(s.mid().Interface()) }),
		mk("Size(leaf)", func(c *core.Ctx, s S, h string) { proto.Size(s.leaf().Interface()) }),
		mk("Marshal(root)", func(c *core.Ctx, s S, h string) {
			b, err := proto.MarshalOptions{AllowPartial: true}.Marshal(s.root.Interface())
			verify(c, s, b, err, "Marshal", h)
		}),
		mk("MarshalDet(root)", func(c *core.Ctx, s S, h string) {
			b, err := proto.MarshalOptions{AllowPartial: true, Deterministic: true}.Marshal(s.root.Interface())
			verify(c, s, b, err, "Marshal{Deterministic}", h)
		}),
		mk("Marshal(mid)", func(c *core.Ctx, s S, h string) {
			proto.MarshalOptions{AllowPartial: true}.Marshal(s.mid().Interface())
		}),
		mk("MarshalAppend(root)", func(c *core.Ctx, s S, h string) {
			b, err := proto.MarshalOptions{AllowPartial: true}.MarshalAppend([]byte{1, 2, 3}, s.root.Interface())
			if err == nil {
				b = b[3:]
			}
			verify(c, s, b, err, "MarshalAppend", h)
		}),
		mk("MarshalAppend(spare capacity)(root)", func(c *core.Ctx, s S, h string) {
			// the documented buffer-reuse pattern: a destination with room left
			buf := make([]byte, 3, 1<<14)
			b, err := proto.MarshalOptions{AllowPartial: true}.MarshalAppend(buf, s.root.Interface())
			if err == nil {
				b = b[3:]
			}
			verify(c, s, b, err, "MarshalAppend into a buffer with spare capacity", h)
		}),
		mk("Marshal(dynamic parent of root)", func(c *core.Ctx, s S, h string) {
			// a parent without fast-path methods marshals the generated child into its partly filled buffer
			fd := recursiveField(s.dyn.Descriptor(), s.root.Descriptor())
			if fd == nil {
				return
			}
			p := s.dyn.New()
			p.Set(fd, protoreflect.ValueOfMessage(s.root))
			b, err := proto.MarshalOptions{AllowPartial: true}.Marshal(p.Interface())
			if err != nil {
				c.Violation("Marshal of a dynamic parent holding the message returns error: "+h, err.Error())
				return
			}
			d := s.dyn.New()
			if err := (proto.UnmarshalOptions{AllowPartial: true}).Unmarshal(b, d.Interface()); err != nil {
				c.Violation("Marshal of a dynamic parent holding the message does not decode: "+h, err.Error())
				return
			}
			if want, got := univ.Snapshot(s.root), univ.Snapshot(d.Get(fd).Message()); want != got {
				c.Violation("Marshal of a dynamic parent holding the message is stale: "+h, map[string]any{"content": want, "decoded": got})
			}
		}),
		mk("Size+MarshalUseCachedSize(root)", func(c *core.Ctx, s S, h string) {
			// precondition of UseCachedSize: a full Size call immediately before, no mutation in between
			proto.MarshalOptions{AllowPartial: true}.Size(s.root.Interface())
			b, err := proto.MarshalOptions{AllowPartial: true, UseCachedSize: true}.Marshal(s.root.Interface())
			verify(c, s, b, err, "Marshal{UseCachedSize} after Size", h)
		}),
		mk("Equal(root,root')", func(c *core.Ctx, s S, h string) {
			cl := proto.Clone(s.root.Interface())
			if !proto.Equal(s.root.Interface(), cl) {
				c.Violation("Equal(root,Clone(root)) false: "+h, nil)
			}
			b, err := proto.MarshalOptions{AllowPartial: true}.Marshal(cl)
			verify(c, s, b, err, "Marshal(Clone)", h)
		}),
	}
}

// extOps is the alphabet of the second system: an extendable root whose
// message-typed extension values (singular, repeated, group) carry their own
// size caches and are sized through the extension coder, not a field coder.
func extOps() []hist.Op[*state] {
	type S = *state
	mk := func(name string, f func(c *core.Ctx, s S, h string)) hist.Op[S] { return hist.Op[S]{Name: name, Do: f} }
	xt := func(s S, n int) protoreflect.FieldDescriptor {
		x, err := protoregistry.GlobalTypes.FindExtensionByNumber(s.root.Descriptor().FullName(), protoreflect.FieldNumber(n))
		if err != nil {
			panic(err)
		}
		return x.TypeDescriptor()
	}
	ext := func(s S) protoreflect.Message { return s.root.Mutable(xt(s, 18)).Message() }
	grand := func(s S) protoreflect.Message { e := ext(s); return e.Mutable(fld(e, 2)).Message() }
	marshal := func(name string, o proto.MarshalOptions) hist.Op[S] {
		return mk(name, func(c *core.Ctx, s S, h string) {
			b, err := o.Marshal(s.root.Interface())
			verify(c, s, b, err, name, h)
		})
	}
	return []hist.Op[S]{
		mk("ext.a=1", func(c *core.Ctx, s S, h string) { e := ext(s); e.Set(fld(e, 1), protoreflect.ValueOfInt32(1)) }),
		mk("ext.a=-1", func(c *core.Ctx, s S, h string) { e := ext(s); e.Set(fld(e, 1), protoreflect.ValueOfInt32(-1)) }),
		mk("ext.clear(a)", func(c *core.Ctx, s S, h string) { e := ext(s); e.Clear(fld(e, 1)) }),
		mk("ext.grandchild.ext(int32)=7", func(c *core.Ctx, s S, h string) {
			g := grand(s)
			g.Set(xt(s, 1), protoreflect.ValueOfInt32(7))
		}),
		mk("ext.clear(grandchild)", func(c *core.Ctx, s S, h string) { e := ext(s); e.Clear(fld(e, 2)) }),
		mk("repext+={a=1}", func(c *core.Ctx, s S, h string) {
			l := s.root.Mutable(xt(s, 48)).List()
			e := l.NewElement()
			e.Message().Set(fld(e.Message(), 1), protoreflect.ValueOfInt32(1))
			l.Append(e)
		}),
		mk("repext[0].clear(a)", func(c *core.Ctx, s S, h string) {
			if !s.root.Has(xt(s, 48)) {
				return
			}
			e := s.root.Mutable(xt(s, 48)).List().Get(0).Message()
			e.Clear(fld(e, 1))
		}),
		mk("groupext.a=big", func(c *core.Ctx, s S, h string) {
			g := s.root.Mutable(xt(s, 16)).Message()
			g.Set(g.Descriptor().Fields().Get(0), protoreflect.ValueOfInt32(1<<20))
		}),
		mk("groupext.clear(a)", func(c *core.Ctx, s S, h string) {
			if s.root.Has(xt(s, 16)) {
				g := s.root.Mutable(xt(s, 16)).Message()
				g.Clear(g.Descriptor().Fields().Get(0))
			}
		}),
		mk("Size(root)", func(c *core.Ctx, s S, h string) { proto.Size(s.root.Interface()) }),
		mk("Size(ext)", func(c *core.Ctx, s S, h string) { proto.Size(ext(s).Interface()) }),
		marshal("Marshal(root)", proto.MarshalOptions{AllowPartial: true}),
		marshal("Marshal{Deterministic}(root)", proto.MarshalOptions{AllowPartial: true, Deterministic: true}),
		mk("Size+MarshalUseCachedSize(root)", func(c *core.Ctx, s S, h string) {
			proto.MarshalOptions{AllowPartial: true}.Size(s.root.Interface())
			b, err := proto.MarshalOptions{AllowPartial: true, UseCachedSize: true}.Marshal(s.root.Interface())
			verify(c, s, b, err, "Marshal{UseCachedSize} after Size", h)
		}),
		mk("SizeDet+MarshalDetUseCachedSize(root)", func(c *core.Ctx, s S, h string) {
			proto.MarshalOptions{AllowPartial: true, Deterministic: true}.Size(s.root.Interface())
			b, err := proto.MarshalOptions{AllowPartial: true, Deterministic: true, UseCachedSize: true}.Marshal(s.root.Interface())
			verify(c, s, b, err, "Marshal{Deterministic,UseCachedSize} after Size", h)
		}),
	}
}

// lazyOps is the alphabet of the third system: the root is DECODED (lazy
// decoding on) from the bytes of a three-level lazy tree root -> a -> b, so the
// submessages start unexpanded; operations expand a level (Get), mutate a level
// and interleave Size / Marshal / Marshal{Deterministic}.
func lazyOps() []hist.Op[*state] {
	type S = *state
	mk := func(name string, f func(c *core.Ctx, s S, h string)) hist.Op[S] { return hist.Op[S]{Name: name, Do: f} }
	nested := func(m protoreflect.Message) protoreflect.FieldDescriptor { return fld(m, 99) }
	level := func(m protoreflect.Message, depth int) protoreflect.Message {
		for i := 0; i < depth; i++ {
			m = m.Mutable(nested(m)).Message()
		}
		return m
	}
	// mutate applies f to the same level of the real message and of its eager twin
	mutate := func(name string, depth int, f func(m protoreflect.Message)) hist.Op[S] {
		return mk(name, func(c *core.Ctx, s S, h string) {
			f(level(s.root, depth))
			f(level(s.twin, depth))
		})
	}
	marshal := func(name string, o proto.MarshalOptions) hist.Op[S] {
		return mk(name, func(c *core.Ctx, s S, h string) {
			bs, err := o.Marshal(s.root.Interface())
			if err != nil {
				c.Violation(fmt.Sprintf("%s returns error: %s", name, h), err.Error())
				return
			}
			if n := o.Size(s.root.Interface()); n != len(bs) {
				c.Violation(fmt.Sprintf("%s: Size=%d != len(Marshal)=%d: %s", name, n, len(bs), h), nil)
			}
			d := s.dyn.New()
			if err := (proto.UnmarshalOptions{AllowPartial: true}).Unmarshal(bs, d.Interface()); err != nil {
				c.Violation(fmt.Sprintf("%s output does not decode: %s", name, h), err.Error())
				return
			}
			if want, got := univ.Snapshot(s.twin), univ.Snapshot(d); want != got {
				c.Violation(fmt.Sprintf("%s output is stale: %s", name, h), map[string]any{"content": want, "decoded": got, "bytes": fmt.Sprintf("%x", bs)})
			}
		})
	}
	return []hist.Op[S]{
		mk("Get(a)", func(c *core.Ctx, s S, h string) { s.root.Get(nested(s.root)).Message().IsValid() }),
		mk("Get(b)", func(c *core.Ctx, s S, h string) {
			x := s.root.Get(nested(s.root)).Message()
			x.Get(nested(x)).Message().IsValid()
		}),
		mutate("a.string=big", 1, func(m protoreflect.Message) { m.Set(fld(m, 14), protoreflect.ValueOfString(big)) }),
		mutate("a.clear(string)", 1, func(m protoreflect.Message) { m.Clear(fld(m, 14)) }),
		mutate("a.int32=7", 1, func(m protoreflect.Message) { m.Set(fld(m, 1), protoreflect.ValueOfInt32(7)) }),
		mutate("b.int32=-1", 2, func(m protoreflect.Message) { m.Set(fld(m, 1), protoreflect.ValueOfInt32(-1)) }),
		mutate("b.clear(int32)", 2, func(m protoreflect.Message) { m.Clear(fld(m, 1)) }),
		mutate("root.int32=1", 0, func(m protoreflect.Message) { m.Set(fld(m, 1), protoreflect.ValueOfInt32(1)) }),
		mk("Size(root)", func(c *core.Ctx, s S, h string) { proto.Size(s.root.Interface()) }),
		mk("Size(a)", func(c *core.Ctx, s S, h string) { proto.Size(s.root.Get(nested(s.root)).Message().Interface()) }),
		marshal("Marshal(root)", proto.MarshalOptions{AllowPartial: true}),
		marshal("Marshal{Deterministic}(root)", proto.MarshalOptions{AllowPartial: true, Deterministic: true}),
	}
}

func run(c *core.Ctx) {
	c.Rule = "explicit-state BFS over histories of 27 operations (leaf/mid/list-element/map-value/oneof-member mutations that change encoded length incl. across the 127/128 length-prefix boundary and that empty a child in place; Size at three levels; Marshal default/Deterministic/Append (full and with spare capacity)/UseCachedSize-after-Size/through a dynamicpb parent holding the message; Clone/Equal) on a real three-level message in open, hybrid, opaque and proto3 flavors, and a second system of 15 operations on an extendable root whose singular, repeated and group message-typed extension values (and an extension inside a grandchild) are mutated between Size / Marshal / Marshal{Deterministic} / UseCachedSize calls, and a third system of 12 operations (every history of <=4, thorough 5, its own state) on a three-level lazy tree that is DECODED lazily: expanding a level, mutating a level, Size, Marshal, Marshal{Deterministic}; state key = canonical content + every size-cache word read by reflection; in every state reached by a Marshal transition the output must decode (independent dynamicpb decoder) to the current content"
	depth := core.Pick(c, 5, 7)
	c.Bounds["depth"] = depth
	var out []map[string]any
	exhaust := true
	for _, name := range []string{"goproto.proto.test.TestAllTypes", "opaque.goproto.proto.testeditions.TestAllTypes", "hybrid.goproto.proto.testeditions.TestAllTypes", "goproto.proto.test3.TestAllTypes"} {
		mt := univ.MT(name)
		sys := &hist.System[*state]{
			Name: name,
			New: func() *state {
				return &state{root: mt.New(), dyn: dynamicpb.NewMessageType(mt.Descriptor())}
			},
			Ops: ops(),
			Key: key,
		}
		d := depth
		if name != "goproto.proto.test.TestAllTypes" && name != "opaque.goproto.proto.testeditions.TestAllTypes" && c.Quick() {
			d = depth - 1
		}
		r := hist.BFS(c, sys, d)
		out = append(out, map[string]any{"type": name, "depth": d, "states": r.States, "transitions": r.Transitions, "max_depth": r.MaxDepth, "frontier_exhausted": r.FrontierExhausted})
		c.DistinctN(int64(r.States))
		if c.Expired() {
			exhaust = false
		}
	}
	for _, name := range []string{"goproto.proto.test.TestAllExtensions", "opaque.goproto.proto.testeditions.TestAllExtensions", "hybrid.goproto.proto.testeditions.TestAllExtensions"} {
		mt := univ.MT(name)
		sys := &hist.System[*state]{
			Name: name,
			New: func() *state {
				return &state{root: mt.New(), dyn: dynamicpb.NewMessageType(mt.Descriptor())}
			},
			Ops: extOps(),
			Key: key,
		}
		r := hist.BFS(c, sys, depth)
		out = append(out, map[string]any{"type": name, "alphabet": "message-typed extension values", "operations": len(sys.Ops), "depth": depth, "states": r.States, "transitions": r.Transitions, "max_depth": r.MaxDepth, "frontier_exhausted": r.FrontierExhausted})
		c.DistinctN(int64(r.States))
		if c.Expired() {
			exhaust = false
		}
	}
	for _, name := range []string{"opaque.lazy_tree.Node", "hybrid.lazy_tree.Node"} {
		mt := univ.MT(name)
		// root{int32:5, nested a{int32:6, string:"s", nested b{int32:7}}}
		bb := []byte{0x08, 0x07}
		ab := append([]byte{0x08, 0x06, 0x72, 0x01, 's', 0x9a, 0x06, byte(len(bb))}, bb...)
		rb := append([]byte{0x08, 0x05, 0x9a, 0x06, byte(len(ab))}, ab...)
		sys := &hist.System[*state]{
			Name: name + " (decoded lazily)",
			New: func() *state {
				m := mt.New()
				if err := proto.Unmarshal(rb, m.Interface()); err != nil {
					panic(err)
				}
				dt := dynamicpb.NewMessageType(mt.Descriptor())
				tw := dt.New()
				if err := proto.Unmarshal(rb, tw.Interface()); err != nil {
					panic(err)
				}
				return &state{root: m, dyn: dt, twin: tw}
			},
			Ops: lazyOps(),
		}
		d := core.Pick(c, 4, 5)
		r := hist.BFS(c, sys, d)
		out = append(out, map[string]any{"type": name, "alphabet": "lazily decoded three-level tree (every history its own state)", "operations": len(sys.Ops), "depth": d, "histories": r.Transitions})
		c.DistinctN(int64(r.Transitions))
		if c.Expired() {
			exhaust = false
		}
	}
	c.Exhaustive = exhaust
	c.Bounds["systems"] = out
	c.Sample("goproto.proto.test.TestAllTypes:[leaf.string=big ; Size(root) ; leaf.clear(string) ; Marshal(root)]")
	c.Sample("opaque...TestAllTypes:[root.map[k]{a=big} ; Marshal(root) ; root.map[k].clear(a) ; Size+MarshalUseCachedSize(root)]")
	c.Assume("no concurrent mutation (single-threaded histories), as the statement requires")
	c.Assume("states with equal (content, size-cache words) are merged: Marshal/Size read no other hidden state of these non-lazy messages")
}
