// Package c09: unknown fields are preserved and DiscardUnknown removes them.
package c09

import (
	"bytes"
	"fmt"

	"google.golang.org/protobuf/proto"
	"google.golang.org/protobuf/reflect/protodesc"
	"google.golang.org/protobuf/reflect/protoreflect"
	"google.golang.org/protobuf/reflect/protoregistry"
	"google.golang.org/protobuf/types/descriptorpb"
	"google.golang.org/protobuf/types/dynamicpb"
	"google.golang.org/protobuf/verifmc/core"
	"google.golang.org/protobuf/verifmc/ref/refwire"
	"google.golang.org/protobuf/verifmc/univ"
)

func init() { core.Register("C09", "exploration", run) }

func wt(k protoreflect.Kind) int {
	switch k {
	case protoreflect.Fixed32Kind, protoreflect.Sfixed32Kind, protoreflect.FloatKind:
		return 5
	case protoreflect.Fixed64Kind, protoreflect.Sfixed64Kind, protoreflect.DoubleKind:
		return 1
	case protoreflect.StringKind, protoreflect.BytesKind, protoreflect.MessageKind:
		return 2
	case protoreflect.GroupKind:
		return 3
	}
	return 0
}

// expectedUnknown returns, for a well-formed input, the top-level records the
// schema does not know (unknown number, or known number with a wire type the
// field cannot accept), with minimal tags, in input order.
func expectedUnknown(md protoreflect.MessageDescriptor, in []byte, ext func(protoreflect.FieldNumber) protoreflect.FieldDescriptor) ([]byte, bool) {
	recs, ok := refwire.Split(in)
	if !ok {
		return nil, false
	}
	var out []byte
	for _, r := range recs {
		fd := md.Fields().ByNumber(protoreflect.FieldNumber(r.Num))
		if fd == nil && ext != nil {
			fd = ext(protoreflect.FieldNumber(r.Num))
		}
		known := false
		if fd != nil {
			exp := wt(fd.Kind())
			switch {
			case fd.IsMap():
				known = r.Typ == 2
			case r.Typ == exp:
				known = true
			case fd.IsList() && r.Typ == 2 && exp != 2 && exp != 3:
				known = true
			}
		}
		if !known {
			out = refwire.AppendVarint(out, uint64(r.Num)<<3|uint64(r.Typ))
			out = append(out, r.Val...)
		}
	}
	return out, true
}

// hasUnknown walks the message tree through reflection.
func hasUnknown(m protoreflect.Message) bool {
	if len(m.GetUnknown()) > 0 {
		return true
	}
	found := false
	m.Range(func(fd protoreflect.FieldDescriptor, v protoreflect.Value) bool {
		switch {
		case fd.IsList() && fd.Message() != nil:
			for i := 0; i < v.List().Len() && !found; i++ {
				found = hasUnknown(v.List().Get(i).Message())
			}
		case fd.IsMap() && fd.MapValue().Message() != nil:
			v.Map().Range(func(_ protoreflect.MapKey, mv protoreflect.Value) bool {
				found = hasUnknown(mv.Message())
				return !found
			})
		case fd.Message() != nil && !fd.IsList() && !fd.IsMap():
			found = hasUnknown(v.Message())
		}
		return !found
	})
	return found
}

// subSchema returns a dynamic message type for `name` from a copy of its file
// with one field of message msgName removed (oneof declarations that become
// empty are removed too).
func subSchema(file protoreflect.FileDescriptor, target protoreflect.MessageDescriptor, msg protoreflect.MessageDescriptor, del protoreflect.FieldNumber, delAll bool) (protoreflect.MessageType, error) {
	fdp := protodesc.ToFileDescriptorProto(file)
	fdp.Name = proto.String("sub_" + fdp.GetName())
	var find func(ms []*descriptorpb.DescriptorProto, prefix string) *descriptorpb.DescriptorProto
	find = func(ms []*descriptorpb.DescriptorProto, prefix string) *descriptorpb.DescriptorProto {
		for _, m := range ms {
			fn := prefix + m.GetName()
			if fn == string(msg.FullName()) {
				return m
			}
			if r := find(m.NestedType, fn+"."); r != nil {
				return r
			}
		}
		return nil
	}
	pfx := ""
	if fdp.GetPackage() != "" {
		pfx = fdp.GetPackage() + "."
	}
	mp := find(fdp.MessageType, pfx)
	if mp == nil {
		return nil, fmt.Errorf("message %s not found", msg.FullName())
	}
	var kept []*descriptorpb.FieldDescriptorProto
	for _, f := range mp.Field {
		if delAll || protoreflect.FieldNumber(f.GetNumber()) == del {
			continue
		}
		kept = append(kept, f)
	}
	mp.Field = kept
	// drop oneofs left without members and renumber
	used := map[int32]bool{}
	for _, f := range kept {
		if f.OneofIndex != nil {
			used[f.GetOneofIndex()] = true
		}
	}
	remap := map[int32]int32{}
	var oneofs []*descriptorpb.OneofDescriptorProto
	for i, o := range mp.OneofDecl {
		if used[int32(i)] {
			remap[int32(i)] = int32(len(oneofs))
			oneofs = append(oneofs, o)
		}
	}
	mp.OneofDecl = oneofs
	for _, f := range kept {
		if f.OneofIndex != nil {
			f.OneofIndex = proto.Int32(remap[f.GetOneofIndex()])
		}
	}
	// the sub file redeclares the same names: resolve dependencies against the global registry only
	fd, err := protodesc.FileOptions{AllowUnresolvable: false}.New(fdp, protoregistry.GlobalFiles)
	if err != nil {
		return nil, err
	}
	var findMD func(mds protoreflect.MessageDescriptors) protoreflect.MessageDescriptor
	findMD = func(mds protoreflect.MessageDescriptors) protoreflect.MessageDescriptor {
		for i := 0; i < mds.Len(); i++ {
			if mds.Get(i).FullName() == target.FullName() {
				return mds.Get(i)
			}
			if r := findMD(mds.Get(i).Messages()); r != nil {
				return r
			}
		}
		return nil
	}
	smd := findMD(fd.Messages())
	if smd == nil {
		return nil, fmt.Errorf("target not found in sub file")
	}
	return dynamicpb.NewMessageType(smd), nil
}

type plan struct {
	name   string
	wireN  int
	small  bool
	evoK   int // slot-list length for schema-evolution inputs
	nested string
}

func plans(c *core.Ctx) []plan {
	q := c.Quick()
	return []plan{
		{name: "goproto.proto.test.TestAllTypes", wireN: 2, small: q, evoK: 1, nested: "goproto.proto.test.TestAllTypes.NestedMessage"},
		{name: "goproto.proto.test3.TestAllTypes", wireN: 2, small: true, evoK: 1, nested: "goproto.proto.test3.TestAllTypes.NestedMessage"},
		{name: "opaque.goproto.proto.testeditions.TestAllTypes", wireN: 2, small: q, evoK: 1, nested: "opaque.goproto.proto.testeditions.TestAllTypes.NestedMessage"},
		{name: "hybrid.goproto.proto.testeditions.TestAllTypes", wireN: 2, small: true},
		{name: "goproto.proto.test.TestAllExtensions", wireN: 2, small: q},
		{name: "opaque.lazy_tree.Node", wireN: 3, small: true, evoK: 2},
		{name: "hybrid.lazy_tree.Node", wireN: 2},
		{name: "goproto.proto.test.OpaqueLazy", wireN: 3, small: true, evoK: 2},
		{name: "goproto.proto.test.TestRequiredLazy", wireN: 3},
		{name: "pb2.Nests", wireN: 2, evoK: 2},
		{name: "pb2.Maps", wireN: 2, small: true, evoK: 2},
		{name: "lazy_normalized_wire_test.FTop", wireN: 3, evoK: 2},
	}
}

func run(c *core.Ctx) {
	c.Rule = "(a) for every decodable sequence of <=n wire records: GetUnknown of the decoded message (lazy, eager, dynamicpb) equals, record by record in input order, the records a reference classifier calls unknown for the schema (tags in minimal form), Marshal (default and deterministic) re-emits them in order, and with DiscardUnknown neither a reflective walk of the tree nor a re-decode of the Marshal output produced BEFORE any field access finds unknown bytes anywhere (top level, nested, groups, map values, lazy submessages), and Size equals the length of that output; (b) schema evolution: for every sub-schema obtained by deleting one field (or all fields of the nested message type) and every input: decode(sub) -> Marshal -> decode(full) has the same content as decode(full) directly. distinct = distinct (type, sub-schema, input) cases by construction; (c) the DiscardUnknown clause for MessageSet items (unresolvable type ids) is checked by child runs in the protolegacy and protolegacy,protoreflect builds over the C47 item alphabet"
	c.Exhaustive = true
	// MessageSet items are unknown fields too; that part needs the protolegacy builds
	var children []*core.Child
	if !core.IsChild() {
		children = append(children, c.StartChild("legacy", "C09mset", "GOMAXPROCS=4"), c.StartChild("legacyreflect", "C09mset", "GOMAXPROCS=4"))
	}
	defer func() {
		for _, ch := range children {
			c.Join(ch)
		}
	}()
	var planOut []map[string]any
	for _, p := range plans(c) {
		if c.Expired() {
			break
		}
		gen, dyn := univ.Gen(p.name), univ.Dyn(p.name)
		md := gen.MT.Descriptor()
		ext := func(n protoreflect.FieldNumber) protoreflect.FieldDescriptor {
			xt, err := protoregistry.GlobalTypes.FindExtensionByNumber(md.FullName(), n)
			if err != nil {
				return nil
			}
			return xt.TypeDescriptor()
		}
		recs := univ.WireAlphabet(md, univ.WireOpt{Small: p.small, Depth: 1, NonMinUnknownTag: true})
		total := univ.TupleCount(len(recs), p.wireN)
		univ.ForTuples(c, len(recs), p.wireN, func(idx []int) {
			in, name := univ.Concat(recs, idx)
			c.Eval(1)
			want, wellformed := expectedUnknown(md, in, ext)
			for _, f := range []univ.Flavor{gen, dyn} {
				for _, nolazy := range []bool{false, true} {
					if f.Dynamic && !nolazy {
						continue
					}
					sig := func(cl string) string {
						return fmt.Sprintf("%s type=%s nolazy=%v input=%s", cl, f.Name, nolazy, name)
					}
					c.Guard(func() string { return sig("") }, func() {
						m, err := f.Unmarshal(in, proto.UnmarshalOptions{AllowPartial: true, NoLazyDecoding: nolazy})
						if err != nil {
							return
						}
						if !wellformed {
							c.Violation(sig("accepted-malformed-input"), nil)
							return
						}
						c.Outcome("decoded")
						got := univ.NormUnknownTags(m.GetUnknown())
						if !bytes.Equal(got, want) {
							c.Violation(sig("unknown-fields-differ"), map[string]any{"want": fmt.Sprintf("%x", want), "got": fmt.Sprintf("%x", got)})
							return
						}
						if len(want) > 0 {
							c.Outcome("with-unknown")
						}
						for _, det := range []bool{false, true} {
							b, err := proto.MarshalOptions{AllowPartial: true, Deterministic: det}.Marshal(m.Interface())
							if err != nil {
								c.Violation(sig("marshal-error"), err.Error())
								continue
							}
							// the re-emitted unknown records, in order
							back, _ := expectedUnknown(md, b, ext)
							if !bytes.Equal(back, want) {
								c.Violation(sig(fmt.Sprintf("marshal-does-not-reemit-unknown det=%v", det)), map[string]any{"want": fmt.Sprintf("%x", want), "got": fmt.Sprintf("%x", back)})
							}
						}
					})
					// DiscardUnknown
					c.Guard(func() string { return sig("discard") }, func() {
						m, err := f.Unmarshal(in, proto.UnmarshalOptions{AllowPartial: true, NoLazyDecoding: nolazy, DiscardUnknown: true})
						if err != nil {
							return
						}
						// Marshal and Size before any access (a lazily held submessage must not smuggle unknown bytes through)
						sz := proto.MarshalOptions{AllowPartial: true}.Size(m.Interface())
						b, err := proto.MarshalOptions{AllowPartial: true}.Marshal(m.Interface())
						if err != nil {
							c.Violation(sig("discard: marshal-error"), err.Error())
							return
						}
						if sz != len(b) {
							c.Violation(sig(fmt.Sprintf("discard: size=%d len=%d", sz, len(b))), nil)
						}
						m2, err := f.Unmarshal(b, proto.UnmarshalOptions{AllowPartial: true, NoLazyDecoding: true})
						if err != nil {
							c.Violation(sig("discard: output does not decode"), err.Error())
							return
						}
						if hasUnknown(m2) {
							c.Violation(sig("discard: marshal-output-retains-unknown"), fmt.Sprintf("%x", b))
						}
						if hasUnknown(m) {
							c.Violation(sig("discard: message-retains-unknown"), univ.Snapshot(m))
						}
					})
				}
			}
		})
		c.DistinctN(int64(total))
		rec := map[string]any{"type": p.name, "wire_alphabet": len(recs), "wire_n": p.wireN, "wire_sequences": total}
		if p.evoK > 0 {
			nsub, ncases := evolution(c, p, gen, recs)
			rec["sub_schemas"] = nsub
			rec["evolution_cases"] = ncases
		}
		planOut = append(planOut, rec)
		_, nm := univ.Concat(recs, []int{len(recs) / 3, len(recs) - 4})
		c.Sample(map[string]any{"type": p.name, "input": nm})
	}
	c.Bounds["plans"] = planOut
	c.Assume("a record is 'known' iff its number is a field/extension of the schema and its wire type is the field's (or the packed form of a packable repeated field); everything else must be kept verbatim except that the tag may be re-encoded minimally")
	c.Assume("schema evolution: when the deleted field is a oneof member and the input names several members of that oneof, re-encoding legitimately changes which member is last; such cases are only checked for preservation")
}

func evolution(c *core.Ctx, p plan, gen univ.Flavor, recs []univ.Rec) (int, int) {
	md := gen.MT.Descriptor()
	file := md.ParentFile()
	type sub struct {
		name  string
		mt    protoreflect.MessageType
		oneof protoreflect.OneofDescriptor
	}
	var subs []sub
	for _, fd := range univ.SortedFields(md) {
		mt, err := subSchema(file, md, md, fd.Number(), false)
		if err != nil {
			c.Outcome("subschema-build-failed")
			c.Extra("subschema_error_"+p.name, err.Error())
			continue
		}
		var od protoreflect.OneofDescriptor
		if o := fd.ContainingOneof(); o != nil && !o.IsSynthetic() {
			od = o
		}
		subs = append(subs, sub{fmt.Sprintf("del-field-%d", fd.Number()), mt, od})
	}
	if p.nested != "" {
		nmd := univ.MT(p.nested).Descriptor()
		if mt, err := subSchema(file, md, nmd, 0, true); err == nil {
			subs = append(subs, sub{"del-all-fields-of-" + string(nmd.Name()), mt, nil})
		} else {
			c.Extra("subschema_error_nested_"+p.name, err.Error())
		}
	}
	// inputs: encodings of M(T,evoK) thin plus single wire records
	alpha := univ.Alphabet(md, 2, univ.Opt{Thin: true})
	var inputs []univ.Rec
	n := univ.TupleCount(len(alpha), p.evoK)
	for i := 0; i < n; i++ {
		slots := univ.PickSlots(alpha, univ.TupleAt(len(alpha), p.evoK, i, nil), nil)
		b, err := proto.MarshalOptions{AllowPartial: true}.Marshal(gen.Build(slots).Interface())
		if err == nil {
			inputs = append(inputs, univ.Rec{Name: "enc" + univ.Names(slots), B: b})
		}
	}
	wn := 1
	if len(recs) < 120 {
		wn = 2
	}
	t := univ.TupleCount(len(recs), wn)
	for i := 0; i < t; i++ {
		b, name := univ.Concat(recs, univ.TupleAt(len(recs), wn, i, nil))
		inputs = append(inputs, univ.Rec{Name: "wire" + name, B: b})
	}
	dynRes := univ.DynTypes{}
	cases := 0
	c.Par(len(inputs), func(i int) {
		in := inputs[i]
		direct, err := gen.Unmarshal(in.B, proto.UnmarshalOptions{AllowPartial: true})
		if err != nil {
			return
		}
		want := univ.SnapshotNorm(direct)
		for _, s := range subs {
			sig := fmt.Sprintf("type=%s sub=%s input=%s", p.name, s.name, in.Name)
			c.Eval(1)
			c.Guard(func() string { return "evolution " + sig }, func() {
				sm := s.mt.New()
				if err := (proto.UnmarshalOptions{AllowPartial: true, Resolver: dynRes}).Unmarshal(in.B, sm.Interface()); err != nil {
					// the sub-schema may legitimately reject (nothing); report: a subset schema validates less, never more
					c.Violation("evolution: sub-schema rejects input the full schema accepts "+sig, err.Error())
					return
				}
				b2, err := proto.MarshalOptions{AllowPartial: true}.Marshal(sm.Interface())
				if err != nil {
					c.Violation("evolution: marshal of sub-schema message fails "+sig, err.Error())
					return
				}
				via, err := gen.Unmarshal(b2, proto.UnmarshalOptions{AllowPartial: true})
				if err != nil {
					c.Violation("evolution: re-encoded bytes rejected by full schema "+sig, err.Error())
					return
				}
				if s.oneof != nil {
					// several members of that oneof on the wire? then only preservation is required
					cnt := 0
					rs, _ := refwire.Split(in.B)
					for _, r := range rs {
						if fd := md.Fields().ByNumber(protoreflect.FieldNumber(r.Num)); fd != nil && fd.ContainingOneof() == s.oneof {
							cnt++
						}
					}
					if cnt > 1 {
						c.Outcome("evolution-oneof-reordering-excluded")
						return
					}
				}
				if got := univ.SnapshotNorm(via); got != want {
					c.Violation("evolution: via-sub-schema content differs "+sig, map[string]any{"direct": want, "via": got, "reencoded": fmt.Sprintf("%x", b2)})
				}
			})
		}
	})
	cases = len(inputs) * len(subs)
	c.DistinctN(int64(cases))
	return len(subs), cases
}
