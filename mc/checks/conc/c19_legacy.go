//go:build verifsched

package conc

import (
	"fmt"

	"google.golang.org/protobuf/internal/impl"
	legacypb "google.golang.org/protobuf/internal/testprotos/legacy/proto2_20160225_2fc053c5"
	testpb "google.golang.org/protobuf/internal/testprotos/test"
	"google.golang.org/protobuf/runtime/protoiface"
	"google.golang.org/protobuf/runtime/protoimpl"
	"google.golang.org/protobuf/verifmc/core"
)

// Aberrant (struct-tag only) types in a cycle; Parent has fields after the one
// that leads into the cycle.
type AbParent struct {
	A     *int32   `protobuf:"varint,1,opt,name=a"`
	Child *AbChild `protobuf:"bytes,2,opt,name=child"`
	B     *string  `protobuf:"bytes,3,opt,name=b"`
	C     []int64  `protobuf:"varint,4,rep,name=c"`
	D     *AbChild `protobuf:"bytes,5,opt,name=d"`
	E     *bool    `protobuf:"varint,6,opt,name=e"`
}

type AbChild struct {
	Parent *AbParent `protobuf:"bytes,1,opt,name=parent"`
	X      *int32    `protobuf:"varint,2,opt,name=x"`
}

func (*AbParent) Reset()         {}
func (*AbParent) String() string { return "AbParent" }
func (*AbParent) ProtoMessage()  {}
func (*AbChild) Reset()          {}
func (*AbChild) String() string  { return "AbChild" }
func (*AbChild) ProtoMessage()   {}

func legacyFamily() firstUse {
	return firstUse{
		name:  "legacy wrappers: first use of aberrant cyclic types, a legacy generated message and enum (derived-descriptor caches reset)",
		fresh: func() any { impl.VerifResetLegacyCaches(); return nil },
		quick: 4,
		ops: []fuOp{
			{"Parent.descriptor", func(any) string {
				md := protoimpl.X.MessageDescriptorOf((*AbParent)(nil))
				return fmt.Sprint(md.Fields().Len(), md.Fields().ByNumber(6) != nil, md.Fields().ByName("child").Message().Fields().Len())
			}},
			{"Child.parent.descriptor", func(any) string {
				md := protoimpl.X.MessageDescriptorOf((*AbChild)(nil))
				p := md.Fields().ByName("parent").Message()
				return fmt.Sprint(md.Fields().Len(), p.Fields().Len(), p.Fields().ByNumber(6) != nil, p.Fields().ByName("e") != nil)
			}},
			{"Parent.message", func(any) string {
				m := protoimpl.X.MessageOf(&AbParent{A: new(int32)})
				n := 0
				for i := 0; i < m.Descriptor().Fields().Len(); i++ {
					if m.Has(m.Descriptor().Fields().Get(i)) {
						n++
					}
				}
				return fmt.Sprint(n, m.Descriptor().Fields().Len())
			}},
			{"LegacyGenerated.descriptor", func(any) string {
				md := protoimpl.X.MessageDescriptorOf((*legacypb.Message)(nil))
				return fmt.Sprint(md.FullName(), md.Fields().Len(), md.Fields().ByName("optional_child_message").Message().FullName())
			}},
			{"LegacyGenerated.message", func(any) string {
				m := protoimpl.X.MessageOf(&legacypb.Message{})
				return fmt.Sprint(m.Descriptor().FullName(), m.Descriptor().Fields().Len(), m.IsValid())
			}},
			{"LegacyEnum", func(any) string {
				ed := protoimpl.X.EnumDescriptorOf(legacypb.SiblingEnum_ALPHA)
				return fmt.Sprint(ed.FullName(), ed.Values().Len())
			}},
		},
	}
}

// requiredCheckFamily: the "does this type need an initialisation check" cache is
// filled under a mutex but read without it; two fresh MessageInfos of a type whose
// required fields sit in a sub-message make first use concurrently.
func requiredCheckFamily() firstUse {
	orig := (&testpb.TestRequiredForeign{}).ProtoReflect().(interface{ ProtoMessageInfo() *impl.MessageInfo }).ProtoMessageInfo()
	fresh := func() *impl.MessageInfo {
		return &impl.MessageInfo{GoReflectType: orig.GoReflectType, Desc: orig.Desc, Exporter: orig.Exporter, OneofWrappers: orig.OneofWrappers}
	}
	partial := func() *testpb.TestRequiredForeign {
		return &testpb.TestRequiredForeign{OptionalMessage: &testpb.TestRequired{}}
	}
	mis := func(st any) [2]*impl.MessageInfo { return st.([2]*impl.MessageInfo) }
	marshal := func(mi *impl.MessageInfo) string {
		m := mi.MessageOf(partial())
		_, err := m.ProtoMethods().Marshal(protoiface.MarshalInput{Message: m})
		ci, cerr := m.ProtoMethods().CheckInitialized(protoiface.CheckInitializedInput{Message: m})
		_ = ci
		return fmt.Sprint("marshal-reports-missing-required=", err != nil, " checkinitialized-reports=", cerr != nil)
	}
	unmarshal := func(mi *impl.MessageInfo) string {
		m := mi.MessageOf(&testpb.TestRequiredForeign{})
		out, err := m.ProtoMethods().Unmarshal(protoiface.UnmarshalInput{Message: m, Buf: []byte{0x0a, 0x00}, Depth: 100})
		return fmt.Sprint("err=", err, " claims-initialized=", out.Flags&protoiface.UnmarshalInitialized != 0)
	}
	return firstUse{
		name:  "required-field bookkeeping cache (needsInitCheck) under concurrent first use of two MessageInfos of TestRequiredForeign (cache reset)",
		fresh: func() any { impl.VerifResetLegacyCaches(); return [2]*impl.MessageInfo{fresh(), fresh()} },
		quick: 4,
		ops: []fuOp{
			{"mi1.Marshal+CheckInitialized(partial)", func(st any) string { return marshal(mis(st)[0]) }},
			{"mi2.Marshal+CheckInitialized(partial)", func(st any) string { return marshal(mis(st)[1]) }},
			{"mi1.Unmarshal(partial)", func(st any) string { return unmarshal(mis(st)[0]) }},
			{"mi2.Unmarshal(partial)", func(st any) string { return unmarshal(mis(st)[1]) }},
		},
	}
}

func legacyPlans(c *core.Ctx, bound int) []map[string]any {
	out := exploreFamily(c, legacyFamily(), bound, nil, true)
	return append(out, exploreFamily(c, requiredCheckFamily(), bound, nil, true)...)
}
