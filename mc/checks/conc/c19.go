package conc

import (
	"fmt"
	"os"
	"reflect"
	"sort"
	"strings"
	"sync"
	"sync/atomic"

	"google.golang.org/protobuf/internal/filedesc"
	"google.golang.org/protobuf/internal/impl"
	testpb "google.golang.org/protobuf/internal/testprotos/test"
	"google.golang.org/protobuf/proto"
	"google.golang.org/protobuf/reflect/protodesc"
	"google.golang.org/protobuf/reflect/protoreflect"
	"google.golang.org/protobuf/reflect/protoregistry"
	"google.golang.org/protobuf/runtime/protoiface"
	"google.golang.org/protobuf/types/descriptorpb"
	"google.golang.org/protobuf/types/dynamicpb"
	"google.golang.org/protobuf/verifmc/core"
	"google.golang.org/protobuf/verifmc/sched"
	"google.golang.org/protobuf/verifmc/univ"
)

func init() {
	core.Register("C19", "exploration", runC19)
	core.Register("C19race", "exploration", runC19Race)
}

// firstUse is a family of scenarios: fresh state, and an alphabet of
// operations each of which makes first use of that state.
type firstUse struct {
	name  string
	fresh func() any // builds the shared, never used object(s)
	ops   []fuOp
	quick int // quick tier: triples over the first `quick` operations
	valid func(idx []int) bool
}

type fuOp struct {
	name string
	f    func(state any) string
}

// ---- (a) MessageInfo.init -------------------------------------------------------

func messageInfoFamily() firstUse {
	orig := (&testpb.TestAllTypes{}).ProtoReflect().(interface{ ProtoMessageInfo() *impl.MessageInfo }).ProtoMessageInfo()
	md := orig.Desc
	content := func() *testpb.TestAllTypes {
		return &testpb.TestAllTypes{OptionalInt32: proto.Int32(5), RepeatedString: []string{"a", "b"}, OptionalNestedMessage: &testpb.TestAllTypes_NestedMessage{A: proto.Int32(1)},
			OneofField: &testpb.TestAllTypes_OneofUint32{OneofUint32: 9}, MapStringString: map[string]string{"k": "v"}}
	}
	want, _ := proto.MarshalOptions{Deterministic: true}.Marshal(content())
	msg := func(st any) protoreflect.Message { return st.(*impl.MessageInfo).MessageOf(content()) }
	return firstUse{
		name: "impl.MessageInfo first use (fresh MessageInfo for goproto.proto.test.TestAllTypes)",
		fresh: func() any {
			return &impl.MessageInfo{GoReflectType: orig.GoReflectType, Desc: orig.Desc, Exporter: orig.Exporter, OneofWrappers: orig.OneofWrappers}
		},
		quick: 4,
		ops: []fuOp{
			{"methods.Marshal", func(st any) string {
				m := msg(st)
				out, err := m.ProtoMethods().Marshal(protoiface.MarshalInput{Message: m, Flags: protoiface.MarshalDeterministic})
				return fmt.Sprintf("%x %v", out.Buf, err)
			}},
			{"reflect.Has+Get", func(st any) string {
				m := msg(st)
				fd := md.Fields().ByName("optional_int32")
				return fmt.Sprint(m.Has(fd), m.Get(fd).Int(), m.WhichOneof(md.Oneofs().ByName("oneof_field")).Name())
			}},
			{"reflect.Range", func(st any) string {
				var names []string
				msg(st).Range(func(fd protoreflect.FieldDescriptor, v protoreflect.Value) bool {
					names = append(names, string(fd.Name()))
					return true
				})
				sort.Strings(names)
				return strings.Join(names, ",")
			}},
			{"methods.Unmarshal", func(st any) string {
				m := st.(*impl.MessageInfo).MessageOf(&testpb.TestAllTypes{})
				_, err := m.ProtoMethods().Unmarshal(protoiface.UnmarshalInput{Message: m, Buf: want, Resolver: protoregistry.GlobalTypes, Depth: 100})
				return fmt.Sprint(err, m.Get(md.Fields().ByName("optional_int32")).Int(), m.Get(md.Fields().ByName("repeated_string")).List().Len())
			}},
			{"methods.Size", func(st any) string {
				m := msg(st)
				return fmt.Sprint(m.ProtoMethods().Size(protoiface.SizeInput{Message: m}).Size)
			}},
			{"New+Set+Marshal", func(st any) string {
				m := st.(*impl.MessageInfo).New()
				m.Set(md.Fields().ByName("optional_string"), protoreflect.ValueOfString("x"))
				out, err := m.ProtoMethods().Marshal(protoiface.MarshalInput{Message: m})
				return fmt.Sprintf("%x %v", out.Buf, err)
			}},
			{"methods.CheckInitialized", func(st any) string {
				m := msg(st)
				_, err := m.ProtoMethods().CheckInitialized(protoiface.CheckInitializedInput{Message: m})
				return fmt.Sprint(err)
			}},
		},
	}
}

// ---- (b) filedesc lazy initialisation ----------------------------------------------

func fileFamily() firstUse {
	fdp := univ.SchemaFile("verif/c19/lazyfile.proto", "verif.c19.lazyfile", univ.Proto2, univ.Shapes(univ.Proto2, false)[:6])
	fdp.Service = []*descriptorpb.ServiceDescriptorProto{{Name: proto.String("S"), Method: []*descriptorpb.MethodDescriptorProto{{Name: proto.String("Do"), InputType: proto.String(".verif.c19.lazyfile.M"), OutputType: proto.String(".verif.c19.lazyfile.Sub")}}}}
	raw, err := proto.MarshalOptions{Deterministic: true}.Marshal(fdp)
	if err != nil {
		panic(err)
	}
	file := func(st any) protoreflect.FileDescriptor { return st.(protoreflect.FileDescriptor) }
	return firstUse{
		name: "filedesc.File lazy initialisation (fresh File from filedesc.Builder)",
		fresh: func() any {
			return filedesc.Builder{RawDescriptor: raw, FileRegistry: &protoregistry.Files{}, TypeResolver: &protoregistry.Types{}}.Build().File
		},
		quick: 4,
		ops: []fuOp{
			{"Fields.ByName+Kind", func(st any) string {
				m := file(st).Messages().ByName("M")
				f := m.Fields().ByName("f3")
				return fmt.Sprint(m.Fields().Len(), f.Number(), f.Kind(), f.Cardinality(), f.JSONName())
			}},
			{"Fields.ByNumber+Message", func(st any) string {
				m := file(st).Messages().ByName("M")
				return fmt.Sprint(m.Fields().ByNumber(2).Name(), m.Fields().ByNumber(2).ContainingMessage().FullName())
			}},
			{"Options", func(st any) string {
				m := file(st).Messages().ByName("M")
				return fmt.Sprint(proto.Size(m.Options().(proto.Message)), m.Fields().ByJSONName("f1").HasDefault(), m.Oneofs().Len(), m.ExtensionRanges().Len())
			}},
			{"Enum.Values.ByNumber", func(st any) string {
				e := file(st).Enums().ByName("E")
				return fmt.Sprint(e.Values().ByNumber(-1).Name(), e.Values().ByName("E_ONE").Number(), e.Values().Len())
			}},
			{"Enum.Values.identity", func(st any) string {
				// a descriptor object handed out once stays the descriptor: index, name and number lookups agree
				e := file(st).Enums().ByName("E")
				a := e.Values().Get(1)
				return fmt.Sprint(a == e.Values().ByName(a.Name()), a == e.Values().ByNumber(a.Number()), a.Parent() == protoreflect.Descriptor(e), a == e.Values().Get(1))
			}},
			{"Extensions+Services", func(st any) string {
				f := file(st)
				x := f.Extensions().Get(0)
				return fmt.Sprint(x.Name(), x.ContainingMessage().FullName(), x.Kind(), f.Services().Get(0).Methods().Get(0).Output().FullName())
			}},
		},
	}
}

// ---- (e) extension types ---------------------------------------------------------------

type extState struct {
	modern *impl.ExtensionInfo // initialised from a descriptor, as newly generated code does
	legacy *impl.ExtensionInfo // only the exported v1 fields set, as old generated code does
}

func extensionFamily() firstUse {
	origMsg := testpb.E_OptionalNestedMessage
	xs := func(st any) *extState { return st.(*extState) }
	return firstUse{
		name: "impl.ExtensionInfo first use (fresh descriptor-initialised and legacy-initialised extension types)",
		fresh: func() any {
			m := &impl.ExtensionInfo{}
			impl.InitExtensionInfo(m, origMsg.TypeDescriptor().Descriptor(), reflect.TypeOf((*testpb.TestAllExtensions_NestedMessage)(nil)))
			l := &impl.ExtensionInfo{ExtendedType: (*testpb.TestAllExtensions)(nil), ExtensionType: (*int32)(nil), Field: 1, Name: "goproto.proto.test.optional_int32", Tag: "varint,1,opt,name=optional_int32", Filename: "internal/testprotos/test/test.proto"}
			return &extState{m, l}
		},
		quick: 4,
		ops: []fuOp{
			{"modern.SetExtension+Marshal", func(st any) string {
				msg := &testpb.TestAllExtensions{}
				proto.SetExtension(msg, xs(st).modern, &testpb.TestAllExtensions_NestedMessage{A: proto.Int32(3)})
				b, err := proto.MarshalOptions{Deterministic: true}.Marshal(msg)
				return fmt.Sprintf("%x %v", b, err)
			}},
			{"modern.descriptor+Zero", func(st any) string {
				x := xs(st).modern
				return fmt.Sprint(x.TypeDescriptor().FullName(), x.TypeDescriptor().Number(), x.Zero().Message().IsValid(), x.IsValidInterface((*testpb.TestAllExtensions_NestedMessage)(nil)))
			}},
			{"legacy.descriptor", func(st any) string {
				x := xs(st).legacy
				d := x.TypeDescriptor()
				return fmt.Sprint(d.FullName(), d.Number(), d.Kind(), d.ContainingMessage().FullName(), d.ParentFile() == nil)
			}},
			{"legacy.SetExtension+Marshal", func(st any) string {
				msg := &testpb.TestAllExtensions{}
				proto.SetExtension(msg, xs(st).legacy, int32(7))
				b, err := proto.MarshalOptions{Deterministic: true}.Marshal(msg)
				return fmt.Sprintf("%x %v %v", b, err, proto.GetExtension(msg, xs(st).legacy))
			}},
			{"legacy.New+ValueOf", func(st any) string {
				x := xs(st).legacy
				return fmt.Sprint(x.New().Int(), x.ValueOf(int32(5)).Int(), x.InterfaceOf(x.Zero()))
			}},
			{"modern.Unmarshal", func(st any) string {
				ts := &protoregistry.Types{}
				if err := ts.RegisterExtension(xs(st).modern); err != nil {
					return "ERR " + err.Error()
				}
				msg := &testpb.TestAllExtensions{}
				err := proto.UnmarshalOptions{Resolver: ts}.Unmarshal([]byte{0x92, 0x01, 0x02, 0x08, 0x03}, msg)
				return fmt.Sprint(err, proto.GetExtension(msg, xs(st).modern).(*testpb.TestAllExtensions_NestedMessage).GetA())
			}},
		},
	}
}

// ---- (c) global registries ------------------------------------------------------------

var regSeq atomic.Int64

type regState struct {
	fd   protoreflect.FileDescriptor
	path string
	pkg  string
	mt   protoreflect.MessageType
}

func registryFamily() firstUse {
	rs := func(st any) *regState { return st.(*regState) }
	found := func(err error) string {
		if err == protoregistry.NotFound {
			return "notfound"
		}
		if err != nil {
			return "ERR " + err.Error()
		}
		return "found"
	}
	return firstUse{
		name: "global registries: registration of a new file / type concurrent with lookups",
		fresh: func() any {
			n := regSeq.Add(1)
			pkg := fmt.Sprintf("verif.c19.reg%d", n)
			path := fmt.Sprintf("verif/c19/reg%d.proto", n)
			fdp := univ.SchemaFile(path, pkg, univ.Proto3, univ.Shapes(univ.Proto3, false)[:4])
			fd, err := protodesc.NewFile(fdp, protoregistry.GlobalFiles)
			if err != nil {
				panic(err)
			}
			return &regState{fd: fd, path: path, pkg: pkg, mt: dynamicpb.NewMessageType(fd.Messages().ByName("M"))}
		},
		quick: 5,
		// registering the same file or type twice is a caller error that panics by design
		valid: func(idx []int) bool {
			seen := map[int]bool{}
			for _, i := range idx {
				if (i == 0 || i == 4) && seen[i] {
					return false
				}
				seen[i] = true
			}
			return true
		},
		ops: []fuOp{
			{"RegisterFile", func(st any) string { return fmt.Sprint(protoregistry.GlobalFiles.RegisterFile(rs(st).fd)) }},
			{"FindFileByPath", func(st any) string {
				fd, err := protoregistry.GlobalFiles.FindFileByPath(rs(st).path)
				if err == nil && (fd != rs(st).fd || fd.Messages().Len() != 2) {
					return "WRONG-DESCRIPTOR"
				}
				return found(err)
			}},
			{"FindDescriptorByName", func(st any) string {
				d, err := protoregistry.GlobalFiles.FindDescriptorByName(protoreflect.FullName(rs(st).pkg + ".M.f1"))
				if err == nil && d.(protoreflect.FieldDescriptor).Number() != 1 {
					return "WRONG-DESCRIPTOR"
				}
				return found(err)
			}},
			{"RangeFilesByPackage", func(st any) string {
				n := 0
				protoregistry.GlobalFiles.RangeFilesByPackage(protoreflect.FullName(rs(st).pkg), func(protoreflect.FileDescriptor) bool { n++; return true })
				return fmt.Sprint(n)
			}},
			{"RegisterMessage", func(st any) string { return fmt.Sprint(protoregistry.GlobalTypes.RegisterMessage(rs(st).mt)) }},
			{"FindMessageByName", func(st any) string {
				mt, err := protoregistry.GlobalTypes.FindMessageByName(protoreflect.FullName(rs(st).pkg + ".M"))
				if err == nil && mt != rs(st).mt {
					return "WRONG-TYPE"
				}
				return found(err)
			}},
			{"FindExisting", func(st any) string {
				_, err := protoregistry.GlobalFiles.FindDescriptorByName("goproto.proto.test.TestAllTypes")
				_, err2 := protoregistry.GlobalTypes.FindMessageByURL("x/goproto.proto.test.TestAllTypes")
				return found(err) + found(err2)
			}},
		},
	}
}

// registry results depend on the interleaving: a lookup may legitimately miss
// a registration that has not happened yet. The oracle is the set of results a
// sequential order of the same operations can produce.
func registryAllowed(opName, got string) bool {
	switch opName {
	case "RegisterFile", "RegisterMessage":
		return got == "<nil>"
	case "FindFileByPath", "FindDescriptorByName", "FindMessageByName":
		return got == "found" || got == "notfound"
	case "RangeFilesByPackage":
		return got == "0" || got == "1"
	case "FindExisting":
		return got == "foundfound"
	}
	return false
}

func fuScenario(fam firstUse, idx []int, seq []string, extra func(state any, res []string) string) sched.Scenario {
	return func() ([]func(), func() string) {
		st := fam.fresh()
		res := make([]string, len(idx))
		var bodies []func()
		for t, oi := range idx {
			t, o := t, fam.ops[oi]
			bodies = append(bodies, func() { res[t] = o.f(st) })
		}
		check := func() string {
			if extra != nil {
				return extra(st, res)
			}
			for t, oi := range idx {
				if res[t] != seq[oi] {
					return fmt.Sprintf("thread %d (%s) observed %q, a sequential program observes %q", t, fam.ops[oi].name, res[t], seq[oi])
				}
			}
			// later sequential users see the same
			for oi, o := range fam.ops {
				if r := o.f(st); r != seq[oi] {
					return fmt.Sprintf("after concurrent first use, %s observes %q, a sequential program observes %q", o.name, r, seq[oi])
				}
			}
			return ""
		}
		return bodies, check
	}
}

func exploreFamily(c *core.Ctx, fam firstUse, bound int, extraFor func(idx []int) func(any, []string) string, sequential bool) []map[string]any {
	var plans []map[string]any
	seq := make([]string, len(fam.ops))
	if sequential {
		for i, o := range fam.ops {
			seq[i] = o.f(fam.fresh())
		}
	}
	for _, n := range []int{2, 3} {
		cs := combos(len(fam.ops), n)
		b := bound
		if n == 3 {
			// three threads: one preemption less than for two
			b = bound - 1
			if c.Quick() {
				cs = combos(min(fam.quick, len(fam.ops)), 3)
			}
		}
		execs, points, maxp, restarts := 0, 0, 0, 0
		for _, idx := range cs {
			if fam.valid != nil && !fam.valid(idx) {
				continue
			}
			if c.Expired() {
				c.Exhaustive = false
				break
			}
			var names []string
			for _, i := range idx {
				names = append(names, fam.ops[i].name)
			}
			var extra func(any, []string) string
			if extraFor != nil {
				extra = extraFor(idx)
			}
			res := sched.Explore(fuScenario(fam, idx, seq, extra), b, 50000, c.Expired, nil)
			execs += res.Executions
			points += res.Points
			restarts += res.Restarts
			maxp = max(maxp, res.MaxPoints)
			c.Eval(int64(res.Executions))
			c.Traces(int64(res.Executions))
			c.Transitions(int64(res.Points))
			if !res.Complete && len(res.Failures) == 0 {
				c.Exhaustive = false
			}
			for i, x := range res.Failures {
				c.Violation(fmt.Sprintf("family=%s threads=%v: %s", fam.name, names, firstLine(res.FailureText[i])), map[string]any{"schedule": x.Schedule(), "choices": x.Choices, "steps": x.Detailed(), "failure": res.FailureText[i]})
			}
		}
		c.DistinctN(int64(len(cs)))
		plans = append(plans, map[string]any{"family": fam.name, "threads": n, "preemption_bound": b, "operation_multisets": len(cs), "schedules": execs, "scheduling_points": points, "max_points_per_schedule": maxp, "restarts_after_learning_conflicting_loads": restarts})
	}
	return plans
}

func runC19(c *core.Ctx) {
	needShim("C19")
	bound := core.Pick(c, 2, 3)
	c.Rule = fmt.Sprintf("E-SCHED (see C18 for the engine). Families of concurrent first use, each execution starting from fresh never-used state: (a) a fresh impl.MessageInfo for TestAllTypes (double-checked init under initMu/initDone, coder and reflection tables) used through fast-path methods and reflection; (b) a fresh filedesc.File from filedesc.Builder (lazyInit mutex + atomic once, sync.Once-guarded lookup tables of desc_list) read through every kind of accessor; (c) the global registries: RegisterFile / RegisterMessage of a new file and type concurrent with lookups by path, name, package and URL; (e) fresh impl.ExtensionInfo values, one initialised from a descriptor as new generated code does and one from the exported v1 fields as old generated code does, used through SetExtension/Marshal/Unmarshal/descriptor/New/ValueOf; (f) the needsInitCheck cache (reset by the overlay hook) under concurrent first use of two fresh MessageInfos of a type whose required fields sit in a sub-message: Marshal / CheckInitialized / Unmarshal of a partial message must report it; (d) legacy wrappers with all derived-descriptor caches reset (hook added by the overlay): an aberrant cyclic Parent/Child pair, a legacy generated message and an enum. For EVERY multiset of 2 and of 3 operations (quick: triples over the first few operations) EVERY schedule with at most %d preemptions (one less for 3 threads) at synchronisation operations is run. Registering the same file or type twice panics by design and is not a scenario. Oracle: no panic, no deadlock, each thread observes exactly what a sequential program observes (for (c): a result some sequential order produces, and after the run everything is found and is the registered instance), and later sequential users of the same state observe the same. Free-running race-detector pass of the same bodies as a supplementary child", bound)
	c.Exhaustive = true
	var race *core.Child
	if !core.IsChild() {
		if _, err := os.Stat(os.Getenv("VERIF_BIN") + "/verifmc-race"); err == nil {
			race = c.StartChild("race", "C19race", "GOMAXPROCS=8")
			race.Supplementary = true
		}
	}
	var plans []map[string]any
	plans = append(plans, exploreFamily(c, messageInfoFamily(), bound, nil, true)...)
	plans = append(plans, exploreFamily(c, fileFamily(), bound, nil, true)...)
	reg := registryFamily()
	plans = append(plans, exploreFamily(c, reg, bound, func(idx []int) func(any, []string) string {
		return func(st any, res []string) string {
			registered := map[string]bool{}
			for t, oi := range idx {
				name := reg.ops[oi].name
				if !registryAllowed(name, res[t]) {
					// a second registration of the same file in one scenario is a legitimate conflict error
					if (name == "RegisterFile" || name == "RegisterMessage") && registered[name] && strings.Contains(res[t], "already registered") {
						continue
					}
					return fmt.Sprintf("thread %d (%s) observed %q, which no sequential order produces", t, name, res[t])
				}
				registered[name] = true
			}
			// after the run: what was registered is found, complete and the same instance
			for _, oi := range idx {
				switch reg.ops[oi].name {
				case "RegisterFile":
					for _, o := range reg.ops[1:4] {
						if r := o.f(st); r != "found" && r != "1" {
							return fmt.Sprintf("after RegisterFile returned, %s observes %q", o.name, r)
						}
					}
				case "RegisterMessage":
					if r := reg.ops[5].f(st); r != "found" {
						return fmt.Sprintf("after RegisterMessage returned, FindMessageByName observes %q", r)
					}
				}
			}
			return ""
		}
	}, false)...)
	plans = append(plans, exploreFamily(c, extensionFamily(), bound, nil, true)...)
	plans = append(plans, legacyPlans(c, bound)...)
	c.Bounds["preemption_bound"] = bound
	c.Bounds["plans"] = plans
	c.Sample(map[string]any{"family": "impl.MessageInfo", "threads": []string{"methods.Marshal", "reflect.Range"}})
	if race != nil {
		c.Join(race)
	}
}

// runC19Race: the same bodies on free-running goroutines under the race detector.
func runC19Race(c *core.Ctx) {
	c.Rule = "free-running race-detector pass for C19 (sampling; complements the schedule exploration)"
	c.Exhaustive = false
	rounds := core.Pick(c, 40, 400)
	for _, fam := range []firstUse{messageInfoFamily(), fileFamily(), registryFamily(), extensionFamily()} {
		for r := 0; r < rounds; r++ {
			st := fam.fresh()
			var wg sync.WaitGroup
			start := make(chan struct{})
			for _, o := range fam.ops {
				o := o
				wg.Add(1)
				go func() {
					defer wg.Done()
					<-start
					o.f(st)
				}()
			}
			close(start)
			wg.Wait()
			c.Eval(1)
		}
	}
	c.Sample("free-running")
}
