// Package conc: schedule exploration of the library's concurrent paths
// (C18 lazy decoding under concurrent readers, C19 concurrent first use).
// The checks need the harness configuration built with the scheduling
// overlay (sync and sync/atomic of the library redirected to sched shims).
package conc

import (
	"fmt"
	"google.golang.org/protobuf/encoding/protowire"
	"os"
	"sort"
	"strings"
	"sync"

	"google.golang.org/protobuf/encoding/protojson"
	"google.golang.org/protobuf/encoding/prototext"
	"google.golang.org/protobuf/internal/impl"
	lazyopaque "google.golang.org/protobuf/internal/testprotos/lazy/lazy_opaque"
	teopaque "google.golang.org/protobuf/internal/testprotos/testeditions/testeditions_opaque"
	"google.golang.org/protobuf/proto"
	"google.golang.org/protobuf/reflect/protoreflect"
	"google.golang.org/protobuf/verifmc/core"
	"google.golang.org/protobuf/verifmc/sched"
)

func init() {
	core.Register("C18", "exploration", runC18)
	core.Register("C18race", "exploration", runC18Race)
}

// op is one read-only operation on the shared message. It returns a rendering
// of its result and, where it exposes the lazily decoded submessage, that
// instance.
type op struct {
	name string
	f    func(m proto.Message) (string, any)
}

type family struct {
	name   string
	fresh  func() proto.Message // lazily decoded, never accessed
	ops    []op
	isLazy func(m proto.Message) bool
}

func nodeBytes() []byte {
	inner := lazyopaque.Node_builder{Int32: proto.Int32(7), String: proto.String("deep")}.Build()
	mid := lazyopaque.Node_builder{Int32: proto.Int32(5), Nested: inner, Bytes: []byte("mid")}.Build()
	top := lazyopaque.Node_builder{Int32: proto.Int32(1), Nested: mid, Int64: proto.Int64(-2)}.Build()
	b, err := proto.MarshalOptions{Deterministic: true}.Marshal(top)
	if err != nil {
		panic(err)
	}
	return b
}

// splitNodeBytes encodes the same tree with the lazy field of the root given in
// two non-adjacent records (a legal encoding: the records merge), each carrying
// part of the submessage, incl. a repeated-like merge of the nested lazy field.
func splitNodeBytes() []byte {
	inner := lazyopaque.Node_builder{Int32: proto.Int32(7), String: proto.String("deep")}.Build()
	part1 := lazyopaque.Node_builder{Int32: proto.Int32(5)}.Build()
	part2 := lazyopaque.Node_builder{Nested: inner, Bytes: []byte("mid")}.Build()
	enc := func(m proto.Message) []byte {
		b, err := proto.MarshalOptions{Deterministic: true}.Marshal(m)
		if err != nil {
			panic(err)
		}
		return b
	}
	var b []byte
	b = protowire.AppendBytes(protowire.AppendTag(b, 99, protowire.BytesType), enc(part1))
	b = protowire.AppendVarint(protowire.AppendTag(b, 1, protowire.VarintType), 1)
	b = protowire.AppendBytes(protowire.AppendTag(b, 99, protowire.BytesType), enc(part2))
	b = protowire.AppendVarint(protowire.AppendTag(b, 2, protowire.VarintType), uint64(0xfffffffffffffffe))
	return b
}

func nodeFamily() family {
	return nodeFamilyOf("opaque.lazy_tree.Node (3 levels of lazy nesting)", nodeBytes())
}

func splitNodeFamily() family {
	return nodeFamilyOf("opaque.lazy_tree.Node, lazy field split over two non-adjacent records", splitNodeBytes())
}

func nodeFamilyOf(famName string, b []byte) family {
	ref := &lazyopaque.Node{}
	if err := (proto.UnmarshalOptions{NoLazyDecoding: true}).Unmarshal(b, ref); err != nil {
		panic(err)
	}
	fd := ref.ProtoReflect().Descriptor().Fields().ByNumber(99)
	node := func(m proto.Message) *lazyopaque.Node { return m.(*lazyopaque.Node) }
	ops := []op{
		{"GetNested", func(m proto.Message) (string, any) {
			n := node(m).GetNested()
			return fmt.Sprint(n.GetInt32()), n
		}},
		{"GetNested.GetNested", func(m proto.Message) (string, any) {
			n := node(m).GetNested()
			return fmt.Sprint(n.GetNested().GetString()), n
		}},
		{"HasNested", func(m proto.Message) (string, any) { return fmt.Sprint(node(m).HasNested()), nil }},
		{"reflect.Get", func(m proto.Message) (string, any) {
			v := m.ProtoReflect().Get(fd).Message().Interface().(*lazyopaque.Node)
			return fmt.Sprint(v.GetInt32()), v
		}},
		{"reflect.Has", func(m proto.Message) (string, any) { return fmt.Sprint(m.ProtoReflect().Has(fd)), nil }},
		{"reflect.Range", func(m proto.Message) (string, any) {
			var nums []string
			var inst any
			m.ProtoReflect().Range(func(f protoreflect.FieldDescriptor, v protoreflect.Value) bool {
				nums = append(nums, fmt.Sprint(f.Number()))
				if f.Number() == 99 {
					inst = v.Message().Interface().(*lazyopaque.Node)
				}
				return true
			})
			sort.Strings(nums)
			return strings.Join(nums, ","), inst
		}},
		{"Size", func(m proto.Message) (string, any) { return fmt.Sprint(proto.Size(m)), nil }},
		{"Marshal", func(m proto.Message) (string, any) {
			b, err := proto.Marshal(m)
			return fmt.Sprintf("%x %v", b, err), nil
		}},
		{"MarshalDeterministic", func(m proto.Message) (string, any) {
			b, err := proto.MarshalOptions{Deterministic: true}.Marshal(m)
			return fmt.Sprintf("%x %v", b, err), nil
		}},
		{"Equal", func(m proto.Message) (string, any) { return fmt.Sprint(proto.Equal(m, ref)), nil }},
		{"Clone", func(m proto.Message) (string, any) {
			b, err := proto.MarshalOptions{Deterministic: true}.Marshal(proto.Clone(m))
			return fmt.Sprintf("%x %v", b, err), nil
		}},
		{"protojson.Marshal", func(m proto.Message) (string, any) {
			b, err := protojson.MarshalOptions{}.Marshal(m)
			return compact(string(b)) + fmt.Sprint(err), nil
		}},
		{"prototext.Marshal", func(m proto.Message) (string, any) {
			b, err := prototext.MarshalOptions{}.Marshal(m)
			return compact(string(b)) + fmt.Sprint(err), nil
		}},
		{"CheckInitialized", func(m proto.Message) (string, any) { return fmt.Sprint(proto.CheckInitialized(m)), nil }},
	}
	return family{
		name: famName,
		fresh: func() proto.Message {
			m := &lazyopaque.Node{}
			if err := proto.Unmarshal(b, m); err != nil {
				panic(err)
			}
			return m
		},
		ops: ops,
	}
}

func compact(s string) string { return strings.Join(strings.Fields(s), "") }

func editionsFamily() family {
	src := teopaque.TestAllTypes_builder{
		OptionalInt32:             proto.Int32(3),
		OptionalLazyNestedMessage: teopaque.TestAllTypes_NestedMessage_builder{A: proto.Int32(9), Corecursive: teopaque.TestAllTypes_builder{OptionalString: proto.String("x")}.Build()}.Build(),
		RepeatedString:            []string{"a", "b"},
	}.Build()
	b, err := proto.MarshalOptions{Deterministic: true}.Marshal(src)
	if err != nil {
		panic(err)
	}
	return editionsFamilyOf("opaque.goproto.proto.testeditions.TestAllTypes.optional_lazy_nested_message", b)
}

// splitEditionsFamily: the lazy field arrives in two non-adjacent records whose
// payloads hold repeated fields and unknown fields, so decoding the records
// more than once into one submessage is observable.
func splitEditionsFamily() family {
	enc := func(m proto.Message) []byte {
		b, err := proto.MarshalOptions{Deterministic: true}.Marshal(m)
		if err != nil {
			panic(err)
		}
		return b
	}
	p1 := teopaque.TestAllTypes_NestedMessage_builder{Corecursive: teopaque.TestAllTypes_builder{RepeatedInt32: []int32{1, 2}, MapStringString: map[string]string{"k": "v"}}.Build()}.Build()
	p2 := teopaque.TestAllTypes_NestedMessage_builder{A: proto.Int32(9), Corecursive: teopaque.TestAllTypes_builder{RepeatedString: []string{"a"}, RepeatedInt32: []int32{3}}.Build()}.Build()
	p2.ProtoReflect().SetUnknown(protowire.AppendVarint(protowire.AppendTag(nil, 1000, protowire.VarintType), 5))
	var b []byte
	b = protowire.AppendBytes(protowire.AppendTag(b, 24, protowire.BytesType), enc(p1))
	b = protowire.AppendVarint(protowire.AppendTag(b, 1, protowire.VarintType), 3)
	b = protowire.AppendBytes(protowire.AppendTag(b, 24, protowire.BytesType), enc(p2))
	b = protowire.AppendString(protowire.AppendTag(b, 44, protowire.BytesType), "tail")
	return editionsFamilyOf("opaque.goproto.proto.testeditions.TestAllTypes, lazy field split over two non-adjacent records with repeated, map and unknown content", b)
}

func editionsFamilyOf(famName string, b []byte) family {
	ref := &teopaque.TestAllTypes{}
	if err := (proto.UnmarshalOptions{NoLazyDecoding: true}).Unmarshal(b, ref); err != nil {
		panic(err)
	}
	fd := ref.ProtoReflect().Descriptor().Fields().ByNumber(24)
	msg := func(m proto.Message) *teopaque.TestAllTypes { return m.(*teopaque.TestAllTypes) }
	ops := []op{
		{"GetOptionalLazyNestedMessage", func(m proto.Message) (string, any) {
			n := msg(m).GetOptionalLazyNestedMessage()
			return fmt.Sprint(n.GetA()), n
		}},
		{"HasOptionalLazyNestedMessage", func(m proto.Message) (string, any) {
			return fmt.Sprint(msg(m).HasOptionalLazyNestedMessage()), nil
		}},
		{"reflect.Get", func(m proto.Message) (string, any) {
			v := m.ProtoReflect().Get(fd).Message().Interface().(*teopaque.TestAllTypes_NestedMessage)
			return fmt.Sprint(v.GetA()), v
		}},
		{"Size", func(m proto.Message) (string, any) { return fmt.Sprint(proto.Size(m)), nil }},
		{"MarshalDeterministic", func(m proto.Message) (string, any) {
			b, err := proto.MarshalOptions{Deterministic: true}.Marshal(m)
			return fmt.Sprintf("%x %v", b, err), nil
		}},
		{"Equal", func(m proto.Message) (string, any) { return fmt.Sprint(proto.Equal(m, ref)), nil }},
		{"protojson.Marshal", func(m proto.Message) (string, any) {
			b, err := protojson.MarshalOptions{}.Marshal(m)
			return compact(string(b)) + fmt.Sprint(err), nil
		}},
	}
	return family{
		name: famName,
		fresh: func() proto.Message {
			m := &teopaque.TestAllTypes{}
			if err := proto.Unmarshal(b, m); err != nil {
				panic(err)
			}
			return m
		},
		ops: ops,
	}
}

func families() []family {
	return []family{nodeFamily(), splitNodeFamily(), editionsFamily(), splitEditionsFamily()}
}

// combos returns all multisets of size n over k ops.
func combos(k, n int) [][]int {
	var out [][]int
	var rec func(start int, cur []int)
	rec = func(start int, cur []int) {
		if len(cur) == n {
			out = append(out, append([]int{}, cur...))
			return
		}
		for i := start; i < k; i++ {
			rec(i, append(cur, i))
		}
	}
	rec(0, nil)
	return out
}

type scenarioState struct {
	res  []string
	inst []any
}

func lazyScenario(fam family, idx []int, seq, seqExp []string) (sched.Scenario, *scenarioState) {
	st := &scenarioState{}
	sc := func() ([]func(), func() string) {
		m := fam.fresh()
		st.res = make([]string, len(idx))
		st.inst = make([]any, len(idx))
		var bodies []func()
		for t, oi := range idx {
			t, o := t, fam.ops[oi]
			bodies = append(bodies, func() { st.res[t], st.inst[t] = o.f(m) })
		}
		check := func() string {
			var first any
			for t, oi := range idx {
				if st.res[t] != seq[oi] && st.res[t] != seqExp[oi] {
					return fmt.Sprintf("reader %d (%s) got %q, sequentially %q (fresh) or %q (after expansion)", t, fam.ops[oi].name, st.res[t], seq[oi], seqExp[oi])
				}
				if st.inst[t] != nil {
					if first == nil {
						first = st.inst[t]
					} else if first != st.inst[t] {
						return fmt.Sprintf("readers obtained different instances of the lazily decoded submessage (%p vs %p)", first, st.inst[t])
					}
				}
			}
			// the message is unchanged for later readers
			for oi, o := range fam.ops {
				if r, in := o.f(m); r != seq[oi] && r != seqExp[oi] {
					return fmt.Sprintf("after the concurrent readers, %s returns %q, sequentially %q (fresh) or %q (after expansion)", o.name, r, seq[oi], seqExp[oi])
				} else if in != nil && first != nil && in != first {
					return "after the concurrent readers, a later reader sees another submessage instance"
				}
			}
			return ""
		}
		return bodies, check
	}
	return sc, st
}

func needShim(id string) {
	if !sched.ShimLinked {
		fmt.Fprintf(os.Stderr, "%s needs the harness configuration built with the scheduling overlay (./run %s)\n", id, id)
		os.Exit(2)
	}
}

func runC18(c *core.Ctx) {
	needShim("C18")
	bound := core.Pick(c, 2, 3)
	c.Rule = fmt.Sprintf("E-SCHED: the library is built with every sync / sync/atomic operation of internal/impl, internal/protolazy, internal/filedesc, reflect/protoregistry, proto, ... redirected to a cooperative scheduler (build overlay; /repo untouched). For each lazily decoded message family (3-level lazy tree Node in canonical encoding and with the lazy field split over two non-adjacent records; TestAllTypes with a lazy nested message, canonical and split with repeated / map / unknown content) and EVERY multiset of 2 readers and EVERY multiset of 3 readers over the reader alphabet (generated getters incl. nested, Has, reflection Get/Has/Range, Size, Marshal, deterministic Marshal, Equal, Clone, protojson, prototext, CheckInitialized) on one fresh never-accessed message, EVERY schedule with at most %d preemptions (one less for 3 readers) at synchronisation operations is executed (iterative context bounding, depth-first replay from a fresh message). Oracle per execution: no panic, no deadlock, every reader's result equals its sequential result (on a fresh message or, for Size/Marshal of non-canonical lazy bytes, on an already expanded one), all readers (and every later reader) obtain the same instance of the lazily decoded submessage, and afterwards every operation still returns its sequential result. Unsynchronised accesses are outside what a cooperative scheduler can see: the same reader bodies run free under the Go race detector in a separate child (-race build, no overlay; that part is sampling and only complements the exploration)", bound)
	c.Exhaustive = true
	var race *core.Child
	if !core.IsChild() {
		if _, err := os.Stat(os.Getenv("VERIF_BIN") + "/verifmc-race"); err == nil {
			race = c.StartChild("race", "C18race", "GOMAXPROCS=8")
			race.Supplementary = true
		}
	}
	var plans []map[string]any
	for _, fam := range families() {
		// sequential reference results, each on its own fresh message
		seq := make([]string, len(fam.ops))
		for i, o := range fam.ops {
			seq[i], _ = o.f(fam.fresh())
		}
		// Size and Marshal of a lazily kept, non-canonically encoded submessage may legitimately
		// change once it is expanded (documented); the second reference is taken on a message on
		// which every operation has already run once
		seqExp := make([]string, len(fam.ops))
		{
			m := fam.fresh()
			for _, o := range fam.ops {
				o.f(m)
			}
			for i, o := range fam.ops {
				seqExp[i], _ = o.f(m)
			}
		}
		for _, n := range []int{2, 3} {
			cs := combos(len(fam.ops), n)
			if n == 3 && c.Quick() {
				// quick: triples over the first five operations only
				cs = combos(min(5, len(fam.ops)), 3)
			}
			execs, points, maxp := 0, 0, 0
			for _, idx := range cs {
				if c.Expired() {
					c.Exhaustive = false
					break
				}
				b := bound
				if n == 3 {
					b = bound - 1
				}
				sc, _ := lazyScenario(fam, idx, seq, seqExp)
				var names []string
				for _, i := range idx {
					names = append(names, fam.ops[i].name)
				}
				res := sched.Explore(sc, b, 20000, c.Expired, nil)
				execs += res.Executions
				points += res.Points
				maxp = max(maxp, res.MaxPoints)
				c.Eval(int64(res.Executions))
				c.Traces(int64(res.Executions))
				c.Transitions(int64(res.Points))
				if !res.Complete && len(res.Failures) == 0 {
					c.Exhaustive = false
				}
				for i, x := range res.Failures {
					c.Violation(fmt.Sprintf("family=%s readers=%v: %s", fam.name, names, firstLine(res.FailureText[i])), map[string]any{"schedule": x.Schedule(), "choices": x.Choices, "steps": x.Detailed(), "failure": res.FailureText[i]})
				}
			}
			c.DistinctN(int64(len(cs)))
			plans = append(plans, map[string]any{"family": fam.name, "readers": n, "reader_multisets": len(cs), "schedules": execs, "scheduling_points": points, "max_points_per_schedule": maxp})
		}
	}
	c.Bounds["preemption_bound"] = bound
	c.Bounds["plans"] = plans
	c.Sample(map[string]any{"family": "Node", "readers": []string{"GetNested", "Marshal"}, "schedule": "T0 until CompareAndSwapPointer, T1 to completion, T0"})
	if race != nil {
		c.Join(race)
	} else if !core.IsChild() {
		c.Extra("race_pass", "race-detector binary not built; run skipped")
	}
}

func firstLine(s string) string {
	if i := strings.Index(s, "\n"); i >= 0 {
		s = s[:i]
	}
	if len(s) > 300 {
		s = s[:300]
	}
	return s
}

// runC18Race: the same reader bodies on real goroutines, free-running, in a
// -race build (a data race makes the process exit with status 66).
func runC18Race(c *core.Ctx) {
	c.Rule = "free-running race-detector pass for C18 (sampling; complements the schedule exploration)"
	c.Exhaustive = false
	rounds := core.Pick(c, 30, 300)
	_ = impl.LazyEnabled()
	for _, fam := range families() {
		seq := make([]string, len(fam.ops))
		for i, o := range fam.ops {
			seq[i], _ = o.f(fam.fresh())
		}
		seqExp := make([]string, len(fam.ops))
		{
			m := fam.fresh()
			for _, o := range fam.ops {
				o.f(m)
			}
			for i, o := range fam.ops {
				seqExp[i], _ = o.f(m)
			}
		}
		for r := 0; r < rounds; r++ {
			m := fam.fresh()
			var wg sync.WaitGroup
			start := make(chan struct{})
			res := make([]string, len(fam.ops))
			for i, o := range fam.ops {
				i, o := i, o
				wg.Add(1)
				go func() {
					defer wg.Done()
					<-start
					res[i], _ = o.f(m)
				}()
			}
			close(start)
			wg.Wait()
			c.Eval(1)
			for i := range res {
				if res[i] != seq[i] && res[i] != seqExp[i] {
					c.Violation(fmt.Sprintf("free-running readers: %s got %q, sequentially %q or %q (family %s)", fam.ops[i].name, res[i], seq[i], seqExp[i], fam.name), nil)
				}
			}
		}
	}
	c.Sample("free-running")
}
