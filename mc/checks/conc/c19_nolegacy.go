//go:build !verifsched

package conc

import "google.golang.org/protobuf/verifmc/core"

// Without the overlay there is no cache-reset hook; the legacy family only
// exists in the sched configuration.
func legacyPlans(c *core.Ctx, bound int) []map[string]any { return nil }
