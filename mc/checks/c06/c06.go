// Package c06: binary decoding is total, bounded and agrees with validation.
package c06

import (
	"fmt"

	"google.golang.org/protobuf/encoding/protowire"
	"google.golang.org/protobuf/internal/impl"
	"google.golang.org/protobuf/proto"
	"google.golang.org/protobuf/reflect/protoreflect"
	"google.golang.org/protobuf/reflect/protoregistry"
	piface "google.golang.org/protobuf/runtime/protoiface"
	"google.golang.org/protobuf/verifmc/core"
	"google.golang.org/protobuf/verifmc/ref/refschema"
	"google.golang.org/protobuf/verifmc/univ"
)

func init() { core.Register("C06", "exploration", run) }

func extFinder(md protoreflect.MessageDescriptor, num protoreflect.FieldNumber) protoreflect.FieldDescriptor {
	xt, err := protoregistry.GlobalTypes.FindExtensionByNumber(md.FullName(), num)
	if err != nil {
		return nil
	}
	return xt.TypeDescriptor()
}

type tcase struct {
	f     univ.Flavor
	dyn   univ.Flavor
	hasMI bool
}

// checkInput runs every oracle clause on one (type, input, limit).
func checkInput(c *core.Ctx, t *tcase, in []byte, name string, limit int) {
	c.Eval(1)
	md := t.f.MT.Descriptor()
	w := &refschema.Walker{Limit: limit, Ext: extFinder, EnforceUTF8: univ.EnforceUTF8}
	if limit == 0 {
		w.Limit = protowire.DefaultRecursionLimit
	}
	reason := w.Valid(md, in)
	want := reason == refschema.Accept
	c.Outcome("ref:" + string(map[bool]refschema.Reason{true: "accept", false: reason}[want]))
	sig := func(cl string) string {
		return fmt.Sprintf("%s type=%s limit=%d input=%s", cl, t.f.Name, limit, name)
	}
	// three backings for the over-read guard
	backs := [3][]byte{}
	backs[0] = append(make([]byte, 0, len(in)), in...)
	for i, g := range []byte{0xff, 0x00} {
		bb := make([]byte, len(in)+12)
		copy(bb, in)
		for j := len(in); j < len(bb); j++ {
			bb[j] = g
		}
		backs[i+1] = bb[:len(in)]
	}
	var firstSnap string
	var firstOK bool
	for _, fl := range []univ.Flavor{t.f, t.dyn} {
		for _, nolazy := range []bool{false, true} {
			for _, discard := range []bool{false, true} {
				if fl.Dynamic && (!nolazy || discard) {
					continue
				}
				for bi := 0; bi < 3; bi++ {
					if bi > 0 && (discard || fl.Dynamic) {
						continue
					}
					var m protoreflect.Message
					var err error
					if c.Guard(func() string { return sig(fmt.Sprintf("unmarshal flavor=%s nolazy=%v", fl.Name, nolazy)) }, func() {
						m, err = fl.Unmarshal(backs[bi], proto.UnmarshalOptions{AllowPartial: true, NoLazyDecoding: nolazy, DiscardUnknown: discard, RecursionLimit: limit})
					}) {
						return
					}
					got := err == nil
					if got != want {
						c.Violation(sig(fmt.Sprintf("verdict accept=%v reference=%v(%s) flavor=%s nolazy=%v discard=%v backing=%d", got, want, reason, fl.Name, nolazy, discard, bi)), map[string]any{"err": fmt.Sprint(err), "bytes": fmt.Sprintf("%x", in)})
						continue
					}
					if !got || discard {
						continue
					}
					var snap string
					if c.Guard(func() string { return sig("snapshot-after-unmarshal nolazy=" + fmt.Sprint(nolazy)) }, func() { snap = univ.SnapshotNorm(m) }) {
						return
					}
					if !firstOK {
						firstOK, firstSnap = true, snap
					} else if snap != firstSnap {
						c.Violation(sig(fmt.Sprintf("decoded-content-differs flavor=%s nolazy=%v backing=%d", fl.Name, nolazy, bi)), map[string]any{"first": firstSnap, "this": snap})
					}
				}
			}
		}
	}
	if !t.hasMI {
		return
	}
	// validator agreement
	var st impl.ValidationStatus
	var vout piface.UnmarshalOutput
	if c.Guard(func() string { return sig("validate") }, func() {
		vout, st = impl.Validate(t.f.MT, piface.UnmarshalInput{Buf: backs[0], Depth: w.Limit, Resolver: protoregistry.GlobalTypes})
	}) {
		return
	}
	c.Outcome("validate:" + st.String())
	switch st {
	case impl.ValidationValid:
		if !want {
			c.Violation(sig("validate=valid but reference rejects ("+string(reason)+")"), fmt.Sprintf("%x", in))
		}
	case impl.ValidationInvalid:
		if want {
			c.Violation(sig("validate=invalid but reference accepts"), fmt.Sprintf("%x", in))
		}
	}
	if want {
		// initialization flags: never "initialized" for a partial message
		m, err := t.f.Unmarshal(in, proto.UnmarshalOptions{AllowPartial: true, RecursionLimit: limit})
		if err != nil {
			return
		}
		partial := !univ.Initialized(m)
		if partial {
			if vout.Flags&piface.UnmarshalInitialized != 0 && st == impl.ValidationValid {
				c.Violation(sig("validate reports partial message as initialized"), fmt.Sprintf("%x", in))
			}
			for _, nolazy := range []bool{false, true} {
				methods := t.f.MT.New().ProtoMethods()
				if methods == nil || methods.Unmarshal == nil {
					continue
				}
				var fl piface.UnmarshalInputFlags
				if nolazy {
					fl |= piface.UnmarshalNoLazyDecoding
				}
				out, err := methods.Unmarshal(piface.UnmarshalInput{Message: t.f.MT.New(), Buf: in, Resolver: protoregistry.GlobalTypes, Depth: w.Limit, Flags: fl})
				if err == nil && out.Flags&piface.UnmarshalInitialized != 0 {
					c.Violation(sig(fmt.Sprintf("fast-path Unmarshal reports partial message as initialized nolazy=%v", nolazy)), fmt.Sprintf("%x", in))
				}
			}
			c.Outcome("partial-message")
		}
	}
}

type plan struct {
	name     string
	wireN    int
	wireAll  bool
	small    bool
	bytesLen int // B(A,<=L), 0 = none
}

// byte alphabet for raw strings: tags for fields 1,2 in several wire types, small varints, continuation bytes
var byteAlpha = []byte{0x00, 0x01, 0x02, 0x08, 0x0a, 0x0b, 0x0c, 0x0d, 0x12, 0x7a, 0x80, 0xff}

func plans(c *core.Ctx) []plan {
	q := c.Quick()
	p := []plan{
		{name: "goproto.proto.test.TestAllTypes", wireN: 2, small: q, bytesLen: core.Pick(c, 4, 5)},
		{name: "goproto.proto.test3.TestAllTypes", wireN: 2, small: q, bytesLen: 3},
		{name: "opaque.goproto.proto.testeditions.TestAllTypes", wireN: 2, small: q, bytesLen: core.Pick(c, 3, 5)},
		{name: "hybrid.goproto.proto.testeditions.TestAllTypes", wireN: 2, small: true},
		{name: "goproto.proto.test.TestAllExtensions", wireN: 2, small: q},
		{name: "opaque.lazy_tree.Node", wireN: 3, small: true, bytesLen: core.Pick(c, 4, 5)},
		{name: "hybrid.lazy_tree.Node", wireN: 2},
		{name: "goproto.proto.test.TestRequiredLazy", wireN: 3, wireAll: true, bytesLen: 4},
		{name: "goproto.proto.test.TestRequired", wireN: 3, wireAll: true},
		{name: "goproto.proto.test.TestRequiredForeign", wireN: 2, wireAll: true},
		{name: "goproto.proto.test.TestOneofWithRequired", wireN: 3, wireAll: true},
		{name: "goproto.proto.test.TestRequiredGroupFields", wireN: 2, wireAll: true},
		{name: "goproto.proto.test.OpaqueLazy", wireN: 3, small: true},
		{name: "goproto.proto.test.HybridLazy", wireN: 3, small: true},
		{name: "goproto.proto.test.OpenLazy", wireN: 2, small: true},
		{name: "lazy_normalized_wire_test.FTop", wireN: 3, wireAll: true},
		{name: "goproto.proto.fuzz.Fuzz", wireN: 2, small: true, bytesLen: 4},
		{name: "pb2.Nests", wireN: 2},
		{name: "pb2.Maps", wireN: 2, small: true},
		{name: "pb2.Requireds", wireN: 2, small: true},
		{name: "pb2.PartialRequired", wireN: 3, wireAll: true},
		// a required field of every kind, message and group included, alone in its message
		{name: "goproto.proto.testrequired.Message", wireN: 2, wireAll: true},
		{name: "goproto.proto.testrequired.Group", wireN: 2, wireAll: true},
		{name: "opaque.goproto.proto.testrequired.Message", wireN: 2, wireAll: true},
		{name: "opaque.goproto.proto.testrequired.Group", wireN: 2, wireAll: true},
		{name: "goproto.proto.testrequired.Bytes", wireN: 2, wireAll: true},
		{name: "goproto.proto.testrequired.Sint64", wireN: 2, wireAll: true},
	}
	if !q {
		p = append(p, plan{name: "goproto.proto.testeditions.TestAllTypes", wireN: 2},
			plan{name: "goproto.proto.test.TestAllTypes", wireN: 3, small: true},
			plan{name: "opaque.goproto.proto.testeditions.TestAllTypes", wireN: 3, small: true})
	}
	return p
}

func run(c *core.Ctx) {
	c.Rule = "inputs = all sequences of <=n records of each type's wire-record alphabet (valid / non-minimal / wrong-wire-type / unknown / malformed records, nested payloads), all byte strings of length <=L over a 12-byte alphabet, and a nesting family (chains of message/group/map-entry/lazy wrappers to depth 5 with 1-7 sibling copies) crossed with RecursionLimit in 1..7; each input is decoded by the generated type (lazy, eager, DiscardUnknown; three memory backings) and its dynamicpb twin and the verdict is compared with a schema-aware reference recogniser written from the wire-format rules; decoded contents must agree across paths; impl.Validate must never contradict the reference, and neither it nor the fast path may flag a partial message as initialized (independent required-field walk). distinct = distinct (type,input,limit) triples by construction"
	c.Exhaustive = true
	var planOut []map[string]any
	for _, p := range plans(c) {
		if c.Expired() {
			break
		}
		t := &tcase{f: univ.Gen(p.name), dyn: univ.Dyn(p.name)}
		_, t.hasMI = t.f.MT.(*impl.MessageInfo)
		md := t.f.MT.Descriptor()
		recs := univ.WireAlphabet(md, univ.WireOpt{AllFields: p.wireAll, Small: p.small, Depth: 1, NonMinUnknownTag: true})
		total := univ.TupleCount(len(recs), p.wireN)
		univ.ForTuples(c, len(recs), p.wireN, func(idx []int) {
			in, name := univ.Concat(recs, idx)
			checkInput(c, t, in, name, 0)
		})
		c.DistinctN(int64(total))
		nb := 0
		if p.bytesLen > 0 {
			nb = univ.TupleCount(len(byteAlpha), p.bytesLen)
			univ.ForTuples(c, len(byteAlpha), p.bytesLen, func(idx []int) {
				in := make([]byte, len(idx))
				for i, j := range idx {
					in[i] = byteAlpha[j]
				}
				checkInput(c, t, in, fmt.Sprintf("bytes(%x)", in), 0)
			})
			c.DistinctN(int64(nb))
		}
		nest := univ.Nestings(md, core.Pick(c, 4, 5), nil)
		if len(nest) > 4000 {
			nest = nest[:4000]
		}
		c.Par(len(nest), func(i int) {
			for limit := 1; limit <= 7; limit++ {
				checkInput(c, t, nest[i].B, "nest("+nest[i].Name+")", limit)
			}
		})
		c.DistinctN(int64(len(nest) * 7))
		planOut = append(planOut, map[string]any{"type": p.name, "wire_alphabet": len(recs), "wire_n": p.wireN, "wire_sequences": total, "byte_strings": nb, "nestings_x_limits": len(nest) * 7})
		if len(recs) > 3 {
			_, nm := univ.Concat(recs, []int{len(recs) / 3, len(recs) / 2})
			c.Sample(map[string]any{"type": p.name, "input": nm})
		}
		if len(nest) > 5 {
			c.Sample(map[string]any{"type": p.name, "nesting": nest[len(nest)/2].Name, "limits": "1..7"})
		}
	}
	c.Bounds["plans"] = planOut
	c.Assume("recursion accounting: top-level message costs 1, each nested message or group +1, each map entry +1 more; decoding fails iff the deepest path exceeds RecursionLimit (unknown groups are bounded by protowire's own limit only)")
	c.Assume("field numbers above 2^29-1 are rejected by proto.Unmarshal (MessageSet is C47)")
}
