package c46

import (
	"fmt"
	"math"
	"reflect"
	"strings"

	"google.golang.org/protobuf/encoding/protowire"
	"google.golang.org/protobuf/internal/impl"
	legacypb "google.golang.org/protobuf/internal/testprotos/legacy/proto2_20180125_92554152"
	"google.golang.org/protobuf/proto"
	"google.golang.org/protobuf/reflect/protoreflect"
	"google.golang.org/protobuf/reflect/protoregistry"
	"google.golang.org/protobuf/verifmc/core"
)

// Legacy extension descriptors are derived from three things the old
// generated code wrote down: the Go type of the value, the field number and a
// struct-tag-like string ("varint,40000,rep,packed,name=x,def=5"). The legacy
// fixtures only declare a handful of extensions, so this family enumerates the
// tag grammar itself: every scalar kind x {optional, optional with default,
// repeated, repeated packed}. The oracle is a table written from the tag
// documentation (kind, cardinality, packedness, default) and a hand encoder
// for the expected wire bytes.

type extKind struct {
	name   string
	kind   protoreflect.Kind
	wire   string       // tag token
	goType reflect.Type // element Go type
	vals   []protoreflect.Value
	def    string // def= text
	defVal protoreflect.Value
	enc    func(b []byte, v protoreflect.Value) []byte
	wt     protowire.Type
}

func extKinds() []extKind {
	vi := func(b []byte, v uint64) []byte { return protowire.AppendVarint(b, v) }
	return []extKind{
		{"int32", protoreflect.Int32Kind, "varint", reflect.TypeOf(int32(0)), []protoreflect.Value{protoreflect.ValueOfInt32(1), protoreflect.ValueOfInt32(-1)}, "5", protoreflect.ValueOfInt32(5),
			func(b []byte, v protoreflect.Value) []byte { return vi(b, uint64(int64(int32(v.Int())))) }, protowire.VarintType},
		{"int64", protoreflect.Int64Kind, "varint", reflect.TypeOf(int64(0)), []protoreflect.Value{protoreflect.ValueOfInt64(1), protoreflect.ValueOfInt64(math.MinInt64)}, "-7", protoreflect.ValueOfInt64(-7),
			func(b []byte, v protoreflect.Value) []byte { return vi(b, uint64(v.Int())) }, protowire.VarintType},
		{"uint32", protoreflect.Uint32Kind, "varint", reflect.TypeOf(uint32(0)), []protoreflect.Value{protoreflect.ValueOfUint32(1), protoreflect.ValueOfUint32(math.MaxUint32)}, "9", protoreflect.ValueOfUint32(9),
			func(b []byte, v protoreflect.Value) []byte { return vi(b, v.Uint()) }, protowire.VarintType},
		{"uint64", protoreflect.Uint64Kind, "varint", reflect.TypeOf(uint64(0)), []protoreflect.Value{protoreflect.ValueOfUint64(1), protoreflect.ValueOfUint64(math.MaxUint64)}, "18446744073709551615", protoreflect.ValueOfUint64(math.MaxUint64),
			func(b []byte, v protoreflect.Value) []byte { return vi(b, v.Uint()) }, protowire.VarintType},
		{"sint32", protoreflect.Sint32Kind, "zigzag32", reflect.TypeOf(int32(0)), []protoreflect.Value{protoreflect.ValueOfInt32(1), protoreflect.ValueOfInt32(-1)}, "-5", protoreflect.ValueOfInt32(-5),
			func(b []byte, v protoreflect.Value) []byte {
				return vi(b, protowire.EncodeZigZag(int64(int32(v.Int()))))
			}, protowire.VarintType},
		{"sint64", protoreflect.Sint64Kind, "zigzag64", reflect.TypeOf(int64(0)), []protoreflect.Value{protoreflect.ValueOfInt64(1), protoreflect.ValueOfInt64(math.MinInt64)}, "6", protoreflect.ValueOfInt64(6),
			func(b []byte, v protoreflect.Value) []byte { return vi(b, protowire.EncodeZigZag(v.Int())) }, protowire.VarintType},
		{"fixed32", protoreflect.Fixed32Kind, "fixed32", reflect.TypeOf(uint32(0)), []protoreflect.Value{protoreflect.ValueOfUint32(1), protoreflect.ValueOfUint32(math.MaxUint32)}, "3", protoreflect.ValueOfUint32(3),
			func(b []byte, v protoreflect.Value) []byte { return protowire.AppendFixed32(b, uint32(v.Uint())) }, protowire.Fixed32Type},
		{"sfixed32", protoreflect.Sfixed32Kind, "fixed32", reflect.TypeOf(int32(0)), []protoreflect.Value{protoreflect.ValueOfInt32(1), protoreflect.ValueOfInt32(-1)}, "-3", protoreflect.ValueOfInt32(-3),
			func(b []byte, v protoreflect.Value) []byte { return protowire.AppendFixed32(b, uint32(int32(v.Int()))) }, protowire.Fixed32Type},
		{"float", protoreflect.FloatKind, "fixed32", reflect.TypeOf(float32(0)), []protoreflect.Value{protoreflect.ValueOfFloat32(1.5), protoreflect.ValueOfFloat32(float32(math.Inf(-1)))}, "1.5", protoreflect.ValueOfFloat32(1.5),
			func(b []byte, v protoreflect.Value) []byte {
				return protowire.AppendFixed32(b, math.Float32bits(float32(v.Float())))
			}, protowire.Fixed32Type},
		{"fixed64", protoreflect.Fixed64Kind, "fixed64", reflect.TypeOf(uint64(0)), []protoreflect.Value{protoreflect.ValueOfUint64(1), protoreflect.ValueOfUint64(math.MaxUint64)}, "4", protoreflect.ValueOfUint64(4),
			func(b []byte, v protoreflect.Value) []byte { return protowire.AppendFixed64(b, v.Uint()) }, protowire.Fixed64Type},
		{"sfixed64", protoreflect.Sfixed64Kind, "fixed64", reflect.TypeOf(int64(0)), []protoreflect.Value{protoreflect.ValueOfInt64(1), protoreflect.ValueOfInt64(-1)}, "-4", protoreflect.ValueOfInt64(-4),
			func(b []byte, v protoreflect.Value) []byte { return protowire.AppendFixed64(b, uint64(v.Int())) }, protowire.Fixed64Type},
		{"double", protoreflect.DoubleKind, "fixed64", reflect.TypeOf(float64(0)), []protoreflect.Value{protoreflect.ValueOfFloat64(1.5), protoreflect.ValueOfFloat64(math.Inf(1))}, "-2.5", protoreflect.ValueOfFloat64(-2.5),
			func(b []byte, v protoreflect.Value) []byte {
				return protowire.AppendFixed64(b, math.Float64bits(v.Float()))
			}, protowire.Fixed64Type},
		{"bool", protoreflect.BoolKind, "varint", reflect.TypeOf(false), []protoreflect.Value{protoreflect.ValueOfBool(true), protoreflect.ValueOfBool(false)}, "1", protoreflect.ValueOfBool(true),
			func(b []byte, v protoreflect.Value) []byte { return vi(b, protowire.EncodeBool(v.Bool())) }, protowire.VarintType},
		{"string", protoreflect.StringKind, "bytes", reflect.TypeOf(""), []protoreflect.Value{protoreflect.ValueOfString("a"), protoreflect.ValueOfString("")}, "x,y=z", protoreflect.ValueOfString("x,y=z"),
			func(b []byte, v protoreflect.Value) []byte { return protowire.AppendString(b, v.String()) }, protowire.BytesType},
		{"bytes", protoreflect.BytesKind, "bytes", reflect.TypeOf([]byte(nil)), []protoreflect.Value{protoreflect.ValueOfBytes([]byte{0xff}), protoreflect.ValueOfBytes([]byte{})}, "hi", protoreflect.ValueOfBytes([]byte("hi")),
			func(b []byte, v protoreflect.Value) []byte { return protowire.AppendBytes(b, v.Bytes()) }, protowire.BytesType},
	}
}

func legacyExtensionTags(c *core.Ctx) {
	ext := impl.Export{}.ProtoMessageV2Of((*legacypb.Message)(nil)).ProtoReflect().Descriptor()
	if ext.ExtensionRanges().Len() == 0 {
		c.Extra("legacy_extension_tags", "extendee has no extension range")
		return
	}
	lo := int32(ext.ExtensionRanges().Get(0)[0])
	num := lo + 500
	n := 0
	for _, k := range extKinds() {
		for _, shape := range []string{"opt", "optdef", "rep", "packed"} {
			packable := k.wt != protowire.BytesType
			if shape == "packed" && !packable {
				continue
			}
			num++
			n++
			name := fmt.Sprintf("%s_%s", k.name, shape)
			var gt reflect.Type
			tagParts := []string{k.wire, fmt.Sprint(num)}
			switch shape {
			case "opt", "optdef":
				gt = reflect.PtrTo(k.goType)
				if k.kind == protoreflect.BytesKind {
					gt = k.goType
				}
				tagParts = append(tagParts, "opt", "name="+name)
				if shape == "optdef" {
					// def= is always the last token: its value may contain commas
					tagParts = append(tagParts, "def="+k.def)
				}
			default:
				gt = reflect.SliceOf(k.goType)
				tagParts = append(tagParts, "rep")
				if shape == "packed" {
					tagParts = append(tagParts, "packed")
				}
				tagParts = append(tagParts, "name="+name)
			}
			tag := strings.Join(tagParts, ",")
			xi := &impl.ExtensionInfo{
				ExtendedType:  (*legacypb.Message)(nil),
				ExtensionType: reflect.Zero(gt).Interface(),
				Field:         num,
				Name:          "verif.c46.tags." + name,
				Tag:           tag,
				Filename:      "verif/c46/tags.proto",
			}
			sig := fmt.Sprintf("legacy ExtensionDesc{Tag:%q, ExtensionType:%v}", tag, gt)
			c.Eval(1)
			c.Guard(func() string { return sig }, func() {
				xd := xi.TypeDescriptor()
				wantCard := protoreflect.Optional
				if shape == "rep" || shape == "packed" {
					wantCard = protoreflect.Repeated
				}
				got := fmt.Sprintf("name=%s num=%d kind=%v card=%v packed=%v hasdefault=%v extendee=%s", xd.FullName(), xd.Number(), xd.Kind(), xd.Cardinality(), xd.IsPacked(), xd.HasDefault(), xd.ContainingMessage().FullName())
				want := fmt.Sprintf("name=%s num=%d kind=%v card=%v packed=%v hasdefault=%v extendee=%s", "verif.c46.tags."+name, num, k.kind, wantCard, shape == "packed", shape == "optdef", ext.FullName())
				if got != want {
					c.Violation("derived descriptor of a legacy extension disagrees with its tag: "+sig, map[string]any{"derived": got, "tag says": want})
					return
				}
				if shape == "optdef" {
					if g, w := fmt.Sprint(xd.Default().Interface()), fmt.Sprint(k.defVal.Interface()); g != w {
						c.Violation("default of a legacy extension disagrees with its tag: "+sig, map[string]any{"derived": g, "tag says": w})
					}
				}
				// behaviour: set through reflection, compare with the hand encoding, decode back
				m := impl.Export{}.ProtoMessageV2Of(&legacypb.Message{}).ProtoReflect()
				var wantBytes []byte
				switch shape {
				case "opt", "optdef":
					m.Set(xd, k.vals[0])
					wantBytes = k.enc(protowire.AppendTag(nil, protowire.Number(num), k.wt), k.vals[0])
				case "rep":
					l := m.Mutable(xd).List()
					for _, v := range k.vals {
						l.Append(v)
						wantBytes = k.enc(protowire.AppendTag(wantBytes, protowire.Number(num), k.wt), v)
					}
				case "packed":
					l := m.Mutable(xd).List()
					var body []byte
					for _, v := range k.vals {
						l.Append(v)
						body = k.enc(body, v)
					}
					wantBytes = protowire.AppendBytes(protowire.AppendTag(nil, protowire.Number(num), protowire.BytesType), body)
				}
				b, err := proto.MarshalOptions{Deterministic: true, AllowPartial: true}.Marshal(m.Interface())
				if err != nil || string(b) != string(wantBytes) || proto.Size(m.Interface()) != len(wantBytes) {
					c.Violation("wire form of a legacy extension disagrees with its tag: "+sig, map[string]any{"got": fmt.Sprintf("%x", b), "want": fmt.Sprintf("%x", wantBytes), "err": fmt.Sprint(err), "size": proto.Size(m.Interface())})
					return
				}
				var reg protoregistry.Types
				if err := reg.RegisterExtension(xi); err != nil {
					c.Violation("cannot register a legacy extension: "+sig, err.Error())
					return
				}
				back := impl.Export{}.ProtoMessageV2Of(&legacypb.Message{}).ProtoReflect()
				if err := (proto.UnmarshalOptions{Resolver: &reg, AllowPartial: true}).Unmarshal(wantBytes, back.Interface()); err != nil || !proto.Equal(back.Interface(), m.Interface()) || len(back.GetUnknown()) != 0 {
					c.Violation("legacy extension does not decode its own wire form: "+sig, fmt.Sprint(err))
				}
			})
		}
	}
	c.DistinctN(int64(n))
	c.Bounds["legacy_extension_tag_grid"] = map[string]any{"kinds": len(extKinds()), "shapes": []string{"opt", "opt with def=", "rep", "rep packed"}, "descriptors": n}
}
