// Package c46: legacy (pre-APIv2 generated) and aberrant (struct-tag only)
// messages behave like dynamicpb messages over the same schema, and their
// derived descriptors are the declared ones.
package c46

import (
	"bytes"
	"compress/gzip"
	"fmt"
	"io"
	"strings"

	_ "google.golang.org/protobuf/internal/testprotos/legacy"
	"google.golang.org/protobuf/proto"
	"google.golang.org/protobuf/reflect/protodesc"
	"google.golang.org/protobuf/reflect/protoreflect"
	"google.golang.org/protobuf/reflect/protoregistry"
	"google.golang.org/protobuf/runtime/protoimpl"
	"google.golang.org/protobuf/types/descriptorpb"
	"google.golang.org/protobuf/verifmc/core"
	"google.golang.org/protobuf/verifmc/ref/descdump"
	"google.golang.org/protobuf/verifmc/twin"
	"google.golang.org/protobuf/verifmc/univ"
)

func init() { core.Register("C46", "exploration", run) }

var generations = []string{
	"proto2_20160225", "proto2_20160519", "proto2_20180125", "proto2_20180430", "proto2_20180814", "proto2_20190205",
	"proto3_20160225", "proto3_20160519", "proto3_20180125", "proto3_20180430", "proto3_20180814", "proto3_20190205",
}

// deepMaps builds content that reaches map fields through nested legacy
// messages (singular child, repeated sibling, map value), each map with
// several entries, so that Deterministic must be honoured below the root.
func deepMaps(md protoreflect.MessageDescriptor) [][]string {
	var paths [][]string
	for i := 0; i < md.Fields().Len(); i++ {
		fd := md.Fields().Get(i)
		var sub protoreflect.MessageDescriptor
		switch {
		case fd.IsMap():
			sub = fd.MapValue().Message()
		default:
			sub = fd.Message()
		}
		if sub == nil || fd.ContainingOneof() != nil {
			continue
		}
		// a field of sub that leads back to a message with maps
		for j := 0; j < sub.Fields().Len(); j++ {
			f2 := sub.Fields().Get(j)
			if f2.Message() != nil && !f2.IsMap() && !f2.IsList() && f2.Message().FullName() == md.FullName() {
				paths = append(paths, []string{string(fd.Name()), string(f2.Name())})
			}
		}
	}
	return paths
}

func descend(m protoreflect.Message, name string) protoreflect.Message {
	fd := m.Descriptor().Fields().ByName(protoreflect.Name(name))
	switch {
	case fd.IsMap():
		v := m.Mutable(fd).Map()
		nv := v.NewValue()
		kd := fd.MapKey()
		var k protoreflect.MapKey
		switch kd.Kind() {
		case protoreflect.BoolKind:
			k = protoreflect.ValueOfBool(true).MapKey()
		case protoreflect.StringKind:
			k = protoreflect.ValueOfString("k").MapKey()
		case protoreflect.Int32Kind, protoreflect.Sint32Kind, protoreflect.Sfixed32Kind:
			k = protoreflect.ValueOfInt32(1).MapKey()
		case protoreflect.Int64Kind, protoreflect.Sint64Kind, protoreflect.Sfixed64Kind:
			k = protoreflect.ValueOfInt64(1).MapKey()
		case protoreflect.Uint32Kind, protoreflect.Fixed32Kind:
			k = protoreflect.ValueOfUint32(1).MapKey()
		default:
			k = protoreflect.ValueOfUint64(1).MapKey()
		}
		v.Set(k, nv)
		return v.Get(k).Message()
	case fd.IsList():
		l := m.Mutable(fd).List()
		return l.AppendMutable().Message()
	default:
		return m.Mutable(fd).Message()
	}
}

func fillMaps(m protoreflect.Message, n int) int {
	filled := 0
	fds := m.Descriptor().Fields()
	for i := 0; i < fds.Len(); i++ {
		fd := fds.Get(i)
		if !fd.IsMap() || fd.MapValue().Message() != nil {
			continue
		}
		mp := m.Mutable(fd).Map()
		for e := 0; e < n; e++ {
			var k protoreflect.MapKey
			switch fd.MapKey().Kind() {
			case protoreflect.BoolKind:
				k = protoreflect.ValueOfBool(e%2 == 0).MapKey()
			case protoreflect.StringKind:
				k = protoreflect.ValueOfString(fmt.Sprintf("k%02d", (e*7)%n)).MapKey()
			case protoreflect.Int32Kind, protoreflect.Sint32Kind, protoreflect.Sfixed32Kind:
				k = protoreflect.ValueOfInt32(int32((e*7)%n - 3)).MapKey()
			case protoreflect.Int64Kind, protoreflect.Sint64Kind, protoreflect.Sfixed64Kind:
				k = protoreflect.ValueOfInt64(int64((e*7)%n - 3)).MapKey()
			case protoreflect.Uint32Kind, protoreflect.Fixed32Kind:
				k = protoreflect.ValueOfUint32(uint32((e * 7) % n)).MapKey()
			default:
				k = protoreflect.ValueOfUint64(uint64((e * 7) % n)).MapKey()
			}
			var v protoreflect.Value
			switch fd.MapValue().Kind() {
			case protoreflect.BoolKind:
				v = protoreflect.ValueOfBool(true)
			case protoreflect.StringKind:
				v = protoreflect.ValueOfString("v")
			case protoreflect.BytesKind:
				v = protoreflect.ValueOfBytes([]byte("v"))
			case protoreflect.EnumKind:
				v = protoreflect.ValueOfEnum(fd.MapValue().Enum().Values().Get(0).Number())
			case protoreflect.FloatKind:
				v = protoreflect.ValueOfFloat32(1)
			case protoreflect.DoubleKind:
				v = protoreflect.ValueOfFloat64(1)
			case protoreflect.Int32Kind, protoreflect.Sint32Kind, protoreflect.Sfixed32Kind:
				v = protoreflect.ValueOfInt32(1)
			case protoreflect.Int64Kind, protoreflect.Sint64Kind, protoreflect.Sfixed64Kind:
				v = protoreflect.ValueOfInt64(1)
			case protoreflect.Uint32Kind, protoreflect.Fixed32Kind:
				v = protoreflect.ValueOfUint32(1)
			default:
				v = protoreflect.ValueOfUint64(1)
			}
			mp.Set(k, v)
		}
		filled++
	}
	return filled
}

func checkDeep(c *core.Ctx, tw twin.Twin) int {
	paths := deepMaps(tw.Leg.MT.Descriptor())
	paths = append(paths, nil)
	for _, p := range paths {
		p := p
		c.Eval(1)
		c.Guard(func() string { return fmt.Sprintf("type=%s deep maps at %v", tw.Name, p) }, func() {
			build := func(f univ.Flavor) protoreflect.Message {
				m := f.MT.New()
				cur := m
				for _, seg := range p {
					cur = descend(cur, seg)
				}
				if fillMaps(cur, 8) == 0 {
					panic("no maps reached")
				}
				return m
			}
			ml, md := build(tw.Leg), build(tw.Dyn)
			ol, _ := twin.Observe(ml)
			od, _ := twin.Observe(md)
			if ol != od {
				c.Violation(fmt.Sprintf("legacy message and dynamicpb twin differ type=%s deep maps at %v", tw.Name, p), map[string]any{"legacy": ol, "dynamicpb": od})
			}
		})
	}
	return len(paths)
}

// ---- descriptor derivation ---------------------------------------------------------

type rawDescriptor interface {
	Descriptor() ([]byte, []int)
}

func checkDescriptors(c *core.Ctx, gen string) {
	c.Eval(1)
	c.Guard(func() string { return "descriptor derivation " + gen }, func() {
		mt := univ.MT("google.golang.org." + gen + ".Message")
		v1 := protoimpl.X.ProtoMessageV1Of(mt.New().Interface())
		rd, ok := v1.(rawDescriptor)
		if !ok {
			c.Violation("legacy message of generation "+gen+" has no raw descriptor", nil)
			return
		}
		gz, idx := rd.Descriptor()
		zr, err := gzip.NewReader(bytes.NewReader(gz))
		if err != nil {
			panic(err)
		}
		raw, err := io.ReadAll(zr)
		if err != nil {
			panic(err)
		}
		fdp := &descriptorpb.FileDescriptorProto{}
		if err := proto.Unmarshal(raw, fdp); err != nil {
			panic(err)
		}
		want, err := protodesc.NewFile(fdp, protoregistry.GlobalFiles)
		if err != nil {
			c.Violation("protodesc rejects the raw descriptor embedded in generation "+gen, err.Error())
			return
		}
		got := mt.Descriptor().ParentFile()
		if g, w := descdump.File(got, descdump.Opt{}), descdump.File(want, descdump.Opt{}); g != w {
			c.Violation("derived file descriptor of legacy generation "+gen+" differs from protodesc.NewFile of its embedded raw descriptor", map[string]any{"first_difference": firstDiff(g, w)})
		}
		wantMD := want.Messages().Get(idx[0])
		for _, i := range idx[1:] {
			wantMD = wantMD.Messages().Get(i)
		}
		if wantMD.FullName() != mt.Descriptor().FullName() {
			c.Violation("legacy message of generation "+gen+" resolves to message "+string(mt.Descriptor().FullName())+" but its index path names "+string(wantMD.FullName()), nil)
		}
		// every Go type reachable through the wrapper maps to the descriptor at the same path
		var walk func(m protoreflect.Message, depth int)
		seen := map[protoreflect.FullName]bool{}
		walk = func(m protoreflect.Message, depth int) {
			md := m.Descriptor()
			if seen[md.FullName()] {
				return
			}
			seen[md.FullName()] = true
			if md.ParentFile() == got {
				if d := findMessage(got, md.FullName()); d != md {
					c.Violation(fmt.Sprintf("descriptor of nested legacy type %s is not the one at that name in the derived file", md.FullName()), nil)
				}
			}
			for i := 0; i < md.Fields().Len(); i++ {
				fd := md.Fields().Get(i)
				switch {
				case fd.IsMap():
					if fd.MapValue().Message() != nil {
						walk(m.NewField(fd).Map().NewValue().Message(), depth+1)
					}
				case fd.IsList():
					if fd.Message() != nil {
						walk(m.NewField(fd).List().NewElement().Message(), depth+1)
					}
				case fd.Message() != nil:
					walk(m.NewField(fd).Message(), depth+1)
				}
			}
		}
		walk(mt.New(), 0)
		c.Extra("types_reached_"+gen, len(seen))
		// legacy extension descriptors are derived from the struct tag of the old ExtensionDesc: each
		// must agree with the declaration of the same name in the file's own descriptor
		decl := map[protoreflect.FullName]protoreflect.ExtensionDescriptor{}
		var collect func(xs protoreflect.ExtensionDescriptors, ms protoreflect.MessageDescriptors)
		collect = func(xs protoreflect.ExtensionDescriptors, ms protoreflect.MessageDescriptors) {
			for i := 0; i < xs.Len(); i++ {
				decl[xs.Get(i).FullName()] = xs.Get(i)
			}
			for i := 0; i < ms.Len(); i++ {
				collect(ms.Get(i).Extensions(), ms.Get(i).Messages())
			}
		}
		collect(want.Extensions(), want.Messages())
		nx := 0
		row := func(xd protoreflect.FieldDescriptor) string {
			s := fmt.Sprintf("num=%d kind=%v card=%v packed=%v hasdefault=%v", xd.Number(), xd.Kind(), xd.Cardinality(), xd.IsPacked(), xd.HasDefault())
			if xd.HasDefault() {
				s += " default=" + univ.FormatValue(xd.Default())
			}
			if xd.Message() != nil {
				s += " msg=" + string(xd.Message().FullName())
			}
			if xd.Enum() != nil {
				s += " enum=" + string(xd.Enum().FullName())
			}
			return s + " extendee=" + string(xd.ContainingMessage().FullName())
		}
		protoregistry.GlobalTypes.RangeExtensionsByMessage(mt.Descriptor().FullName(), func(xt protoreflect.ExtensionType) bool {
			xd := xt.TypeDescriptor()
			d, ok := decl[xd.FullName()]
			if !ok {
				c.Violation(fmt.Sprintf("legacy extension %s of generation %s is not declared under that name in the file's descriptor", xd.FullName(), gen), nil)
				return true
			}
			nx++
			if g, w := row(xd), row(d); g != w {
				c.Violation(fmt.Sprintf("derived descriptor of legacy extension %s differs from its declaration", xd.FullName()), map[string]any{"derived": g, "declared": w})
			}
			return true
		})
		c.Extra("legacy_extensions_"+gen, nx)
	})
}

func findMessage(fd protoreflect.FileDescriptor, name protoreflect.FullName) protoreflect.MessageDescriptor {
	var find func(ms protoreflect.MessageDescriptors) protoreflect.MessageDescriptor
	find = func(ms protoreflect.MessageDescriptors) protoreflect.MessageDescriptor {
		for i := 0; i < ms.Len(); i++ {
			if ms.Get(i).FullName() == name {
				return ms.Get(i)
			}
			if d := find(ms.Get(i).Messages()); d != nil {
				return d
			}
		}
		return nil
	}
	return find(fd.Messages())
}

func firstDiff(a, b string) string {
	la, lb := strings.Split(a, "\n"), strings.Split(b, "\n")
	for i := 0; i < len(la) && i < len(lb); i++ {
		if la[i] != lb[i] {
			return fmt.Sprintf("line %d: derived %q / protodesc %q", i, la[i], lb[i])
		}
	}
	return fmt.Sprintf("length %d vs %d lines", len(la), len(lb))
}

func run(c *core.Ctx) {
	c.Rule = "for each of the twelve legacy generations (Message type registered through the v1 shim): (a) the file descriptor derived by the runtime (legacyLoadFileDesc) equals, accessor by accessor, protodesc.NewFile of the gunzipped raw descriptor the old generated code embeds, the index path names the same message, and every nested Go type reached through the wrapper maps to the registered descriptor, and every legacy extension descriptor (derived from the struct tag of the old ExtensionDesc) agrees with its declaration in the file descriptor on number, kind, cardinality, packedness, default, message/enum type and extendee; (b) EVERY message of <=k slots (quick k=1 for all generations and k=2 for the oldest proto2 and proto3 generation; thorough k=2 for all) over the thin slot alphabet (all fields incl. legacy extensions, unknown fields, nested messages to depth 1) is built through reflection in the legacy wrapper and in dynamicpb over the derived descriptor: reflection snapshot, deterministic wire bytes, Size, CheckInitialized, protojson (default and EmitUnpopulated/UseProtoNames/UseEnumNumbers) and prototext output must be identical; each decodes the other's bytes to the same content; Clone; the legacy type parses its twin's JSON back to the same content; (c) EVERY sequence of <=k wire records (same k) is decoded by both: same verdict with and without AllowPartial, same observation; (d) maps with 8 entries of every scalar key/value kind placed at the root and below every nested-message path that leads back to the root type (singular child, repeated sibling, map value, group): deterministic bytes identical to dynamicpb. (e) the tag grammar of legacy extensions itself: for every scalar kind x {optional, optional with def=, repeated, repeated packed} a legacy ExtensionDesc (Go type, number, tag string) is constructed on a legacy extendee: the derived descriptor must have the kind, cardinality, packedness and default the tag says, the wire bytes must equal a hand encoding, and the bytes must decode back through a resolver holding the extension. (f) two hand-written types in the struct shapes of 2016-2018 proto3 code that the fixtures lack (a message that is a oneof only, a message of plain fields only - no XXX_ fields - each with a Descriptor method embedding its raw descriptor): the runtime must use the embedded descriptor (full name, syntax, accessor by accessor) and each field set alone, also with invalid UTF-8, must behave as in dynamicpb. aberrant (struct-tag only) types: see the aberrant clauses in this rule's evidence"
	c.Exhaustive = true
	for _, g := range generations {
		checkDescriptors(c, g)
	}
	var planOut []map[string]any
	for gi, g := range generations {
		if c.Expired() {
			break
		}
		name := "google.golang.org." + g + ".Message"
		tw := twin.New("legacy message", name, univ.Gen(name), univ.Dyn(name))
		md := tw.Leg.MT.Descriptor()
		k := 2
		if c.Quick() && !(gi == 0 || gi == 6) {
			k = 1
		}
		alpha := univ.Alphabet(md, 1, univ.Opt{Thin: true, NoUnknown: tw.NoUnknown})
		n := univ.TupleCount(len(alpha), k)
		univ.ForTuples(c, len(alpha), k, func(idx []int) {
			twin.CompareBuilt(c, tw, univ.PickSlots(alpha, idx, nil))
		})
		c.DistinctN(int64(n))
		recs := univ.WireAlphabet(md, univ.WireOpt{Small: true, Depth: 1})
		nw := univ.TupleCount(len(recs), k)
		univ.ForTuples(c, len(recs), k, func(idx []int) {
			in, nm := univ.Concat(recs, idx)
			twin.CompareWire(c, tw, in, nm)
		})
		c.DistinctN(int64(nw))
		nd := checkDeep(c, tw)
		c.DistinctN(int64(nd))
		planOut = append(planOut, map[string]any{"type": name, "k": k, "go_type_keeps_unknown_fields": !tw.NoUnknown, "slot_alphabet": len(alpha), "messages": n, "wire_alphabet": len(recs), "wire_sequences": nw, "deep_map_paths": nd})
	}
	c.Bounds["plans"] = planOut
	aberrant(c)
	legacyExtensionTags(c)
	historicShapes(c)
	c.Sample(map[string]any{"type": "google.golang.org.proto2_20160225.Message", "case": "optional_child_message.f4.map_int32_bool with 8 entries", "expect": "deterministic bytes equal to dynamicpb (sorted keys)"})
}
