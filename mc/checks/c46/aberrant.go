package c46

import (
	"fmt"
	"strings"

	"google.golang.org/protobuf/reflect/protoreflect"
	"google.golang.org/protobuf/reflect/protoregistry"
	"google.golang.org/protobuf/runtime/protoimpl"
	"google.golang.org/protobuf/verifmc/core"
	"google.golang.org/protobuf/verifmc/twin"
	"google.golang.org/protobuf/verifmc/univ"
)

// Hand-written types in the style of 2015-era generated code: no Descriptor
// method, no registration, only struct tags. The runtime derives their
// descriptors (aberrantLoadMessageDesc).

type AbEnum int32

type AbChild struct {
	F1               *string  `protobuf:"bytes,1,opt,name=f1"`
	F2               []uint64 `protobuf:"fixed64,2,rep,name=f2"`
	XXX_unrecognized []byte
}

func (m *AbChild) Reset()                { *m = AbChild{} }
func (m *AbChild) String() string        { return "AbChild" }
func (*AbChild) ProtoMessage()           {}
func (*AbChild) XXX_MessageName() string { return "verif.ab.AbChild" }

type AbMessage_Group struct {
	G1               *int32 `protobuf:"varint,1,opt,name=g1"`
	XXX_unrecognized []byte
}

func (m *AbMessage_Group) Reset()                { *m = AbMessage_Group{} }
func (m *AbMessage_Group) String() string        { return "AbMessage_Group" }
func (*AbMessage_Group) ProtoMessage()           {}
func (*AbMessage_Group) XXX_MessageName() string { return "verif.ab.AbMessage.OptGroup" }

type isAbMessage_Union interface{ isAbMessage_Union() }

type AbMessage_OneInt struct {
	OneInt int32 `protobuf:"varint,17,opt,name=one_int,oneof"`
}
type AbMessage_OneChild struct {
	OneChild *AbChild `protobuf:"bytes,18,opt,name=one_child,oneof"`
}
type AbMessage_OneString struct {
	OneString string `protobuf:"bytes,19,opt,name=one_string,oneof"`
}

type isAbMessage_Second interface{ isAbMessage_Second() }

type AbMessage_TwoInt struct {
	TwoInt int64 `protobuf:"varint,24,opt,name=two_int,json=twoInt,oneof"`
}
type AbMessage_TwoString struct {
	TwoString string `protobuf:"bytes,25,opt,name=two_string,json=twoString,oneof"`
}

func (*AbMessage_TwoInt) isAbMessage_Second()    {}
func (*AbMessage_TwoString) isAbMessage_Second() {}

func (*AbMessage_OneInt) isAbMessage_Union()    {}
func (*AbMessage_OneChild) isAbMessage_Union()  {}
func (*AbMessage_OneString) isAbMessage_Union() {}

type AbMessage struct {
	OptBool          *bool              `protobuf:"varint,1,opt,name=opt_bool,json=optBool,def=1"`
	OptInt32         *int32             `protobuf:"varint,2,opt,name=opt_int32,json=optInt32,def=-7"`
	OptSint64        *int64             `protobuf:"zigzag64,3,opt,name=opt_sint64,json=optSint64"`
	OptFixed32       *uint32            `protobuf:"fixed32,4,opt,name=opt_fixed32,json=optFixed32"`
	OptDouble        *float64           `protobuf:"fixed64,5,opt,name=opt_double,json=optDouble,def=1.5"`
	OptString        *string            `protobuf:"bytes,6,opt,name=opt_string,json=optString,def=hi"`
	OptBytes         []byte             `protobuf:"bytes,7,opt,name=opt_bytes,json=optBytes"`
	OptEnum          *AbEnum            `protobuf:"varint,8,opt,name=opt_enum,json=optEnum,enum=verif.ab.AbEnum"`
	OptChild         *AbChild           `protobuf:"bytes,9,opt,name=opt_child,json=optChild"`
	ReqInt32         *int32             `protobuf:"varint,10,req,name=req_int32,json=reqInt32"`
	RepInt32         []int32            `protobuf:"varint,11,rep,name=rep_int32,json=repInt32"`
	RepPacked        []int64            `protobuf:"varint,12,rep,packed,name=rep_packed,json=repPacked"`
	RepString        []string           `protobuf:"bytes,13,rep,name=rep_string,json=repString"`
	RepChild         []*AbChild         `protobuf:"bytes,14,rep,name=rep_child,json=repChild"`
	MapStrInt        map[string]int32   `protobuf:"bytes,15,rep,name=map_str_int,json=mapStrInt" protobuf_key:"bytes,1,opt,name=key" protobuf_val:"varint,2,opt,name=value"`
	MapIntChild      map[int32]*AbChild `protobuf:"bytes,16,rep,name=map_int_child,json=mapIntChild" protobuf_key:"varint,1,opt,name=key" protobuf_val:"bytes,2,opt,name=value"`
	Union            isAbMessage_Union  `protobuf_oneof:"union"`
	OptGroup         *AbMessage_Group   `protobuf:"group,20,opt,name=OptGroup,json=optgroup"`
	OptFloat         *float32           `protobuf:"fixed32,21,opt,name=opt_float,json=optFloat"`
	RepBytes         [][]byte           `protobuf:"bytes,22,rep,name=rep_bytes,json=repBytes"`
	OptSelf          *AbMessage         `protobuf:"bytes,23,opt,name=opt_self,json=optSelf"`
	Second           isAbMessage_Second `protobuf_oneof:"second"`
	XXX_unrecognized []byte
}

func (m *AbMessage) Reset()                { *m = AbMessage{} }
func (m *AbMessage) String() string        { return "AbMessage" }
func (*AbMessage) ProtoMessage()           {}
func (*AbMessage) XXX_MessageName() string { return "verif.ab.AbMessage" }
func (*AbMessage) XXX_OneofWrappers() []any {
	return []any{(*AbMessage_OneInt)(nil), (*AbMessage_OneChild)(nil), (*AbMessage_OneString)(nil), (*AbMessage_TwoInt)(nil), (*AbMessage_TwoString)(nil)}
}

// proto3-style aberrant message: plain scalars
type AbMessage3 struct {
	Bool             bool            `protobuf:"varint,1,opt,name=bool,proto3"`
	Int64            int64           `protobuf:"varint,2,opt,name=int64,proto3"`
	Str              string          `protobuf:"bytes,3,opt,name=str,proto3"`
	Bytes            []byte          `protobuf:"bytes,4,opt,name=bytes,proto3"`
	Double           float64         `protobuf:"fixed64,5,opt,name=double,proto3"`
	Rep              []uint32        `protobuf:"varint,6,rep,packed,name=rep,proto3"`
	Child            *AbMessage3     `protobuf:"bytes,7,opt,name=child,proto3"`
	MapBool          map[bool]string `protobuf:"bytes,8,rep,name=map_bool,json=mapBool,proto3" protobuf_key:"varint,1,opt,name=key,proto3" protobuf_val:"bytes,2,opt,name=value,proto3"`
	Enum             AbEnum          `protobuf:"varint,9,opt,name=enum,proto3,enum=verif.ab.AbEnum"`
	Sint             int32           `protobuf:"zigzag32,10,opt,name=sint,proto3"`
	RepStr           []string        `protobuf:"bytes,11,rep,name=rep_str,json=repStr,proto3"`
	XXX_unrecognized []byte
}

func (m *AbMessage3) Reset()                { *m = AbMessage3{} }
func (m *AbMessage3) String() string        { return "AbMessage3" }
func (*AbMessage3) ProtoMessage()           {}
func (*AbMessage3) XXX_MessageName() string { return "verif.ab.AbMessage3" }

// expected field table, written from the struct tags by hand
type wantField struct {
	name, json string
	num        int
	kind       protoreflect.Kind
	card       protoreflect.Cardinality
	packed     bool
	hasDefault bool
	def        string
	oneof      string
	msg        string
	mapKV      string
}

var wantAb = []wantField{
	{name: "opt_bool", json: "optBool", num: 1, kind: protoreflect.BoolKind, card: protoreflect.Optional, hasDefault: true, def: "true"},
	{name: "opt_int32", json: "optInt32", num: 2, kind: protoreflect.Int32Kind, card: protoreflect.Optional, hasDefault: true, def: "-7"},
	{name: "opt_sint64", json: "optSint64", num: 3, kind: protoreflect.Sint64Kind, card: protoreflect.Optional},
	{name: "opt_fixed32", json: "optFixed32", num: 4, kind: protoreflect.Fixed32Kind, card: protoreflect.Optional},
	{name: "opt_double", json: "optDouble", num: 5, kind: protoreflect.DoubleKind, card: protoreflect.Optional, hasDefault: true, def: "1.5"},
	{name: "opt_string", json: "optString", num: 6, kind: protoreflect.StringKind, card: protoreflect.Optional, hasDefault: true, def: "hi"},
	{name: "opt_bytes", json: "optBytes", num: 7, kind: protoreflect.BytesKind, card: protoreflect.Optional},
	{name: "opt_enum", json: "optEnum", num: 8, kind: protoreflect.EnumKind, card: protoreflect.Optional},
	{name: "opt_child", json: "optChild", num: 9, kind: protoreflect.MessageKind, card: protoreflect.Optional, msg: "verif.ab.AbChild"},
	{name: "req_int32", json: "reqInt32", num: 10, kind: protoreflect.Int32Kind, card: protoreflect.Required},
	{name: "rep_int32", json: "repInt32", num: 11, kind: protoreflect.Int32Kind, card: protoreflect.Repeated},
	{name: "rep_packed", json: "repPacked", num: 12, kind: protoreflect.Int64Kind, card: protoreflect.Repeated, packed: true},
	{name: "rep_string", json: "repString", num: 13, kind: protoreflect.StringKind, card: protoreflect.Repeated},
	{name: "rep_child", json: "repChild", num: 14, kind: protoreflect.MessageKind, card: protoreflect.Repeated, msg: "verif.ab.AbChild"},
	{name: "map_str_int", json: "mapStrInt", num: 15, kind: protoreflect.MessageKind, card: protoreflect.Repeated, mapKV: "string->int32", msg: "verif.ab.AbMessage.MapStrIntEntry"},
	{name: "map_int_child", json: "mapIntChild", num: 16, kind: protoreflect.MessageKind, card: protoreflect.Repeated, mapKV: "int32->message", msg: "verif.ab.AbMessage.MapIntChildEntry"},
	{name: "one_int", json: "oneInt", num: 17, kind: protoreflect.Int32Kind, card: protoreflect.Optional, oneof: "union#0"},
	{name: "one_child", json: "oneChild", num: 18, kind: protoreflect.MessageKind, card: protoreflect.Optional, oneof: "union#0", msg: "verif.ab.AbChild"},
	{name: "one_string", json: "oneString", num: 19, kind: protoreflect.StringKind, card: protoreflect.Optional, oneof: "union#0"},
	{name: "optgroup", json: "optgroup", num: 20, kind: protoreflect.GroupKind, card: protoreflect.Optional, msg: "verif.ab.AbMessage.OptGroup"},
	{name: "opt_float", json: "optFloat", num: 21, kind: protoreflect.FloatKind, card: protoreflect.Optional},
	{name: "rep_bytes", json: "repBytes", num: 22, kind: protoreflect.BytesKind, card: protoreflect.Repeated},
	{name: "opt_self", json: "optSelf", num: 23, kind: protoreflect.MessageKind, card: protoreflect.Optional, msg: "verif.ab.AbMessage"},
	{name: "two_int", json: "twoInt", num: 24, kind: protoreflect.Int64Kind, card: protoreflect.Optional, oneof: "second#1"},
	{name: "two_string", json: "twoString", num: 25, kind: protoreflect.StringKind, card: protoreflect.Optional, oneof: "second#1"},
}

var wantAb3 = []wantField{
	{name: "bool", json: "bool", num: 1, kind: protoreflect.BoolKind, card: protoreflect.Optional},
	{name: "int64", json: "int64", num: 2, kind: protoreflect.Int64Kind, card: protoreflect.Optional},
	{name: "str", json: "str", num: 3, kind: protoreflect.StringKind, card: protoreflect.Optional},
	{name: "bytes", json: "bytes", num: 4, kind: protoreflect.BytesKind, card: protoreflect.Optional},
	{name: "double", json: "double", num: 5, kind: protoreflect.DoubleKind, card: protoreflect.Optional},
	{name: "rep", json: "rep", num: 6, kind: protoreflect.Uint32Kind, card: protoreflect.Repeated, packed: true},
	{name: "child", json: "child", num: 7, kind: protoreflect.MessageKind, card: protoreflect.Optional, msg: "verif.ab.AbMessage3"},
	{name: "map_bool", json: "mapBool", num: 8, kind: protoreflect.MessageKind, card: protoreflect.Repeated, mapKV: "bool->string", msg: "verif.ab.AbMessage3.MapBoolEntry"},
	{name: "enum", json: "enum", num: 9, kind: protoreflect.EnumKind, card: protoreflect.Optional},
	{name: "sint", json: "sint", num: 10, kind: protoreflect.Sint32Kind, card: protoreflect.Optional},
	{name: "rep_str", json: "repStr", num: 11, kind: protoreflect.StringKind, card: protoreflect.Repeated},
}

func fieldRow(fd protoreflect.FieldDescriptor) wantField {
	w := wantField{name: string(fd.Name()), json: fd.JSONName(), num: int(fd.Number()), kind: fd.Kind(), card: fd.Cardinality(), packed: fd.IsPacked(), hasDefault: fd.HasDefault()}
	if fd.HasDefault() {
		w.def = fd.Default().String()
	}
	if od := fd.ContainingOneof(); od != nil {
		w.oneof = string(od.Name())
		w.oneof += fmt.Sprintf("#%d", od.Index())
	}
	if fd.Message() != nil {
		w.msg = string(fd.Message().FullName())
	}
	if fd.IsMap() {
		w.mapKV = fmt.Sprintf("%v->%v", fd.MapKey().Kind(), fd.MapValue().Kind())
	}
	return w
}

func aberrant(c *core.Ctx) {
	type ab struct {
		name   string
		zero   any
		want   []wantField
		syntax protoreflect.Syntax
	}
	for _, a := range []ab{{"verif.ab.AbMessage", (*AbMessage)(nil), wantAb, protoreflect.Proto2}, {"verif.ab.AbMessage3", (*AbMessage3)(nil), wantAb3, protoreflect.Proto3}} {
		var mt protoreflect.MessageType
		if c.Guard(func() string { return "aberrant derivation " + a.name }, func() { mt = protoimpl.X.MessageTypeOf(a.zero) }) {
			continue
		}
		md := mt.Descriptor()
		c.Eval(1)
		// (e) derived descriptor = the schema the tags spell out
		if string(md.FullName()) != a.name || md.Syntax() != a.syntax {
			c.Violation(fmt.Sprintf("aberrant type %s derives name %s syntax %v", a.name, md.FullName(), md.Syntax()), nil)
		}
		var got []string
		for i := 0; i < md.Fields().Len(); i++ {
			got = append(got, fmt.Sprintf("%+v", fieldRow(md.Fields().Get(i))))
		}
		var want []string
		for _, w := range a.want {
			want = append(want, fmt.Sprintf("%+v", w))
		}
		if g, w := strings.Join(got, "\n"), strings.Join(want, "\n"); g != w {
			c.Violation("aberrant type "+a.name+": derived field table differs from the struct tags", map[string]any{"first_difference": firstDiff(g, w)})
		}
		for i := 0; i < md.Fields().Len(); i++ {
			fd := md.Fields().Get(i)
			if fd.HasPresence() != (a.syntax == protoreflect.Proto2 && fd.Cardinality() != protoreflect.Repeated || fd.Message() != nil && !fd.IsList() && !fd.IsMap() || fd.ContainingOneof() != nil) {
				c.Violation(fmt.Sprintf("aberrant type %s field %s: HasPresence=%v", a.name, fd.Name(), fd.HasPresence()), nil)
			}
		}
		// (f) behaviour = dynamicpb over the derived descriptor
		tw := twin.New("legacy message", a.name, univ.Flavor{Name: a.name, MT: mt, Res: protoregistry.GlobalTypes}, univ.DynFlavor(md))
		k := 2
		alpha := univ.Alphabet(md, 1, univ.Opt{Thin: c.Quick(), NoExt: true, NoUnknown: tw.NoUnknown})
		n := univ.TupleCount(len(alpha), k)
		univ.ForTuples(c, len(alpha), k, func(idx []int) {
			twin.CompareBuilt(c, tw, univ.PickSlots(alpha, idx, nil))
		})
		c.DistinctN(int64(n))
		recs := univ.WireAlphabet(md, univ.WireOpt{AllFields: true, Depth: 1})
		nw := univ.TupleCount(len(recs), k)
		univ.ForTuples(c, len(recs), k, func(idx []int) {
			in, nm := univ.Concat(recs, idx)
			twin.CompareWire(c, tw, in, nm)
		})
		c.DistinctN(int64(nw))
		c.Bounds["aberrant:"+a.name] = map[string]any{"slot_alphabet": len(alpha), "messages": n, "wire_alphabet": len(recs), "wire_sequences": nw}
	}
}
