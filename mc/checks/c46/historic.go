package c46

import (
	"fmt"

	"google.golang.org/protobuf/encoding/protojson"
	"google.golang.org/protobuf/encoding/prototext"
	"google.golang.org/protobuf/proto"
	"google.golang.org/protobuf/reflect/protodesc"
	"google.golang.org/protobuf/reflect/protoreflect"
	"google.golang.org/protobuf/runtime/protoimpl"
	"google.golang.org/protobuf/types/descriptorpb"
	"google.golang.org/protobuf/types/dynamicpb"
	"google.golang.org/protobuf/verifmc/core"
)

// Struct shapes of historically generated code that the twelve fixtures do not
// have. The runtime decides from the struct whether a type "looks generated"
// (then it trusts the embedded raw descriptor returned by Descriptor()) or is
// aberrant (then it guesses a descriptor from the struct tags). proto3 code of
// 2016-2018 has no XXX_ fields, so a message that consists of a oneof only, or
// of plain fields only, is recognised by its tags alone.

const histFileText = `
	name: "verif/c46/historic.proto"
	package: "verif.c46.historic"
	syntax: "proto3"
	message_type: [{
		name: "OneofOnly"
		field: [
			{name:"text"   number:1 label:LABEL_OPTIONAL type:TYPE_STRING json_name:"text"   oneof_index:0},
			{name:"number" number:2 label:LABEL_OPTIONAL type:TYPE_INT64  json_name:"number" oneof_index:0},
			{name:"color"  number:3 label:LABEL_OPTIONAL type:TYPE_ENUM   json_name:"color"  oneof_index:0 type_name:".verif.c46.historic.Color"}
		]
		oneof_decl: [{name:"kind"}]
	}, {
		name: "PlainOnly"
		field: [
			{name:"some_text" number:1 label:LABEL_OPTIONAL type:TYPE_STRING json_name:"someText"},
			{name:"numbers"   number:2 label:LABEL_REPEATED type:TYPE_SINT32 json_name:"numbers"}
		]
	}]
	enum_type: [{name: "Color" value: [{name:"RED" number:0}, {name:"GREEN" number:1}]}]
`

func histFile() *descriptorpb.FileDescriptorProto {
	fdp := new(descriptorpb.FileDescriptorProto)
	if err := prototext.Unmarshal([]byte(histFileText), fdp); err != nil {
		panic(err)
	}
	return fdp
}

var histGZIP = func() []byte {
	b, err := proto.Marshal(histFile())
	if err != nil {
		panic(err)
	}
	return protoimpl.X.CompressGZIP(b)
}()

type HistColor int32

func (HistColor) EnumDescriptor() ([]byte, []int) { return histGZIP, []int{0} }

type HistOneofOnly struct {
	Kind isHistOneofOnly_Kind `protobuf_oneof:"kind"`
}

func (m *HistOneofOnly) Reset()                    { *m = HistOneofOnly{} }
func (m *HistOneofOnly) String() string            { return "HistOneofOnly" }
func (*HistOneofOnly) ProtoMessage()               {}
func (*HistOneofOnly) Descriptor() ([]byte, []int) { return histGZIP, []int{0} }
func (*HistOneofOnly) XXX_OneofWrappers() []any {
	return []any{(*HistOneofOnly_Text)(nil), (*HistOneofOnly_Number)(nil), (*HistOneofOnly_Color)(nil)}
}

type isHistOneofOnly_Kind interface{ isHistOneofOnly_Kind() }
type HistOneofOnly_Text struct {
	Text string `protobuf:"bytes,1,opt,name=text,oneof"`
}
type HistOneofOnly_Number struct {
	Number int64 `protobuf:"varint,2,opt,name=number,oneof"`
}
type HistOneofOnly_Color struct {
	Color HistColor `protobuf:"varint,3,opt,name=color,enum=verif.c46.historic.Color,oneof"`
}

func (*HistOneofOnly_Text) isHistOneofOnly_Kind()   {}
func (*HistOneofOnly_Number) isHistOneofOnly_Kind() {}
func (*HistOneofOnly_Color) isHistOneofOnly_Kind()  {}

type HistPlainOnly struct {
	SomeText string  `protobuf:"bytes,1,opt,name=some_text,json=someText" json:"some_text,omitempty"`
	Numbers  []int32 `protobuf:"zigzag32,2,rep,packed,name=numbers" json:"numbers,omitempty"`
}

func (m *HistPlainOnly) Reset()                    { *m = HistPlainOnly{} }
func (m *HistPlainOnly) String() string            { return "HistPlainOnly" }
func (*HistPlainOnly) ProtoMessage()               {}
func (*HistPlainOnly) Descriptor() ([]byte, []int) { return histGZIP, []int{1} }

func historicShapes(c *core.Ctx) {
	fd, err := protodesc.NewFile(histFile(), nil)
	if err != nil {
		panic(err)
	}
	n := 0
	for _, tc := range []struct {
		name string
		zero func() any
	}{
		{"OneofOnly", func() any { return &HistOneofOnly{} }},
		{"PlainOnly", func() any { return &HistPlainOnly{} }},
	} {
		want := fd.Messages().ByName(protoreflect.Name(tc.name))
		c.Guard(func() string { return "historic struct shape " + tc.name }, func() {
			leg := protoimpl.X.ProtoMessageV2Of(tc.zero()).ProtoReflect()
			got := leg.Descriptor()
			c.Eval(1)
			n++
			if got.FullName() != want.FullName() || got.Syntax() != want.Syntax() || !proto.Equal(protodesc.ToDescriptorProto(got), protodesc.ToDescriptorProto(want)) {
				c.Violation(fmt.Sprintf("a historically generated type with a Descriptor method (struct shape %s) does not get the descriptor it embeds", tc.name),
					map[string]any{"derived": prototext.Format(protodesc.ToDescriptorProto(got)), "embedded": prototext.Format(protodesc.ToDescriptorProto(want)), "derived_full_name": string(got.FullName()), "derived_syntax": got.Syntax().String()})
				return
			}
			// behaviour: every field set alone, legacy wrapper vs dynamicpb over the embedded descriptor
			for i := 0; i < want.Fields().Len(); i++ {
				wf := want.Fields().Get(i)
				for _, bad := range []bool{false, true} {
					if bad && wf.Kind() != protoreflect.StringKind {
						continue
					}
					c.Eval(1)
					n++
					l := protoimpl.X.ProtoMessageV2Of(tc.zero()).ProtoReflect()
					d := dynamicpb.NewMessage(want)
					set := func(m protoreflect.Message, f protoreflect.FieldDescriptor) {
						switch {
						case f.IsList():
							m.Mutable(f).List().Append(protoreflect.ValueOfInt32(-3))
						case f.Kind() == protoreflect.StringKind && bad:
							m.Set(f, protoreflect.ValueOfString("\xff"))
						case f.Kind() == protoreflect.StringKind:
							m.Set(f, protoreflect.ValueOfString("a"))
						case f.Kind() == protoreflect.EnumKind:
							m.Set(f, protoreflect.ValueOfEnum(1))
						default:
							m.Set(f, protoreflect.ValueOfInt64(7))
						}
					}
					set(l, l.Descriptor().Fields().ByNumber(wf.Number()))
					set(d, wf)
					obs := func(m protoreflect.Message) string {
						b, e1 := proto.MarshalOptions{Deterministic: true}.Marshal(m.Interface())
						j, e2 := protojson.Marshal(m.Interface())
						t, e3 := prototext.MarshalOptions{}.Marshal(m.Interface())
						if e1 != nil {
							b = nil // what a failed Marshal returns is not constrained
						}
						return fmt.Sprintf("wire=%x err=%v json-err=%v text-err=%v json=%s text=%s", b, e1 != nil, e2 != nil, e3 != nil, compact(string(j)), compact(string(t)))
					}
					if lo, do := obs(l), obs(d); lo != do {
						c.Violation(fmt.Sprintf("historic struct shape %s field %s invalid-utf8=%v: legacy wrapper and dynamicpb differ", tc.name, wf.Name(), bad), map[string]any{"legacy": lo, "dynamicpb": do})
					}
				}
			}
		})
	}
	c.DistinctN(int64(n))
}

func compact(s string) string {
	out := make([]rune, 0, len(s))
	for _, r := range s {
		if r != ' ' && r != '\n' && r != '\t' {
			out = append(out, r)
		}
	}
	return string(out)
}
