// Package c08: the generated fast path and the reflection path are
// indistinguishable. Two comparisons: (i) generated type vs dynamicpb of the
// same descriptor inside one binary; (ii) the default build vs the
// -tags protoreflect build, by exchanging per-case digests between processes.
package c08

import (
	"bytes"
	"encoding/binary"
	"fmt"
	"hash/fnv"
	"os"
	"os/exec"
	"path/filepath"
	"strings"
	"sync"

	"google.golang.org/protobuf/proto"
	"google.golang.org/protobuf/verifmc/core"
	"google.golang.org/protobuf/verifmc/univ"
)

func init() {
	core.Register("C08", "exploration", run)
	core.Register("C08digest", "exploration", runDigest)
}

type plan struct {
	name  string
	wireN int
	small bool
	k     int
	depth int
	thin  bool
	pairs bool
}

func plans(c *core.Ctx) []plan {
	q := c.Quick()
	return []plan{
		{name: "goproto.proto.test.TestAllTypes", wireN: 2, small: q, k: 2, depth: 2, thin: true, pairs: true},
		{name: "goproto.proto.test3.TestAllTypes", wireN: 2, small: q, k: 2, depth: 2, thin: true, pairs: true},
		{name: "opaque.goproto.proto.testeditions.TestAllTypes", wireN: 2, small: q, k: 2, depth: 2, thin: true, pairs: true},
		{name: "hybrid.goproto.proto.testeditions.TestAllTypes", wireN: 2, small: true, k: 1, depth: 2, thin: true},
		{name: "goproto.proto.testeditions.TestAllTypes", wireN: 2, small: true, k: 1, depth: 2, thin: true},
		{name: "goproto.proto.test.TestAllExtensions", wireN: 2, small: q, k: 2, depth: 2, thin: true, pairs: true},
		{name: "goproto.proto.test.TestPackedTypes", wireN: 2, k: 2, depth: 1, thin: true},
		{name: "goproto.proto.test.TestUnpackedTypes", wireN: 2, k: 2, depth: 1, thin: true},
		{name: "opaque.lazy_tree.Node", wireN: 3, small: true, k: 2, depth: 3, thin: true, pairs: true},
		{name: "goproto.proto.test.TestRequired", wireN: 3, k: 2, depth: 2},
		{name: "goproto.proto.test.TestRequiredForeign", wireN: 2, k: 2, depth: 2},
		{name: "goproto.proto.test.TestOneofWithRequired", wireN: 3, k: 2, depth: 2},
		{name: "goproto.proto.test.TestRequiredLazy", wireN: 3, k: 2, depth: 2},
		{name: "goproto.proto.test.TestRequiredGroupFields", wireN: 2, k: 2, depth: 2},
		{name: "pb2.Nests", wireN: 2, k: 2, depth: 3, thin: true, pairs: true},
		{name: "pb2.Maps", wireN: 2, small: true, k: 2, depth: 2, thin: true, pairs: true},
		{name: "google.protobuf.Struct", wireN: 2, k: 2, depth: 3, pairs: true},
	}
}

// observe computes the canonical result record of one decode case.
func observe(f univ.Flavor, in []byte, nonMinimal bool) string {
	var sb strings.Builder
	func() {
		defer func() {
			if r := recover(); r != nil {
				fmt.Fprintf(&sb, "PANIC:%v", r)
			}
		}()
		m, err := f.Unmarshal(in, proto.UnmarshalOptions{AllowPartial: true, NoLazyDecoding: true})
		if err != nil {
			sb.WriteString("reject")
			return
		}
		sb.WriteString("accept|")
		sb.WriteString(univ.SnapshotNorm(m))
		fmt.Fprintf(&sb, "|init=%v", proto.CheckInitialized(m.Interface()) == nil)
		// strict decode verdict (without AllowPartial)
		_, err2 := f.Unmarshal(in, proto.UnmarshalOptions{NoLazyDecoding: true})
		fmt.Fprintf(&sb, "|strict=%v", err2 == nil)
		b, err := proto.MarshalOptions{AllowPartial: true, Deterministic: true}.Marshal(m.Interface())
		if err != nil {
			sb.WriteString("|marshal-error")
			return
		}
		sz := proto.MarshalOptions{AllowPartial: true}.Size(m.Interface())
		if sz != len(b) {
			fmt.Fprintf(&sb, "|size!=len(%d,%d)", sz, len(b))
		}
		if !nonMinimal {
			fmt.Fprintf(&sb, "|size=%d|det=%x", sz, b)
		} else {
			m2, err := f.Unmarshal(b, proto.UnmarshalOptions{AllowPartial: true})
			if err != nil {
				sb.WriteString("|det-reject")
			} else {
				sb.WriteString("|det~" + univ.SnapshotNorm(m2))
			}
		}
		cl := proto.Clone(m.Interface())
		sb.WriteString("|clone=" + univ.SnapshotNorm(cl.ProtoReflect()))
		// Equal against the re-decoded deterministic bytes and against the empty
		// message, in both argument orders (stored-but-empty composites, unknown
		// fields and NaN make these more than reflexivity)
		if m2, err := f.Unmarshal(b, proto.UnmarshalOptions{AllowPartial: true, NoLazyDecoding: true}); err == nil {
			e := f.MT.New().Interface()
			fmt.Fprintf(&sb, "|eq(m,redecoded)=%v,%v|eq(m,clone)=%v,%v|eq(m,empty)=%v,%v", proto.Equal(m.Interface(), m2.Interface()), proto.Equal(m2.Interface(), m.Interface()),
				proto.Equal(m.Interface(), cl), proto.Equal(cl, m.Interface()), proto.Equal(m.Interface(), e), proto.Equal(e, m.Interface()))
		}
	}()
	return sb.String()
}

func observePair(f univ.Flavor, a, b []*univ.Slot) string {
	var sb strings.Builder
	func() {
		defer func() {
			if r := recover(); r != nil {
				fmt.Fprintf(&sb, "PANIC:%v", r)
			}
		}()
		ma, mb := f.Build(a), f.Build(b)
		fmt.Fprintf(&sb, "eq=%v", proto.Equal(ma.Interface(), mb.Interface()))
		proto.Merge(ma.Interface(), mb.Interface())
		sb.WriteString("|merge=" + univ.Snapshot(ma))
		bs, err := proto.MarshalOptions{AllowPartial: true, Deterministic: true}.Marshal(ma.Interface())
		fmt.Fprintf(&sb, "|det=%x|err=%v|size=%d", bs, err != nil, proto.Size(ma.Interface()))
		fmt.Fprintf(&sb, "|init=%v", proto.CheckInitialized(ma.Interface()) == nil)
	}()
	return sb.String()
}

func h64(s string) uint64 {
	h := fnv.New64a()
	h.Write([]byte(s))
	if v := h.Sum64(); v != 0 {
		return v
	}
	return 1 // 0 is reserved for "not evaluated"
}

// caseList enumerates the cases of a plan deterministically.
type caseFn func(i int) (name string, gen, dyn string)

func forPlan(c *core.Ctx, p plan, withDyn bool, emit func(i int, name string, gen, dyn string)) int {
	g := univ.Gen(p.name)
	d := univ.Dyn(p.name)
	md := g.MT.Descriptor()
	recs := univ.WireAlphabet(md, univ.WireOpt{Small: p.small, Depth: 1})
	nw := univ.TupleCount(len(recs), p.wireN)
	alpha := univ.Alphabet(md, p.depth, univ.Opt{Thin: p.thin, EmptyComposite: p.pairs})
	nm := univ.TupleCount(len(alpha), p.k)
	np := 0
	if p.pairs {
		np = (len(alpha) + 1) * (len(alpha) + 1)
	}
	sw := univ.LengthSweep(md, univ.SweepLengths(c.Thorough()))
	total := nw + nm + np + len(sw)
	const chunk = 128
	c.Par((total+chunk-1)/chunk, func(ci int) {
		hi := (ci + 1) * chunk
		if hi > total {
			hi = total
		}
		for i := ci * chunk; i < hi; i++ {
			var name, og, od string
			switch {
			case i < nw:
				in, nmx := univ.Concat(recs, univ.TupleAt(len(recs), p.wireN, i, nil))
				name = "wire" + nmx
				nonMin := strings.Contains(nmx, "nonmintag")
				og = observe(g, in, nonMin)
				if withDyn {
					od = observe(d, in, nonMin)
				}
			case i < nw+nm:
				slots := univ.PickSlots(alpha, univ.TupleAt(len(alpha), p.k, i-nw, nil), nil)
				name = "msg" + univ.Names(slots)
				b, err := proto.MarshalOptions{AllowPartial: true, Deterministic: true}.Marshal(g.Build(slots).Interface())
				og = fmt.Sprintf("enc=%x err=%v|", b, err != nil) + observe(g, b, false)
				if withDyn {
					b2, err2 := proto.MarshalOptions{AllowPartial: true, Deterministic: true}.Marshal(d.Build(slots).Interface())
					od = fmt.Sprintf("enc=%x err=%v|", b2, err2 != nil) + observe(d, b2, false)
				}
			case i >= nw+nm+np:
				slots := sw[i-nw-nm-np]
				name = "sweep" + univ.SweepName(slots)
				b, err := proto.MarshalOptions{AllowPartial: true, Deterministic: true}.Marshal(g.Build(slots).Interface())
				og = fmt.Sprintf("enc=%x err=%v|", b, err != nil) + observe(g, b, false)
				if withDyn {
					b2, err2 := proto.MarshalOptions{AllowPartial: true, Deterministic: true}.Marshal(d.Build(slots).Interface())
					od = fmt.Sprintf("enc=%x err=%v|", b2, err2 != nil) + observe(d, b2, false)
				}
			default:
				j := i - nw - nm
				ai, bi := j/(len(alpha)+1), j%(len(alpha)+1)
				var a, b []*univ.Slot
				if ai > 0 {
					a = []*univ.Slot{alpha[ai-1]}
				}
				if bi > 0 {
					b = []*univ.Slot{alpha[bi-1]}
				}
				name = "pair" + univ.Names(a) + univ.Names(b)
				og = observePair(g, a, b)
				if withDyn {
					od = observePair(d, a, b)
				}
			}
			emit(i, name, og, od)
		}
	})
	return total
}

func digestPath(tier string) string {
	if p := os.Getenv("VERIF_C08_OUT"); p != "" {
		return p
	}
	return filepath.Join(core.Root, ".cache", "c08-reflect-"+tier+".bin")
}

// runDigest is executed by the -tags protoreflect binary: it writes one digest
// per case, in enumeration order.
func runDigest(c *core.Ctx) {
	var out []byte
	for _, p := range plans(c) {
		total := 0
		var mu sync.Mutex
		ds := map[int]uint64{}
		total = forPlan(c, p, false, func(i int, name, og, od string) {
			mu.Lock()
			ds[i] = h64(og)
			mu.Unlock()
		})
		buf := make([]byte, 8*total)
		for i := 0; i < total; i++ {
			binary.LittleEndian.PutUint64(buf[8*i:], ds[i])
		}
		out = append(out, buf...)
		c.Eval(int64(total))
		c.DistinctN(int64(total))
	}
	c.Rule = "digest writer for C08 (protoreflect build)"
	c.Sample("digests")
	os.MkdirAll(filepath.Dir(digestPath(c.Tier)), 0o755)
	if err := os.WriteFile(digestPath(c.Tier), out, 0o644); err != nil {
		fmt.Fprintln(os.Stderr, err)
		os.Exit(2)
	}
}

func run(c *core.Ctx) {
	c.Rule = "cases = all sequences of <=n wire records, all encodings of <=k-slot messages, and all ordered pairs of single-slot messages (Equal / Merge) per type. Each case yields a canonical result record (Unmarshal verdict with and without AllowPartial, decoded content with unknown tags normalised, CheckInitialized verdict, Size, deterministic bytes, Clone content, Equal with the re-decoded bytes / the clone / the empty message in both argument orders; slots include stored-but-empty lists and maps (extensions too); for pairs: Equal, merged content, bytes). The record of the generated fast path must equal (i) that of dynamicpb over the same descriptor in this process and (ii) that of the same generated type in a -tags protoreflect build of the harness (digest exchanged per enumeration index, failing case re-derived from its index)"
	c.Exhaustive = true
	// (ii) start the protoreflect binary in parallel
	bin := filepath.Join(os.Getenv("VERIF_BIN"), "verifmc-reflect")
	var cmdErr error
	var wg sync.WaitGroup
	haveReflect := false
	if _, err := os.Stat(bin); err == nil {
		haveReflect = true
		os.Remove(digestPath(c.Tier))
		wg.Add(1)
		go func() {
			defer wg.Done()
			cmd := exec.Command(bin, "-check", "C08digest", "-tier", c.Tier)
			cmd.Env = append(os.Environ(), "VERIF_ROOT="+filepath.Join(core.Root, ".cache", "c08root"), "GOMAXPROCS=6", "VERIF_C08_OUT="+digestPath(c.Tier))
			os.MkdirAll(filepath.Join(core.Root, ".cache", "c08root"), 0o755)
			var stderr bytes.Buffer
			cmd.Stderr = &stderr
			if err := cmd.Run(); err != nil {
				cmdErr = fmt.Errorf("%v: %s", err, stderr.String())
			}
		}()
	} else {
		fmt.Fprintln(os.Stderr, "C08: protoreflect binary missing:", bin)
		os.Exit(2)
	}
	type pcase struct {
		name string
		og   string
	}
	var all [][]uint64
	var names [][]string
	var planOut []map[string]any
	for _, p := range plans(c) {
		var mu sync.Mutex
		ds := map[int]uint64{}
		nm := map[int]string{}
		total := forPlan(c, p, true, func(i int, name, og, od string) {
			c.Eval(1)
			if og != od {
				c.Violation(fmt.Sprintf("generated vs dynamicpb differ type=%s case=%s", p.name, name), map[string]any{"generated": og, "dynamicpb": od})
			}
			if strings.HasPrefix(og, "PANIC") || strings.Contains(og, "size!=len") {
				c.Violation(fmt.Sprintf("fast path: %s type=%s case=%s", og[:min(len(og), 60)], p.name, name), nil)
			}
			mu.Lock()
			ds[i] = h64(og)
			nm[i] = name
			mu.Unlock()
			if strings.HasPrefix(og, "accept") {
				c.Outcome("accept")
			} else if og == "reject" {
				c.Outcome("reject")
			}
		})
		d := make([]uint64, total)
		n := make([]string, total)
		for i := 0; i < total; i++ {
			d[i], n[i] = ds[i], nm[i]
		}
		all = append(all, d)
		names = append(names, n)
		c.DistinctN(int64(total))
		planOut = append(planOut, map[string]any{"type": p.name, "cases": total})
		c.Sample(map[string]any{"type": p.name, "case": n[total/2]})
	}
	wg.Wait()
	if haveReflect {
		if cmdErr != nil {
			fmt.Fprintln(os.Stderr, "C08: protoreflect run failed:", cmdErr)
			os.Exit(2)
		}
		buf, err := os.ReadFile(digestPath(c.Tier))
		if err != nil {
			fmt.Fprintln(os.Stderr, "C08:", err)
			os.Exit(2)
		}
		off := 0
		compared, skipped := 0, 0
		for pi, d := range all {
			for i := range d {
				if off+8 > len(buf) {
					fmt.Fprintln(os.Stderr, "C08: digest stream too short (enumerations differ between builds)")
					os.Exit(2)
				}
				// a digest of 0 means "not evaluated": the time budget of this process or of
				// the protoreflect child ran out before the case (only seen on a loaded
				// machine); such cases are not compared and the run is not exhaustive
				if other := binary.LittleEndian.Uint64(buf[off:]); other == 0 || d[i] == 0 {
					skipped++
				} else if other != d[i] {
					c.Violation(fmt.Sprintf("default build vs protoreflect build differ type=%s case=%s", plans(c)[pi].name, names[pi][i]), nil)
				}
				off += 8
				compared++
			}
		}
		c.Extra("cross_build_cases_compared", compared-skipped)
		if skipped > 0 {
			c.Extra("cross_build_cases_not_evaluated_before_the_budget_ran_out", skipped)
			c.Exhaustive = false
		}
	}
	c.Bounds["plans"] = planOut
	c.Assume("unknown-field tags are compared after minimal re-encoding (the statement allows this normalisation); decoding here uses NoLazyDecoding (lazy vs eager is C17)")
}
