// Package c13: UTF-8 validation is enforced exactly where required.
package c13

import (
	"bytes"
	"fmt"
	"math"
	"sort"
	"strings"
	"unicode/utf8"

	"google.golang.org/protobuf/encoding/protojson"
	"google.golang.org/protobuf/encoding/prototext"
	"google.golang.org/protobuf/encoding/protowire"
	"google.golang.org/protobuf/proto"
	"google.golang.org/protobuf/reflect/protoreflect"
	"google.golang.org/protobuf/reflect/protoregistry"
	"google.golang.org/protobuf/verifmc/core"
	"google.golang.org/protobuf/verifmc/univ"
)

func init() { core.Register("C13", "exploration", run) }

// stringy reports whether the slot puts a string or bytes value somewhere.
func stringy(md protoreflect.MessageDescriptor, s *univ.Slot, res univ.ExtResolver) bool {
	if s == nil || s.Op == univ.OpUnknown || s.Op == univ.OpFill {
		return false
	}
	fd := fieldOf(md, s)
	if fd == nil {
		return false
	}
	isStr := func(k protoreflect.Kind) bool { return k == protoreflect.StringKind || k == protoreflect.BytesKind }
	switch s.Op {
	case univ.OpSet, univ.OpAppend:
		return isStr(fd.Kind())
	case univ.OpMapPut:
		return isStr(fd.MapKey().Kind()) || isStr(fd.MapValue().Kind())
	case univ.OpMapMsg:
		return isStr(fd.MapKey().Kind()) && strings.Contains(s.Name, "\\x") || stringy(fd.MapValue().Message(), s.Sub, res)
	case univ.OpMsg, univ.OpAppendMsg:
		return stringy(fd.Message(), s.Sub, res)
	}
	return false
}

func fieldOf(md protoreflect.MessageDescriptor, s *univ.Slot) protoreflect.FieldDescriptor {
	if s.Ext {
		xt, err := protoregistry.GlobalTypes.FindExtensionByNumber(md.FullName(), s.Num)
		if err != nil {
			return nil
		}
		return xt.TypeDescriptor()
	}
	return md.Fields().ByNumber(s.Num)
}

// encode is an independent wire encoder for slot lists restricted to
// string/bytes values and message nesting.
func encode(md protoreflect.MessageDescriptor, slots []*univ.Slot) []byte {
	var b []byte
	for _, s := range slots {
		b = append(b, encodeSlot(md, s)...)
	}
	return b
}

func encScalar(b []byte, num protowire.Number, fd protoreflect.FieldDescriptor, v protoreflect.Value) []byte {
	switch fd.Kind() {
	case protoreflect.StringKind:
		return protowire.AppendString(protowire.AppendTag(b, num, protowire.BytesType), v.String())
	case protoreflect.BytesKind:
		return protowire.AppendBytes(protowire.AppendTag(b, num, protowire.BytesType), v.Bytes())
	case protoreflect.Int32Kind, protoreflect.Int64Kind:
		return protowire.AppendVarint(protowire.AppendTag(b, num, protowire.VarintType), uint64(v.Int()))
	case protoreflect.Uint32Kind, protoreflect.Uint64Kind:
		return protowire.AppendVarint(protowire.AppendTag(b, num, protowire.VarintType), v.Uint())
	case protoreflect.BoolKind:
		return protowire.AppendVarint(protowire.AppendTag(b, num, protowire.VarintType), protowire.EncodeBool(v.Bool()))
	case protoreflect.EnumKind:
		return protowire.AppendVarint(protowire.AppendTag(b, num, protowire.VarintType), uint64(int64(v.Enum())))
	case protoreflect.Sint32Kind, protoreflect.Sint64Kind:
		return protowire.AppendVarint(protowire.AppendTag(b, num, protowire.VarintType), protowire.EncodeZigZag(v.Int()))
	case protoreflect.Fixed32Kind:
		return protowire.AppendFixed32(protowire.AppendTag(b, num, protowire.Fixed32Type), uint32(v.Uint()))
	case protoreflect.Sfixed32Kind:
		return protowire.AppendFixed32(protowire.AppendTag(b, num, protowire.Fixed32Type), uint32(v.Int()))
	case protoreflect.FloatKind:
		return protowire.AppendFixed32(protowire.AppendTag(b, num, protowire.Fixed32Type), math.Float32bits(float32(v.Float())))
	case protoreflect.Fixed64Kind:
		return protowire.AppendFixed64(protowire.AppendTag(b, num, protowire.Fixed64Type), v.Uint())
	case protoreflect.Sfixed64Kind:
		return protowire.AppendFixed64(protowire.AppendTag(b, num, protowire.Fixed64Type), uint64(v.Int()))
	case protoreflect.DoubleKind:
		return protowire.AppendFixed64(protowire.AppendTag(b, num, protowire.Fixed64Type), math.Float64bits(v.Float()))
	}
	panic("c13: unsupported kind " + fd.Kind().String())
}

func wrapMsg(fd protoreflect.FieldDescriptor, num protowire.Number, body []byte) []byte {
	if fd.Kind() == protoreflect.GroupKind {
		return protowire.AppendTag(append(protowire.AppendTag(nil, num, protowire.StartGroupType), body...), num, protowire.EndGroupType)
	}
	return protowire.AppendBytes(protowire.AppendTag(nil, num, protowire.BytesType), body)
}

func encodeSlot(md protoreflect.MessageDescriptor, s *univ.Slot) []byte {
	fd := fieldOf(md, s)
	num := protowire.Number(s.Num)
	switch s.Op {
	case univ.OpSet, univ.OpAppend:
		return encScalar(nil, num, fd, s.Val)
	case univ.OpMapPut:
		e := encScalar(nil, 1, fd.MapKey(), s.Key.Value())
		e = encScalar(e, 2, fd.MapValue(), s.Val)
		return protowire.AppendBytes(protowire.AppendTag(nil, num, protowire.BytesType), e)
	case univ.OpMapMsg:
		e := encScalar(nil, 1, fd.MapKey(), s.Key.Value())
		var body []byte
		if s.Sub != nil {
			body = encodeSlot(fd.MapValue().Message(), s.Sub)
		}
		e = protowire.AppendBytes(protowire.AppendTag(e, 2, protowire.BytesType), body)
		return protowire.AppendBytes(protowire.AppendTag(nil, num, protowire.BytesType), e)
	case univ.OpMsg, univ.OpAppendMsg:
		var body []byte
		if s.Sub != nil {
			body = encodeSlot(fd.Message(), s.Sub)
		}
		return wrapMsg(fd, num, body)
	}
	panic("c13: unsupported op")
}

// wantErr walks the message: is there an invalid UTF-8 string in a position that enforces validation?
func wantErr(m protoreflect.Message) (enforcedBad, anyBad bool) {
	e, a, _ := wantErrPos(m)
	return e, a
}

// wantErrPos additionally lists the field numbers (x = extension) of the
// top-level fields under which an enforced-invalid string sits.
func wantErrPos(m protoreflect.Message) (enforcedBad, anyBad bool, pos []string) {
	m.Range(func(fd protoreflect.FieldDescriptor, v protoreflect.Value) bool {
		one := m.New()
		one.Set(fd, v)
		if e, _ := wantErr1(one); e {
			n := fmt.Sprint(fd.Number())
			if fd.IsExtension() {
				n = "x" + n
			}
			pos = append(pos, n)
		}
		return true
	})
	sort.Strings(pos)
	enforcedBad, anyBad = wantErr1(m)
	return
}

func wantErr1(m protoreflect.Message) (enforcedBad, anyBad bool) {
	chk := func(fd protoreflect.FieldDescriptor, s string) {
		if !utf8.ValidString(s) {
			anyBad = true
			if univ.EnforceUTF8(fd) {
				enforcedBad = true
			}
		}
	}
	m.Range(func(fd protoreflect.FieldDescriptor, v protoreflect.Value) bool {
		switch {
		case fd.IsList():
			for i := 0; i < v.List().Len(); i++ {
				if fd.Kind() == protoreflect.StringKind {
					chk(fd, v.List().Get(i).String())
				} else if fd.Message() != nil {
					e, a := wantErr(v.List().Get(i).Message())
					enforcedBad, anyBad = enforcedBad || e, anyBad || a
				}
			}
		case fd.IsMap():
			v.Map().Range(func(k protoreflect.MapKey, mv protoreflect.Value) bool {
				if fd.MapKey().Kind() == protoreflect.StringKind {
					chk(fd.MapKey(), k.String())
				}
				if fd.MapValue().Kind() == protoreflect.StringKind {
					chk(fd.MapValue(), mv.String())
				} else if fd.MapValue().Message() != nil {
					e, a := wantErr(mv.Message())
					enforcedBad, anyBad = enforcedBad || e, anyBad || a
				}
				return true
			})
		case fd.Kind() == protoreflect.StringKind:
			chk(fd, v.String())
		case fd.Message() != nil:
			e, a := wantErr(v.Message())
			enforcedBad, anyBad = enforcedBad || e, anyBad || a
		}
		return true
	})
	return
}

type plan struct {
	name  string
	k     int
	depth int
	dyn   bool
}

func plans(c *core.Ctx) []plan {
	return []plan{
		{name: "goproto.proto.test.TestAllTypes", k: 2, depth: 2, dyn: true},
		{name: "goproto.proto.test3.TestAllTypes", k: 2, depth: 2, dyn: true},
		{name: "goproto.proto.testeditions.TestAllTypes", k: 2, depth: 2, dyn: true},
		{name: "opaque.goproto.proto.testeditions.TestAllTypes", k: 2, depth: 2},
		{name: "hybrid.goproto.proto.testeditions.TestAllTypes", k: 2, depth: 2},
		{name: "opaque.goproto.proto.test3.TestAllTypes", k: 2, depth: 2},
		{name: "goproto.proto.test.TestAllTypesProto2Editions", k: 2, depth: 2, dyn: true},
		{name: "goproto.proto.test.TestAllTypesProto3Editions", k: 2, depth: 2},
		{name: "goproto.proto.test.TestAllExtensions", k: 2, depth: 2, dyn: true},
		{name: "goproto.proto.testeditions.TestAllExtensions", k: 2, depth: 2},
		{name: "google.protobuf.MessageOptions", k: 3, depth: 2, dyn: true},
		{name: "opaque.lazy_tree.Node", k: 2, depth: 3},
		{name: "hybrid.lazy_tree.Node", k: 2, depth: 3},
		{name: "pbeditions.Scalars", k: 2, depth: 1},
		{name: "pbeditions.ImplicitScalars", k: 2, depth: 1},
		{name: "pb2.Maps", k: 2, depth: 2, dyn: true},
		{name: "pb3.Maps", k: 2, depth: 2, dyn: true},
		{name: "google.protobuf.Struct", k: 2, depth: 3, dyn: true},
	}
}

func run(c *core.Ctx) {
	c.Rule = "messages = all slot lists of length <=k over the slots that place a string or bytes value in some position (singular, repeated, oneof member, map key, map value, extension, nested, inside a lazy submessage) of each listed type, with 7 valid (among them U+FFFD, the valid encoding of the replacement character) and 5 invalid UTF-8 strings (lone continuation, overlong, surrogate, truncated, embedded 0xff). Expected = an invalid string sits in a position whose field enforces validation (proto3, editions VERIFY). Binary Marshal (generated + dynamicpb), binary Unmarshal of independently encoded bytes (lazy, eager, dynamicpb), protojson and prototext Marshal, and protojson/prototext Unmarshal of documents carrying the raw bytes must fail exactly then; for non-enforced string and for bytes positions binary and text round trips must return the identical bytes. distinct = distinct (type, slot list)"
	c.Exhaustive = true
	c.Assume("raw (unescaped) invalid UTF-8 bytes inside a text-format document are left unconstrained for non-validated fields (prototext rejects them; the escaped form produced by Marshal round-trips and is checked)")
	c.Assume("protojson on invalid UTF-8 in NON-validated string fields is left unconstrained (the statement covers binary and text pass-through only)")
	var planOut []map[string]any
	const tokPrefix = "zqTOK"
	for _, p := range plans(c) {
		if c.Expired() {
			break
		}
		mt, err := protoregistry.GlobalTypes.FindMessageByName(protoreflect.FullName(p.name))
		if err != nil {
			c.Extra("missing_type_"+p.name, err.Error())
			continue
		}
		md := mt.Descriptor()
		full := univ.Alphabet(md, p.depth, univ.Opt{InvalidUTF8: true, NoUnknown: true, MaxNested: 400})
		var alpha []*univ.Slot
		for _, s := range full {
			if stringy(md, s, nil) {
				alpha = append(alpha, s)
			}
		}
		// one non-string companion per extendable message so that >=2 extensions / fields coexist
		for _, s := range full {
			if !stringy(md, s, nil) && s.Op == univ.OpSet && (s.Ext || len(alpha) < 40) {
				alpha = append(alpha, s)
				if s.Ext {
					// also the highest-numbered scalar extension
					for i := len(full) - 1; i >= 0; i-- {
						if full[i].Ext && full[i].Op == univ.OpSet && !stringy(md, full[i], nil) {
							alpha = append(alpha, full[i])
							break
						}
					}
				}
				break
			}
		}
		flavors := []univ.Flavor{univ.Gen(p.name)}
		if p.dyn {
			flavors = append(flavors, univ.Dyn(p.name))
		}
		n := univ.TupleCount(len(alpha), p.k)
		for _, f := range flavors {
			f := f
			univ.ForTuples(c, len(alpha), p.k, func(idx []int) {
				slots := univ.PickSlots(alpha, idx, nil)
				name := univ.Names(slots)
				badPos := ""
				sig := func(cl string) string { return fmt.Sprintf("%s type=%s bad=[%s] case=%s", cl, f.Name, badPos, name) }
				c.Guard(func() string { return sig("") }, func() {
					m := f.Build(slots)
					bad, anyBad, pos := wantErrPos(m)
					badPos = strings.Join(pos, ",")
					c.Eval(1)
					switch {
					case bad:
						c.Outcome("invalid-in-enforced-position")
					case anyBad:
						c.Outcome("invalid-in-nonenforced-position")
					default:
						c.Outcome("all-valid")
					}
					// binary Marshal
					b, err := proto.MarshalOptions{AllowPartial: true}.Marshal(m.Interface())
					if (err != nil) != bad {
						c.Violation(sig(fmt.Sprintf("Marshal error=%v want=%v", err != nil, bad)), fmt.Sprint(err))
					}
					if _, err := (proto.MarshalOptions{AllowPartial: true, Deterministic: true}).Marshal(m.Interface()); (err != nil) != bad {
						c.Violation(sig(fmt.Sprintf("Marshal{Deterministic} error=%v want=%v", err != nil, bad)), fmt.Sprint(err))
					}
					// binary Unmarshal of independently encoded bytes
					wire := encode(md, slots)
					// every record on the wire is validated, including ones a later record overwrites
					wireBad := false
					var wpos []string
					for _, s := range slots {
						if e, _, p1 := wantErrPos(f.Build([]*univ.Slot{s})); e {
							wireBad = true
							wpos = append(wpos, p1...)
						}
					}
					sort.Strings(wpos)
					savedPos := badPos
					badPos = strings.Join(wpos, ",")
					for _, nolazy := range []bool{false, true} {
						m2, err := f.Unmarshal(wire, proto.UnmarshalOptions{AllowPartial: true, NoLazyDecoding: nolazy})
						if (err != nil) != wireBad {
							c.Violation(sig(fmt.Sprintf("Unmarshal nolazy=%v error=%v want=%v", nolazy, err != nil, wireBad)), map[string]any{"err": fmt.Sprint(err), "wire": fmt.Sprintf("%x", wire)})
							continue
						}
						if err == nil {
							// pass-through: decoded content equals built content (identical bytes in every string/bytes position)
							// (two slots writing a message value under the same map key are merged by
							// the builder but are two entries on the wire, where the last one
							// replaces the first: the built message is no reference for those)
							if !sameMapKeyTwice(slots) && univ.Snapshot(m2) != univ.Snapshot(m) {
								c.Violation(sig(fmt.Sprintf("binary pass-through changed content nolazy=%v", nolazy)), map[string]any{"built": univ.Snapshot(m), "decoded": univ.Snapshot(m2)})
							}
						}
					}
					badPos = savedPos
					if !bad && err == nil {
						m2, err := f.Unmarshal(b, proto.UnmarshalOptions{AllowPartial: true})
						if err != nil || univ.Snapshot(m2) != univ.Snapshot(m) {
							c.Violation(sig("Marshal/Unmarshal round trip changed content"), nil)
						}
					}
					// text
					tb, terr := prototext.MarshalOptions{AllowPartial: true}.Marshal(m.Interface())
					if (terr != nil) != bad {
						c.Violation(sig(fmt.Sprintf("prototext.Marshal error=%v want=%v", terr != nil, bad)), fmt.Sprint(terr))
					}
					if terr == nil {
						m3 := f.MT.New()
						if err := (prototext.UnmarshalOptions{AllowPartial: true, Resolver: resolver(f)}).Unmarshal(tb, m3.Interface()); err != nil {
							c.Violation(sig("prototext round trip fails"), map[string]any{"err": err.Error(), "text": string(tb)})
						} else if univ.Snapshot(m3) != univ.Snapshot(m) {
							c.Violation(sig("prototext pass-through changed content"), map[string]any{"text": string(tb)})
						}
					}
					// JSON Marshal
					_, jerr := protojson.MarshalOptions{AllowPartial: true}.Marshal(m.Interface())
					if bad && jerr == nil {
						c.Violation(sig("protojson.Marshal accepts invalid UTF-8 in a validated field"), nil)
					}
					if !anyBad && jerr != nil {
						c.Violation(sig("protojson.Marshal rejects valid content"), jerr.Error())
					}
					// JSON / text Unmarshal of raw bytes: build a placeholder twin, marshal, substitute
					if anyBad {
						var toks [][2]string
						ps := make([]*univ.Slot, len(slots))
						for i, s := range slots {
							ps[i] = substitute(s, tokPrefix, &toks)
						}
						pm := f.Build(ps)
						if jb, err := (protojson.MarshalOptions{AllowPartial: true}).Marshal(pm.Interface()); err == nil {
							doc := jb
							for _, t := range toks {
								doc = bytes.ReplaceAll(doc, []byte(t[0]), []byte(t[1]))
							}
							m4 := f.MT.New()
							err := (protojson.UnmarshalOptions{AllowPartial: true, Resolver: resolver(f)}).Unmarshal(doc, m4.Interface())
							if bad && err == nil {
								c.Violation(sig("protojson.Unmarshal accepts invalid UTF-8 in a validated field"), fmt.Sprintf("%q", doc))
							}
						}
						if tb2, err := (prototext.MarshalOptions{AllowPartial: true}).Marshal(pm.Interface()); err == nil {
							doc := tb2
							for _, t := range toks {
								doc = bytes.ReplaceAll(doc, []byte(t[0]), []byte(t[1]))
							}
							m5 := f.MT.New()
							err := (prototext.UnmarshalOptions{AllowPartial: true, Resolver: resolver(f)}).Unmarshal(doc, m5.Interface())
							// raw (unescaped) invalid bytes in a text document: must be rejected for validated
							// fields; for non-validated fields the statement only covers the escaped round trip
							if bad && err == nil {
								c.Violation(sig("prototext.Unmarshal accepts raw invalid UTF-8 in a validated field"), fmt.Sprintf("%q", doc))
							}
						}
					}
				})
			})
		}
		c.DistinctN(int64(n))
		planOut = append(planOut, map[string]any{"type": p.name, "k": p.k, "string_slots": len(alpha), "messages": n, "flavors": len(flavors)})
		if len(alpha) > 2 {
			c.Sample(map[string]any{"type": p.name, "slots": univ.Names([]*univ.Slot{alpha[len(alpha)/4], alpha[len(alpha)/2]})})
		}
	}
	c.Bounds["plans"] = planOut
}

type res interface {
	protoregistry.MessageTypeResolver
	protoregistry.ExtensionTypeResolver
}

func resolver(f univ.Flavor) res {
	if f.Dynamic {
		return univ.DynTypes{}
	}
	return protoregistry.GlobalTypes
}

// substitute returns a copy of slot s in which every invalid UTF-8 string is
// replaced by a unique valid token; toks records (token, raw) pairs.
func substitute(s *univ.Slot, prefix string, toks *[][2]string) *univ.Slot {
	if s == nil {
		return nil
	}
	c := *s
	fix := func(v protoreflect.Value) protoreflect.Value {
		if str, ok := v.Interface().(string); ok && !utf8.ValidString(str) {
			t := fmt.Sprintf("%s%d", prefix, len(*toks))
			*toks = append(*toks, [2]string{t, str})
			return protoreflect.ValueOfString(t)
		}
		return v
	}
	if c.Val.IsValid() {
		c.Val = fix(c.Val)
	}
	if c.Key.IsValid() {
		c.Key = fix(c.Key.Value()).MapKey()
	}
	c.Sub = substitute(s.Sub, prefix, toks)
	return &c
}

func sameMapKeyTwice(slots []*univ.Slot) bool {
	for i, a := range slots {
		for _, b := range slots[i+1:] {
			if a.Op == univ.OpMapMsg && b.Op == univ.OpMapMsg && a.Num == b.Num && a.Ext == b.Ext && a.Key.Interface() == b.Key.Interface() {
				return true
			}
		}
	}
	return false
}
