// Package c23: well-known types use their JSON forms exactly.
package c23

import (
	"fmt"
	"math"
	"regexp"
	"strconv"
	"strings"
	"sync"
	"sync/atomic"

	"google.golang.org/protobuf/encoding/protojson"
	"google.golang.org/protobuf/types/known/durationpb"
	"google.golang.org/protobuf/types/known/fieldmaskpb"
	"google.golang.org/protobuf/types/known/timestamppb"
	"google.golang.org/protobuf/verifmc/core"
)

func init() { core.Register("C23", "exploration", run) }

// ---------- Duration reference

var durRe = regexp.MustCompile(`^([-+]?)([0-9]*)(\.([0-9]*))?s$`)

// refDuration returns (verdict, seconds, nanos). verdict: 1 accept, 0 reject, -1 tolerated either way.
func refDuration(s string) (int, int64, int32) {
	m := durRe.FindStringSubmatch(s)
	if m == nil {
		return 0, 0, 0
	}
	sign, ip, dot, fp := m[1], m[2], m[3], m[4]
	if ip == "" && fp == "" {
		return 0, 0, 0 // neither an integer nor a fractional part
	}
	if len(fp) > 9 {
		return 0, 0, 0
	}
	verdict := 1
	if dot != "" && fp == "" {
		verdict = -1 // "1.s": integer part with an empty fraction - not settled by the statement
	}
	if len(ip) > 1 && ip[0] == '0' {
		verdict = -1 // superfluous leading zeros: not settled by the statement
	}
	var secs int64
	if ip != "" {
		v, err := strconv.ParseUint(ip, 10, 64)
		if err != nil || v > 315576000000 {
			return 0, 0, 0
		}
		secs = int64(v)
	}
	var nanos int64
	if fp != "" {
		v, _ := strconv.ParseInt(fp+strings.Repeat("0", 9-len(fp)), 10, 64)
		nanos = v
	}
	if sign == "-" {
		secs, nanos = -secs, -nanos
	}
	return verdict, secs, int32(nanos)
}

// ---------- Timestamp reference

func isLeap(y int) bool { return y%4 == 0 && (y%100 != 0 || y%400 == 0) }

func daysIn(y, m int) int {
	switch m {
	case 2:
		if isLeap(y) {
			return 29
		}
		return 28
	case 4, 6, 9, 11:
		return 30
	}
	return 31
}

// daysFromCivil: days since 1970-01-01 (proleptic Gregorian).
func daysFromCivil(y, m, d int) int64 {
	if m <= 2 {
		y--
	}
	era := y / 400
	if y < 0 {
		era = (y - 399) / 400
	}
	yoe := y - era*400
	mp := (m + 9) % 12
	doy := (153*mp+2)/5 + d - 1
	doe := yoe*365 + yoe/4 - yoe/100 + doy
	return int64(era)*146097 + int64(doe) - 719468
}

var tsRe = regexp.MustCompile(`^([0-9]{4})-([0-9]{2})-([0-9]{2})([Tt])([0-9]{2}):([0-9]{2}):([0-9]{2})(\.([0-9]+))?([Zz]|([-+])([0-9]{2}):([0-9]{2}))$`)

func refTimestamp(s string) (int, int64, int32) {
	m := tsRe.FindStringSubmatch(s)
	if m == nil {
		return 0, 0, 0
	}
	atoi := func(x string) int { v, _ := strconv.Atoi(x); return v }
	y, mo, d, h, mi, sec := atoi(m[1]), atoi(m[2]), atoi(m[3]), atoi(m[5]), atoi(m[6]), atoi(m[7])
	verdict := 1
	if m[4] == "t" || m[10] == "z" {
		verdict = -1 // RFC 3339 allows lower case; the statement does not settle it
	}
	if mo < 1 || mo > 12 || d < 1 || d > daysIn(y, mo) || h > 23 || mi > 59 || sec > 60 {
		return 0, 0, 0
	}
	if sec == 60 {
		verdict = -1 // leap second: tolerated either way
		sec = 59
	}
	frac := m[9]
	if len(frac) > 9 {
		return 0, 0, 0
	}
	var nanos int64
	if frac != "" {
		nanos, _ = strconv.ParseInt(frac+strings.Repeat("0", 9-len(frac)), 10, 64)
	}
	var off int64
	if m[11] != "" {
		oh, om := atoi(m[12]), atoi(m[13])
		if oh > 23 || om > 59 {
			return 0, 0, 0
		}
		off = int64(oh*3600 + om*60)
		if m[11] == "-" {
			off = -off
		}
	}
	secs := daysFromCivil(y, mo, d)*86400 + int64(h*3600+mi*60+sec) - off
	if secs < -62135596800 || secs > 253402300799 {
		return 0, 0, 0 // outside years 1..9999
	}
	return verdict, secs, int32(nanos)
}

// undecided records, per undecided form, one accepted and one rejected
// example: whatever the decoder does with a form the statement leaves open, it
// must do for every string of that form (acceptance is a matter of grammar,
// not of which digits appear).
var undecided struct {
	sync.Mutex
	acc, rej map[string]string
}

func noteUndecided(class, s string, accepted bool) {
	undecided.Lock()
	defer undecided.Unlock()
	if undecided.acc == nil {
		undecided.acc, undecided.rej = map[string]string{}, map[string]string{}
	}
	m := undecided.rej
	if accepted {
		m = undecided.acc
	}
	if old, ok := m[class]; !ok || len(s) < len(old) || len(s) == len(old) && s < old {
		m[class] = s
	}
}

func reportUndecided(c *core.Ctx) {
	undecided.Lock()
	defer undecided.Unlock()
	for class, a := range undecided.acc {
		if r, ok := undecided.rej[class]; ok {
			c.Violation(fmt.Sprintf("Duration: strings of the form %s are not treated uniformly: %q is accepted, %q is rejected", class, a, r), nil)
		}
	}
}

func checkDurationString(c *core.Ctx, s string) {
	v, secs, nanos := refDuration(s)
	var d durationpb.Duration
	err := protojson.Unmarshal([]byte(strconv.Quote(s)), &d)
	if m := durRe.FindStringSubmatch(s); v == -1 && m != nil {
		if ip := m[2]; len(ip) > 1 && ip[0] == '0' {
			noteUndecided("<sign><integer with superfluous leading zeros>...s", s, err == nil)
		} else {
			noteUndecided("<sign><integer>.s (integer part, dot, empty fraction)", s, err == nil)
		}
	}
	switch {
	case v == 0 && err == nil:
		c.Violation(fmt.Sprintf("Duration: accepts %q which is outside the documented grammar/range", s), fmt.Sprintf("seconds=%d nanos=%d", d.Seconds, d.Nanos))
	case v == 1 && err != nil:
		c.Violation(fmt.Sprintf("Duration: rejects %q", s), err.Error())
	case v != 0 && err == nil && (d.Seconds != secs || d.Nanos != nanos):
		c.Violation(fmt.Sprintf("Duration: %q parsed as (%d,%d) want (%d,%d)", s, d.Seconds, d.Nanos, secs, nanos), nil)
	}
	if err == nil {
		c.Outcome("duration-accepted")
	}
}

func checkTimestampString(c *core.Ctx, s string) {
	v, secs, nanos := refTimestamp(s)
	var t timestamppb.Timestamp
	err := protojson.Unmarshal([]byte(strconv.Quote(s)), &t)
	switch {
	case v == 0 && err == nil:
		c.Violation(fmt.Sprintf("Timestamp: accepts %q which is outside RFC 3339 / the documented range", s), fmt.Sprintf("seconds=%d nanos=%d", t.Seconds, t.Nanos))
	case v == 1 && err != nil:
		c.Violation(fmt.Sprintf("Timestamp: rejects %q", s), err.Error())
	case v != 0 && err == nil && (t.Seconds != secs || t.Nanos != nanos):
		c.Violation(fmt.Sprintf("Timestamp: %q parsed as (%d,%d) want (%d,%d)", s, t.Seconds, t.Nanos, secs, nanos), nil)
	}
	if err == nil {
		c.Outcome("timestamp-accepted")
	}
}

var secLattice = func() []int64 {
	base := []int64{0, 1, 59, 60, 86399, 86400, 951782400, 951868799, 9223372036, 315576000000, 315576000001, 62135596800, 62135596801, 253402300799, 253402300800, math.MaxInt32, math.MaxInt64, math.MaxInt64 - 1, 1 << 53}
	var out []int64
	for _, b := range base {
		out = append(out, b, -b)
	}
	return append(out, math.MinInt64, math.MinInt64+1, -62135596800+1, 253402300799-1)
}()

var nanoLattice = []int32{0, 1, -1, 999, 1000, 999999, 1000000, 100000000, 123456789, 999999999, -999999999, 1000000000, -1000000000, math.MaxInt32, math.MinInt32, 500000000, 120000000, 123000, 10}

func run(c *core.Ctx) {
	c.Rule = "Duration strings: every string of <=L characters over {- + 0 1 9 . s} plus fraction lengths 0..12 and the +-315576000000 boundary; Timestamp strings: RFC 3339 templates with every single-position substitution (pairs in the thorough tier) from per-position alphabets, fraction lengths 0..12, offsets incl. +24:00 / +23:60 / -00:00, years 0000/0001/9999, month/day/leap-day boundaries; each is fed to protojson.Unmarshal and compared with a reference recogniser + calendar arithmetic written from the documented grammars (accept/reject and exact seconds/nanos). Values: the full (seconds x nanos) lattice of 41 x 19 values is marshaled: Marshal fails iff out of range, otherwise the output parses (reference and protojson) to the same value, uses 0/3/6/9 fractional digits and the Z / s suffix. FieldMask: all path lists of <=2 paths of <=5 characters over {a B _ 1 .}: Marshal fails iff a path is not a valid reversible name, else Unmarshal(Marshal) is the identity"
	c.Exhaustive = true
	var n atomic.Int64
	// Duration strings
	dalpha := []byte("-+019.s")
	L := core.Pick(c, 7, 8)
	var first []string
	for _, a := range dalpha {
		first = append(first, string(a))
	}
	checkDurationString(c, "")
	c.Par(len(first), func(i int) {
		buf := []byte(first[i])
		var cnt int64
		var rec func()
		rec = func() {
			checkDurationString(c, string(buf))
			cnt++
			if len(buf) == L {
				return
			}
			for _, a := range dalpha {
				buf = append(buf, a)
				rec()
				buf = buf[:len(buf)-1]
			}
		}
		rec()
		n.Add(cnt)
	})
	for fl := 0; fl <= 12; fl++ {
		for _, ip := range []string{"", "0", "1", "315576000000", "315576000001", "99999999999999999999"} {
			for _, sign := range []string{"", "-", "+"} {
				for _, fd := range []string{"0", "1", "9"} {
					s := sign + ip
					if fl > 0 {
						s += "." + strings.Repeat(fd, fl)
					}
					checkDurationString(c, s+"s")
					checkDurationString(c, s)
					checkDurationString(c, s+" s")
					checkDurationString(c, " "+s+"s")
					n.Add(4)
				}
			}
		}
	}
	c.Bounds["duration_string_maxlen"] = L
	reportUndecided(c)
	// Timestamp strings
	templates := []string{"2020-02-29T12:34:56Z", "2019-12-31T23:59:59.123456789Z", "0001-01-01T00:00:00Z", "9999-12-31T23:59:59.999999999Z", "2020-01-01T00:00:00+00:00", "2020-01-01T00:00:00.5-23:59", "1970-01-01T00:00:00.000000001+01:30"}
	subs := []byte("0123569:-+TtZz., ")
	var ts []string
	for _, t := range templates {
		ts = append(ts, t)
		for i := 0; i < len(t); i++ {
			for _, ch := range subs {
				if t[i] == ch {
					continue
				}
				b := []byte(t)
				b[i] = ch
				ts = append(ts, string(b))
			}
			// deletion and duplication of one character
			ts = append(ts, t[:i]+t[i+1:], t[:i]+t[i:i+1]+t[i:])
		}
	}
	if c.Thorough() {
		for _, t := range templates[:3] {
			for i := 0; i < len(t); i++ {
				for j := i + 1; j < len(t); j++ {
					for _, c1 := range []byte("09:-+Z., ") {
						for _, c2 := range []byte("09:-+Z., ") {
							b := []byte(t)
							b[i], b[j] = c1, c2
							ts = append(ts, string(b))
						}
					}
				}
			}
		}
	}
	for fl := 0; fl <= 12; fl++ {
		for _, tz := range []string{"Z", "z", "+00:00", "-00:00", "+23:59", "-23:59", "+24:00", "+23:60", "-01:00", "", "+0000", "+00", "+1:00", "Z+00:00"} {
			for _, sep := range []string{".", ","} {
				frac := ""
				if fl > 0 {
					frac = sep + strings.Repeat("1", fl)
				}
				ts = append(ts, "2020-01-01T00:00:00"+frac+tz)
			}
		}
	}
	for _, y := range []string{"0000", "0001", "1900", "2000", "2019", "2020", "9999", "10000", "-001"} {
		for _, mo := range []string{"00", "01", "02", "04", "12", "13"} {
			for _, d := range []string{"00", "01", "28", "29", "30", "31", "32"} {
				for _, tz := range []string{"Z", "+23:59", "-23:59"} {
					ts = append(ts, fmt.Sprintf("%s-%s-%sT00:00:00%s", y, mo, d, tz), fmt.Sprintf("%s-%s-%sT23:59:59%s", y, mo, d, tz))
				}
			}
		}
	}
	for _, tm := range []string{"24:00:00", "23:60:00", "23:59:60", "23:59:61", "00:00:00", "12:00", "1:00:00", "12:00:00.", "12:00:00.1.2"} {
		ts = append(ts, "2020-06-15T"+tm+"Z")
	}
	c.Par(len(ts), func(i int) { checkTimestampString(c, ts[i]) })
	n.Add(int64(len(ts)))
	c.Bounds["timestamp_strings"] = len(ts)
	// value lattice
	fracOK := regexp.MustCompile(`^[^.]*(\.([0-9]{3}|[0-9]{6}|[0-9]{9}))?[Zs]$`)
	for _, s := range secLattice {
		for _, ns := range nanoLattice {
			n.Add(2)
			d := &durationpb.Duration{Seconds: s, Nanos: ns}
			dOK := s >= -315576000000 && s <= 315576000000 && ns >= -999999999 && ns <= 999999999 && !(s < 0 && ns > 0) && !(s > 0 && ns < 0)
			out, err := protojson.Marshal(d)
			if (err == nil) != dOK {
				c.Violation(fmt.Sprintf("Duration(%d,%d): Marshal error=%v want in-range=%v", s, ns, err != nil, dOK), fmt.Sprint(err))
			} else if err == nil {
				str, _ := strconv.Unquote(string(out))
				v, rs, rn := refDuration(str)
				var back durationpb.Duration
				if v != 1 || rs != s || rn != ns || !fracOK.MatchString(str) {
					c.Violation(fmt.Sprintf("Duration(%d,%d): JSON form %q is not the exact documented form", s, ns, str), nil)
				} else if err := protojson.Unmarshal(out, &back); err != nil || back.Seconds != s || back.Nanos != ns {
					c.Violation(fmt.Sprintf("Duration(%d,%d): does not round trip through %q", s, ns, str), nil)
				}
			}
			t := &timestamppb.Timestamp{Seconds: s, Nanos: ns}
			tOK := s >= -62135596800 && s <= 253402300799 && ns >= 0 && ns <= 999999999
			out, err = protojson.Marshal(t)
			if (err == nil) != tOK {
				c.Violation(fmt.Sprintf("Timestamp(%d,%d): Marshal error=%v want in-range=%v", s, ns, err != nil, tOK), fmt.Sprint(err))
			} else if err == nil {
				str, _ := strconv.Unquote(string(out))
				v, rs, rn := refTimestamp(str)
				var back timestamppb.Timestamp
				if v != 1 || rs != s || rn != ns || !fracOK.MatchString(str) || !strings.HasSuffix(str, "Z") {
					c.Violation(fmt.Sprintf("Timestamp(%d,%d): JSON form %q is not the exact documented form", s, ns, str), nil)
				} else if err := protojson.Unmarshal(out, &back); err != nil || back.Seconds != s || back.Nanos != ns {
					c.Violation(fmt.Sprintf("Timestamp(%d,%d): does not round trip through %q", s, ns, str), nil)
				}
			}
		}
	}
	c.Bounds["value_lattice"] = len(secLattice) * len(nanoLattice)
	// FieldMask
	falpha := []byte("aB_1.")
	var paths []string
	var recP func(cur []byte)
	recP = func(cur []byte) {
		paths = append(paths, string(cur))
		if len(cur) == core.Pick(c, 4, 5) {
			return
		}
		for _, a := range falpha {
			recP(append(cur, a))
		}
	}
	recP(nil)
	reversible := func(p string) bool {
		if p == "" {
			return false
		}
		for _, seg := range strings.Split(p, ".") {
			if seg == "" || (seg[0] >= '0' && seg[0] <= '9') {
				return false
			}
		}
		for j := 0; j < len(p); j++ {
			if p[j] >= 'A' && p[j] <= 'Z' {
				return false
			}
			if p[j] == '_' && (j+1 >= len(p) || p[j+1] < 'a' || p[j+1] > 'z') {
				return false
			}
		}
		return true
	}
	var nfm atomic.Int64
	c.Par(len(paths), func(i int) {
		others := []string{"", "a", "a_b.c", "B"}
		for _, o := range others {
			list := []string{paths[i]}
			if o != "" {
				list = append(list, o)
			}
			nfm.Add(1)
			ok := true
			for _, p := range list {
				ok = ok && reversible(p)
			}
			fm := &fieldmaskpb.FieldMask{Paths: list}
			out, err := protojson.Marshal(fm)
			if (err == nil) != ok {
				c.Violation(fmt.Sprintf("FieldMask%q: Marshal error=%v want reversible=%v", list, err != nil, ok), fmt.Sprint(err))
				continue
			}
			if err != nil {
				continue
			}
			var back fieldmaskpb.FieldMask
			if err := protojson.Unmarshal(out, &back); err != nil || strings.Join(back.Paths, ",") != strings.Join(list, ",") {
				c.Violation(fmt.Sprintf("FieldMask%q: does not round trip through %s", list, out), nil)
			}
			if strings.Contains(string(out), "_") {
				c.Violation(fmt.Sprintf("FieldMask%q: JSON form %s is not lowerCamelCase", list, out), nil)
			}
		}
	})
	n.Add(nfm.Load())
	c.Bounds["fieldmask_lists"] = nfm.Load()
	c.Eval(n.Load())
	c.DistinctN(n.Load())
	c.Sample(map[string]any{"duration_string": "-.5s", "expect": "(0,-500000000)"})
	c.Sample(map[string]any{"timestamp_string": "2020-01-01T00:00:00,5Z", "expect": "reject"})
	c.Sample(map[string]any{"fieldmask": []string{"a_b.c"}, "json": "\"aB.c\""})
	c.Assume("tolerated either way, but uniformly over all strings of the form (not settled by the statement): Duration with an integer part and an empty fraction (\"1.s\") or superfluous leading zeros (\"01s\"), lower-case t / z in timestamps, leap second :60")
}
