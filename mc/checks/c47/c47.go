//go:build protolegacy

package c47

import (
	"bytes"
	"fmt"
	"sort"
	"strings"

	"google.golang.org/protobuf/encoding/protowire"
	"google.golang.org/protobuf/proto"
	"google.golang.org/protobuf/reflect/protoreflect"
	"google.golang.org/protobuf/verifmc/core"
	"google.golang.org/protobuf/verifmc/ref/refwire"
	"google.golang.org/protobuf/verifmc/univ"
)

func init() {
	core.Register("C47", "exploration", run)
	core.Register("C09mset", "exploration", runDiscard)
}

// ---- reference model of the MessageSet item grammar -------------------------

type item struct {
	id      uint64
	hasID   bool
	payload []byte
}

type parsed struct {
	ok        bool // structurally well-formed wire data
	invalidID bool // some type_id field outside 1..MaxInt32 (verdict not constrained)
	noID      bool // some item without type_id (treatment not constrained)
	nonItem   bool // some top-level field that is not an Item group (treatment not constrained)
	items     []item
}

// refParse is the boring reference: split into top-level records, and each
// Item group (field 1, start-group) into its records; type_id is the last
// varint field 2, message the concatenation of the bytes fields 3; anything
// else inside an item is ignored.
func refParse(b []byte) (p parsed) {
	recs, ok := refwire.Split(b)
	if !ok {
		return p
	}
	p.ok = true
	for _, r := range recs {
		if r.Num != 1 || r.Typ != 3 {
			p.nonItem = true
			continue
		}
		inner, ok := refwire.Split(r.Body)
		if !ok {
			p.ok = false
			return p
		}
		var it item
		for _, f := range inner {
			switch {
			case f.Num == 2 && f.Typ == 0:
				if f.Varint < 1 || f.Varint > 1<<31-1 {
					p.invalidID = true
				}
				it.id, it.hasID = f.Varint, true
			case f.Num == 3 && f.Typ == 2:
				it.payload = append(it.payload, f.Body...)
			}
		}
		if !it.hasID {
			p.noID = true
			continue
		}
		p.items = append(p.items, it)
	}
	return p
}

func appendItem(b []byte, id uint64, payload []byte) []byte {
	b = append(b, 0x0b, 0x10)
	b = refwire.AppendVarint(b, id)
	b = append(b, 0x1a)
	b = refwire.AppendVarint(b, uint64(len(payload)))
	b = append(b, payload...)
	return append(b, 0x0c)
}

// ---- alphabet of item encodings ------------------------------------------------

type sym struct {
	name string
	b    []byte
}

func vi(v uint64) []byte { return refwire.AppendVarint(nil, v) }
func cat(bs ...[]byte) []byte {
	var out []byte
	for _, b := range bs {
		out = append(out, b...)
	}
	return out
}
func lenPref2(t0, t1 byte, p []byte) []byte { return cat([]byte{t0, t1}, vi(uint64(len(p))), p) }

func lenPref(tag byte, p []byte) []byte { return cat([]byte{tag}, vi(uint64(len(p))), p) }

func alphabet(thorough bool) []sym {
	var out []sym
	add := func(name string, b []byte) { out = append(out, sym{name, b}) }
	type pl struct {
		n string
		b []byte
	}
	ids := []struct {
		n        string
		id       uint64
		payloads []pl
	}{
		{"ext1", 1000, []pl{{"empty", nil}, {"f1=1", []byte{0x08, 0x01}}, {"f2=2", []byte{0x10, 0x02}}, {"f1=5", []byte{0x08, 0x05}}, {"f1=1,f2=2", []byte{0x08, 0x01, 0x10, 0x02}}, {"unk100", []byte{0xa0, 0x06, 0x01}}, {"f1-as-fixed32", []byte{0x0d, 1, 0, 0, 0}}, {"TRUNC", []byte{0x08}}, {"f1-nonminimal", []byte{0x08, 0x81, 0x00}}}},
		{"ext2", 1001, []pl{{"empty", nil}, {"f=7", []byte{0x08, 0x07}}}},
		{"req", 1002, []pl{{"missing", nil}, {"r=1", []byte{0x08, 0x01}}}},
		{"large", 1 << 29, []pl{{"empty", nil}, {"unk1", []byte{0x08, 0x01}}}},
		{"unk5000", 5000, []pl{{"empty", nil}, {"ab", []byte("ab")}, {"notamessage", []byte{0xff}}}},
		{"below-range3", 3, []pl{{"x", []byte("x")}}},
		{"maxid", 1<<31 - 1, []pl{{"y", []byte("y")}}},
	}
	for _, t := range ids {
		for pi, p := range t.payloads {
			n := t.n + ":" + p.n
			add("item("+n+")", appendItem(nil, t.id, p.b))
			if pi > 2 && !thorough {
				continue
			}
			add("item-msg-first("+n+")", cat([]byte{0x0b}, lenPref(0x1a, p.b), []byte{0x10}, vi(t.id), []byte{0x0c}))
		}
	}
	p1, p2, p5 := []byte{0x08, 0x01}, []byte{0x10, 0x02}, []byte{0x08, 0x05}
	add("item-two-messages(ext1:f1=1+f2=2)", cat([]byte{0x0b, 0x10}, vi(1000), lenPref(0x1a, p1), lenPref(0x1a, p2), []byte{0x0c}))
	add("item-two-messages-id-between(ext1:f1=1+f1=5)", cat([]byte{0x0b}, lenPref(0x1a, p1), []byte{0x10}, vi(1000), lenPref(0x1a, p5), []byte{0x0c}))
	add("item-two-messages(unk5000:a+b)", cat([]byte{0x0b, 0x10}, vi(5000), lenPref(0x1a, []byte("a")), lenPref(0x1a, []byte("b")), []byte{0x0c}))
	// several message fields in one item whose combined length crosses the one-byte length prefix
	long := func(n int) []byte { return lenPref2(0xa2, 0x06, bytes.Repeat([]byte{'x'}, n)) } // unknown bytes field 100
	for _, id := range []uint64{1000, 5000} {
		for _, ln := range [][2]int{{60, 60}, {100, 100}, {124, 1}, {130, 5}} {
			add(fmt.Sprintf("item-two-long-messages(%d:%d+%d)", id, ln[0], ln[1]), cat([]byte{0x0b, 0x10}, vi(id), lenPref(0x1a, long(ln[0])), lenPref(0x1a, long(ln[1])), []byte{0x0c}))
		}
	}
	add("item-two-ids(1001 then 1000:f1=1)", cat([]byte{0x0b, 0x10}, vi(1001), []byte{0x10}, vi(1000), lenPref(0x1a, p1), []byte{0x0c}))
	add("item-no-id(f1=1)", cat([]byte{0x0b}, lenPref(0x1a, p1), []byte{0x0c}))
	add("item-no-message(ext1)", cat([]byte{0x0b, 0x10}, vi(1000), []byte{0x0c}))
	add("item-no-message(unk5000)", cat([]byte{0x0b, 0x10}, vi(5000), []byte{0x0c}))
	add("item-empty", []byte{0x0b, 0x0c})
	add("item-extra-fields(ext1:f1=1)", cat([]byte{0x0b, 0x20, 0x07, 0x10}, vi(1000), lenPref(0x12, []byte("zz")), []byte{0x18, 0x09}, lenPref(0x1a, p1), []byte{0x0c}))
	add("item-nested-group1(ext2:f=7)", cat([]byte{0x0b, 0x0b, 0x10, 0x01, 0x0c, 0x10}, vi(1001), lenPref(0x1a, []byte{0x08, 0x07}), []byte{0x0c}))
	add("item-nonminimal-id(ext1:f1=1)", cat([]byte{0x0b, 0x10, 0xe8, 0x87, 0x80, 0x00}, lenPref(0x1a, p1), []byte{0x0c}))
	add("item-nonminimal-len(ext1:f1=1)", cat([]byte{0x0b, 0x10}, vi(1000), []byte{0x1a, 0x82, 0x00}, p1, []byte{0x0c}))
	// the same non-minimal encodings on an item no extension resolves: it is kept as unknown bytes
	add("item-nonminimal-len(unk5000:ab)", cat([]byte{0x0b, 0x10}, vi(5000), []byte{0x1a, 0x82, 0x00}, []byte("ab"), []byte{0x0c}))
	add("item-nonminimal-id(unk5000:ab)", cat([]byte{0x0b, 0x10, 0x88, 0xa7, 0x80, 0x00}, lenPref(0x1a, []byte("ab")), []byte{0x0c}))
	add("item-nonminimal-len-empty(unk5000)", cat([]byte{0x0b, 0x10}, vi(5000), []byte{0x1a, 0x80, 0x00}, []byte{0x0c}))
	add("item-id0", cat([]byte{0x0b, 0x10, 0x00}, lenPref(0x1a, p1), []byte{0x0c}))
	add("item-id2^31", cat([]byte{0x0b, 0x10}, vi(1<<31), lenPref(0x1a, p1), []byte{0x0c}))
	add("item-id2^32+1000", cat([]byte{0x0b, 0x10}, vi(1<<32+1000), lenPref(0x1a, p1), []byte{0x0c}))
	// malformed
	add("BAD-item-unterminated", cat([]byte{0x0b, 0x10}, vi(1000), lenPref(0x1a, p1)))
	add("BAD-item-endgroup2", cat([]byte{0x0b, 0x10}, vi(1000), lenPref(0x1a, p1), []byte{0x14}))
	add("BAD-item-len-overrun", cat([]byte{0x0b, 0x10}, vi(1000), []byte{0x1a, 0x05, 0x08, 0x01, 0x0c}))
	add("BAD-stray-endgroup", []byte{0x0c})
	add("BAD-tag0", []byte{0x00})
	// non-item top-level fields
	add("nonitem-field1-varint", []byte{0x08, 0x01})
	add("nonitem-field1-bytes", lenPref(0x0a, p1))
	add("nonitem-field1000-bytes(ext1-in-plain-format)", cat(vi(1000<<3|2), vi(2), p1))
	add("nonitem-group2", []byte{0x13, 0x14})
	return out
}

// ---- flavours ---------------------------------------------------------------------

type flavor struct {
	univ.Flavor
	container univ.Flavor
}

func flavors() []flavor {
	var out []flavor
	for _, pfx := range []string{"", "hybrid.", "opaque."} {
		out = append(out, flavor{univ.Gen(pfx + "goproto.proto.messageset.MessageSet"), univ.Gen(pfx + "goproto.proto.messageset.MessageSetContainer")})
	}
	out = append(out, flavor{univ.Dyn("goproto.proto.messageset.MessageSet"), univ.Dyn("goproto.proto.messageset.MessageSetContainer")})
	return out
}

func (f flavor) ext(md protoreflect.MessageDescriptor, id uint64) protoreflect.ExtensionType {
	if id > 1<<31-1 || !md.ExtensionRanges().Has(protoreflect.FieldNumber(id)) {
		return nil
	}
	xt, err := f.Res.FindExtensionByNumber(md.FullName(), protoreflect.FieldNumber(id))
	if err != nil {
		return nil
	}
	return xt
}

// expectation for one input
type expect struct {
	reject  bool // some payload of a known extension does not parse
	partial bool // a required field is missing
	msg     protoreflect.Message
	canon   []byte // deterministic encoding
}

func (f flavor) expect(items []item, discard bool) (e expect) {
	m := f.MT.New()
	md := m.Descriptor()
	var unknown []byte
	for _, it := range items {
		xt := f.ext(md, it.id)
		if xt == nil {
			if !discard {
				unknown = protowire.AppendTag(unknown, protowire.Number(it.id), protowire.BytesType)
				unknown = protowire.AppendBytes(unknown, it.payload)
			}
			continue
		}
		sub := m.Mutable(xt.TypeDescriptor()).Message()
		if err := (proto.UnmarshalOptions{Merge: true, AllowPartial: true, DiscardUnknown: discard, Resolver: f.Res}).Unmarshal(it.payload, sub.Interface()); err != nil {
			e.reject = true
			return e
		}
	}
	m.SetUnknown(unknown)
	e.msg = m
	e.partial = !univ.Initialized(m)
	e.canon = canonical(m)
	return e
}

// canonical encodes m by the property's definition: every extension as one
// item in ascending type-id order, then the unknown items in stored order.
func canonical(m protoreflect.Message) []byte {
	type kv struct {
		id uint64
		p  []byte
	}
	var kvs []kv
	m.Range(func(fd protoreflect.FieldDescriptor, v protoreflect.Value) bool {
		p, err := proto.MarshalOptions{Deterministic: true, AllowPartial: true}.Marshal(v.Message().Interface())
		if err != nil {
			panic(err)
		}
		kvs = append(kvs, kv{uint64(fd.Number()), p})
		return true
	})
	sort.Slice(kvs, func(i, j int) bool { return kvs[i].id < kvs[j].id })
	var out []byte
	for _, x := range kvs {
		out = appendItem(out, x.id, x.p)
	}
	recs, _ := refwire.Split(m.GetUnknown())
	for _, r := range recs {
		out = appendItem(out, uint64(r.Num), r.Body)
	}
	return out
}

func wrap(b []byte) []byte { return lenPref(0x0a, b) }

type optSet struct {
	n       string
	partial bool
	discard bool
}

var (
	optsC47     = []optSet{{"default", false, false}, {"AllowPartial", true, false}}
	optsDiscard = []optSet{{"DiscardUnknown", true, true}}
)

func checkInput(c *core.Ctx, f flavor, in []byte, name string, wrapped bool, opts []optSet) {
	p := refParse(in)
	sig := func(cl string) string {
		w := ""
		if wrapped {
			w = " (nested in MessageSetContainer.message_set)"
		}
		return fmt.Sprintf("%s type=%s%s input=%s", cl, f.Name, w, name)
	}
	paddedUnknown := strings.Contains(name, "item-nonminimal-len(unk") || strings.Contains(name, "item-nonminimal-id(unk") || strings.Contains(name, "item-nonminimal-len-empty(unk")
	c.Eval(1)
	switch {
	case !p.ok:
		c.Outcome("malformed")
	case p.invalidID:
		c.Outcome("invalid-type-id(unconstrained)")
	case p.noID || p.nonItem:
		c.Outcome("item-without-id-or-non-item(field content unconstrained)")
	default:
		c.Outcome("well-formed")
	}
	for _, o := range opts {
		c.Guard(func() string { return sig("opts=" + o.n) }, func() {
			uo := proto.UnmarshalOptions{AllowPartial: o.partial, DiscardUnknown: o.discard}
			var top, got protoreflect.Message
			var err error
			if wrapped {
				top, err = f.container.Unmarshal(wrap(in), uo)
				fd := top.Descriptor().Fields().ByNumber(1)
				if err == nil && !top.Has(fd) {
					c.Violation(sig("container field unset after decoding"), nil)
					return
				}
				got = top.Get(fd).Message()
			} else {
				top, err = f.Unmarshal(in, uo)
				got = top
			}
			if !p.ok {
				if err == nil {
					c.Violation(sig("Unmarshal opts="+o.n+" accepts malformed MessageSet wire data"), fmt.Sprintf("%x", in))
				}
				return
			}
			if p.invalidID {
				return
			}
			e := f.expect(p.items, o.discard)
			wantErr := e.reject || (e.partial && !o.partial)
			if (err != nil) != wantErr {
				c.Violation(sig(fmt.Sprintf("Unmarshal opts=%s error=%v want error=%v", o.n, err != nil, wantErr)), map[string]any{"input": fmt.Sprintf("%x", in), "err": fmt.Sprint(err), "payload_invalid": e.reject, "missing_required": e.partial})
				return
			}
			if err != nil {
				return
			}
			// size/marshal before any access (lazy extensions pass stored bytes through)
			mo := proto.MarshalOptions{AllowPartial: true}
			sz := mo.Size(top.Interface())
			bl, merr := mo.Marshal(top.Interface())
			if merr != nil {
				c.Violation(sig("Marshal of freshly decoded message fails opts="+o.n), merr.Error())
				return
			}
			if sz != len(bl) {
				c.Violation(sig(fmt.Sprintf("Size=%d != len(Marshal)=%d of freshly decoded message opts=%s", sz, len(bl), o.n)), fmt.Sprintf("%x", bl))
			}
			blSet := bl
			if wrapped {
				recs, ok := refwire.Split(bl)
				if !ok || len(recs) != 1 || recs[0].Num != 1 || recs[0].Typ != 2 {
					c.Violation(sig("container re-encoding is not one length-delimited field opts="+o.n), fmt.Sprintf("%x", bl))
					return
				}
				blSet = recs[0].Body
			}
			pl := refParse(blSet)
			if !pl.ok || pl.noID || pl.nonItem || pl.invalidID {
				c.Violation(sig("re-encoding of freshly decoded message is not a sequence of type-id/message items opts="+o.n), fmt.Sprintf("%x", blSet))
			} else if !(p.noID || p.nonItem) {
				// decoding the re-encoding must give the same content
				e2 := f.expect(pl.items, o.discard)
				if e2.reject || !bytes.Equal(e2.canon, e.canon) {
					c.Violation(sig("re-encoding of freshly decoded (unaccessed) message denotes different content opts="+o.n), map[string]any{"input": fmt.Sprintf("%x", in), "reencoded": fmt.Sprintf("%x", blSet), "want_canonical": fmt.Sprintf("%x", e.canon)})
				}
			}
			if p.noID || p.nonItem {
				// content of dropped parts is not constrained; require only a stable round trip
				bd, _ := proto.MarshalOptions{AllowPartial: true, Deterministic: true}.Marshal(got.Interface())
				back, err := f.Unmarshal(bd, proto.UnmarshalOptions{AllowPartial: true})
				if err != nil || univ.Snapshot(back) != univ.Snapshot(got) {
					c.Violation(sig("round trip of decoded message changes it opts="+o.n), nil)
				}
				return
			}
			// content
			// unknown items are compared as records: how the decoder keeps the length
			// prefix of an unresolvable item (verbatim or minimal) is not constrained
			if gs, ws := univ.SnapshotCanon(got), univ.SnapshotCanon(e.msg); gs != ws {
				c.Violation(sig("decoded content differs from the item-wise reference opts="+o.n), map[string]any{"input": fmt.Sprintf("%x", in), "got": gs, "want": ws})
				return
			}
			if paddedUnknown && !o.discard {
				// An unresolvable item whose id or length varint is padded: whether the
				// stored unknown bytes keep the padding is not constrained, so the
				// byte-exact clauses (canonical encoding, Equal with the minimal
				// reference) do not apply. What must still hold: Size is the length
				// of what Marshal writes, and the encoding decodes to the same content.
				bd, merr := proto.MarshalOptions{AllowPartial: true, Deterministic: true}.Marshal(got.Interface())
				if merr != nil {
					c.Violation(sig("Marshal of a message holding a padded unknown item fails opts="+o.n), merr.Error())
					return
				}
				if s := proto.Size(got.Interface()); s != len(bd) {
					c.Violation(sig(fmt.Sprintf("Size=%d != len(Marshal)=%d for a message holding a padded unknown item opts=%s", s, len(bd), o.n)), fmt.Sprintf("%x", bd))
				}
				back, err := f.Unmarshal(bd, proto.UnmarshalOptions{AllowPartial: true})
				if err != nil || univ.SnapshotCanon(back) != univ.SnapshotCanon(got) {
					c.Violation(sig("Unmarshal(Marshal(m)) != m opts="+o.n), fmt.Sprint(err))
				}
				return
			}
			if !proto.Equal(got.Interface(), e.msg.Interface()) {
				c.Violation(sig("decoded message not Equal to the reference message opts="+o.n), nil)
			}
			// deterministic encoding = canonical items; Size agrees
			bd, merr := proto.MarshalOptions{AllowPartial: true, Deterministic: true}.Marshal(got.Interface())
			if merr != nil || !bytes.Equal(bd, e.canon) {
				c.Violation(sig("deterministic encoding is not the canonical item sequence opts="+o.n), map[string]any{"got": fmt.Sprintf("%x", bd), "want": fmt.Sprintf("%x", e.canon), "err": fmt.Sprint(merr)})
			}
			if s := proto.Size(got.Interface()); s != len(e.canon) {
				c.Violation(sig(fmt.Sprintf("Size=%d != canonical length %d opts=%s", s, len(e.canon), o.n)), nil)
			}
			// strict marshal verdict follows required-ness
			if _, serr := proto.Marshal(got.Interface()); (serr != nil) != e.partial {
				c.Violation(sig(fmt.Sprintf("Marshal error=%v but missing-required=%v opts=%s", serr != nil, e.partial, o.n)), nil)
			}
			back, err := f.Unmarshal(bd, proto.UnmarshalOptions{AllowPartial: true})
			if err != nil || univ.Snapshot(back) != univ.Snapshot(got) || !proto.Equal(back.Interface(), got.Interface()) {
				c.Violation(sig("Unmarshal(Marshal(m)) != m opts="+o.n), fmt.Sprint(err))
			}
		})
	}
}

// ---- message-side enumeration ---------------------------------------------------

type content struct {
	name  string
	items []item // known ids exactly once each, plus unknown items
}

func contents() []content {
	type ch struct {
		n string
		p []byte
		a bool // absent
	}
	e1 := []ch{{a: true}, {n: "ext1{}"}, {n: "ext1{f1=1}", p: []byte{0x08, 0x01}}, {n: "ext1{f1=-1,f2=2}", p: cat([]byte{0x08}, vi(^uint64(0)), []byte{0x10, 0x02})}, {n: "ext1{unk100}", p: []byte{0xa0, 0x06, 0x01}}}
	e2 := []ch{{a: true}, {n: "ext2{}"}, {n: "ext2{f=7}", p: []byte{0x08, 0x07}}}
	er := []ch{{a: true}, {n: "req{missing}"}, {n: "req{r=1}", p: []byte{0x08, 0x01}}}
	el := []ch{{a: true}, {n: "large{}"}, {n: "large{unk1}", p: []byte{0x08, 0x01}}}
	un := [][]item{nil, {{5000, true, []byte("ab")}}, {{6000, true, nil}, {5000, true, []byte{0xff}}}, {{3, true, []byte("x")}, {1<<31 - 1, true, []byte("y")}}}
	var out []content
	for _, a := range e1 {
		for _, b := range e2 {
			for _, r := range er {
				for _, l := range el {
					for ui, u := range un {
						var c content
						var names []string
						for i, x := range []ch{a, b, r, l} {
							if x.a {
								continue
							}
							c.items = append(c.items, item{[]uint64{1000, 1001, 1002, 1 << 29}[i], true, x.p})
							names = append(names, x.n)
						}
						c.items = append(c.items, u...)
						c.name = strings.Join(names, ",") + fmt.Sprintf(" unknown#%d", ui)
						out = append(out, c)
					}
				}
			}
		}
	}
	return out
}

func checkContent(c *core.Ctx, f flavor, ct content) {
	sig := func(cl string) string { return fmt.Sprintf("%s type=%s content=[%s]", cl, f.Name, ct.name) }
	c.Eval(1)
	c.Guard(func() string { return sig("") }, func() {
		e := f.expect(ct.items, false)
		if e.reject {
			panic("content payload invalid")
		}
		m := e.msg
		for _, det := range []bool{true, false} {
			mo := proto.MarshalOptions{AllowPartial: true, Deterministic: det}
			b, err := mo.Marshal(m.Interface())
			if err != nil {
				c.Violation(sig(fmt.Sprintf("Marshal{Deterministic:%v} fails", det)), err.Error())
				return
			}
			if s := mo.Size(m.Interface()); s != len(b) {
				c.Violation(sig(fmt.Sprintf("Size=%d != len(Marshal)=%d deterministic=%v", s, len(b), det)), nil)
			}
			if det && !bytes.Equal(b, e.canon) {
				c.Violation(sig("deterministic encoding is not the canonical item sequence"), map[string]any{"got": fmt.Sprintf("%x", b), "want": fmt.Sprintf("%x", e.canon)})
			}
			p := refParse(b)
			if !p.ok || p.noID || p.nonItem || p.invalidID || len(p.items) != len(ct.items) {
				c.Violation(sig(fmt.Sprintf("encoding is not one type-id/message item per extension and unknown item deterministic=%v", det)), fmt.Sprintf("%x", b))
				continue
			}
			if e2 := f.expect(p.items, false); e2.reject || !bytes.Equal(e2.canon, e.canon) {
				c.Violation(sig(fmt.Sprintf("items of the encoding denote different content deterministic=%v", det)), fmt.Sprintf("%x", b))
			}
			back, err := f.Unmarshal(b, proto.UnmarshalOptions{AllowPartial: true})
			if err != nil || !proto.Equal(back.Interface(), m.Interface()) || univ.Snapshot(back) != univ.Snapshot(m) {
				c.Violation(sig(fmt.Sprintf("Unmarshal(Marshal(m)) != m deterministic=%v", det)), fmt.Sprint(err))
			}
		}
		if _, serr := proto.Marshal(m.Interface()); (serr != nil) != e.partial {
			c.Violation(sig(fmt.Sprintf("Marshal error=%v but missing-required=%v", serr != nil, e.partial)), nil)
		}
		// nested in the container
		top := f.container.MT.New()
		fd := top.Descriptor().Fields().ByNumber(1)
		top.Set(fd, protoreflect.ValueOfMessage(proto.Clone(m.Interface()).ProtoReflect()))
		b, err := proto.MarshalOptions{AllowPartial: true, Deterministic: true}.Marshal(top.Interface())
		if err != nil || !bytes.Equal(b, wrap(e.canon)) {
			c.Violation(sig("container encoding is not field 1 holding the canonical item sequence"), map[string]any{"got": fmt.Sprintf("%x", b), "err": fmt.Sprint(err)})
		}
		if s := proto.Size(top.Interface()); s != len(b) {
			c.Violation(sig(fmt.Sprintf("container Size=%d != len=%d", s, len(b))), nil)
		}
	})
}

func run(c *core.Ctx) {
	c.Rule = "MessageSet (protolegacy build). Reference = an item-grammar parser built on the reference wire splitter: Item = group 1; type_id = last varint field 2; message = concatenation of bytes fields 3; other fields in an item ignored. (a) EVERY sequence of <=k symbols (quick k=2, thorough k=3) from an alphabet of item encodings (4 known extensions incl. a required one and number 2^29, unknown ids in and below the extension range and MaxInt32, payloads: empty / valid / non-minimal / unknown fields / wrong wire type / truncated; field orders id-first, message-first, id between two message fields, two message fields (short, and long ones whose combined length crosses 127/128), two ids, no id, no message, extra fields, nested group, non-minimal id and length on known and on unresolvable items; malformed items; non-item top-level fields) is decoded by the open, hybrid and opaque generated types and dynamicpb, directly and nested in MessageSetContainer, with default / AllowPartial options (DiscardUnknown is checked under C09): verdict = (well-formed AND every known payload parses AND (partial OR required present)); decoded content = reference message built item-wise with ordinary Merge-Unmarshal of each payload, unknown items preserved in order; Size == len(Marshal) both before any access (lazy extension bytes) and after; deterministic encoding == canonical item sequence (extensions ascending, then unknown items); re-encoding denotes the same content; Unmarshal(Marshal(m)) == m. For inputs holding an unresolvable item with a padded id or length varint the byte-exact clauses are replaced by Size == len(Marshal) and a content-preserving round trip (whether the padding is kept in the unknown bytes is not constrained). Invalid type ids (0, >MaxInt32) only must not panic; inputs with id-less items or non-item fields are only required to round trip. (b) EVERY content in the product {ext1: absent/4 values} x {ext2: absent/2} x {required ext: absent/missing/present} x {large-number ext: absent/2} x {4 unknown-item lists} built through reflection: Size, canonical bytes, one item per extension, round trip, container nesting. The whole check is repeated in the protolegacy,protoreflect build (reflection path for generated types) as a child process"
	c.Exhaustive = true
	var child *core.Child
	if !core.IsChild() {
		child = c.StartChild("legacyreflect", "C47", "GOMAXPROCS=6")
	}
	k := 2
	if !c.Quick() {
		k = 3
	}
	alpha := alphabet(!c.Quick())
	fl := flavors()
	n := univ.TupleCount(len(alpha), k)
	for _, f := range fl {
		f := f
		univ.ForTuples(c, len(alpha), k, func(idx []int) {
			var in []byte
			var names []string
			for _, i := range idx {
				in = append(in, alpha[i].b...)
				names = append(names, alpha[i].name)
			}
			name := strings.Join(names, " ")
			checkInput(c, f, in, name, false, optsC47)
			if len(idx) <= 2 {
				checkInput(c, f, in, name, true, optsC47)
			}
		})
	}
	c.DistinctN(int64(n))
	cts := contents()
	for _, f := range fl {
		f := f
		c.Par(len(cts), func(i int) { checkContent(c, f, cts[i]) })
	}
	c.DistinctN(int64(len(cts)))
	c.Bounds["item_alphabet"] = len(alpha)
	c.Bounds["max_symbols"] = k
	c.Bounds["wire_sequences"] = n
	c.Bounds["contents"] = len(cts)
	c.Bounds["flavors"] = len(fl)
	c.Sample(map[string]any{"input": "item-msg-first(ext1:f1=1) item(unk5000:ab)", "expect": "ext1{f1=1}, unknown item 5000 preserved; canonical bytes 0b10e8071a0208010c 0b1088271a0261620c"})
	if child != nil {
		c.Join(child)
	}
}

// runDiscard is the MessageSet part of C09's DiscardUnknown clause; C09 runs it
// in the protolegacy (and protolegacy,protoreflect) build as a child process.
func runDiscard(c *core.Ctx) {
	c.Rule = "MessageSet part of C09 (protolegacy builds): every sequence of <=k item encodings (same alphabet as C47) decoded with DiscardUnknown by the open / hybrid / opaque generated types and dynamicpb, directly and nested in a container: unresolvable items and unknown fields of extension payloads are dropped, the rest equals the item-wise reference"
	c.Exhaustive = true
	k := 2
	if !c.Quick() {
		k = 3
	}
	alpha := alphabet(!c.Quick())
	for _, f := range flavors() {
		f := f
		univ.ForTuples(c, len(alpha), k, func(idx []int) {
			var in []byte
			var names []string
			for _, i := range idx {
				in = append(in, alpha[i].b...)
				names = append(names, alpha[i].name)
			}
			name := strings.Join(names, " ")
			checkInput(c, f, in, name, false, optsDiscard)
			if len(idx) <= 2 {
				checkInput(c, f, in, name, true, optsDiscard)
			}
		})
	}
	c.DistinctN(int64(univ.TupleCount(len(alpha), k)))
	c.Sample(map[string]any{"input": "item(unk5000:ab)", "DiscardUnknown": true, "expect": "empty message, no unknown bytes"})
}
