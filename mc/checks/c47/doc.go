// Package c47: MessageSet item format (only meaningful in -tags protolegacy
// builds; the check registers itself in c47.go under that tag).
package c47
