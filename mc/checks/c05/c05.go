// Package c05: deterministic marshaling is a function of message content.
package c05

import (
	"bytes"
	"encoding/binary"
	"fmt"
	"google.golang.org/protobuf/encoding/protowire"
	"google.golang.org/protobuf/reflect/protodesc"
	"google.golang.org/protobuf/reflect/protoregistry"
	"google.golang.org/protobuf/types/descriptorpb"
	"google.golang.org/protobuf/types/dynamicpb"
	"hash/fnv"
	"os"
	"os/exec"
	"path/filepath"
	"sync"

	"google.golang.org/protobuf/proto"
	"google.golang.org/protobuf/reflect/protoreflect"
	"google.golang.org/protobuf/verifmc/core"
	"google.golang.org/protobuf/verifmc/univ"
)

func init() {
	core.Register("C05", "exploration", run)
	core.Register("C05digest", "exploration", func(c *core.Ctx) { enumerate(c, true) })
}

type plan struct {
	name  string
	k     int
	depth int
	thin  bool
	dyn   bool
	only  func(s *univ.Slot) bool // restrict alphabet (e.g. to map / extension / unknown slots)
}

func isMapOrExtOrUnknown(s *univ.Slot) bool {
	return s.Op == univ.OpMapPut || s.Op == univ.OpMapMsg || s.Ext || s.Op == univ.OpUnknown
}

func plans(c *core.Ctx) []plan {
	q := c.Quick()
	p := []plan{
		{name: "goproto.proto.test.TestAllTypes", k: 3, depth: 1, thin: q, only: isMapOrExtOrUnknown, dyn: true},
		{name: "goproto.proto.test.TestAllTypes", k: 2, depth: 1, only: isMapOrExtOrUnknown},
		{name: "goproto.proto.test3.TestAllTypes", k: 3, depth: 1, thin: true, only: isMapOrExtOrUnknown},
		{name: "opaque.goproto.proto.testeditions.TestAllTypes", k: core.Pick(c, 2, 3), depth: 1, thin: q, only: isMapOrExtOrUnknown},
		{name: "goproto.proto.test.TestAllExtensions", k: core.Pick(c, 2, 3), depth: 1, thin: true, dyn: true},
		{name: "pb2.Maps", k: 3, depth: 2, dyn: true},
		{name: "goproto.proto.test.TestAllTypes", k: 2, depth: 2, thin: true, dyn: !q},
		{name: "goproto.proto.test3.TestAllTypes", k: 2, depth: 2, thin: true},
		{name: "google.protobuf.Struct", k: 3, depth: 3, dyn: true},
		{name: "pb2.Nests", k: 3, depth: 3, thin: true},
		{name: "opaque.lazy_tree.Node", k: 2, depth: 3, thin: true},
	}
	if !q {
		p = append(p, plan{name: "goproto.proto.testeditions.TestAllTypes", k: 3, depth: 1, only: isMapOrExtOrUnknown, dyn: true},
			plan{name: "hybrid.goproto.proto.testeditions.TestAllTypes", k: 3, depth: 1, thin: true, only: isMapOrExtOrUnknown})
	}
	return p
}

func det(m protoreflect.Message) ([]byte, error) {
	return proto.MarshalOptions{Deterministic: true, AllowPartial: true}.Marshal(m.Interface())
}

// commutes reports whether applying slots a and b in either order yields the
// same content by construction (different fields, or map entries with different keys).
func sameTarget(a, b *univ.Slot) bool {
	if a.Op == univ.OpUnknown || b.Op == univ.OpUnknown {
		return a.Op == b.Op // two unknown records: order is content
	}
	return a.Num == b.Num && a.Ext == b.Ext
}

func permutations(n int) [][]int {
	if n == 1 {
		return [][]int{{0}}
	}
	var out [][]int
	for _, p := range permutations(n - 1) {
		for pos := 0; pos <= len(p); pos++ {
			q := append(append(append([]int{}, p[:pos]...), n-1), p[pos:]...)
			out = append(out, q)
		}
	}
	return out
}

func h64(b []byte) uint64 {
	h := fnv.New64a()
	h.Write(b)
	if v := h.Sum64(); v != 0 {
		return v
	}
	return 1 // 0 is reserved for "not reached"
}

func digestPath(tier string) string {
	if p := os.Getenv("VERIF_C05_OUT"); p != "" {
		return p
	}
	return filepath.Join(core.Root, ".cache", "c05-second-process-"+tier+".bin")
}

const repeats = 12

// enumerate runs the message enumeration. In digest mode it only records one
// digest of the deterministic bytes per case (second process).
func enumerate(c *core.Ctx, digestOnly bool) [][]uint64 {
	var all [][]uint64
	var planOut []map[string]any
	for _, p := range plans(c) {
		md := univ.MT(p.name).Descriptor()
		alpha := univ.Alphabet(md, p.depth, univ.Opt{Thin: p.thin})
		if p.only != nil {
			var a2 []*univ.Slot
			for _, s := range alpha {
				if p.only(s) {
					a2 = append(a2, s)
				}
			}
			alpha = a2
		}
		flavors := []univ.Flavor{univ.Gen(p.name)}
		if p.dyn && !digestOnly {
			flavors = append(flavors, univ.Dyn(p.name))
		}
		n := univ.TupleCount(len(alpha), p.k)
		ds := make([]uint64, n)
		var mu sync.Mutex
		byBytes := map[string][]int{} // det bytes -> case indices (generated flavor)
		keys := make([]string, n)
		for _, f := range flavors {
			f := f
			univ.ForTuples(c, len(alpha), p.k, func(idx []int) {
				slots := univ.PickSlots(alpha, idx, nil)
				name := univ.Names(slots)
				// recover the enumeration index
				i := 0
				{
					pw, base := 1, 0
					for l := 0; l < len(idx); l++ {
						base += pw
						pw *= len(alpha)
					}
					v := 0
					for _, x := range idx {
						v = v*len(alpha) + x
					}
					i = base + v
				}
				c.Guard(func() string { return "type=" + f.Name + " case=" + name }, func() {
					m := f.Build(slots)
					b0, err := det(m)
					if err != nil {
						c.Violation("deterministic marshal fails type="+f.Name+" case="+name, err.Error())
						return
					}
					if !f.Dynamic {
						ds[i] = h64(b0)
					}
					if digestOnly {
						return
					}
					c.Eval(1)
					if !f.Dynamic {
						mu.Lock()
						byBytes[string(b0)] = append(byBytes[string(b0)], i)
						mu.Unlock()
						keys[i] = univ.EqualKey(m)
					}
					// repeated marshals of the same message (Go map iteration order varies per call)
					for r := 0; r < repeats; r++ {
						b, _ := det(m)
						if !bytes.Equal(b, b0) {
							c.Violation("repeated deterministic marshal differs type="+f.Name+" case="+name, map[string]any{"first": fmt.Sprintf("%x", b0), "later": fmt.Sprintf("%x", b)})
							return
						}
					}
					// clone, and a message rebuilt from scratch
					if b, _ := det(proto.Clone(m.Interface()).ProtoReflect()); !bytes.Equal(b, b0) {
						c.Violation("clone marshals differently type="+f.Name+" case="+name, map[string]any{"orig": fmt.Sprintf("%x", b0), "clone": fmt.Sprintf("%x", b)})
					}
					for r := 0; r < 3; r++ {
						if b, _ := det(f.Build(slots)); !bytes.Equal(b, b0) {
							c.Violation("rebuilt message marshals differently type="+f.Name+" case="+name, nil)
						}
					}
					// decoded copy (content equal by C03)
					if m2, err := f.Unmarshal(b0, proto.UnmarshalOptions{AllowPartial: true}); err == nil {
						if b, _ := det(m2); !bytes.Equal(b, b0) {
							c.Violation("decoded copy marshals differently type="+f.Name+" case="+name, nil)
						}
					}
					// every permutation of the assignment / insertion order that cannot change content
					if len(slots) >= 2 {
						commute := true
						for a := 0; a < len(slots) && commute; a++ {
							for b := a + 1; b < len(slots); b++ {
								if sameTarget(slots[a], slots[b]) && !(slots[a].Op == univ.OpMapPut && slots[b].Op == univ.OpMapPut && slots[a].Key.Interface() != slots[b].Key.Interface()) && !(slots[a].Op == univ.OpMapMsg && slots[b].Op == univ.OpMapMsg && slots[a].Key.Interface() != slots[b].Key.Interface()) {
									commute = false
									break
								}
							}
						}
						if commute {
							c.Outcome("permuted-cases")
							for _, perm := range permutations(len(slots))[1:] {
								ps := make([]*univ.Slot, len(slots))
								for x, y := range perm {
									ps[x] = slots[y]
								}
								mp := f.Build(ps)
								if b, _ := det(mp); !bytes.Equal(b, b0) {
									c.Violation(fmt.Sprintf("insertion/assignment order changes deterministic bytes type=%s case=%s perm=%v", f.Name, name, perm), map[string]any{"a": fmt.Sprintf("%x", b0), "b": fmt.Sprintf("%x", b)})
								}
							}
						}
					}
				})
			})
		}
		all = append(all, ds)
		if digestOnly {
			continue
		}
		// bytes => Equal: all messages sharing deterministic bytes must be pairwise Equal
		groups, pairs := 0, 0
		g := univ.Gen(p.name)
		for _, idxs := range byBytes {
			if len(idxs) < 2 {
				continue
			}
			groups++
			first := g.Build(univ.PickSlots(alpha, univ.TupleAt(len(alpha), p.k, idxs[0], nil), nil))
			for _, j := range idxs[1:] {
				pairs++
				other := g.Build(univ.PickSlots(alpha, univ.TupleAt(len(alpha), p.k, j, nil), nil))
				if !proto.Equal(first.Interface(), other.Interface()) || !proto.Equal(other.Interface(), first.Interface()) {
					c.Violation(fmt.Sprintf("identical deterministic bytes but not Equal type=%s a=%s b=%s", p.name,
						univ.Names(univ.PickSlots(alpha, univ.TupleAt(len(alpha), p.k, idxs[0], nil), nil)),
						univ.Names(univ.PickSlots(alpha, univ.TupleAt(len(alpha), p.k, j, nil), nil))), nil)
				}
			}
		}
		// and content-equal (same reference key incl. float sign) => same bytes
		byKey := map[string]uint64{}
		for i, k := range keys {
			if k == "" && i != 0 {
				continue
			}
			sk := univ.Snapshot(g.Build(univ.PickSlots(alpha, univ.TupleAt(len(alpha), p.k, i, nil), nil)))
			if d, ok := byKey[sk]; ok && d != ds[i] {
				c.Violation(fmt.Sprintf("same content, different deterministic bytes type=%s case=%s", p.name, univ.Names(univ.PickSlots(alpha, univ.TupleAt(len(alpha), p.k, i, nil), nil))), nil)
			}
			byKey[sk] = ds[i]
		}
		c.DistinctN(int64(len(byKey)))
		planOut = append(planOut, map[string]any{"type": p.name, "k": p.k, "slot_alphabet": len(alpha), "messages": n, "distinct_contents": len(byKey), "groups_sharing_bytes": groups, "equal_pairs_checked": pairs})
		if len(alpha) > 2 {
			c.Sample(map[string]any{"type": p.name, "slots": univ.Names([]*univ.Slot{alpha[0], alpha[len(alpha)/2], alpha[len(alpha)-1]})})
		}
	}
	if !digestOnly {
		c.Bounds["plans"] = planOut
	}
	return all
}

func run(c *core.Ctx) {
	c.Rule = "messages = all slot lists of length <=k over (a) the map-entry / extension / unknown-record slots and (b) the thinned full alphabet of each type (generated and dynamicpb). For each: deterministic bytes must be identical across 12 repeated marshals, a Clone, three rebuilds, a decoded copy, EVERY permutation of the insertion/assignment order that cannot change content (<=3! orders), and a second process of the same binary (digest per enumeration index); messages with the same canonical content must have the same bytes; and all messages sharing deterministic bytes must be pairwise proto.Equal. distinct = distinct canonical contents. Maps behind message-typed extensions: a message extension of type TestAllTypes (dynamic extension type over a protodesc-built file, because no linked schema has a map behind a message extension) on TestAllExtensions, holding a generated and a dynamicpb value with every map field filled with 8 entries in two insertion orders, singular and through a group-typed and a repeated message extension of the corpus: the parent's deterministic bytes must be tag + length + the deterministic bytes of the value, 12 times. Nested maps: a message with 8-entry maps of every scalar key/value kind is placed behind a singular and a repeated message-typed extension, and below every message-valued position of generated messages (singular field, list element, oneof member, map value): 12 deterministic marshals each must equal the hand-composed bytes"
	c.Exhaustive = true
	// second process
	self, _ := os.Executable()
	var wg sync.WaitGroup
	var cmdErr error
	os.Remove(digestPath(c.Tier))
	wg.Add(1)
	go func() {
		defer wg.Done()
		cmd := exec.Command(self, "-check", "C05digest", "-tier", c.Tier)
		root := filepath.Join(core.Root, ".cache", "c05root")
		os.MkdirAll(root, 0o755)
		cmd.Env = append(os.Environ(), "VERIF_ROOT="+root, "GOMAXPROCS=4", "VERIF_C05_OUT="+digestPath(c.Tier), "VERIF_C05_CHILD=1")
		var stderr bytes.Buffer
		cmd.Stderr = &stderr
		if err := cmd.Run(); err != nil {
			cmdErr = fmt.Errorf("%v: %s", err, stderr.String())
		}
	}()
	all := enumerate(c, false)
	mapsBehindExtensions(c)
	wg.Wait()
	if cmdErr != nil {
		fmt.Fprintln(os.Stderr, "C05: second process failed:", cmdErr)
		os.Exit(2)
	}
	buf, err := os.ReadFile(digestPath(c.Tier))
	if err != nil {
		fmt.Fprintln(os.Stderr, "C05:", err)
		os.Exit(2)
	}
	off, compared, notReached := 0, 0, 0
	for pi, ds := range all {
		for i, d := range ds {
			if off+8 > len(buf) {
				fmt.Fprintln(os.Stderr, "C05: digest stream too short")
				os.Exit(2)
			}
			// digest 0 = the case was not reached before the time budget of one of the two
			// processes ran out (loaded machine): not compared, run not exhaustive
			if other := binary.LittleEndian.Uint64(buf[off:]); other == 0 || d == 0 {
				notReached++
			} else if other != d {
				c.Violation(fmt.Sprintf("second process produces different deterministic bytes type=%s case#%d", plans(c)[pi].name, i), nil)
			}
			off += 8
			compared++
		}
	}
	if notReached > 0 {
		c.Extra("second_process_cases_not_reached_before_the_budget_ran_out", notReached)
		c.Exhaustive = false
	}
	c.Extra("second_process_cases_compared", compared)
	c.Assume("Go map iteration order is not yet owned by the explorer: it is varied by 12 repeated marshals per message (sampling); permutations of insertion/assignment order, clones, rebuilds and the second process are enumerated exhaustively")
}

func init() {
	// child mode: after enumeration in digest mode, write the digests
	if os.Getenv("VERIF_C05_CHILD") == "1" {
		core.Register("C05digest", "exploration", func(c *core.Ctx) {
			all := enumerate(c, true)
			var out []byte
			for _, ds := range all {
				for _, d := range ds {
					var b [8]byte
					binary.LittleEndian.PutUint64(b[:], d)
					out = append(out, b[:]...)
				}
			}
			c.Eval(int64(len(out) / 8))
			c.DistinctN(int64(len(out) / 8))
			c.Sample("digests")
			c.Rule = "digest writer for C05 (second process)"
			if err := os.WriteFile(digestPath(c.Tier), out, 0o644); err != nil {
				fmt.Fprintln(os.Stderr, err)
				os.Exit(2)
			}
		})
	}
}

// mapsBehindExtensions: Deterministic must reach maps that sit behind a
// message-typed extension value (the fast path hands such values to the public
// API with converted options).
func mapsBehindExtensions(c *core.Ctx) {
	parent := univ.MT("goproto.proto.test.TestAllExtensions")
	val := univ.MT("goproto.proto.test.TestAllTypes")
	fdp := &descriptorpb.FileDescriptorProto{
		Name: proto.String("verif/c05/ext.proto"), Package: proto.String("verif.c05"), Dependency: []string{"internal/testprotos/test/test.proto"},
		Extension: []*descriptorpb.FieldDescriptorProto{
			{Name: proto.String("all_types"), Number: proto.Int32(5000), Type: descriptorpb.FieldDescriptorProto_TYPE_MESSAGE.Enum(), Label: descriptorpb.FieldDescriptorProto_LABEL_OPTIONAL.Enum(), TypeName: proto.String(".goproto.proto.test.TestAllTypes"), Extendee: proto.String(".goproto.proto.test.TestAllExtensions"), JsonName: proto.String("allTypes")},
			{Name: proto.String("all_types_rep"), Number: proto.Int32(5001), Type: descriptorpb.FieldDescriptorProto_TYPE_MESSAGE.Enum(), Label: descriptorpb.FieldDescriptorProto_LABEL_REPEATED.Enum(), TypeName: proto.String(".goproto.proto.test.TestAllTypes"), Extendee: proto.String(".goproto.proto.test.TestAllExtensions"), JsonName: proto.String("allTypesRep")},
		},
	}
	fd, err := protodesc.NewFile(fdp, protoregistry.GlobalFiles)
	if err != nil {
		panic(err)
	}
	fill := func(m protoreflect.Message, reverse bool) {
		fds := m.Descriptor().Fields()
		for i := 0; i < fds.Len(); i++ {
			f := fds.Get(i)
			if !f.IsMap() || f.MapValue().Message() != nil {
				continue
			}
			mp := m.Mutable(f).Map()
			for e := 0; e < 8; e++ {
				k := e
				if reverse {
					k = 7 - e
				}
				var key protoreflect.MapKey
				switch f.MapKey().Kind() {
				case protoreflect.BoolKind:
					key = protoreflect.ValueOfBool(k%2 == 0).MapKey()
				case protoreflect.StringKind:
					key = protoreflect.ValueOfString(fmt.Sprintf("k%d", k)).MapKey()
				case protoreflect.Int32Kind, protoreflect.Sint32Kind, protoreflect.Sfixed32Kind:
					key = protoreflect.ValueOfInt32(int32(k - 3)).MapKey()
				case protoreflect.Int64Kind, protoreflect.Sint64Kind, protoreflect.Sfixed64Kind:
					key = protoreflect.ValueOfInt64(int64(k - 3)).MapKey()
				case protoreflect.Uint32Kind, protoreflect.Fixed32Kind:
					key = protoreflect.ValueOfUint32(uint32(k)).MapKey()
				default:
					key = protoreflect.ValueOfUint64(uint64(k)).MapKey()
				}
				mp.Set(key, f.MapValue().Default())
				if f.MapValue().Kind() == protoreflect.EnumKind {
					mp.Set(key, protoreflect.ValueOfEnum(f.MapValue().Enum().Values().Get(0).Number()))
				}
			}
		}
	}
	n := 0
	for xi := 0; xi < fd.Extensions().Len(); xi++ {
		xt := dynamicpb.NewExtensionType(fd.Extensions().Get(xi))
		for _, dynVal := range []bool{false, true} {
			for _, reverse := range []bool{false, true} {
				n++
				name := fmt.Sprintf("extension=%s dynamic-value=%v reverse-insertion=%v", xt.TypeDescriptor().Name(), dynVal, reverse)
				c.Eval(1)
				c.Guard(func() string { return "maps behind a message extension " + name }, func() {
					var v protoreflect.Message
					if dynVal {
						v = dynamicpb.NewMessage(val.Descriptor())
					} else {
						v = val.New()
					}
					fill(v, reverse)
					want, err := proto.MarshalOptions{Deterministic: true, AllowPartial: true}.Marshal(v.Interface())
					if err != nil {
						panic(err)
					}
					p := parent.New()
					if xt.TypeDescriptor().IsList() {
						p.Mutable(xt.TypeDescriptor()).List().Append(protoreflect.ValueOfMessage(v))
					} else {
						p.Set(xt.TypeDescriptor(), protoreflect.ValueOfMessage(v))
					}
					expect := protowire.AppendBytes(protowire.AppendTag(nil, xt.TypeDescriptor().Number(), protowire.BytesType), want)
					for r := 0; r < 12; r++ {
						got, err := proto.MarshalOptions{Deterministic: true, AllowPartial: true}.Marshal(p.Interface())
						if err != nil || !bytes.Equal(got, expect) {
							c.Violation("deterministic marshal does not reach maps behind a message-typed extension: "+name, map[string]any{"err": fmt.Sprint(err), "repeat": r})
							return
						}
					}
				})
			}
		}
	}
	c.DistinctN(int64(n))
	// the same maps below every message-valued position of a generated message:
	// singular field, list element, oneof member and - the position with a coder of
	// its own - map value. NestedMessage{corecursive: <message with 8-entry maps>}.
	n2 := 0
	for _, tn := range []string{"goproto.proto.test.TestAllTypes", "opaque.goproto.proto.testeditions.TestAllTypes", "goproto.proto.test3.TestAllTypes"} {
		mt := univ.MT(tn)
		md := mt.Descriptor()
		for _, pos := range []string{"optional_nested_message", "singular_nested_message", "repeated_nested_message", "oneof_nested_message", "map_string_nested_message"} {
			pf := md.Fields().ByName(protoreflect.Name(pos))
			if pf == nil {
				continue
			}
			for _, reverse := range []bool{false, true} {
				n2++
				name := fmt.Sprintf("type=%s position=%s reverse-insertion=%v", tn, pos, reverse)
				c.Eval(1)
				c.Guard(func() string { return "maps below a message-valued position " + name }, func() {
					v := mt.New()
					fill(v, reverse)
					want, err := proto.MarshalOptions{Deterministic: true, AllowPartial: true}.Marshal(v.Interface())
					if err != nil {
						panic(err)
					}
					p := mt.New()
					var nested protoreflect.Message
					switch {
					case pf.IsMap():
						nested = p.Mutable(pf).Map().Mutable(protoreflect.ValueOfString("k").MapKey()).Message()
					case pf.IsList():
						nested = p.Mutable(pf).List().AppendMutable().Message()
					default:
						nested = p.Mutable(pf).Message()
					}
					cf := nested.Descriptor().Fields().ByName("corecursive")
					nested.Set(cf, protoreflect.ValueOfMessage(v))
					nb := protowire.AppendBytes(protowire.AppendTag(nil, cf.Number(), protowire.BytesType), want)
					var expect []byte
					if pf.IsMap() {
						entry := protowire.AppendString(protowire.AppendTag(nil, 1, protowire.BytesType), "k")
						entry = protowire.AppendBytes(protowire.AppendTag(entry, 2, protowire.BytesType), nb)
						expect = protowire.AppendBytes(protowire.AppendTag(nil, pf.Number(), protowire.BytesType), entry)
					} else {
						expect = protowire.AppendBytes(protowire.AppendTag(nil, pf.Number(), protowire.BytesType), nb)
					}
					for r := 0; r < 12; r++ {
						got, err := proto.MarshalOptions{Deterministic: true, AllowPartial: true}.Marshal(p.Interface())
						if err != nil || !bytes.Equal(got, expect) {
							c.Violation("deterministic marshal does not reach maps below a message-valued position: "+name, map[string]any{"err": fmt.Sprint(err), "repeat": r})
							return
						}
					}
				})
			}
		}
	}
	c.DistinctN(int64(n2))
}
