// Package c38: editions features resolve by inheritance and preserve semantics.
package c38

import (
	"fmt"
	"strings"

	"google.golang.org/protobuf/encoding/protojson"
	"google.golang.org/protobuf/encoding/prototext"
	"google.golang.org/protobuf/encoding/protowire"
	"google.golang.org/protobuf/internal/editiondefaults"
	"google.golang.org/protobuf/internal/filedesc"
	"google.golang.org/protobuf/proto"
	"google.golang.org/protobuf/reflect/protodesc"
	"google.golang.org/protobuf/reflect/protoreflect"
	"google.golang.org/protobuf/reflect/protoregistry"
	"google.golang.org/protobuf/types/descriptorpb"
	"google.golang.org/protobuf/types/dynamicpb"
	"google.golang.org/protobuf/verifmc/core"
	"google.golang.org/protobuf/verifmc/univ"
)

func init() { core.Register("C38", "exploration", run) }

// feature under test: index into the five core features
type feature struct {
	name   string
	values []int32 // enum numbers (0 = unset)
	set    func(fs *descriptorpb.FeatureSet, v int32)
	get    func(fs *descriptorpb.FeatureSet) int32
}

var features = []feature{
	{"field_presence", []int32{0, 1, 2, 3},
		func(fs *descriptorpb.FeatureSet, v int32) {
			fs.FieldPresence = descriptorpb.FeatureSet_FieldPresence(v).Enum()
		},
		func(fs *descriptorpb.FeatureSet) int32 { return int32(fs.GetFieldPresence()) }},
	{"enum_type", []int32{0, 1, 2},
		func(fs *descriptorpb.FeatureSet, v int32) { fs.EnumType = descriptorpb.FeatureSet_EnumType(v).Enum() },
		func(fs *descriptorpb.FeatureSet) int32 { return int32(fs.GetEnumType()) }},
	{"repeated_field_encoding", []int32{0, 1, 2},
		func(fs *descriptorpb.FeatureSet, v int32) {
			fs.RepeatedFieldEncoding = descriptorpb.FeatureSet_RepeatedFieldEncoding(v).Enum()
		},
		func(fs *descriptorpb.FeatureSet) int32 { return int32(fs.GetRepeatedFieldEncoding()) }},
	{"utf8_validation", []int32{0, 2, 3},
		func(fs *descriptorpb.FeatureSet, v int32) {
			fs.Utf8Validation = descriptorpb.FeatureSet_Utf8Validation(v).Enum()
		},
		func(fs *descriptorpb.FeatureSet) int32 { return int32(fs.GetUtf8Validation()) }},
	{"message_encoding", []int32{0, 1, 2},
		func(fs *descriptorpb.FeatureSet, v int32) {
			fs.MessageEncoding = descriptorpb.FeatureSet_MessageEncoding(v).Enum()
		},
		func(fs *descriptorpb.FeatureSet) int32 { return int32(fs.GetMessageEncoding()) }},
}

// editionDefaults parses the embedded FeatureSetDefaults (trusted input) and
// returns the default FeatureSet for an edition.
func editionDefaults(ed descriptorpb.Edition) *descriptorpb.FeatureSet {
	var defs descriptorpb.FeatureSetDefaults
	if err := proto.Unmarshal(editiondefaults.Defaults, &defs); err != nil {
		panic(err)
	}
	var best *descriptorpb.FeatureSetDefaults_FeatureSetEditionDefault
	for _, d := range defs.Defaults {
		if d.GetEdition() <= ed && (best == nil || d.GetEdition() > best.GetEdition()) {
			best = d
		}
	}
	out := &descriptorpb.FeatureSet{}
	proto.Merge(out, best.GetFixedFeatures())
	proto.Merge(out, best.GetOverridableFeatures())
	return out
}

func fsWith(f feature, v int32) *descriptorpb.FeatureSet {
	if v == 0 {
		return nil
	}
	fs := &descriptorpb.FeatureSet{}
	f.set(fs, v)
	return fs
}

// build makes the two-level schema with the feature set to lv[0..3] at file,
// outer message, inner message and leaf (field or enum) level.
func build(ed descriptorpb.Edition, f feature, lv [4]int32, idx int) *descriptorpb.FileDescriptorProto {
	opt := descriptorpb.FieldDescriptorProto_LABEL_OPTIONAL
	rep := descriptorpb.FieldDescriptorProto_LABEL_REPEATED
	pkg := fmt.Sprintf("verif.feat%d", idx)
	q := "." + pkg
	fdp := &descriptorpb.FileDescriptorProto{Name: proto.String(fmt.Sprintf("verif/feat%d.proto", idx)), Package: proto.String(pkg), Syntax: proto.String("editions"), Edition: ed.Enum()}
	if fs := fsWith(f, lv[0]); fs != nil {
		fdp.Options = &descriptorpb.FileOptions{Features: fs}
	}
	fld := func(name string, num int32, t descriptorpb.FieldDescriptorProto_Type, l descriptorpb.FieldDescriptorProto_Label, tn string) *descriptorpb.FieldDescriptorProto {
		fp := &descriptorpb.FieldDescriptorProto{Name: proto.String(name), Number: proto.Int32(num), Type: t.Enum(), Label: l.Enum(), JsonName: proto.String(name)}
		if tn != "" {
			fp.TypeName = proto.String(tn)
		}
		// the leaf-level setting goes on the field(s) the feature is about
		relevant := map[string]string{"field_presence": "a", "repeated_field_encoding": "r nr", "utf8_validation": "s rs ns", "message_encoding": "m nm"}[f.name]
		if strings.Contains(" "+relevant+" ", " "+name+" ") {
			if fs := fsWith(f, lv[3]); fs != nil {
				fp.Options = &descriptorpb.FieldOptions{Features: fs}
			}
		}
		return fp
	}
	en := &descriptorpb.EnumDescriptorProto{Name: proto.String("En"), Value: []*descriptorpb.EnumValueDescriptorProto{{Name: proto.String("EN_ZERO"), Number: proto.Int32(0)}, {Name: proto.String("EN_ONE"), Number: proto.Int32(1)}}}
	if f.name == "enum_type" {
		if fs := fsWith(f, lv[3]); fs != nil {
			en.Options = &descriptorpb.EnumOptions{Features: fs}
		}
	}
	inner := &descriptorpb.DescriptorProto{Name: proto.String("Inner"), EnumType: []*descriptorpb.EnumDescriptorProto{en}, Field: []*descriptorpb.FieldDescriptorProto{
		fld("a", 1, descriptorpb.FieldDescriptorProto_TYPE_INT32, opt, ""),
		fld("r", 2, descriptorpb.FieldDescriptorProto_TYPE_INT32, rep, ""),
		fld("s", 3, descriptorpb.FieldDescriptorProto_TYPE_STRING, opt, ""),
		fld("m", 4, descriptorpb.FieldDescriptorProto_TYPE_MESSAGE, opt, q+".Leaf"),
		fld("e", 5, descriptorpb.FieldDescriptorProto_TYPE_ENUM, opt, q+".Outer.Inner.En"),
		fld("rs", 6, descriptorpb.FieldDescriptorProto_TYPE_STRING, rep, ""),
	}}
	if fs := fsWith(f, lv[2]); fs != nil {
		inner.Options = &descriptorpb.MessageOptions{Features: fs}
	}
	outer := &descriptorpb.DescriptorProto{Name: proto.String("Outer"), NestedType: []*descriptorpb.DescriptorProto{inner}}
	if fs := fsWith(f, lv[1]); fs != nil {
		outer.Options = &descriptorpb.MessageOptions{Features: fs}
	}
	leaf := &descriptorpb.DescriptorProto{Name: proto.String("Leaf"), Field: []*descriptorpb.FieldDescriptorProto{{Name: proto.String("x"), Number: proto.Int32(1), Type: descriptorpb.FieldDescriptorProto_TYPE_INT32.Enum(), Label: opt.Enum(), JsonName: proto.String("x")}}}
	// extensions declared at file level (inherit from the file only) and nested in Inner (inherit
	// from file, Outer, Inner; the leaf-level setting goes on the nested ones); extensions without
	// any options message must still inherit
	leaf.ExtensionRange = []*descriptorpb.DescriptorProto_ExtensionRange{{Start: proto.Int32(100), End: proto.Int32(200)}}
	ext := func(fp *descriptorpb.FieldDescriptorProto) *descriptorpb.FieldDescriptorProto {
		fp.Extendee = proto.String(q + ".Leaf")
		return fp
	}
	fdp.Extension = []*descriptorpb.FieldDescriptorProto{
		ext(fld("xr", 100, descriptorpb.FieldDescriptorProto_TYPE_INT32, rep, "")),
		ext(fld("xs", 101, descriptorpb.FieldDescriptorProto_TYPE_STRING, opt, "")),
		ext(fld("xm", 102, descriptorpb.FieldDescriptorProto_TYPE_MESSAGE, opt, q+".Leaf")),
	}
	inner.Extension = []*descriptorpb.FieldDescriptorProto{
		ext(fld("nr", 110, descriptorpb.FieldDescriptorProto_TYPE_INT32, rep, "")),
		ext(fld("ns", 111, descriptorpb.FieldDescriptorProto_TYPE_STRING, opt, "")),
		ext(fld("nm", 112, descriptorpb.FieldDescriptorProto_TYPE_MESSAGE, opt, q+".Leaf")),
	}
	fdp.MessageType = []*descriptorpb.DescriptorProto{outer, leaf}
	return fdp
}

type depRegistry struct{ local *protoregistry.Files }

func (r *depRegistry) FindFileByPath(p string) (protoreflect.FileDescriptor, error) {
	if fd, err := r.local.FindFileByPath(p); err == nil {
		return fd, nil
	}
	return protoregistry.GlobalFiles.FindFileByPath(p)
}
func (r *depRegistry) FindDescriptorByName(n protoreflect.FullName) (protoreflect.Descriptor, error) {
	if d, err := r.local.FindDescriptorByName(n); err == nil {
		return d, nil
	}
	return protoregistry.GlobalFiles.FindDescriptorByName(n)
}
func (r *depRegistry) RegisterFile(fd protoreflect.FileDescriptor) error {
	return r.local.RegisterFile(fd)
}

func observe(fd protoreflect.FileDescriptor) string {
	inner := fd.Messages().ByName("Outer").Messages().ByName("Inner")
	fs := inner.Fields()
	a, r, s, m := fs.ByName("a"), fs.ByName("r"), fs.ByName("s"), fs.ByName("m")
	en := inner.Enums().ByName("En")
	xs, ns := fd.Extensions(), inner.Extensions()
	return fmt.Sprintf("a.presence=%v a.card=%v r.packed=%v s.utf8=%v rs.utf8=%v m.kind=%v m.presence=%v En.closed=%v",
		a.HasPresence(), a.Cardinality(), r.IsPacked(), enforces(s), enforces(fs.ByName("rs")), m.Kind(), m.HasPresence(), en.IsClosed()) +
		fmt.Sprintf(" xr.packed=%v xs.utf8=%v xm.kind=%v nr.packed=%v ns.utf8=%v nm.kind=%v",
			xs.ByName("xr").IsPacked(), enforces(xs.ByName("xs")), xs.ByName("xm").Kind(),
			ns.ByName("nr").IsPacked(), enforces(ns.ByName("ns")), ns.ByName("nm").Kind())
}

// enforces observes UTF-8 enforcement behaviourally: Marshal of a dynamic message holding "\xff" in
// the field (or extension) fails iff the runtime validates it; the pseudo-internal accessor must agree.
func enforces(fd protoreflect.FieldDescriptor) string {
	m := dynamicpb.NewMessage(fd.ContainingMessage())
	tfd := fd
	if fd.IsExtension() {
		tfd = dynamicpb.NewExtensionType(fd).TypeDescriptor()
	}
	if fd.IsList() {
		l := m.NewField(tfd).List()
		l.Append(protoreflect.ValueOfString("\xff"))
		m.Set(tfd, protoreflect.ValueOfList(l))
	} else {
		m.Set(tfd, protoreflect.ValueOfString("\xff"))
	}
	_, err := proto.MarshalOptions{AllowPartial: true}.Marshal(m)
	_, terr := prototext.MarshalOptions{AllowPartial: true}.Marshal(m)
	in := protowire.AppendString(protowire.AppendTag(nil, fd.Number(), protowire.BytesType), "\xff")
	ts := &protoregistry.Types{}
	if fd.IsExtension() {
		ts.RegisterExtension(dynamicpb.NewExtensionType(fd))
	}
	uerr := proto.UnmarshalOptions{AllowPartial: true, Resolver: ts}.Unmarshal(in, dynamicpb.NewMessage(fd.ContainingMessage()))
	if acc := univ.ImplEnforceUTF8(fd); acc != (err != nil) || acc != (uerr != nil) || acc != (terr != nil) {
		return fmt.Sprintf("accessor=%v/marshal-rejects=%v/unmarshal-rejects=%v/text-rejects=%v", acc, err != nil, uerr != nil, terr != nil)
	}
	return fmt.Sprint(err != nil)
}

func expect(def *descriptorpb.FeatureSet, f feature, lv [4]int32) string {
	res := proto.Clone(def).(*descriptorpb.FeatureSet)
	// nearest explicit setting wins: apply from the outermost inwards
	for _, v := range lv {
		if v != 0 {
			f.set(res, v)
		}
	}
	// fields other than the varied feature keep the edition default; the leaf-level value of
	// enum_type sits on the enum, of the other features on each field
	presence := res.GetFieldPresence()
	card := "optional"
	if presence == descriptorpb.FeatureSet_LEGACY_REQUIRED {
		card = "required"
	}
	kind := "message"
	if res.GetMessageEncoding() == descriptorpb.FeatureSet_DELIMITED {
		kind = "group"
	}
	// file-level extensions see the edition default overridden by the file-level setting only
	top := proto.Clone(def).(*descriptorpb.FeatureSet)
	if lv[0] != 0 {
		f.set(top, lv[0])
	}
	kindOf := func(fs *descriptorpb.FeatureSet) string {
		if fs.GetMessageEncoding() == descriptorpb.FeatureSet_DELIMITED {
			return "group"
		}
		return "message"
	}
	return fmt.Sprintf("a.presence=%v a.card=%v r.packed=%v s.utf8=%v rs.utf8=%v m.kind=%v m.presence=%v En.closed=%v",
		presence != descriptorpb.FeatureSet_IMPLICIT, card, res.GetRepeatedFieldEncoding() == descriptorpb.FeatureSet_PACKED,
		res.GetUtf8Validation() == descriptorpb.FeatureSet_VERIFY, res.GetUtf8Validation() == descriptorpb.FeatureSet_VERIFY, kind, true, res.GetEnumType() == descriptorpb.FeatureSet_CLOSED) +
		fmt.Sprintf(" xr.packed=%v xs.utf8=%v xm.kind=%v nr.packed=%v ns.utf8=%v nm.kind=%v",
			top.GetRepeatedFieldEncoding() == descriptorpb.FeatureSet_PACKED, top.GetUtf8Validation() == descriptorpb.FeatureSet_VERIFY, kindOf(top),
			res.GetRepeatedFieldEncoding() == descriptorpb.FeatureSet_PACKED, res.GetUtf8Validation() == descriptorpb.FeatureSet_VERIFY, kindOf(res))
}

func run(c *core.Ctx) {
	c.Rule = "feature resolution: for editions 2023 and 2024 and each of the five core features, EVERY assignment of {unset, each value} at file, outer message, nested message and leaf (field; for enum_type the enum) level of a two-level schema (1160 schemas) is built through protodesc.NewFile and through the raw-descriptor builder; the resolved accessors (HasPresence, Cardinality, IsPacked, EnforceUTF8, Kind group-ness, IsClosed) must equal the edition default (parsed from the embedded FeatureSetDefaults) overridden by the nearest explicit setting, computed by an independent 10-line resolver. semantics: the paired generated messages TestAllTypesProto2 / ...Proto2Editions and TestAllTypesProto3 / ...Proto3Editions must behave identically on all messages with <=2 slots and all sequences of <=2 wire records: deterministic bytes, Unmarshal verdict, decoded content, JSON and text output"
	c.Exhaustive = true
	idx := 0
	var cases []func()
	for _, ed := range []descriptorpb.Edition{descriptorpb.Edition_EDITION_2023, descriptorpb.Edition_EDITION_2024} {
		def := editionDefaults(ed)
		for _, f := range features {
			f := f
			for _, v0 := range f.values {
				for _, v1 := range f.values {
					for _, v2 := range f.values {
						for _, v3 := range f.values {
							lv := [4]int32{v0, v1, v2, v3}
							if f.name == "field_presence" && (v0 == 3 || v1 == 3 || v2 == 3) {
								continue // LEGACY_REQUIRED is a per-field setting; as an inherited default it is not a valid schema
							}
							idx++
							i, ed := idx, ed
							cases = append(cases, func() {
								name := fmt.Sprintf("edition=%v feature=%s levels(file,outer,inner,leaf)=%v", ed, f.name, lv)
								c.Eval(1)
								c.Guard(func() string { return name }, func() {
									fdp := build(ed, f, lv, i)
									want := expect(def, f, lv)
									d, err := protodesc.NewFile(fdp, protoregistry.GlobalFiles)
									if err != nil {
										// implicit presence etc. can be invalid for some shapes (e.g. IMPLICIT on a message field): count and skip
										c.Outcome("schema-rejected:" + trim(err.Error()))
										return
									}
									if got := observe(d); got != want {
										c.Violation("protodesc resolves features differently from 'nearest explicit setting over edition default': "+name, map[string]any{"want": want, "got": got})
									}
									raw, _ := proto.MarshalOptions{Deterministic: true}.Marshal(fdp)
									out := filedesc.Builder{RawDescriptor: raw, FileRegistry: &depRegistry{local: &protoregistry.Files{}}, TypeResolver: protoregistry.GlobalTypes}.Build()
									if got := observe(out.File); got != want {
										c.Violation("raw-descriptor builder resolves features differently from 'nearest explicit setting over edition default': "+name, map[string]any{"want": want, "got": got})
									}
									c.Outcome("resolved")
								})
							})
						}
					}
				}
			}
		}
	}
	c.Par(len(cases), func(i int) { cases[i]() })
	c.DistinctN(int64(len(cases)))
	c.Bounds["feature_schemas"] = len(cases)
	c.Sample(map[string]any{"edition": "2023", "feature": "enum_type", "levels(file,outer,inner,enum)": []string{"CLOSED", "unset", "OPEN", "unset"}, "expect": "En open"})
	pairs(c)
}

func trim(s string) string {
	if i := strings.Index(s, ":"); i > 0 && i < 60 {
		s = s[i+1:]
	}
	if len(s) > 70 {
		s = s[:70]
	}
	return strings.TrimSpace(s)
}

func pairs(c *core.Ctx) {
	for _, pr := range [][2]string{{"goproto.proto.test.TestAllTypesProto2", "goproto.proto.test.TestAllTypesProto2Editions"}, {"goproto.proto.test.TestAllTypesProto3", "goproto.proto.test.TestAllTypesProto3Editions"}} {
		a, b := univ.Gen(pr[0]), univ.Gen(pr[1])
		rename := func(s string) string {
			// type and enum-value names differ between the twins by construction
			s = strings.ReplaceAll(strings.ReplaceAll(s, pr[1], "T"), pr[0], "T")
			s = strings.ReplaceAll(s, "_EDITIONS_", "_")
			return strings.ReplaceAll(s, "Editions", "")
		}
		alpha := univ.Alphabet(a.MT.Descriptor(), 2, univ.Opt{Thin: c.Quick(), NoExt: true})
		alphaB := univ.Alphabet(b.MT.Descriptor(), 2, univ.Opt{Thin: c.Quick(), NoExt: true})
		if len(alpha) != len(alphaB) {
			c.Violation(fmt.Sprintf("paired types %s / %s have different slot alphabets (%d vs %d): schemas differ", pr[0], pr[1], len(alpha), len(alphaB)), nil)
			continue
		}
		n := univ.TupleCount(len(alpha), 2)
		univ.ForTuples(c, len(alpha), 2, func(idx []int) {
			slots := univ.PickSlots(alpha, idx, nil)
			name := univ.Names(slots)
			c.Eval(1)
			c.Guard(func() string { return "pair " + pr[0] + " case=" + name }, func() {
				ma, mb := a.Build(slots), b.Build(slots)
				ba, ea := proto.MarshalOptions{Deterministic: true, AllowPartial: true}.Marshal(ma.Interface())
				bb, eb := proto.MarshalOptions{Deterministic: true, AllowPartial: true}.Marshal(mb.Interface())
				if (ea == nil) != (eb == nil) || string(ba) != string(bb) {
					c.Violation(fmt.Sprintf("paired types encode differently %s case=%s", pr[0], name), map[string]any{"a": fmt.Sprintf("%x", ba), "b": fmt.Sprintf("%x", bb)})
				}
				if univ.Snapshot(ma) != univ.Snapshot(mb) {
					c.Violation(fmt.Sprintf("paired types hold different content after the same sets %s case=%s", pr[0], name), nil)
				}
				ja, eja := protojson.MarshalOptions{AllowPartial: true}.Marshal(ma.Interface())
				jb, ejb := protojson.MarshalOptions{AllowPartial: true}.Marshal(mb.Interface())
				if (eja == nil) != (ejb == nil) || rename(string(ja)) != rename(string(jb)) {
					c.Violation(fmt.Sprintf("paired types differ in JSON %s case=%s", pr[0], name), map[string]any{"a": string(ja), "b": string(jb)})
				}
				ta, eta := prototext.MarshalOptions{AllowPartial: true}.Marshal(ma.Interface())
				tb, etb := prototext.MarshalOptions{AllowPartial: true}.Marshal(mb.Interface())
				if (eta == nil) != (etb == nil) || rename(string(ta)) != rename(string(tb)) {
					c.Violation(fmt.Sprintf("paired types differ in text %s case=%s", pr[0], name), map[string]any{"a": string(ta), "b": string(tb)})
				}
			})
		})
		c.DistinctN(int64(n))
		recs := univ.WireAlphabet(a.MT.Descriptor(), univ.WireOpt{Small: c.Quick(), Depth: 1})
		nw := univ.TupleCount(len(recs), 2)
		univ.ForTuples(c, len(recs), 2, func(idx []int) {
			in, name := univ.Concat(recs, idx)
			c.Eval(1)
			c.Guard(func() string { return "pair " + pr[0] + " wire=" + name }, func() {
				for _, strict := range []bool{false, true} {
					ma, ea := a.Unmarshal(in, proto.UnmarshalOptions{AllowPartial: !strict})
					mb, eb := b.Unmarshal(in, proto.UnmarshalOptions{AllowPartial: !strict})
					if (ea == nil) != (eb == nil) {
						c.Violation(fmt.Sprintf("paired types disagree on Unmarshal verdict (strict=%v) %s wire=%s", strict, pr[0], name), fmt.Sprint(ea, " / ", eb))
						return
					}
					if ea == nil && univ.Snapshot(ma) != univ.Snapshot(mb) {
						c.Violation(fmt.Sprintf("paired types decode differently %s wire=%s", pr[0], name), map[string]any{"a": univ.Snapshot(ma), "b": univ.Snapshot(mb)})
					}
				}
			})
		})
		c.DistinctN(int64(nw))
		c.Bounds["pair:"+pr[0]] = map[string]any{"messages": n, "wire_sequences": nw}
	}
}
