// Package refl holds the reflection-history checks C28 (protoreflect
// contract), C11 (presence discipline) and C12 (oneof exclusivity): every
// history of bounded length over an operation alphabet derived from the
// descriptor is applied in lock-step to a real message and to the abstract
// model (ref/refmsg); after every step all observers must agree.
package refl

import (
	"fmt"
	"google.golang.org/protobuf/reflect/protoregistry"
	"google.golang.org/protobuf/types/dynamicpb"
	"google.golang.org/protobuf/types/known/durationpb"
	"google.golang.org/protobuf/types/known/emptypb"
	"sort"

	"google.golang.org/protobuf/proto"
	"google.golang.org/protobuf/reflect/protoreflect"
	"google.golang.org/protobuf/verifmc/ref/refmsg"
	"google.golang.org/protobuf/verifmc/univ"
)

type sut struct {
	real  protoreflect.Message
	model *refmsg.Msg
	f     univ.Flavor
}

type op struct {
	name  string
	do    func(s *sut)
	group string // field (or oneof) the op belongs to
}

// coarseClass groups fields for choosing representatives.
func coarseClass(fd protoreflect.FieldDescriptor) string {
	k := "num"
	switch fd.Kind() {
	case protoreflect.StringKind:
		k = "string"
	case protoreflect.BytesKind:
		k = "bytes"
	case protoreflect.EnumKind:
		k = "enum"
	case protoreflect.MessageKind:
		k = "msg"
	case protoreflect.GroupKind:
		k = "group"
	case protoreflect.FloatKind, protoreflect.DoubleKind:
		k = "float"
	case protoreflect.BoolKind:
		k = "bool"
	}
	card := "one"
	if fd.IsList() {
		card = "list"
	} else if fd.IsMap() {
		card = "map:" + fd.MapValue().Kind().String()[:3]
		k = ""
	}
	oneof := fd.ContainingOneof() != nil && !fd.ContainingOneof().IsSynthetic()
	return fmt.Sprintf("%s/%s/pres=%v/oneof=%v/lazy=%v/ext=%v", k, card, fd.HasPresence(), oneof, univ.IsLazy(fd), fd.IsExtension())
}

// representatives picks one field per coarse class (all members of the first
// real oneof are kept so that exclusivity is exercised).
func representatives(md protoreflect.MessageDescriptor, withExt bool, oneofOnly bool) []protoreflect.FieldDescriptor {
	var out []protoreflect.FieldDescriptor
	seen := map[string]bool{}
	var fds []protoreflect.FieldDescriptor
	fds = append(fds, univ.SortedFields(md)...)
	if withExt {
		for _, xt := range univ.Extensions(md) {
			fds = append(fds, xt.TypeDescriptor())
		}
	}
	for _, fd := range fds {
		inOneof := fd.ContainingOneof() != nil && !fd.ContainingOneof().IsSynthetic()
		if oneofOnly {
			if inOneof {
				out = append(out, fd)
			}
			continue
		}
		c := coarseClass(fd)
		if inOneof {
			// keep every kind-class of member of each oneof
			c += fmt.Sprintf("/oneof#%d", fd.ContainingOneof().Index())
		}
		if !seen[c] {
			seen[c] = true
			out = append(out, fd)
		}
	}
	return out
}

func twoValues(fd protoreflect.FieldDescriptor) (zero, nonzero protoreflect.Value) {
	vals := univ.ScalarValues(fd, univ.Opt{Thin: true})
	zero = vals[0]
	nonzero = vals[len(vals)-1]
	switch fd.Kind() {
	case protoreflect.FloatKind:
		nonzero = protoreflect.ValueOfFloat32(1.5)
	case protoreflect.DoubleKind:
		nonzero = protoreflect.ValueOfFloat64(1.5)
	case protoreflect.BytesKind:
		zero = protoreflect.ValueOfBytes([]byte{})
		nonzero = protoreflect.ValueOfBytes([]byte("ab"))
	case protoreflect.StringKind:
		zero = protoreflect.ValueOfString("")
		nonzero = protoreflect.ValueOfString("a")
	case protoreflect.BoolKind:
		zero, nonzero = protoreflect.ValueOfBool(false), protoreflect.ValueOfBool(true)
	}
	return
}

func cp(v protoreflect.Value) protoreflect.Value {
	if b, ok := v.Interface().([]byte); ok {
		return protoreflect.ValueOfBytes(append([]byte{}, b...))
	}
	return v
}

func firstScalar(md protoreflect.MessageDescriptor) protoreflect.FieldDescriptor {
	for _, fd := range univ.SortedFields(md) {
		if fd.Message() == nil && !fd.IsList() && !fd.IsMap() && fd.ContainingOneof() == nil {
			return fd
		}
	}
	return nil
}

// realFD maps a descriptor onto the descriptor the flavor must be addressed
// with (dynamic messages need dynamic extension type descriptors).
func realFD(s *sut, fd protoreflect.FieldDescriptor) protoreflect.FieldDescriptor {
	if !fd.IsExtension() {
		return s.real.Descriptor().Fields().ByNumber(fd.Number())
	}
	xt, err := s.f.Res.FindExtensionByNumber(s.real.Descriptor().FullName(), fd.Number())
	if err != nil {
		panic(err)
	}
	return xt.TypeDescriptor()
}

// opsFor derives the operation alphabet for the given fields.
func opsFor(fds []protoreflect.FieldDescriptor, withUnknown bool, mergeOps bool) []op {
	var ops []op
	group := ""
	add := func(name string, do func(s *sut)) { ops = append(ops, op{name, do, group}) }
	for _, fd := range fds {
		fd := fd
		group = fdGroup(fd)
		n := fmt.Sprint(fd.Number())
		if fd.IsExtension() {
			n = "x" + n
		}
		switch {
		case fd.IsMap():
			keys := univ.MapKeys(fd.MapKey(), univ.Opt{})
			k1, k2 := keys[0], keys[1]
			vd := fd.MapValue()
			if vd.Message() != nil {
				inner := firstScalar(vd.Message())
				add(n+".map.Mutable(k1).set", func(s *sut) {
					rm := s.real.Mutable(realFD(s, fd)).Map().Mutable(k1).Message()
					mm := s.model.MapMutable(fd, k1)
					if inner != nil {
						_, v := twoValues(inner)
						rm.Set(rm.Descriptor().Fields().ByNumber(inner.Number()), cp(v))
						mm.Set(inner, v)
					}
				})
				add(n+".map.Set(k2,new)", func(s *sut) {
					mp := s.real.Mutable(realFD(s, fd)).Map()
					mp.Set(k2, mp.NewValue())
					s.model.MapSet(fd, k2, refmsg.Elem{M: refmsg.New(vd.Message())})
				})
			} else {
				z, v := twoValues(vd)
				add(n+".map.Set(k1,v)", func(s *sut) {
					s.real.Mutable(realFD(s, fd)).Map().Set(k1, cp(v))
					s.model.MapSet(fd, k1, refmsg.Elem{V: v})
				})
				add(n+".map.Set(k1,zero)", func(s *sut) {
					s.real.Mutable(realFD(s, fd)).Map().Set(k1, cp(z))
					s.model.MapSet(fd, k1, refmsg.Elem{V: z})
				})
				add(n+".map.Set(k2,v)", func(s *sut) {
					s.real.Mutable(realFD(s, fd)).Map().Set(k2, cp(v))
					s.model.MapSet(fd, k2, refmsg.Elem{V: v})
				})
			}
			add(n+".map.Clear(k1)", func(s *sut) {
				s.real.Mutable(realFD(s, fd)).Map().Clear(k1)
				s.model.MapClear(fd, k1)
			})
			add(n+".Clear", func(s *sut) { s.real.Clear(realFD(s, fd)); s.model.Clear(fd) })
		case fd.IsList():
			if fd.Message() != nil {
				inner := firstScalar(fd.Message())
				add(n+".list.AppendNew", func(s *sut) {
					l := s.real.Mutable(realFD(s, fd)).List()
					l.Append(l.NewElement())
					s.model.Append(fd, refmsg.Elem{M: refmsg.New(fd.Message())})
				})
				add(n+".list.AppendMutable.set", func(s *sut) {
					l := s.real.Mutable(realFD(s, fd)).List()
					rm := l.AppendMutable().Message()
					mm := refmsg.New(fd.Message())
					if inner != nil {
						_, v := twoValues(inner)
						rm.Set(rm.Descriptor().Fields().ByNumber(inner.Number()), cp(v))
						mm.Set(inner, v)
					}
					s.model.Append(fd, refmsg.Elem{M: mm})
				})
			} else {
				z, v := twoValues(fd)
				add(n+".list.Append(v)", func(s *sut) {
					s.real.Mutable(realFD(s, fd)).List().Append(cp(v))
					s.model.Append(fd, refmsg.Elem{V: v})
				})
				add(n+".list.Append(zero)", func(s *sut) {
					s.real.Mutable(realFD(s, fd)).List().Append(cp(z))
					s.model.Append(fd, refmsg.Elem{V: z})
				})
				add(n+".list.Set(0,v)", func(s *sut) {
					if s.model.ListLen(fd) == 0 {
						return
					}
					s.real.Mutable(realFD(s, fd)).List().Set(0, cp(v))
					s.model.ListSet(fd, 0, refmsg.Elem{V: v})
				})
			}
			add(n+".list.Truncate(0)", func(s *sut) {
				s.real.Mutable(realFD(s, fd)).List().Truncate(0)
				s.model.Truncate(fd, 0)
			})
			add(n+".list.Truncate(len-1)", func(s *sut) {
				if l := s.model.ListLen(fd); l > 0 {
					s.real.Mutable(realFD(s, fd)).List().Truncate(l - 1)
					s.model.Truncate(fd, l-1)
				}
			})
			add(n+".Clear", func(s *sut) { s.real.Clear(realFD(s, fd)); s.model.Clear(fd) })
		case fd.Message() != nil:
			inner := firstScalar(fd.Message())
			add(n+".Mutable.set", func(s *sut) {
				rm := s.real.Mutable(realFD(s, fd)).Message()
				mm := s.model.MutableMsg(fd)
				if inner != nil {
					_, v := twoValues(inner)
					rm.Set(rm.Descriptor().Fields().ByNumber(inner.Number()), cp(v))
					mm.Set(inner, v)
				}
			})
			add(n+".Mutable", func(s *sut) {
				s.real.Mutable(realFD(s, fd))
				s.model.MutableMsg(fd)
			})
			add(n+".Set(new)", func(s *sut) {
				rfd := realFD(s, fd)
				s.real.Set(rfd, s.real.NewField(rfd))
				s.model.SetMsg(fd, refmsg.New(fd.Message()))
			})
			add(n+".Set(invalid)", func(s *sut) {
				// the read-only view returned for an unpopulated message field must not be storable
				if s.model.Has(fd) {
					return
				}
				rfd := realFD(s, fd)
				inv := s.real.Get(rfd)
				func() {
					defer func() { recover() }()
					s.real.Set(rfd, inv)
				}()
			})
			add(n+".Set(message of another type)", func(s *sut) {
				// "Set panics if the value's type does not match the field": a message of
				// another descriptor - preferably one that shares the short name - must
				// never be stored
				rfd := realFD(s, fd)
				other := sameShortName(fd.Message())
				refused := func() (refused bool) {
					defer func() {
						if recover() != nil {
							refused = true
						}
					}()
					s.real.Set(rfd, protoreflect.ValueOfMessage(dynamicpb.NewMessage(other)))
					return false
				}()
				if !refused {
					panic(fmt.Sprintf("contract violated: Set(%s) accepted a message of type %s", fd.FullName(), other.FullName()))
				}
			})
			if fd.IsExtension() {
				add(n+".SetExtension(typed nil)", func(s *sut) {
					// proto.SetExtension with an invalid (typed nil) message clears the extension
					if s.f.Dynamic {
						return // dynamicpb extension types reject an invalid message in ValueOf (permitted: "panics if the type of v is invalid")
					}
					rfd := realFD(s, fd)
					xt := rfd.(protoreflect.ExtensionTypeDescriptor).Type()
					proto.SetExtension(s.real.Interface(), xt, xt.InterfaceOf(xt.Zero()))
					s.model.Clear(fd)
				})
			}
			add(n+".Mutable.clearinner", func(s *sut) {
				if !s.model.Has(fd) || inner == nil {
					return
				}
				rm := s.real.Mutable(realFD(s, fd)).Message()
				rm.Clear(rm.Descriptor().Fields().ByNumber(inner.Number()))
				s.model.MutableMsg(fd).Clear(inner)
			})
			add(n+".Clear", func(s *sut) { s.real.Clear(realFD(s, fd)); s.model.Clear(fd) })
		default:
			z, v := twoValues(fd)
			add(n+".Set(v)", func(s *sut) { s.real.Set(realFD(s, fd), cp(v)); s.model.Set(fd, v) })
			add(n+".Set(zero)", func(s *sut) { s.real.Set(realFD(s, fd), cp(z)); s.model.Set(fd, z) })
			add(n+".Clear", func(s *sut) { s.real.Clear(realFD(s, fd)); s.model.Clear(fd) })
			if fd.Kind() == protoreflect.FloatKind || fd.Kind() == protoreflect.DoubleKind {
				nz := protoreflect.ValueOfFloat64(negZero)
				if fd.Kind() == protoreflect.FloatKind {
					nz = protoreflect.ValueOfFloat32(float32(negZero))
				}
				add(n+".Set(-0)", func(s *sut) { s.real.Set(realFD(s, fd), nz); s.model.Set(fd, nz) })
			}
		}
		if mergeOps {
			// Merge from / Unmarshal-merge of a message holding just this field (C12)
			add(n+".MergeFromSingle", func(s *sut) {
				src := s.f.MT.New()
				sm := refmsg.New(s.model.MD)
				populate(src, sm, fd, s)
				proto.Merge(s.real.Interface(), src.Interface())
				s.model.Merge(sm)
			})
			add(n+".UnmarshalMergeSingle", func(s *sut) {
				src := s.f.MT.New()
				sm := refmsg.New(s.model.MD)
				populate(src, sm, fd, s)
				b, err := proto.MarshalOptions{AllowPartial: true}.Marshal(src.Interface())
				if err != nil {
					panic(err)
				}
				if err := (proto.UnmarshalOptions{AllowPartial: true, Merge: true, Resolver: s.f.Res}).Unmarshal(b, s.real.Interface()); err != nil {
					panic(err)
				}
				s.model.Merge(sm)
			})
		}
	}
	group = "unknown"
	if withUnknown {
		add("SetUnknown(rec)", func(s *sut) {
			s.real.SetUnknown(protoreflect.RawFields{0xc0, 0x3e, 0x07})
			s.model.Unknown = []byte{0xc0, 0x3e, 0x07}
		})
		add("SetUnknown(nil)", func(s *sut) { s.real.SetUnknown(nil); s.model.Unknown = nil })
	}
	return ops
}

func fdGroup(fd protoreflect.FieldDescriptor) string {
	if od := fd.ContainingOneof(); od != nil && !od.IsSynthetic() {
		return "oneof:" + string(od.Name())
	}
	if fd.IsExtension() {
		return fmt.Sprintf("x%d", fd.Number())
	}
	return fmt.Sprint(fd.Number())
}

var negZero = func() float64 { z := 0.0; return -z }()

// populate sets fd (to its non-zero value / a one-field submessage / one
// element / one entry) in both a real message and a model.
func populate(r protoreflect.Message, m *refmsg.Msg, fd protoreflect.FieldDescriptor, s *sut) {
	t := &sut{real: r, model: m, f: s.f}
	rfd := realFD(t, fd)
	switch {
	case fd.IsMap():
		k := univ.MapKeys(fd.MapKey(), univ.Opt{})[0]
		if fd.MapValue().Message() != nil {
			r.Mutable(rfd).Map().Mutable(k)
			m.MapMutable(fd, k)
		} else {
			_, v := twoValues(fd.MapValue())
			r.Mutable(rfd).Map().Set(k, cp(v))
			m.MapSet(fd, k, refmsg.Elem{V: v})
		}
	case fd.IsList():
		if fd.Message() != nil {
			l := r.Mutable(rfd).List()
			l.Append(l.NewElement())
			m.Append(fd, refmsg.Elem{M: refmsg.New(fd.Message())})
		} else {
			_, v := twoValues(fd)
			r.Mutable(rfd).List().Append(cp(v))
			m.Append(fd, refmsg.Elem{V: v})
		}
	case fd.Message() != nil:
		rm := r.Mutable(rfd).Message()
		mm := m.MutableMsg(fd)
		if inner := firstScalar(fd.Message()); inner != nil {
			// use a different inner field than Mutable.set when possible so that merging is visible
			_, v := twoValues(inner)
			rm.Set(rm.Descriptor().Fields().ByNumber(inner.Number()), cp(v))
			mm.Set(inner, v)
		}
	default:
		_, v := twoValues(fd)
		r.Set(rfd, cp(v))
		m.Set(fd, v)
	}
}

// sameShortName finds a registered message type with the same short name as md
// but another full name (else some unrelated message type).
func sameShortName(md protoreflect.MessageDescriptor) protoreflect.MessageDescriptor {
	var found protoreflect.MessageDescriptor
	var walk func(ms protoreflect.MessageDescriptors) bool
	walk = func(ms protoreflect.MessageDescriptors) bool {
		for i := 0; i < ms.Len(); i++ {
			m := ms.Get(i)
			if m.Name() == md.Name() && m.FullName() != md.FullName() && !m.IsMapEntry() {
				found = m
				return false
			}
			if !walk(m.Messages()) {
				return false
			}
		}
		return true
	}
	var files []protoreflect.FileDescriptor
	protoregistry.GlobalFiles.RangeFiles(func(fd protoreflect.FileDescriptor) bool { files = append(files, fd); return true })
	sort.Slice(files, func(i, j int) bool { return files[i].Path() < files[j].Path() })
	for _, fd := range files {
		if !walk(fd.Messages()) {
			break
		}
	}
	if found == nil {
		found = (&durationpb.Duration{}).ProtoReflect().Descriptor()
		if found.FullName() == md.FullName() {
			found = (&emptypb.Empty{}).ProtoReflect().Descriptor()
		}
	}
	return found
}
