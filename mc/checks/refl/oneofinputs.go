package refl

import (
	"fmt"
	"strings"

	"google.golang.org/protobuf/encoding/protojson"
	"google.golang.org/protobuf/encoding/protowire"
	"google.golang.org/protobuf/encoding/prototext"
	"google.golang.org/protobuf/proto"
	"google.golang.org/protobuf/reflect/protoreflect"
	"google.golang.org/protobuf/reflect/protoregistry"
	"google.golang.org/protobuf/verifmc/core"
	"google.golang.org/protobuf/verifmc/ref/refmsg"
	"google.golang.org/protobuf/verifmc/univ"
)

// oneofInputs: binary last-wins over all sequences of <=3 member records, and
// JSON/text rejection of documents naming two members of one oneof.
func oneofInputs(c *core.Ctx) {
	for _, name := range []string{"goproto.proto.test.TestAllTypes", "goproto.proto.test3.TestAllTypes", "opaque.goproto.proto.testeditions.TestAllTypes", "hybrid.goproto.proto.testeditions.TestAllTypes", "pb3.Oneofs", "goproto.proto.test.TestOneofWithRequired",
		// oneofs with several members of one Go type (string x7, int32 x2): the decoder must not confuse them
		"conformance.ConformanceRequest", "conformance.ConformanceResponse", "protobuf_test_messages.proto2.TestAllTypesProto2.ExtensionWithOneof",
		// oneofs with a google.protobuf.NullValue member, whose JSON form is the literal null
		"protobuf_test_messages.proto3.TestAllTypesProto3", "protobuf_test_messages.proto2.TestAllTypesProto2", "protobuf_test_messages.editions.proto3.TestAllTypesProto3"} {
		if _, err := protoregistry.GlobalTypes.FindMessageByName(protoreflect.FullName(name)); err != nil {
			c.Extra("missing_type_"+name, err.Error())
			continue
		}
		for _, f := range []univ.Flavor{univ.Gen(name), univ.Dyn(name)} {
			f := f
			md := f.MT.Descriptor()
			var members []protoreflect.FieldDescriptor
			for i := 0; i < md.Oneofs().Len(); i++ {
				od := md.Oneofs().Get(i)
				if od.IsSynthetic() {
					continue
				}
				for j := 0; j < od.Fields().Len(); j++ {
					members = append(members, od.Fields().Get(j))
				}
			}
			// single-member encodings / documents (two value variants for message members)
			type piece struct {
				fd         protoreflect.FieldDescriptor
				name       string
				wire       []byte
				json, text string
				model      *refmsg.Msg
				discard    bool // a JSON-only piece that needs DiscardUnknown (unknown enum name)
			}
			var pieces []piece
			for _, fd := range members {
				for variant := 0; variant < 2; variant++ {
					if variant == 1 && fd.Message() == nil {
						continue
					}
					src := f.MT.New()
					sm := refmsg.New(md)
					populate(src, sm, fd, &sut{f: f})
					if variant == 1 {
						// empty submessage variant
						src = f.MT.New()
						sm = refmsg.New(md)
						src.Mutable(src.Descriptor().Fields().ByNumber(fd.Number()))
						sm.MutableMsg(fd)
					}
					b, err := proto.MarshalOptions{AllowPartial: true}.Marshal(src.Interface())
					if err != nil {
						continue
					}
					jb, _ := protojson.MarshalOptions{AllowPartial: true}.Marshal(src.Interface())
					tb, _ := prototext.MarshalOptions{AllowPartial: true}.Marshal(src.Interface())
					js := strings.TrimSpace(string(jb))
					js = strings.TrimSuffix(strings.TrimPrefix(js, "{"), "}")
					pieces = append(pieces, piece{fd, fmt.Sprintf("%d#%d", fd.Number(), variant), b, js, strings.TrimSpace(string(tb)), sm, false})
				}
			}
			// an enum member given by a name the enum does not have: with DiscardUnknown the
			// value is dropped, but the document still NAMES the member
			for _, fd := range members {
				if fd.Kind() == protoreflect.EnumKind {
					pieces = append(pieces, piece{fd: fd, name: fmt.Sprintf("%d#unknown-enum-name", fd.Number()), json: `"` + fd.JSONName() + `":"VERIF_NO_SUCH_VALUE"`, model: refmsg.New(md), discard: true})
				}
			}
			// a record that carries a member's field number with a wire type the member
			// cannot have: it is an unknown field and must leave the oneof alone
			for _, fd := range members {
				var rec []byte
				switch fd.Kind() {
				case protoreflect.StringKind, protoreflect.BytesKind, protoreflect.MessageKind:
					rec = protowire.AppendVarint(protowire.AppendTag(nil, fd.Number(), protowire.VarintType), 1)
				default:
					rec = protowire.AppendBytes(protowire.AppendTag(nil, fd.Number(), protowire.BytesType), []byte("x"))
					if fd.Kind() == protoreflect.GroupKind {
						rec = protowire.AppendFixed32(protowire.AppendTag(nil, fd.Number(), protowire.Fixed32Type), 7)
					}
				}
				if !fd.IsList() && (fd.Kind() == protoreflect.Fixed32Kind || fd.Kind() == protoreflect.Fixed64Kind || fd.Kind() == protoreflect.Sfixed32Kind || fd.Kind() == protoreflect.Sfixed64Kind || fd.Kind() == protoreflect.FloatKind || fd.Kind() == protoreflect.DoubleKind) {
					rec = protowire.AppendVarint(protowire.AppendTag(nil, fd.Number(), protowire.VarintType), 1)
				}
				sm := refmsg.New(md)
				sm.Unknown = append([]byte{}, rec...)
				pieces = append(pieces, piece{fd, fmt.Sprintf("%d#wrong-wire-type", fd.Number()), rec, "", "", sm, false})
			}
			n := len(pieces)
			univ.ForTuples(c, n, 3, func(idx []int) {
				if len(idx) == 0 {
					return
				}
				var wire []byte
				model := refmsg.New(md)
				var names []string
				for _, i := range idx {
					wire = append(wire, pieces[i].wire...)
					model.Merge(pieces[i].model)
					names = append(names, pieces[i].name)
				}
				sig := fmt.Sprintf("type=%s members=%v", f.Name, names)
				c.Eval(1)
				c.Guard(func() string { return "oneof-wire " + sig }, func() {
					for _, nolazy := range []bool{false, true} {
						m, err := f.Unmarshal(wire, proto.UnmarshalOptions{AllowPartial: true, NoLazyDecoding: nolazy})
						if err != nil {
							c.Violation("binary decode of oneof member sequence fails "+sig, err.Error())
							return
						}
						if got, want := univ.Snapshot(m), model.Snapshot(); got != want {
							c.Violation(fmt.Sprintf("binary last-member-wins violated %s nolazy=%v", sig, nolazy), map[string]any{"got": got, "want": want})
						}
					}
				})
				if len(idx) != 2 {
					return
				}
				a, b := pieces[idx[0]], pieces[idx[1]]
				if a.fd.ContainingOneof() != b.fd.ContainingOneof() || a.json == "" || b.json == "" {
					return
				}
				// JSON / text documents naming two members of one oneof (or one member twice)
				jdoc := "{" + a.json + "," + b.json + "}"
				m := f.MT.New()
				if err := (protojson.UnmarshalOptions{AllowPartial: true, Resolver: res(f), DiscardUnknown: a.discard || b.discard}).Unmarshal([]byte(jdoc), m.Interface()); err == nil {
					c.Violation("protojson accepts two members of one oneof "+sig, jdoc)
				}
				if a.text == "" || b.text == "" {
					return
				}
				tdoc := a.text + "\n" + b.text
				m = f.MT.New()
				if err := (prototext.UnmarshalOptions{AllowPartial: true, Resolver: res(f)}).Unmarshal([]byte(tdoc), m.Interface()); err == nil {
					c.Violation("prototext accepts two members of one oneof "+sig, tdoc)
				}
			})
			c.DistinctN(int64(univ.TupleCount(n, 3)))
		}
	}
}
