package refl

import (
	"fmt"
	"google.golang.org/protobuf/reflect/protodesc"
	"sort"
	"strings"

	"google.golang.org/protobuf/encoding/protojson"
	"google.golang.org/protobuf/encoding/prototext"
	"google.golang.org/protobuf/proto"
	"google.golang.org/protobuf/reflect/protoreflect"
	"google.golang.org/protobuf/reflect/protoregistry"
	"google.golang.org/protobuf/verifmc/core"
	"google.golang.org/protobuf/verifmc/ref/refmsg"
	"google.golang.org/protobuf/verifmc/ref/refwire"
	"google.golang.org/protobuf/verifmc/univ"
)

func init() {
	core.Register("C28", "model_checking", func(c *core.Ctx) { run(c, "C28") })
	core.Register("C11", "model_checking", func(c *core.Ctx) { run(c, "C11") })
	core.Register("C12", "model_checking", func(c *core.Ctx) { run(c, "C12") })
}

func fdKey(fd protoreflect.FieldDescriptor) string {
	if fd.IsExtension() {
		return fmt.Sprintf("x%d", fd.Number())
	}
	return fmt.Sprint(fd.Number())
}

// observe compares every observer of the real message with the model and
// returns the first disagreement.
func observe(s *sut, tracked []protoreflect.FieldDescriptor) string {
	if got, want := univ.Snapshot(s.real), s.model.Snapshot(); got != want {
		return fmt.Sprintf("content differs: real=%s model=%s", got, want)
	}
	for _, fd := range tracked {
		rfd := realFD(s, fd)
		if got, want := s.real.Has(rfd), s.model.Has(fd); got != want {
			return fmt.Sprintf("Has(%s)=%v model=%v", fdKey(fd), got, want)
		}
		v := s.real.Get(rfd)
		if !v.IsValid() {
			return fmt.Sprintf("Get(%s) returns an invalid Value", fdKey(fd))
		}
		if s.model.Has(fd) {
			continue // value covered by the snapshot
		}
		switch {
		case fd.IsList():
			// validity is not constrained: Mutable may have allocated an empty list earlier
			if v.List().Len() != 0 {
				return fmt.Sprintf("Get(%s) on unpopulated list: len=%d", fdKey(fd), v.List().Len())
			}
			// whatever its validity, the value is documented as a read-only view: a write through it
			// must panic or at least never reach the message
			func() {
				defer func() { recover() }()
				l := v.List()
				l.Append(l.NewElement())
			}()
			if s.real.Has(rfd) || s.real.Get(rfd).List().Len() != 0 {
				return fmt.Sprintf("a write through Get(%s) of an unpopulated list changed the message", fdKey(fd))
			}
		case fd.IsMap():
			if v.Map().Len() != 0 {
				return fmt.Sprintf("Get(%s) on unpopulated map: len=%d", fdKey(fd), v.Map().Len())
			}
			func() {
				defer func() { recover() }()
				mp := v.Map()
				mp.Set(fd.MapKey().Default().MapKey(), mp.NewValue())
			}()
			if s.real.Has(rfd) || s.real.Get(rfd).Map().Len() != 0 {
				return fmt.Sprintf("a write through Get(%s) of an unpopulated map changed the message", fdKey(fd))
			}
		case fd.Message() != nil:
			if v.Message().IsValid() {
				return fmt.Sprintf("Get(%s) on unpopulated message is valid (want read-only empty)", fdKey(fd))
			}
			n := 0
			v.Message().Range(func(protoreflect.FieldDescriptor, protoreflect.Value) bool { n++; return true })
			if n != 0 {
				return fmt.Sprintf("Get(%s) on unpopulated message is not empty", fdKey(fd))
			}
		default:
			d := fd.Default()
			if fd.Kind() == protoreflect.EnumKind && !d.IsValid() {
				d = protoreflect.ValueOfEnum(fd.Enum().Values().Get(0).Number())
			}
			got, want := univ.FormatValue(v), univ.FormatValue(d)
			if fd.Kind() == protoreflect.BytesKind {
				got, want = fmt.Sprintf("%x", v.Bytes()), fmt.Sprintf("%x", d.Bytes())
			}
			if got != want {
				return fmt.Sprintf("Get(%s) on unpopulated field = %s want default %s", fdKey(fd), got, want)
			}
		}
	}
	ods := s.real.Descriptor().Oneofs()
	for i := 0; i < ods.Len(); i++ {
		od := ods.Get(i)
		var got protoreflect.FieldNumber
		if w := s.real.WhichOneof(od); w != nil {
			got = w.Number()
		}
		mod := s.model.MD.Oneofs().Get(i)
		if want := s.model.WhichOneof(mod); got != want {
			return fmt.Sprintf("WhichOneof(%s)=%d model=%d", od.Name(), got, want)
		}
		cnt := 0
		for j := 0; j < od.Fields().Len(); j++ {
			if s.real.Has(od.Fields().Get(j)) {
				cnt++
			}
		}
		if cnt > 1 {
			return fmt.Sprintf("oneof %s has %d populated members", od.Name(), cnt)
		}
	}
	var visited []string
	s.real.Range(func(fd protoreflect.FieldDescriptor, v protoreflect.Value) bool {
		visited = append(visited, fdKey(fd))
		return true
	})
	sort.Strings(visited)
	if got, want := strings.Join(visited, ","), strings.Join(s.model.Populated(), ","); got != want {
		return fmt.Sprintf("Range visits [%s] model populated [%s]", got, want)
	}
	if got, want := fmt.Sprintf("%x", []byte(s.real.GetUnknown())), fmt.Sprintf("%x", s.model.Unknown); got != want {
		return fmt.Sprintf("GetUnknown=%s model=%s", got, want)
	}
	return ""
}

type resolver interface {
	protoregistry.MessageTypeResolver
	protoregistry.ExtensionTypeResolver
}

func res(f univ.Flavor) resolver {
	if f.Dynamic {
		return univ.DynTypes{}
	}
	return protoregistry.GlobalTypes
}

// codecs checks the C11 clauses: explicit presence survives the three codecs,
// implicit-presence zero values are never encoded.
func codecs(s *sut) string {
	want := s.model.Snapshot()
	b, err := proto.MarshalOptions{AllowPartial: true}.Marshal(s.real.Interface())
	if err != nil {
		return "Marshal: " + err.Error()
	}
	// no record for an unpopulated known field may appear on the wire
	recs, ok := refwire.Split(b)
	if !ok {
		return "Marshal output malformed"
	}
	for _, r := range recs {
		fd := s.model.MD.Fields().ByNumber(protoreflect.FieldNumber(r.Num))
		if fd != nil && !s.model.Has(fd) {
			return fmt.Sprintf("unpopulated field %d is encoded (bytes %x)", r.Num, b)
		}
	}
	m2, err := s.f.Unmarshal(b, proto.UnmarshalOptions{AllowPartial: true})
	if err != nil {
		return "binary round trip: " + err.Error()
	}
	if got := univ.Snapshot(m2); got != want {
		return fmt.Sprintf("binary round trip changes presence/content: got=%s want=%s", got, want)
	}
	// JSON and text drop unknown fields
	noUnk := *s.model
	noUnk.Unknown = nil
	wantNU := noUnk.Snapshot()
	jb, err := protojson.MarshalOptions{AllowPartial: true}.Marshal(s.real.Interface())
	if err != nil {
		return "protojson.Marshal: " + err.Error()
	}
	m3 := s.f.MT.New()
	if err := (protojson.UnmarshalOptions{AllowPartial: true, Resolver: res(s.f)}).Unmarshal(jb, m3.Interface()); err != nil {
		return "protojson round trip: " + err.Error() + " json=" + string(jb)
	}
	if got := univ.Snapshot(m3); got != wantNU {
		return fmt.Sprintf("JSON round trip changes presence/content: got=%s want=%s json=%s", got, wantNU, jb)
	}
	tb, err := prototext.MarshalOptions{AllowPartial: true}.Marshal(s.real.Interface())
	if err != nil {
		return "prototext.Marshal: " + err.Error()
	}
	m4 := s.f.MT.New()
	if err := (prototext.UnmarshalOptions{AllowPartial: true, Resolver: res(s.f)}).Unmarshal(tb, m4.Interface()); err != nil {
		return "prototext round trip: " + err.Error()
	}
	if got := univ.Snapshot(m4); got != wantNU {
		return fmt.Sprintf("text round trip changes presence/content: got=%s want=%s text=%s", got, wantNU, tb)
	}
	return ""
}

type sys struct {
	name  string
	dyn   bool
	depth int
	md    protoreflect.MessageDescriptor // set for schemas that exist only dynamically
}

func systems(c *core.Ctx, which string) []sys {
	d := core.Pick(c, 3, 4)
	switch which {
	case "C12":
		var extra []sys
		for _, md := range univ.OneofPositionSchemas() {
			extra = append(extra, sys{name: string(md.FullName()), dyn: true, depth: d + 1, md: md})
		}
		return append(extra, []sys{
			{name: "goproto.proto.test.TestAllTypes", dyn: false, depth: d}, {name: "goproto.proto.test.TestAllTypes", dyn: true, depth: d},
			{name: "goproto.proto.test3.TestAllTypes", dyn: false, depth: d},
			{name: "goproto.proto.testeditions.TestAllTypes", dyn: false, depth: d},
			{name: "hybrid.goproto.proto.testeditions.TestAllTypes", dyn: false, depth: d},
			{name: "opaque.goproto.proto.testeditions.TestAllTypes", dyn: false, depth: d}, {name: "opaque.goproto.proto.testeditions.TestAllTypes", dyn: true, depth: d},
			{name: "opaque.goproto.proto.test3.TestAllTypes", dyn: false, depth: d},
			{name: "goproto.proto.test.TestOneofWithRequired", dyn: false, depth: d + 1},
			{name: "pb3.Oneofs", dyn: false, depth: d + 1}, {name: "pb3.Oneofs", dyn: true, depth: d + 1},
			{name: "pb2.Scalars", dyn: false, depth: d},
			{name: "pb2.IndirectRequired", dyn: true, depth: d + 1},
			{name: "goproto.proto.test.TestRequiredForeign", dyn: true, depth: d + 1},
		}...)
	case "C11":
		d2 := core.Pick(c, 2, 3)
		// dynamicpb over descriptors built by protodesc from schema sources: every presence class of
		// every syntax, incl. editions LEGACY_REQUIRED and IMPLICIT scalars (the model's presence comes
		// from the schema source, not from the descriptor under test)
		var built []sys
		for i, syn := range []univ.Syntax{univ.Proto2, univ.Proto3, univ.Ed2023} {
			fdp := univ.SchemaFile(fmt.Sprintf("verif/c11/s%d.proto", i), fmt.Sprintf("verif.c11.s%d", i), syn, univ.Shapes(syn, false))
			fd, err := protodesc.NewFile(fdp, protoregistry.GlobalFiles)
			if err != nil {
				panic(err)
			}
			built = append(built, sys{name: "protodesc-built " + string(syn) + " schema", dyn: true, depth: d2, md: fd.Messages().ByName("M")})
		}
		return append(built, []sys{
			{name: "goproto.proto.test.TestAllTypes", dyn: false, depth: d2}, {name: "goproto.proto.test.TestAllTypes", dyn: true, depth: d2},
			{name: "goproto.proto.test3.TestAllTypes", dyn: false, depth: d2}, {name: "goproto.proto.test3.TestAllTypes", dyn: true, depth: d2},
			{name: "goproto.proto.testeditions.TestAllTypes", dyn: false, depth: d2},
			{name: "hybrid.goproto.proto.testeditions.TestAllTypes", dyn: false, depth: d2},
			{name: "opaque.goproto.proto.testeditions.TestAllTypes", dyn: false, depth: d2},
			{name: "opaque.goproto.proto.test3.TestAllTypes", dyn: false, depth: d2},
			{name: "hybrid.goproto.proto.test3.TestAllTypes", dyn: false, depth: d2},
			{name: "pbeditions.ImplicitScalars", dyn: false, depth: d2 + 1},
			{name: "pb3.Scalars", dyn: false, depth: d2 + 1},
			{name: "pb3.OptionalScalars", dyn: false, depth: d2 + 1},
			{name: "opaque.lazy_tree.Node", dyn: false, depth: d2 + 1},
		}...)
	}
	return []sys{
		{name: "goproto.proto.testeditions.TestAllTypes", dyn: false, depth: d}, {name: "goproto.proto.testeditions.TestAllTypes", dyn: true, depth: d},
		{name: "hybrid.goproto.proto.testeditions.TestAllTypes", dyn: false, depth: d},
		{name: "opaque.goproto.proto.testeditions.TestAllTypes", dyn: false, depth: d},
		{name: "goproto.proto.test.TestAllTypes", dyn: false, depth: d},
		{name: "goproto.proto.test3.TestAllTypes", dyn: false, depth: d},
		{name: "goproto.proto.test.TestAllExtensions", dyn: false, depth: d}, {name: "goproto.proto.test.TestAllExtensions", dyn: true, depth: d},
		{name: "opaque.lazy_tree.Node", dyn: false, depth: d + 1}, {name: "hybrid.lazy_tree.Node", dyn: false, depth: d + 1},
		{name: "goproto.proto.test.OpaqueLazy", dyn: false, depth: d + 1},
	}
}

func run(c *core.Ctx, which string) {
	switch which {
	case "C28":
		c.Rule = "every history of <=D reflection operations (Set zero/non-zero/-0, Clear, Mutable, Set(new), Set of the invalid read-only view, proto.SetExtension with a typed nil, NewField, list Append/Set/Truncate/AppendMutable/NewElement, map Set/Clear/Mutable/NewValue, extension fields through their type descriptors, Get/SetUnknown) over one representative field per shape class is applied in lock-step to a real message (open, hybrid, opaque, dynamicpb) and to the abstract message model; after EVERY step: canonical content, Has and Get of every tracked field (defaults and read-only invalid empty composites when unpopulated), WhichOneof and member count of every oneof, the exact set visited by Range (once each) and GetUnknown must agree. No merging of states (hidden state such as stale pointers is what is being tested): a state is a history"
	case "C11":
		c.Rule = "histories of <=D Set(zero)/Set(non-zero)/Set(-0)/Clear/Mutable/list/map operations over one representative field per presence class (proto2 optional, proto3 implicit, proto3 optional, editions EXPLICIT/IMPLICIT/LEGACY_REQUIRED, repeated, map, oneof member) on real messages vs the model; after every step Has must equal the model's presence, and the message is round-tripped through the binary, JSON and text codecs: presence and content must survive, and no record of an unpopulated known field (e.g. an implicit-presence zero) may appear on the wire"
	case "C12":
		c.Rule = "histories of <=D operations over ALL members of every oneof (scalar, enum, bytes, string, message, group members): reflection Set/Mutable/Set(new)/Clear, proto.Merge from a single-member message, Unmarshal{Merge} of a single-member encoding; after every step at most one member Has, WhichOneof names it and content equals the model (last writer wins; same message member merges). Plus all wire sequences of <=3 member records, among them records that carry a member's number with a wire type the member cannot have (unknown field: the oneof stays as it was) (binary: last wins) and all JSON/text documents naming one or two members (two members, or one member twice, must be rejected)"
	}
	c.Exhaustive = true
	var out []map[string]any
	for _, sy := range systems(c, which) {
		if c.Expired() {
			c.Exhaustive = false
			break
		}
		var f univ.Flavor
		if sy.md != nil {
			f = univ.DynFlavor(sy.md)
		} else {
			if _, err := protoregistry.GlobalTypes.FindMessageByName(protoreflect.FullName(sy.name)); err != nil {
				c.Extra("missing_type_"+sy.name, err.Error())
				continue
			}
			f = univ.Gen(sy.name)
			if sy.dyn {
				f = univ.Dyn(sy.name)
			}
		}
		md := f.MT.Descriptor()
		fds := representatives(md, which == "C28", which == "C12")
		if which == "C11" {
			// presence classes only: drop message-typed duplicates beyond the first of each class (already done by class key)
		}
		if len(fds) == 0 {
			continue
		}
		ops := opsFor(fds, which == "C28", which == "C12")
		depth := sy.depth
		// bound the history count: reduce depth when the alphabet is large
		for pow(len(ops), depth) > core.Pick(c, 600_000, 12_000_000) && depth > 1 {
			depth--
		}
		total := univ.TupleCount(len(ops), depth)
		runHist := func(ops []op, idx []int) {
			if len(idx) == 0 {
				return
			}
			s := &sut{real: f.MT.New(), model: refmsg.New(md), f: f}
			hname := func(upto int) string {
				var parts []string
				for i := 0; i <= upto; i++ {
					parts = append(parts, ops[idx[i]].name)
				}
				return f.Name + ":[" + strings.Join(parts, " ; ") + "]"
			}
			c.Guard(func() string { return "history=" + hname(len(idx)-1) }, func() {
				for i, oi := range idx {
					ops[oi].do(s)
					if i < len(idx)-1 {
						continue // prefixes are checked when they are enumerated
					}
					c.Eval(1)
					c.States(1)
					c.Transitions(1)
					c.Traces(1)
					if d := observe(s, fds); d != "" {
						c.Violation(d+" history="+hname(i), nil)
						return
					}
					if which == "C11" {
						if d := codecs(s); d != "" {
							c.Violation(d+" history="+hname(i), nil)
							return
						}
					}
				}
			})
		}
		univ.ForTuples(c, len(ops), depth, func(idx []int) { runHist(ops, idx) })
		// focused histories: all operations on one field (or one oneof), two levels deeper
		groups := map[string][]op{}
		var gorder []string
		for _, o := range ops {
			if _, ok := groups[o.group]; !ok {
				gorder = append(gorder, o.group)
			}
			groups[o.group] = append(groups[o.group], o)
		}
		focused := 0
		for _, g := range gorder {
			gops := groups[g]
			fd := depth + 2
			for pow(len(gops), fd) > core.Pick(c, 60_000, 2_000_000) && fd > depth {
				fd--
			}
			if fd <= depth {
				continue
			}
			univ.ForTuples(c, len(gops), fd, func(idx []int) {
				if len(idx) > depth {
					runHist(gops, idx)
				}
			})
			focused += univ.TupleCount(len(gops), fd) - univ.TupleCount(len(gops), depth)
		}
		total += focused
		c.DistinctN(int64(total - 1))
		out = append(out, map[string]any{"type": f.Name, "fields": len(fds), "ops": len(ops), "depth": depth, "histories": total, "focused_per_field_histories": focused})
		c.Sample(map[string]any{"type": f.Name, "history": []string{ops[0].name, ops[len(ops)/2].name, ops[len(ops)-1].name}})
	}
	if which == "C12" {
		oneofInputs(c)
	}
	c.Bounds["systems"] = out
}

func pow(a, b int) int {
	r := 1
	for i := 0; i < b; i++ {
		r *= a
		if r > 1<<40 {
			return r
		}
	}
	return r
}
