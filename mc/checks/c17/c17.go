// Package c17: lazy decoding is observationally equivalent to eager decoding.
package c17

import (
	"bytes"
	"fmt"

	"google.golang.org/protobuf/encoding/protojson"
	"google.golang.org/protobuf/encoding/prototext"
	"google.golang.org/protobuf/proto"
	"google.golang.org/protobuf/reflect/protoreflect"
	"google.golang.org/protobuf/verifmc/core"
	"google.golang.org/protobuf/verifmc/univ"
)

func init() { core.Register("C17", "model_checking", run) }

// An op is applied to one twin and returns an observation string.
type op struct {
	name string
	do   func(m protoreflect.Message, f univ.Flavor) string
}

func msgFields(md protoreflect.MessageDescriptor) (lazy, plain []protoreflect.FieldDescriptor, scalar protoreflect.FieldDescriptor) {
	for _, fd := range univ.SortedFields(md) {
		switch {
		case fd.Message() != nil && !fd.IsList() && !fd.IsMap():
			if univ.IsLazy(fd) {
				lazy = append(lazy, fd)
			} else if len(plain) < 1 {
				plain = append(plain, fd)
			}
		case scalar == nil && fd.Kind() == protoreflect.Int32Kind && !fd.IsList() && fd.ContainingOneof() == nil:
			scalar = fd
		}
	}
	return
}

func guardObs(f func() string) (s string) {
	defer func() {
		if r := recover(); r != nil {
			s = fmt.Sprintf("PANIC: %v", r)
		}
	}()
	return f()
}

func opsFor(md protoreflect.MessageDescriptor, mergeInputs [][]byte) []op {
	lazy, plain, scalar := msgFields(md)
	var ops []op
	add := func(name string, do func(m protoreflect.Message, f univ.Flavor) string) {
		ops = append(ops, op{name, do})
	}
	msgs := append(append([]protoreflect.FieldDescriptor{}, lazy...), plain...)
	for _, fd := range msgs {
		fd := fd
		n := fd.Number()
		add(fmt.Sprintf("Get(%d)", n), func(m protoreflect.Message, f univ.Flavor) string {
			v := m.Get(fd).Message()
			return fmt.Sprintf("valid=%v %s", v.IsValid(), univ.Snapshot(v))
		})
		add(fmt.Sprintf("Has(%d)", n), func(m protoreflect.Message, f univ.Flavor) string { return fmt.Sprint(m.Has(fd)) })
		add(fmt.Sprintf("Clear(%d)", n), func(m protoreflect.Message, f univ.Flavor) string { m.Clear(fd); return "" })
		add(fmt.Sprintf("Mutable(%d).setfirst", n), func(m protoreflect.Message, f univ.Flavor) string {
			sub := m.Mutable(fd).Message()
			for _, sfd := range univ.SortedFields(sub.Descriptor()) {
				if sfd.Message() == nil && !sfd.IsList() && !sfd.IsMap() {
					vals := univ.ScalarValues(sfd, univ.Opt{Thin: true})
					sub.Set(sfd, vals[len(vals)-1])
					break
				}
			}
			return univ.Snapshot(sub)
		})
		add(fmt.Sprintf("Set(%d,new)", n), func(m protoreflect.Message, f univ.Flavor) string {
			m.Set(fd, m.NewField(fd))
			return ""
		})
	}
	if scalar != nil {
		add(fmt.Sprintf("Set(%d,7)", scalar.Number()), func(m protoreflect.Message, f univ.Flavor) string {
			m.Set(scalar, protoreflect.ValueOfInt32(7))
			return ""
		})
	}
	add("Size==len(Marshal)", func(m protoreflect.Message, f univ.Flavor) string {
		mo := proto.MarshalOptions{AllowPartial: true}
		sz := mo.Size(m.Interface())
		b, err := mo.Marshal(m.Interface())
		if err != nil {
			return "marshal error: " + err.Error()
		}
		if sz != len(b) {
			return fmt.Sprintf("SIZE MISMATCH size=%d len=%d", sz, len(b))
		}
		// the bytes must decode (eagerly) to a message with this twin's content
		m2, err := f.Unmarshal(b, proto.UnmarshalOptions{AllowPartial: true, NoLazyDecoding: true})
		if err != nil {
			return "own output rejected: " + err.Error()
		}
		return "redecoded=" + univ.Snapshot(m2)
	})
	add("MarshalDeterministic", func(m protoreflect.Message, f univ.Flavor) string {
		b, err := proto.MarshalOptions{AllowPartial: true, Deterministic: true}.Marshal(m.Interface())
		return fmt.Sprintf("%x err=%v", b, err != nil)
	})
	add("Clone", func(m protoreflect.Message, f univ.Flavor) string {
		return univ.Snapshot(proto.Clone(m.Interface()).ProtoReflect())
	})
	add("MergeIntoFresh", func(m protoreflect.Message, f univ.Flavor) string {
		d := f.MT.New()
		proto.Merge(d.Interface(), m.Interface())
		return univ.Snapshot(d)
	})
	add("CheckInitialized", func(m protoreflect.Message, f univ.Flavor) string {
		return fmt.Sprint(proto.CheckInitialized(m.Interface()) == nil)
	})
	add("MarshalStrict", func(m protoreflect.Message, f univ.Flavor) string {
		_, err := proto.MarshalOptions{Deterministic: true}.Marshal(m.Interface())
		return fmt.Sprint(err == nil)
	})
	add("protojson", func(m protoreflect.Message, f univ.Flavor) string {
		b, err := protojson.MarshalOptions{AllowPartial: true}.Marshal(m.Interface())
		return fmt.Sprintf("%s err=%v", b, err != nil)
	})
	add("prototext", func(m protoreflect.Message, f univ.Flavor) string {
		b, err := prototext.MarshalOptions{AllowPartial: true}.Marshal(m.Interface())
		return fmt.Sprintf("%s err=%v", b, err != nil)
	})
	add("Range", func(m protoreflect.Message, f univ.Flavor) string {
		n := 0
		m.Range(func(protoreflect.FieldDescriptor, protoreflect.Value) bool { n++; return true })
		return fmt.Sprint(n)
	})
	for i, w := range mergeInputs {
		w := w
		add(fmt.Sprintf("UnmarshalMerge(#%d)", i), func(m protoreflect.Message, f univ.Flavor) string {
			err := proto.UnmarshalOptions{AllowPartial: true, Merge: true, Resolver: f.Res}.Unmarshal(w, m.Interface())
			return fmt.Sprint(err == nil)
		})
		add(fmt.Sprintf("MergeFrom(lazy #%d)", i), func(m protoreflect.Message, f univ.Flavor) string {
			src, err := f.Unmarshal(w, proto.UnmarshalOptions{AllowPartial: true})
			if err != nil {
				return "src rejected"
			}
			proto.Merge(m.Interface(), src.Interface())
			return ""
		})
	}
	return ops
}

type plan struct {
	name    string
	wireN   int
	wireAll bool
	small   bool
	d1N     int // inputs of <=d1N records get every history of depth D
	depth   int
}

func plans(c *core.Ctx) []plan {
	n3 := core.Pick(c, 2, 3)
	return []plan{
		{name: "opaque.lazy_tree.Node", wireN: 3, small: true, d1N: core.Pick(c, 1, 2), depth: core.Pick(c, 2, 3)},
		{name: "hybrid.lazy_tree.Node", wireN: 2, small: true, d1N: 1, depth: 2},
		{name: "goproto.proto.test.OpaqueLazy", wireN: 3, small: true, d1N: core.Pick(c, 1, 2), depth: core.Pick(c, 2, 3)},
		{name: "goproto.proto.test.HybridLazy", wireN: n3, small: true, d1N: 1, depth: 2},
		{name: "goproto.proto.test.OpenLazy", wireN: 2, small: true, d1N: 1, depth: 2},
		{name: "opaque.goproto.proto.testeditions.TestAllTypes", wireN: core.Pick(c, 1, 2), small: true, d1N: 1, depth: core.Pick(c, 1, 2)},
		{name: "hybrid.goproto.proto.testeditions.TestAllTypes", wireN: core.Pick(c, 1, 2), small: true, d1N: 1, depth: 1},
		{name: "opaque.goproto.proto.testeditions.TestRequiredLazy", wireN: 3, wireAll: true, d1N: core.Pick(c, 1, 2), depth: 2},
		{name: "hybrid.goproto.proto.testeditions.TestRequiredLazy", wireN: 3, wireAll: true, d1N: 1, depth: 2},
		{name: "lazy_normalized_wire_test.FTop", wireN: n3, wireAll: true, d1N: core.Pick(c, 1, 2), depth: 2},
		{name: "lazy_extension_test.Holder", wireN: 2, d1N: 1, depth: 2},
	}
}

func run(c *core.Ctx) {
	c.Rule = "for every sequence of <=n wire records of each lazy-capable type (valid / empty / invalid-inside / wrong-wire-type / non-minimal / repeated contiguous and non-contiguous / out-of-order / interleaved with unknown records): a twin decoded lazily and a twin decoded with NoLazyDecoding must give the same Unmarshal verdict (with and without AllowPartial) and, when the strict decode succeeds, the same content; then every history of <=D operations from the access alphabet (Get/Has/Clear/Mutable/Set on lazy and plain message fields, scalar Set, Size+Marshal, deterministic Marshal, Clone, Merge into/from, CheckInitialized, strict Marshal, protojson, prototext, Range, Unmarshal-Merge) is applied to both twins in lock-step and every observation, proto.Equal(lazy,eager) and the snapshots must agree after every step (all inputs at depth 1, inputs of <=d1N records at depth D). A state is (input, history); every transition executes the real code on both twins"
	c.Exhaustive = true
	var planOut []map[string]any
	for _, p := range plans(c) {
		if c.Expired() {
			break
		}
		f := univ.Gen(p.name)
		md := f.MT.Descriptor()
		recs := univ.WireAlphabet(md, univ.WireOpt{AllFields: p.wireAll, Small: p.small, Depth: 1})
		// merge inputs: two representative valid encodings
		var mergeInputs [][]byte
		for _, r := range recs {
			if len(mergeInputs) < 2 && (len(r.Name) > 4) && (containsMsg(r.Name)) {
				mergeInputs = append(mergeInputs, r.B)
			}
		}
		ops := opsFor(md, mergeInputs)
		total := univ.TupleCount(len(recs), p.wireN)
		d1Count := univ.TupleCount(len(recs), p.d1N)
		var states, trans int64
		univ.ForTuples(c, len(recs), p.wireN, func(idx []int) {
			in, name := univ.Concat(recs, idx)
			// verdicts
			var lz, eg protoreflect.Message
			var e1, e2 error
			if c.Guard(func() string { return "unmarshal type=" + p.name + " input=" + name }, func() {
				lz, e1 = f.Unmarshal(in, proto.UnmarshalOptions{AllowPartial: true})
				eg, e2 = f.Unmarshal(in, proto.UnmarshalOptions{AllowPartial: true, NoLazyDecoding: true})
			}) {
				return
			}
			if (e1 == nil) != (e2 == nil) {
				c.Violation(fmt.Sprintf("verdict-differs lazy=%v eager=%v type=%s input=%s", e1 == nil, e2 == nil, p.name, name), fmt.Sprintf("%x", in))
				return
			}
			sl, s1 := f.Unmarshal(in, proto.UnmarshalOptions{})
			se, s2 := f.Unmarshal(in, proto.UnmarshalOptions{NoLazyDecoding: true})
			if (s1 == nil) != (s2 == nil) {
				c.Violation(fmt.Sprintf("strict-verdict-differs lazy=%v eager=%v type=%s input=%s", s1 == nil, s2 == nil, p.name, name), fmt.Sprintf("%x", in))
			} else if s1 == nil {
				// the strict decode takes other branches of the lazy decoder than the
				// AllowPartial one (required-field verdicts of the validator): same content too
				c.Guard(func() string { return "strict twins type=" + p.name + " input=" + name }, func() {
					bl, _ := proto.MarshalOptions{AllowPartial: true, Deterministic: true}.Marshal(sl.Interface())
					be, _ := proto.MarshalOptions{AllowPartial: true, Deterministic: true}.Marshal(se.Interface())
					rl, err := f.Unmarshal(bl, proto.UnmarshalOptions{AllowPartial: true, NoLazyDecoding: true})
					re, err2 := f.Unmarshal(be, proto.UnmarshalOptions{AllowPartial: true, NoLazyDecoding: true})
					if err != nil || err2 != nil || univ.Snapshot(rl) != univ.Snapshot(re) || univ.Snapshot(sl) != univ.Snapshot(se) || !proto.Equal(sl.Interface(), se.Interface()) {
						c.Violation(fmt.Sprintf("strict decode: lazy and eager twins differ in content type=%s input=%s", p.name, name), map[string]any{"lazy": univ.Snapshot(sl), "eager": univ.Snapshot(se), "lazy_bytes": fmt.Sprintf("%x", bl), "eager_bytes": fmt.Sprintf("%x", be)})
					}
				})
			}
			if e1 != nil {
				c.Outcome("rejected")
				return
			}
			// DiscardUnknown twins: same content, and the bytes produced before any access carry the same content
			c.Guard(func() string { return "discard type=" + p.name + " input=" + name }, func() {
				dl, e3 := f.Unmarshal(in, proto.UnmarshalOptions{AllowPartial: true, DiscardUnknown: true})
				de, e4 := f.Unmarshal(in, proto.UnmarshalOptions{AllowPartial: true, DiscardUnknown: true, NoLazyDecoding: true})
				if e3 != nil || e4 != nil {
					c.Violation(fmt.Sprintf("discard-verdict lazy=%v eager=%v type=%s input=%s", e3 == nil, e4 == nil, p.name, name), nil)
					return
				}
				bl, _ := proto.MarshalOptions{AllowPartial: true}.Marshal(dl.Interface())
				rl, err := f.Unmarshal(bl, proto.UnmarshalOptions{AllowPartial: true, NoLazyDecoding: true})
				if err != nil || univ.Snapshot(rl) != univ.Snapshot(de) {
					c.Violation(fmt.Sprintf("discard: lazy twin's Marshal output differs in content from eager twin type=%s input=%s", p.name, name), fmt.Sprintf("%x", bl))
				}
				if univ.Snapshot(dl) != univ.Snapshot(de) {
					c.Violation(fmt.Sprintf("discard: snapshots differ type=%s input=%s", p.name, name), nil)
				}
			})
			c.Outcome("decoded")
			_, _ = lz, eg
			depth := 1
			if len(idx) <= p.d1N {
				depth = p.depth
			}
			// enumerate all histories of length <= depth
			var hist []int
			var rec func()
			rec = func() {
				if len(hist) > 0 {
					st, tr := replay(c, f, p.name, in, name, ops, hist)
					states += st
					trans += tr
				}
				if len(hist) == depth {
					return
				}
				for oi := range ops {
					hist = append(hist, oi)
					rec()
					hist = hist[:len(hist)-1]
				}
			}
			rec()
		})
		c.DistinctN(states)
		planOut = append(planOut, map[string]any{"type": p.name, "wire_alphabet": len(recs), "inputs": total, "ops": len(ops), "depth_all_inputs": 1, "depth_small_inputs": p.depth, "small_inputs": d1Count})
		_, nm := univ.Concat(recs, []int{0, len(recs) / 2})
		c.Sample(map[string]any{"type": p.name, "input": nm, "history": []string{ops[0].name, ops[len(ops)/2].name}})
	}
	c.Bounds["plans"] = planOut
	c.Assume("Size and default-Marshal bytes are not compared between twins (a lazily held submessage keeps its original, possibly unmerged or non-minimal bytes); instead each twin must satisfy Size==len(Marshal) and its bytes must re-decode to its content")
}

func containsMsg(s string) bool {
	return bytes.Contains([]byte(s), []byte("msg{<"))
}

// replay applies history h to fresh twins, comparing after each step. Only the
// last step's comparison is new (prefixes were compared when they were
// enumerated), but all steps are compared: it is cheap and keeps replay simple.
func replay(c *core.Ctx, f univ.Flavor, tname string, in []byte, iname string, ops []op, h []int) (int64, int64) {
	lz, _ := f.Unmarshal(in, proto.UnmarshalOptions{AllowPartial: true})
	eg, _ := f.Unmarshal(in, proto.UnmarshalOptions{AllowPartial: true, NoLazyDecoding: true})
	c.Eval(1)
	c.States(1)
	c.Transitions(1)
	c.Traces(1)
	hname := func(upto int) string {
		s := "["
		for i := 0; i <= upto; i++ {
			if i > 0 {
				s += " ; "
			}
			s += ops[h[i]].name
		}
		return s + "]"
	}
	for i, oi := range h {
		o1 := guardObs(func() string { return ops[oi].do(lz, f) })
		o2 := guardObs(func() string { return ops[oi].do(eg, f) })
		if i < len(h)-1 {
			continue
		}
		if o1 != o2 {
			c.Violation(fmt.Sprintf("observation-differs op=%s type=%s input=%s history=%s", ops[oi].name, tname, iname, hname(i)), map[string]any{"lazy": o1, "eager": o2, "bytes": fmt.Sprintf("%x", in)})
			return 1, 1
		}
		if len(o1) > 5 && (o1[:5] == "PANIC" || o1[:5] == "SIZE ") {
			c.Violation(fmt.Sprintf("%.40s op=%s type=%s input=%s history=%s", o1, ops[oi].name, tname, iname, hname(i)), fmt.Sprintf("%x", in))
			return 1, 1
		}
		eq := guardObs(func() string {
			return fmt.Sprint(proto.Equal(lz.Interface(), eg.Interface()), proto.Equal(eg.Interface(), lz.Interface()))
		})
		if eq != "true true" {
			c.Violation(fmt.Sprintf("twins-not-Equal (%s) type=%s input=%s history=%s", eq, tname, iname, hname(i)), fmt.Sprintf("%x", in))
			return 1, 1
		}
		s1 := guardObs(func() string { return univ.Snapshot(lz) })
		s2 := guardObs(func() string { return univ.Snapshot(eg) })
		if s1 != s2 {
			c.Violation(fmt.Sprintf("snapshots-differ type=%s input=%s history=%s", tname, iname, hname(i)), map[string]any{"lazy": s1, "eager": s2})
		}
	}
	return 1, 1
}
