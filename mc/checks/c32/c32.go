// Package c32: protorange visits every populated value exactly once.
package c32

import (
	"fmt"
	"sort"
	"strings"
	"sync/atomic"

	"google.golang.org/protobuf/proto"
	"google.golang.org/protobuf/reflect/protopath"
	"google.golang.org/protobuf/reflect/protorange"
	"google.golang.org/protobuf/reflect/protoreflect"
	"google.golang.org/protobuf/reflect/protoregistry"
	"google.golang.org/protobuf/types/known/anypb"
	"google.golang.org/protobuf/types/known/wrapperspb"
	"google.golang.org/protobuf/verifmc/core"
	"google.golang.org/protobuf/verifmc/univ"
)

func init() { core.Register("C32", "model_checking", run) }

// reference traversal: the ordered list of visited paths (Stable order) with
// value digests.
type visit struct {
	path  string
	value string
}

func digest(v protoreflect.Value) string {
	switch x := v.Interface().(type) {
	case protoreflect.Message:
		return "msg" + univ.Snapshot(x)
	case protoreflect.List:
		return fmt.Sprintf("list(len=%d)", x.Len())
	case protoreflect.Map:
		return fmt.Sprintf("map(len=%d)", x.Len())
	}
	return univ.FormatValue(v)
}

func refWalk(path string, m protoreflect.Message, out *[]visit) {
	md := m.Descriptor()
	if md.FullName() == "google.protobuf.Any" {
		url := m.Get(md.Fields().ByNumber(1)).String()
		val := m.Get(md.Fields().ByNumber(2)).Bytes()
		if mt, err := protoregistry.GlobalTypes.FindMessageByURL(url); err == nil {
			em := mt.New()
			if err := (proto.UnmarshalOptions{AllowPartial: true}).Unmarshal(val, em.Interface()); err == nil {
				p := path + ".(" + string(em.Descriptor().FullName()) + ")"
				*out = append(*out, visit{p, digest(protoreflect.ValueOfMessage(em))})
				refWalk(p, em, out)
				return
			}
		}
	}
	for _, fd := range univ.SortedFields(md) {
		if !m.Has(fd) {
			continue
		}
		refField(path, fd, m.Get(fd), out)
	}
	var exts []protoreflect.FieldDescriptor
	m.Range(func(fd protoreflect.FieldDescriptor, _ protoreflect.Value) bool {
		if fd.IsExtension() {
			exts = append(exts, fd)
		}
		return true
	})
	sort.Slice(exts, func(i, j int) bool { return exts[i].Number() < exts[j].Number() })
	for _, fd := range exts {
		refField(path, fd, m.Get(fd), out)
	}
	if u := m.GetUnknown(); len(u) > 0 {
		*out = append(*out, visit{path + ".?", digest(protoreflect.ValueOfBytes(u))})
	}
}

func refField(path string, fd protoreflect.FieldDescriptor, v protoreflect.Value, out *[]visit) {
	p := path + "." + fd.TextName()
	if fd.IsExtension() {
		p = path + ".(" + string(fd.FullName()) + ")"
	}
	*out = append(*out, visit{p, digest(v)})
	switch {
	case fd.IsList():
		for i := 0; i < v.List().Len(); i++ {
			e := v.List().Get(i)
			ep := fmt.Sprintf("%s[%d]", p, i)
			*out = append(*out, visit{ep, digest(e)})
			if fd.Message() != nil {
				refWalk(ep, e.Message(), out)
			}
		}
	case fd.IsMap():
		var keys []protoreflect.MapKey
		v.Map().Range(func(k protoreflect.MapKey, _ protoreflect.Value) bool { keys = append(keys, k); return true })
		sort.Slice(keys, func(i, j int) bool { return keyLess(keys[i], keys[j]) })
		for _, k := range keys {
			e := v.Map().Get(k)
			ep := fmt.Sprintf("%s[%s]", p, keyString(k))
			*out = append(*out, visit{ep, digest(e)})
			if fd.MapValue().Message() != nil {
				refWalk(ep, e.Message(), out)
			}
		}
	case fd.Message() != nil:
		refWalk(p, v.Message(), out)
	}
}

func keyLess(a, b protoreflect.MapKey) bool {
	switch x := a.Interface().(type) {
	case bool:
		return !x && b.Bool()
	case int32:
		return x < int32(b.Int())
	case int64:
		return x < b.Int()
	case uint32:
		return x < uint32(b.Uint())
	case uint64:
		return x < b.Uint()
	case string:
		return x < b.String()
	}
	return false
}

func keyString(k protoreflect.MapKey) string {
	if s, ok := k.Interface().(string); ok {
		return fmt.Sprintf("%q", s)
	}
	return fmt.Sprint(k.Interface())
}

// applyStep recomputes the value of the last step from its parent value.
func applyStep(p protopath.Values) (protoreflect.Value, bool) {
	n := len(p.Path)
	if n < 2 {
		return protoreflect.Value{}, false
	}
	parent, step := p.Values[n-2], p.Path[n-1]
	switch step.Kind() {
	case protopath.FieldAccessStep:
		return parent.Message().Get(step.FieldDescriptor()), true
	case protopath.ListIndexStep:
		return parent.List().Get(step.ListIndex()), true
	case protopath.MapIndexStep:
		return parent.Map().Get(step.MapIndex()), true
	case protopath.UnknownAccessStep:
		return protoreflect.ValueOfBytes(parent.Message().GetUnknown()), true
	}
	return protoreflect.Value{}, false
}

type event struct {
	push bool
	path string
}

// traverse runs protorange with optional injection; returns events and the result error.
func traverse(m protoreflect.Message, stable bool, injPush, injPop int, inj error, onPush func(p protopath.Values)) (evs []event, err error, npush, npop int) {
	err = protorange.Options{Stable: stable}.Range(m,
		func(p protopath.Values) error {
			evs = append(evs, event{true, p.Path.String()})
			if onPush != nil {
				onPush(p)
			}
			npush++
			if npush-1 == injPush {
				return inj
			}
			return nil
		},
		func(p protopath.Values) error {
			evs = append(evs, event{false, p.Path.String()})
			npop++
			if npop-1 == injPop {
				return inj
			}
			return nil
		})
	return
}

func checkMessage(c *core.Ctx, name string, build func() protoreflect.Message, states, trans *atomic.Int64, inject bool) {
	m := build()
	var ref []visit
	rootName := "(" + string(m.Descriptor().FullName()) + ")"
	ref = append(ref, visit{rootName, digest(protoreflect.ValueOfMessage(m))})
	refWalk(rootName, m, &ref)
	refSet := map[string]int{}
	for _, v := range ref {
		refSet[v.path]++
	}
	for _, stable := range []bool{true, false} {
		sig := fmt.Sprintf("case=%s stable=%v", name, stable)
		var values []visit
		var stepErr string
		var evs []event
		var err error
		if c.Guard(func() string { return "protorange.Range panics " + sig }, func() {
			evs, err, _, _ = traverse(build(), stable, -1, -1, nil, func(p protopath.Values) {
				v := p.Index(-1).Value
				values = append(values, visit{p.Path.String(), digest(v)})
				if want, ok := applyStep(p); ok && digest(want) != digest(v) {
					stepErr = fmt.Sprintf("step value differs from applying the step to its parent at %s", p.Path.String())
				}
			})
		}) {
			continue
		}
		states.Add(1)
		trans.Add(int64(len(evs)))
		if err != nil {
			c.Violation("Range returns an error without injection "+sig, err.Error())
			continue
		}
		if stepErr != "" {
			c.Violation(stepErr+" "+sig, nil)
		}
		// balanced and nested
		var stack []string
		ok := true
		for _, e := range evs {
			if e.push {
				stack = append(stack, e.path)
			} else if len(stack) == 0 || stack[len(stack)-1] != e.path {
				ok = false
				break
			} else {
				stack = stack[:len(stack)-1]
			}
		}
		if !ok || len(stack) != 0 {
			c.Violation("push/pop not balanced or not properly nested "+sig, evs)
			continue
		}
		// every path a prefix-extension of its parent on the stack is implied by equal strings; visited multiset:
		got := map[string]int{}
		for _, v := range values {
			got[v.path]++
		}
		for p, n := range refSet {
			if got[p] != n {
				c.Violation(fmt.Sprintf("value at %s visited %d times, want %d %s", p, got[p], n, sig), nil)
			}
		}
		for p, n := range got {
			if refSet[p] == 0 {
				c.Violation(fmt.Sprintf("unexpected visit of %s (%d times) %s", p, n, sig), nil)
			}
		}
		if stable {
			for i := range ref {
				if i < len(values) && (ref[i].path != values[i].path || ref[i].value != values[i].value) {
					c.Violation(fmt.Sprintf("Stable order/value differs at visit #%d: got %s want %s %s", i, values[i].path, ref[i].path, sig), nil)
					break
				}
			}
		}
		if !stable || !inject {
			continue
		}
		// injections at every push index and every pop index
		npush := len(values)
		for _, inj := range []error{protorange.Break, protorange.Terminate} {
			for at := 0; at < npush; at++ {
				for _, onPop := range []bool{false, true} {
					ip, iq := at, -1
					if onPop {
						ip, iq = -1, at
					}
					var evs2 []event
					var err2 error
					isig := fmt.Sprintf("%s inject=%v at=%d onPop=%v", sig, inj == protorange.Break, at, onPop)
					if c.Guard(func() string { return "Range panics under injection " + isig }, func() {
						evs2, err2, _, _ = traverse(build(), true, ip, iq, inj, nil)
					}) {
						continue
					}
					states.Add(1)
					trans.Add(int64(len(evs2)))
					if err2 != nil {
						c.Violation("Break/Terminate leaks out of Range as an error "+isig, err2.Error())
					}
					// balanced
					var st []string
					bal := true
					pushCount := map[string]int{}
					var pushedAfter []string
					seenInj := false
					count := 0
					popCount := 0
					var injPath string
					for _, e := range evs2 {
						if e.push {
							if seenInj {
								pushedAfter = append(pushedAfter, e.path)
							}
							if !onPop && count == at {
								seenInj = true
								injPath = e.path
							}
							count++
							pushCount[e.path]++
							st = append(st, e.path)
						} else {
							if len(st) == 0 || st[len(st)-1] != e.path {
								bal = false
								break
							}
							st = st[:len(st)-1]
							if onPop && popCount == at {
								seenInj = true
								injPath = e.path
							}
							popCount++
						}
					}
					if !bal || len(st) != 0 {
						c.Violation("push/pop not balanced under injection "+isig, evs2)
						continue
					}
					for p, n := range pushCount {
						if n > 1 || refSet[p] == 0 {
							c.Violation(fmt.Sprintf("value %s pushed %d times under injection %s", p, n, isig), nil)
						}
					}
					if inj == protorange.Terminate {
						if len(pushedAfter) > 0 {
							c.Violation(fmt.Sprintf("push after Terminate: %v %s", pushedAfter, isig), nil)
						}
						continue
					}
					if onPop {
						continue
					}
					// Break at node x: no descendant of x is visited; everything outside the subtree of x's parent is still visited once.
					parent := parentPath(injPath)
					for _, p := range pushedAfter {
						if isDescendant(p, injPath) {
							c.Violation(fmt.Sprintf("descendant %s visited after Break at %s %s", p, injPath, isig), nil)
						}
					}
					for p := range refSet {
						if p == injPath || isDescendant(p, injPath) {
							continue
						}
						if parent != "" && (p == parent || isDescendant(p, parent)) {
							continue // later siblings of x: tolerated either way
						}
						if pushCount[p] != 1 {
							c.Violation(fmt.Sprintf("%s (outside the subtree of the parent of the Break point %s) visited %d times %s", p, injPath, pushCount[p], isig), nil)
						}
					}
				}
			}
		}
	}
}

func isDescendant(p, anc string) bool {
	return len(p) > len(anc) && strings.HasPrefix(p, anc) && (p[len(anc)] == '.' || p[len(anc)] == '[')
}

func parentPath(p string) string {
	// strip the last step: ".name", ".(full.name)", "[idx]", ".?"
	depth := 0
	for i := len(p) - 1; i > 0; i-- {
		switch p[i] {
		case ')', ']':
			depth++
		case '(':
			depth--
		case '[':
			depth--
			if depth == 0 {
				return p[:i]
			}
		case '.':
			if depth == 0 {
				return p[:i]
			}
		case '"':
			// skip quoted map key
			j := i - 1
			for j > 0 && p[j] != '"' {
				j--
			}
			i = j
		}
	}
	return ""
}

func run(c *core.Ctx) {
	c.Rule = "messages = all slot lists of length <=k over the slot alphabet of news.Article, test.TestAllTypes (thinned), pb2.Nests, pb2.Maps, Struct and TestAllExtensions (lists, maps, nested messages, unknown fields, extensions), plus Articles holding every list of <=2 Anys from {resolvable, nested resolvable, resolvable with a body lacking required fields (empty and nested), unresolvable URL, malformed body, empty}; for each, with Stable on and off: push/pop balanced and properly nested, the visited multiset equals an independent reference traversal exactly once each (Stable: also in the documented order), every step value equals applying the step to its parent value; then Break and Terminate are injected at EVERY push index and EVERY pop index: still balanced, nothing visited twice, Terminate => no further push, Break at x => no descendant of x visited and everything outside the subtree of x's parent still visited exactly once. A state is (message, option, injection point)"
	c.Exhaustive = true
	var states, trans atomic.Int64
	type plan struct {
		name   string
		k      int
		depth  int
		thin   bool
		inject bool
	}
	q := c.Quick()
	plans := []plan{
		{"google.golang.org.Article", 2, 3, q, true},
		{"goproto.proto.test.TestAllTypes", 1, 2, true, true},
		{"goproto.proto.test.TestAllTypes", 2, 1, true, !q},
		{"pb2.Nests", core.Pick(c, 2, 3), 3, true, true},
		{"pb2.Maps", 2, 2, q, true},
		{"google.protobuf.Struct", 2, 3, q, true},
		{"goproto.proto.test.TestAllExtensions", 2, 2, true, !q},
		{"opaque.lazy_tree.Node", 2, 3, true, !q},
	}
	var out []map[string]any
	for _, p := range plans {
		if c.Expired() {
			c.Exhaustive = false
			break
		}
		f := univ.Gen(p.name)
		alpha := univ.Alphabet(f.MT.Descriptor(), p.depth, univ.Opt{Thin: p.thin})
		if p.name == "goproto.proto.test.TestAllTypes" && p.depth == 1 {
			// pairs of list / map / unknown slots only
			var a2 []*univ.Slot
			for _, s := range alpha {
				if s.Op == univ.OpAppend || s.Op == univ.OpMapPut || s.Op == univ.OpUnknown || s.Op == univ.OpAppendMsg || s.Op == univ.OpMapMsg {
					a2 = append(a2, s)
				}
			}
			alpha = a2
		}
		n := univ.TupleCount(len(alpha), p.k)
		univ.ForTuples(c, len(alpha), p.k, func(idx []int) {
			slots := univ.PickSlots(alpha, idx, nil)
			c.Eval(1)
			checkMessage(c, p.name+univ.Names(slots), func() protoreflect.Message { return f.Build(slots) }, &states, &trans, p.inject)
		})
		c.DistinctN(int64(n))
		out = append(out, map[string]any{"type": p.name, "k": p.k, "messages": n})
	}
	// Any family
	art := univ.Gen("google.golang.org.Article")
	inner, _ := anypb.New(wrapperspb.String("x"))
	nestedAny, _ := anypb.New(inner)
	bin := univ.MT("google.golang.org.BinaryAttachment").New()
	bin.Set(bin.Descriptor().Fields().ByName("name"), protoreflect.ValueOfString("n"))
	bin.Set(bin.Descriptor().Fields().ByName("data"), protoreflect.ValueOfBytes([]byte{1, 2}))
	binAny, _ := anypb.New(bin.Interface())
	kv := univ.MT("google.golang.org.KeyValueAttachment").New()
	kv.Mutable(kv.Descriptor().Fields().ByName("data")).Map().Set(protoreflect.ValueOfString("k").MapKey(), protoreflect.ValueOfString("v"))
	kvAny, _ := anypb.New(kv.Interface())
	anys := []*anypb.Any{binAny, kvAny, inner, nestedAny,
		// resolvable bodies that lack required fields (a partial body is still a body)
		{TypeUrl: "type.googleapis.com/goproto.proto.test.TestRequired"},
		{TypeUrl: "type.googleapis.com/goproto.proto.test.TestRequiredForeign", Value: []byte{0x0a, 0x00, 0x12, 0x02, 0x08, 0x01}},
		{TypeUrl: "type.googleapis.com/no.such.Type", Value: []byte{8, 1}},
		{TypeUrl: "type.googleapis.com/google.golang.org.BinaryAttachment", Value: []byte{0x0a, 0x05, 1}},
		{},
	}
	var lists [][]int
	lists = append(lists, nil)
	for i := range anys {
		lists = append(lists, []int{i})
		for j := range anys {
			lists = append(lists, []int{i, j})
		}
	}
	c.Par(len(lists), func(li int) {
		l := lists[li]
		c.Eval(1)
		checkMessage(c, fmt.Sprintf("Article.attachments=anys%v", l), func() protoreflect.Message {
			m := art.MT.New()
			lst := m.Mutable(m.Descriptor().Fields().ByName("attachments")).List()
			for _, i := range l {
				lst.Append(protoreflect.ValueOfMessage(proto.Clone(anys[i]).ProtoReflect()))
			}
			m.Set(m.Descriptor().Fields().ByName("author"), protoreflect.ValueOfString("a"))
			return m
		}, &states, &trans, true)
	})
	c.DistinctN(int64(len(lists)))
	out = append(out, map[string]any{"type": "Article with Any lists", "messages": len(lists)})
	c.States(states.Load())
	c.Transitions(trans.Load())
	c.Traces(states.Load())
	c.Bounds["plans"] = out
	c.Sample(map[string]any{"message": "Article{attachments:[Any{BinaryAttachment}, Any{unresolvable}]}", "inject": "Break at push #3"})
	c.Assume("Break at x also skipping x's later siblings (breaking out of the parent's loop) is tolerated either way: the statement only says 'skips a subtree'")
	c.Assume("Break/Terminate returned from pop: only balance, no-double-visit and (Terminate) no-further-push are asserted")
}
