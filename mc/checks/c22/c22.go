// Package c22: JSON scalar values decode exactly.
package c22

import (
	"encoding/base64"
	"fmt"
	"math"
	"math/big"
	"strconv"
	"strings"
	"sync/atomic"

	"google.golang.org/protobuf/encoding/protojson"
	"google.golang.org/protobuf/reflect/protoreflect"
	"google.golang.org/protobuf/verifmc/core"
	"google.golang.org/protobuf/verifmc/ref/refjson"
	"google.golang.org/protobuf/verifmc/univ"
)

func init() { core.Register("C22", "exploration", run) }

type kind struct {
	json   string // JSON name in test3.TestAllTypes
	num    protoreflect.FieldNumber
	signed bool
	bits   int
	float  bool
}

var kinds = []kind{
	{"singularInt32", 81, true, 32, false}, {"singularInt64", 82, true, 64, false},
	{"singularUint32", 83, false, 32, false}, {"singularUint64", 84, false, 64, false},
	{"singularSint32", 85, true, 32, false}, {"singularSint64", 86, true, 64, false},
	{"singularFixed32", 87, false, 32, false}, {"singularFixed64", 88, false, 64, false},
	{"singularSfixed32", 89, true, 32, false}, {"singularSfixed64", 90, true, 64, false},
	{"singularFloat", 91, false, 32, true}, {"singularDouble", 92, false, 64, true},
}

// exact parses an RFC 8259 number literal into an exact rational.
func exact(lit string) (*big.Rat, bool) {
	if !refjson.Valid([]byte(lit)) || len(lit) == 0 || lit[0] == '"' || lit[0] == '{' || lit[0] == '[' || lit[0] == 't' || lit[0] == 'f' || lit[0] == 'n' {
		return nil, false
	}
	s := lit
	neg := false
	if s[0] == '-' {
		neg = true
		s = s[1:]
	}
	exp := 0
	if i := strings.IndexAny(s, "eE"); i >= 0 {
		e, err := strconv.Atoi(s[i+1:])
		if err != nil {
			// exponent too large for int: treat by sign
			if strings.HasPrefix(s[i+1:], "-") {
				e = -1 << 30
			} else {
				e = 1 << 30
			}
		}
		exp = e
		s = s[:i]
	}
	intp, frac := s, ""
	if i := strings.IndexByte(s, '.'); i >= 0 {
		intp, frac = s[:i], s[i+1:]
	}
	digits := new(big.Int)
	digits.SetString(intp+frac, 10)
	exp -= len(frac)
	r := new(big.Rat).SetInt(digits)
	if digits.Sign() != 0 {
		if exp > 5000 || exp < -5000 {
			// astronomically large / small: represent by saturating the exponent
			if exp > 0 {
				exp = 5000
			} else {
				exp = -5000
			}
		}
		p := new(big.Int).Exp(big.NewInt(10), big.NewInt(int64(abs(exp))), nil)
		if exp >= 0 {
			r.Mul(r, new(big.Rat).SetInt(p))
		} else {
			r.Quo(r, new(big.Rat).SetInt(p))
		}
	}
	if neg {
		r.Neg(r)
	}
	return r, true
}

func abs(x int) int {
	if x < 0 {
		return -x
	}
	return x
}

func intRange(k kind) (lo, hi *big.Int) {
	if k.signed {
		hi = new(big.Int).Lsh(big.NewInt(1), uint(k.bits-1))
		lo = new(big.Int).Neg(hi)
		hi.Sub(hi, big.NewInt(1))
		return
	}
	hi = new(big.Int).Lsh(big.NewInt(1), uint(k.bits))
	hi.Sub(hi, big.NewInt(1))
	return big.NewInt(0), hi
}

// checkLiteral feeds the literal (bare and quoted) to one kind and compares with the exact oracle.
func checkLiteral(c *core.Ctx, f univ.Flavor, k kind, lit string, quoted bool) {
	r, ok := exact(lit)
	doc := `{"` + k.json + `":` + lit + `}`
	if quoted {
		doc = `{"` + k.json + `":"` + lit + `"}`
	}
	m := f.MT.New()
	var err error
	if c.Guard(func() string { return "protojson.Unmarshal input=" + doc }, func() { err = protojson.Unmarshal([]byte(doc), m.Interface()) }) {
		return
	}
	accepted := err == nil
	fd := m.Descriptor().Fields().ByNumber(k.num)
	sig := func(cl string) string {
		return fmt.Sprintf("%s field=%s quoted=%v literal=%s", cl, k.json, quoted, lit)
	}
	if !ok {
		// not an RFC number: must be rejected, except the quoted float specials
		if quoted && k.float && (lit == "NaN" || lit == "Infinity" || lit == "-Infinity") {
			return
		}
		if accepted {
			c.Violation(sig("accepts a literal that is not a JSON number"), nil)
		}
		return
	}
	if k.float {
		want, perr := strconv.ParseFloat(lit, k.bits)
		rangeErr := perr != nil
		if accepted == rangeErr {
			c.Violation(sig(fmt.Sprintf("float accept=%v but representable=%v", accepted, !rangeErr)), nil)
			return
		}
		if accepted {
			got := m.Get(fd).Float()
			if k.bits == 32 {
				if math.Float32bits(float32(got)) != math.Float32bits(float32(want)) {
					c.Violation(sig(fmt.Sprintf("float32 value %x want correctly rounded %x", math.Float32bits(float32(got)), math.Float32bits(float32(want)))), nil)
				}
			} else if math.Float64bits(got) != math.Float64bits(want) && !(got == 0 && want == 0) {
				c.Violation(sig(fmt.Sprintf("float64 value %x want correctly rounded %x", math.Float64bits(got), math.Float64bits(want))), nil)
			}
			c.Outcome("float-accepted")
		}
		return
	}
	lo, hi := intRange(k)
	wantOK := r.IsInt() && r.Num().Cmp(lo) >= 0 && r.Num().Cmp(hi) <= 0
	if accepted != wantOK {
		c.Violation(sig(fmt.Sprintf("integer accept=%v but integral-and-in-range=%v", accepted, wantOK)), nil)
		return
	}
	if accepted {
		c.Outcome("int-accepted")
		var got *big.Int
		if k.signed {
			got = big.NewInt(m.Get(fd).Int())
		} else {
			got = new(big.Int).SetUint64(m.Get(fd).Uint())
		}
		if got.Cmp(r.Num()) != 0 {
			c.Violation(sig(fmt.Sprintf("integer value %s want %s", got, r.Num())), nil)
		}
	} else {
		c.Outcome("int-rejected")
	}
}

func run(c *core.Ctx) {
	c.Rule = "literals = every string of <=L characters over {- 0 1 2 9 . e E +} (bare and quoted), plus structured families around every type limit (limit-1, limit, limit+1 written with exponent / fraction shifts of -25..25 digits, e.g. 1e2, 100.0, 0.001e5), each decoded into each of the 12 numeric kinds of test3.TestAllTypes. Oracle (math/big exact rational): an integer field accepts iff the literal is an RFC 8259 number denoting an integer in range, and then holds exactly that integer; a float field accepts iff the value is in range and then holds the correctly rounded value (strconv). Bytes: every string of <=4 characters over the std+url base64 alphabets and '=': padded std/url base64 and unpadded URL-safe base64 must be accepted with the right value, strings invalid in every variant rejected. Enums by name and number; outputs: 64-bit integers as strings, bytes as padded std base64"
	c.Exhaustive = true
	f := univ.Gen("goproto.proto.test3.TestAllTypes")
	alpha := []byte("-0129.eE+")
	L := core.Pick(c, 6, 8)
	var n atomic.Int64
	// enumerate strings
	var first []string
	for _, a := range alpha {
		for _, b := range alpha {
			first = append(first, string([]byte{a, b}))
		}
	}
	for _, a := range alpha {
		for _, k := range kinds {
			checkLiteral(c, f, k, string(a), false)
			checkLiteral(c, f, k, string(a), true)
		}
	}
	c.Par(len(first), func(i int) {
		var cnt int64
		buf := []byte(first[i])
		var rec func()
		rec = func() {
			lit := string(buf)
			for _, k := range kinds {
				checkLiteral(c, f, k, lit, false)
				checkLiteral(c, f, k, lit, true)
			}
			cnt++
			if len(buf) == L {
				return
			}
			for _, a := range alpha {
				buf = append(buf, a)
				rec()
				buf = buf[:len(buf)-1]
			}
		}
		rec()
		n.Add(cnt)
	})
	c.Bounds["literal_maxlen"] = L
	// structured families around limits
	var fam []string
	limits := []string{"0", "1", "2147483647", "2147483648", "2147483649", "4294967295", "4294967296", "9223372036854775807", "9223372036854775808", "18446744073709551615", "18446744073709551616", "9007199254740993", "340282346638528859811704183484516925440", "16777217"}
	for _, lim := range limits {
		for _, sign := range []string{"", "-"} {
			for s := -25; s <= 25; s++ {
				switch {
				case s == 0:
					fam = append(fam, sign+lim, sign+lim+".0", sign+lim+".5", sign+lim+"e0", sign+lim+"E+0", sign+lim+"e-0")
				case s > 0:
					// shift digits right of the point and compensate with a positive exponent: d.ddd e+s' / 0.000ddd e+k
					fam = append(fam, fmt.Sprintf("%s0.%s%se%d", sign, strings.Repeat("0", s), lim, s+len(lim)))
					if s < len(lim) {
						fam = append(fam, fmt.Sprintf("%s%s.%se%d", sign, lim[:len(lim)-s], lim[len(lim)-s:], s))
					}
				default:
					// append zeros and compensate with a negative exponent
					fam = append(fam, fmt.Sprintf("%s%s%se%d", sign, lim, strings.Repeat("0", -s), s))
					fam = append(fam, fmt.Sprintf("%s%s%s.%se%d", sign, lim, strings.Repeat("0", -s), strings.Repeat("0", 3), s))
				}
			}
		}
	}
	// non-integral witnesses and huge exponents
	// float32 midpoints: the exact decimal expansion of the midpoint between two adjacent float32
	// values and its neighbours at distance 1e-(n+6); a decoder that rounds via float64 first gets
	// the neighbours of odd-mantissa values wrong (double rounding)
	for _, exp := range []uint32{100, 110, 120, 126, 127, 128, 130, 140, 150} {
		for _, mant := range []uint32{0, 1, 2, 3, 0x400000, 0x400001, 0x7ffffe, 0x7fffff} {
			v := math.Float32frombits(exp<<23 | mant)
			nx := math.Float32frombits(exp<<23 | mant + 1)
			mid := new(big.Rat).Add(new(big.Rat).SetFloat64(float64(v)), new(big.Rat).SetFloat64(float64(nx)))
			mid.Quo(mid, big.NewRat(2, 1))
			const digits = 90
			eps := new(big.Rat).SetFrac(big.NewInt(1), new(big.Int).Exp(big.NewInt(10), big.NewInt(digits-4), nil))
			for _, r := range []*big.Rat{mid, new(big.Rat).Add(mid, eps), new(big.Rat).Sub(mid, eps)} {
				lit := strings.TrimRight(strings.TrimRight(r.FloatString(digits), "0"), ".")
				fam = append(fam, lit, "-"+lit)
			}
		}
	}
	// the float32 overflow threshold 2^128-2^103 and its integer neighbours
	for _, lit := range []string{"340282356779733661637539395458142568447", "340282356779733661637539395458142568448", "340282356779733661637539395458142568449", "340282346638528859811704183484516925440", "340282356779733661637539395458142568447.9"} {
		fam = append(fam, lit, "-"+lit, lit+"e0")
	}
	fam = append(fam, "15e-1", "-25e-1", "1250e-2", "7500E-3", "21474836479e-1", "105e-2", "1e400", "-1e400", "1e-400", "1e39", "3.4028235e38", "3.4028236e38", "1.7976931348623157e308", "1.7976931348623159e308", "4.9e-324", "2.4e-324", "1e999999999999", "0e999999999999", "0.0e-999999999999")
	c.Par(len(fam), func(i int) {
		for _, k := range kinds {
			checkLiteral(c, f, k, fam[i], false)
			checkLiteral(c, f, k, fam[i], true)
		}
	})
	n.Add(int64(len(fam)))
	c.Bounds["structured_family"] = len(fam)
	// bytes
	b64 := []byte("AQz09+/-_=")
	var nb atomic.Int64
	var recB func(cur []byte)
	bfd := f.MT.Descriptor().Fields().ByName("singular_bytes")
	recB = func(cur []byte) {
		s := string(cur)
		doc := `{"singularBytes":"` + s + `"}`
		m := f.MT.New()
		err := protojson.Unmarshal([]byte(doc), m.Interface())
		std, e1 := base64.StdEncoding.DecodeString(s)
		url, e2 := base64.URLEncoding.DecodeString(s)
		_, e3 := base64.RawStdEncoding.DecodeString(s)
		rawURL, e4 := base64.RawURLEncoding.DecodeString(s)
		switch {
		case e1 != nil && e2 != nil && e4 == nil:
			// URL-safe base64 as it is usually written: without padding
			if err != nil {
				c.Violation("bytes: rejects valid unpadded URL-safe base64 input="+s, err.Error())
			} else if string(m.Get(bfd).Bytes()) != string(rawURL) {
				c.Violation("bytes: wrong value for unpadded URL-safe base64 input="+s, nil)
			}
		case e1 == nil || e2 == nil:
			want := std
			if e1 != nil {
				want = url
			}
			if err != nil {
				c.Violation("bytes: rejects valid padded base64 input="+s, err.Error())
			} else if string(m.Get(bfd).Bytes()) != string(want) {
				c.Violation("bytes: wrong value for base64 input="+s, nil)
			}
		case e3 != nil && e4 != nil:
			if err == nil {
				c.Violation("bytes: accepts invalid base64 input="+s, nil)
			}
		}
		nb.Add(1)
		if len(cur) == 4 {
			return
		}
		for _, ch := range b64 {
			recB(append(cur, ch))
		}
	}
	recB(nil)
	// enums
	enumCases := []struct {
		doc  string
		ok   bool
		want protoreflect.EnumNumber
		disc bool
	}{
		{`{"singularNestedEnum":"FOO"}`, true, 0, false}, {`{"singularNestedEnum":"BAR"}`, true, 1, false}, {`{"singularNestedEnum":"NEG"}`, true, -1, false},
		{`{"singularNestedEnum":1}`, true, 1, false}, {`{"singularNestedEnum":-1}`, true, -1, false}, {`{"singularNestedEnum":12345}`, true, 12345, false},
		{`{"singularNestedEnum":"NOSUCH"}`, false, 0, false}, {`{"singularNestedEnum":"NOSUCH"}`, true, 0, true},
		{`{"singularNestedEnum":1.5}`, false, 0, false}, {`{"singularNestedEnum":"1"}`, false, 0, false}, {`{"singularNestedEnum":2147483648}`, false, 0, false},
		{`{"singularNestedEnum":1e0}`, true, 1, false}, {`{"singularNestedEnum":true}`, false, 0, false},
	}
	efd := f.MT.Descriptor().Fields().ByName("singular_nested_enum")
	for _, ec := range enumCases {
		m := f.MT.New()
		err := protojson.UnmarshalOptions{DiscardUnknown: ec.disc}.Unmarshal([]byte(ec.doc), m.Interface())
		if (err == nil) != ec.ok {
			c.Violation(fmt.Sprintf("enum: accept=%v want=%v doc=%s discard=%v", err == nil, ec.ok, ec.doc, ec.disc), fmt.Sprint(err))
		} else if err == nil && m.Get(efd).Enum() != ec.want {
			c.Violation(fmt.Sprintf("enum: value=%d want=%d doc=%s", m.Get(efd).Enum(), ec.want, ec.doc), nil)
		}
	}
	// outputs
	for _, v := range []int64{0, 1, -1, math.MaxInt64, math.MinInt64, 1 << 53} {
		m := f.MT.New()
		m.Set(f.MT.Descriptor().Fields().ByName("singular_int64"), protoreflect.ValueOfInt64(v))
		m.Set(f.MT.Descriptor().Fields().ByName("singular_uint64"), protoreflect.ValueOfUint64(uint64(v)))
		m.Set(f.MT.Descriptor().Fields().ByName("singular_sfixed64"), protoreflect.ValueOfInt64(v))
		m.Set(bfd, protoreflect.ValueOfBytes([]byte{0xfb, 0xff, byte(v)}))
		out, _ := protojson.Marshal(m.Interface())
		s := strings.ReplaceAll(string(out), " ", "")
		if v != 0 && (!strings.Contains(s, fmt.Sprintf(`"singularInt64":"%d"`, v)) || !strings.Contains(s, fmt.Sprintf(`"singularUint64":"%d"`, uint64(v))) || !strings.Contains(s, fmt.Sprintf(`"singularSfixed64":"%d"`, v))) {
			c.Violation(fmt.Sprintf("64-bit integer not written as a JSON string v=%d", v), s)
		}
		if !strings.Contains(s, `"singularBytes":"`+base64.StdEncoding.EncodeToString([]byte{0xfb, 0xff, byte(v)})+`"`) {
			c.Violation("bytes not written as padded standard base64", s)
		}
	}
	c.Eval(n.Load()*24 + nb.Load())
	c.DistinctN(n.Load() + nb.Load())
	c.Bounds["base64_strings"] = nb.Load()
	c.Sample(map[string]any{"literal": "0.001e5", "field": "singularInt32", "expect": "100"})
	c.Sample(map[string]any{"literal": "0.000000000000000000001e21", "field": "singularInt64", "expect": "1"})
	c.Assume("quoted literals with surrounding spaces and unpadded base64 that uses '+' or '/' are tolerated either way (not covered by the statement)")
	c.Assume("float correct rounding is judged against strconv.ParseFloat (Go standard library, trusted)")
}
