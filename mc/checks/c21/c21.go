// Package c21: protojson speaks exactly JSON.
package c21

import (
	"encoding/json"
	"fmt"
	"strings"
	"sync/atomic"
	"unicode"

	"google.golang.org/protobuf/encoding/protojson"
	"google.golang.org/protobuf/proto"
	"google.golang.org/protobuf/reflect/protoreflect"
	"google.golang.org/protobuf/types/known/structpb"
	"google.golang.org/protobuf/types/known/wrapperspb"
	"google.golang.org/protobuf/verifmc/checks/c20"
	"google.golang.org/protobuf/verifmc/core"
	"google.golang.org/protobuf/verifmc/ref/refjson"
	"google.golang.org/protobuf/verifmc/univ"
)

func init() { core.Register("C21", "exploration", run) }

func validJSON(b []byte) bool { return json.Valid(b) && refjson.Valid(b) }

var targets = []struct {
	name string
	wrap func(x string) string
	msg  func() proto.Message
	opts protojson.UnmarshalOptions
}{
	{"Value:X", func(x string) string { return x }, func() proto.Message { return &structpb.Value{} }, protojson.UnmarshalOptions{}},
	{"ListValue:[X]", func(x string) string { return "[" + x + "]" }, func() proto.Message { return &structpb.ListValue{} }, protojson.UnmarshalOptions{}},
	{"Struct:{\"f\":X}", func(x string) string { return `{"f":` + x + `}` }, func() proto.Message { return &structpb.Struct{} }, protojson.UnmarshalOptions{}},
	{"test3{unknown:X}+DiscardUnknown", func(x string) string { return `{"nosuchfield":` + x + `}` }, func() proto.Message { return univ.MT("goproto.proto.test3.TestAllTypes").New().Interface() }, protojson.UnmarshalOptions{DiscardUnknown: true}},
	{"test3{singularInt32:X}", func(x string) string { return `{"singularInt32":` + x + `}` }, func() proto.Message { return univ.MT("goproto.proto.test3.TestAllTypes").New().Interface() }, protojson.UnmarshalOptions{}},
	{"test3{singularDouble:X}", func(x string) string { return `{"singularDouble":` + x + `}` }, func() proto.Message { return univ.MT("goproto.proto.test3.TestAllTypes").New().Interface() }, protojson.UnmarshalOptions{}},
	{"test3{singularString:X}", func(x string) string { return `{"singularString":` + x + `}` }, func() proto.Message { return univ.MT("goproto.proto.test3.TestAllTypes").New().Interface() }, protojson.UnmarshalOptions{}},
	{"test3{repeatedInt64:[X]}", func(x string) string { return `{"repeatedInt64":[` + x + `]}` }, func() proto.Message { return univ.MT("goproto.proto.test3.TestAllTypes").New().Interface() }, protojson.UnmarshalOptions{}},
	{"test3{mapStringString:{\"k\":X}}", func(x string) string { return `{"mapStringString":{"k":` + x + `}}` }, func() proto.Message { return univ.MT("goproto.proto.test3.TestAllTypes").New().Interface() }, protojson.UnmarshalOptions{}},
	{"DoubleValue:X", func(x string) string { return x }, func() proto.Message { return &wrapperspb.DoubleValue{} }, protojson.UnmarshalOptions{}},
}

// input checks one candidate text X in every target context.
func input(c *core.Ctx, x string, family string, tgtMask int) int64 {
	var n int64
	for ti, t := range targets {
		if tgtMask&(1<<ti) == 0 {
			continue
		}
		doc := t.wrap(x)
		n++
		m := t.msg()
		var err error
		panicked := c.Guard(func() string { return fmt.Sprintf("protojson.Unmarshal target=%s input=%q", t.name, doc) }, func() {
			err = t.opts.Unmarshal([]byte(doc), m)
		})
		if panicked {
			continue
		}
		if err == nil {
			c.Outcome("accepted")
			if !validJSON([]byte(doc)) {
				c.Violation(fmt.Sprintf("accepts invalid JSON target=%s family=%s input=%q", t.name, family, doc), nil)
			}
		}
	}
	return n
}

// enumerate all strings over alphabet up to maxLen, in parallel on the first symbol pair.
func strings2(c *core.Ctx, alphabet []string, maxLen int, f func(s string)) int64 {
	var total atomic.Int64
	f("")
	total.Add(1)
	type job struct{ a, b int }
	var jobs []job
	for a := range alphabet {
		f(alphabet[a])
		total.Add(1)
		for b := range alphabet {
			jobs = append(jobs, job{a, b})
		}
	}
	if maxLen < 2 {
		return total.Load()
	}
	c.Par(len(jobs), func(j int) {
		var cnt int64
		var rec func(cur string, l int)
		rec = func(cur string, l int) {
			f(cur)
			cnt++
			if l == maxLen {
				return
			}
			for _, s := range alphabet {
				rec(cur+s, l+1)
			}
		}
		rec(alphabet[jobs[j].a]+alphabet[jobs[j].b], 2)
		total.Add(cnt)
	})
	return total.Load()
}

func run(c *core.Ctx) {
	c.Rule = "outputs: every protojson.Marshal output of C20's enumeration (all option combinations) plus every string of <=2 symbols over an alphabet of all 32 control characters, DEL, quote, backslash, slash, 2/3/4-byte runes, U+2028 as StringValue, Struct key and Struct value must satisfy encoding/json.Valid AND an independent RFC 8259 recogniser, decode (encoding/json) to the original string, and Multiline/Indent output must decode to the same JSON value as compact output. inputs: every character of unicode.IsSpace (plus NUL, 0x1c-0x1f, zero-width space, word joiner, BOM and lone 0x85 / 0xa0 / 0xc2 bytes) inserted at every gap between the tokens of three well-formed documents; every sequence of <=N tokens over {{ }} [ ] , : \"a\" \"b\" 1 true null space} and every character string of <=L over the number alphabet {- + 0 1 9 . e E}, the literal alphabet {t r u e f a l s n} and the string alphabet {\" \\\\ u 0 d 8 n / 0x1f 0x80 e-acute}, plus 12800 strings made of an escaped high surrogate followed by every pair of introducer bytes from {\\\\ u \" x U d 0 0x01 LF space}, 8 hex tails and 4 endings, embedded as a value in 10 contexts (Value, ListValue, Struct, unknown field with DiscardUnknown, typed int/double/string/repeated/map fields, DoubleValue): whatever Unmarshal accepts must be valid JSON by both recognisers"
	c.Exhaustive = true
	var nOut atomic.Int64
	// ---- outputs
	type key struct {
		name string
		mask int
	}
	c20.OutputHook = func(c *core.Ctx, f univ.Flavor, name string, mask int, m protoreflect.Message, out []byte) {
		nOut.Add(1)
		if !validJSON(out) {
			c.Violation(fmt.Sprintf("Marshal output is not valid JSON opts=%d type=%s case=%s", mask, f.Name, name), string(out))
			return
		}
		if mask&3 != 0 {
			// compare with the compact output of the same message and remaining options
			o := c20OptionsCompact(mask)
			o.Resolver = nil
			cb, err := c20MarshalWith(f, m, mask&^3)
			if err == nil && !refjson.SameValue(out, cb) {
				c.Violation(fmt.Sprintf("Multiline/Indent output differs in JSON value from compact output opts=%d type=%s case=%s", mask, f.Name, name), map[string]any{"multiline": string(out), "compact": string(cb)})
			}
		}
	}
	c20.Run(c, true)
	c20.OutputHook = nil
	// string escaping family
	var syms []string
	for r := rune(0); r < 0x20; r++ {
		syms = append(syms, string(r))
	}
	syms = append(syms, "\x7f", `"`, `\`, "/", "a", "1", "f", "é", "€", "😀", " ", "\U000f0000", "<", "&")
	nStr := strings2(c, syms, 2, func(s string) {
		for _, multiline := range []bool{false, true} {
			mo := protojson.MarshalOptions{Multiline: multiline}
			sv, _ := structpb.NewStruct(map[string]any{s: s})
			for i, m := range []proto.Message{wrapperspb.String(s), sv} {
				out, err := mo.Marshal(m)
				if err != nil {
					c.Violation(fmt.Sprintf("Marshal of valid string fails kind=%d s=%q", i, s), err.Error())
					continue
				}
				if !validJSON(out) {
					c.Violation(fmt.Sprintf("string escaping yields invalid JSON kind=%d s=%q", i, s), string(out))
					continue
				}
				var v any
				if err := json.Unmarshal(out, &v); err != nil {
					c.Violation(fmt.Sprintf("encoding/json rejects output s=%q", s), string(out))
					continue
				}
				switch x := v.(type) {
				case string:
					if x != s {
						c.Violation(fmt.Sprintf("string escaping changes the string s=%q decoded=%q", s, x), string(out))
					}
				case map[string]any:
					if got, ok := x[s]; !ok || got != s {
						c.Violation(fmt.Sprintf("string escaping changes Struct key/value s=%q", s), string(out))
					}
				}
				// and protojson reads it back
				back := m.ProtoReflect().New().Interface()
				if err := protojson.Unmarshal(out, back); err != nil || !proto.Equal(m, back) {
					c.Violation(fmt.Sprintf("protojson does not read back its own string output s=%q", s), string(out))
				}
			}
		}
	})
	c.Eval(nOut.Load() + nStr*4)
	c.DistinctN(nStr)
	c.Extra("marshal_outputs_checked", nOut.Load())
	c.Extra("escaping_strings", nStr)
	// ---- inputs
	var nIn atomic.Int64
	all := 1<<len(targets) - 1
	tokAlpha := []string{"{", "}", "[", "]", ",", ":", `"a"`, `"b"`, "1", "true", "null", " "}
	nTok := strings2(c, tokAlpha, core.Pick(c, 5, 7), func(s string) { nIn.Add(input(c, s, "tokens", 0b0000001111)) })
	// whitespace: JSON allows exactly space, tab, LF and CR between tokens. Every
	// character some library calls "space" (and a few neighbours) is inserted at every
	// gap between the tokens of well-formed documents.
	var nWs int64
	{
		var spaces []string
		for r := rune(0); r <= 0x3000; r++ {
			if unicode.IsSpace(r) || r == 0 || r >= 0x1c && r <= 0x1f || r == 0x200b || r == 0x2060 {
				spaces = append(spaces, string(r))
			}
		}
		spaces = append(spaces, "\ufeff", "\x85", "\xa0", "\xc2")
		docs := [][]string{
			{"{", `"a"`, ":", "1", ",", `"b"`, ":", "[", "true", ",", "null", "]", "}"},
			{"[", "1", ",", "{", `"a"`, ":", `"b"`, "}", "]"},
			{"{", "}"},
		}
		var list []string
		for _, d := range docs {
			for gap := 0; gap <= len(d); gap++ {
				for _, sp := range spaces {
					list = append(list, strings.Join(d[:gap], "")+sp+strings.Join(d[gap:], ""))
				}
			}
		}
		c.Par(len(list), func(i int) { nIn.Add(input(c, list[i], "whitespace", 0b0000001111)) })
		nWs = int64(len(list))
		c.Extra("whitespace_inputs", nWs)
	}
	numAlpha := []string{"-", "+", "0", "1", "9", ".", "e", "E"}
	nNum := strings2(c, numAlpha, core.Pick(c, 6, 8), func(s string) { nIn.Add(input(c, s, "number", 0b1110111111)) })
	// the same number strings quoted (quoted numbers are accepted by numeric fields)
	nNumQ := strings2(c, numAlpha, core.Pick(c, 5, 6), func(s string) { nIn.Add(input(c, `"`+s+`"`, "quoted-number", 0b1010110000)) })
	litAlpha := []string{"t", "r", "u", "e", "f", "a", "l", "s", "n"}
	nLit := strings2(c, litAlpha, core.Pick(c, 5, 7), func(s string) { nIn.Add(input(c, s, "literal", 0b0000001111)) })
	strAlpha := []string{`"`, `\`, "u", "0", "d", "8", "n", "/", "\x1f", "\x80", "é"}
	nStrIn := strings2(c, strAlpha, core.Pick(c, 5, 6), func(s string) { nIn.Add(input(c, `"`+s, "string", 0b0101001111)) })
	// escaped surrogate pairs with every one- and two-byte mutation of the second escape's introducer
	var nSur int64
	{
		intro := []string{`\`, "u", `"`, "x", "U", "d", "0", "\x01", "\n", " "}
		var list []string
		for _, hi := range []string{`\ud83d`, `\uD83D`, `\udbff`, `\ud800`} {
			for _, b0 := range intro {
				for _, b1 := range intro {
					for _, hex := range []string{"de00", "DE00", "dc00", "dfff", "d800", "0041", "e000", "de0"} {
						for _, tail := range []string{`"`, "", `"x`, `x"`} {
							list = append(list, `"`+hi+b0+b1+hex+tail)
						}
					}
				}
			}
		}
		c.Par(len(list), func(i int) { nIn.Add(input(c, list[i], "surrogate-pair", 0b0101001111)) })
		nSur = int64(len(list))
	}
	_ = all
	c.Eval(nIn.Load())
	c.DistinctN(nTok + nNum + nNumQ + nLit + nStrIn + nSur + nWs)
	c.Bounds["surrogate_pair_strings"] = nSur
	c.Bounds["token_sequences"] = nTok
	c.Bounds["number_strings"] = nNum
	c.Bounds["quoted_number_strings"] = nNumQ
	c.Bounds["literal_strings"] = nLit
	c.Bounds["string_literal_strings"] = nStrIn
	c.Sample(map[string]any{"input": `{"f":1e}`, "target": "Struct"})
	c.Sample(map[string]any{"input": `[1,]`, "target": "ListValue"})
	c.Sample(map[string]any{"output_string": "\u000b", "as": "StringValue"})
	_ = strings.Contains
}

func c20OptionsCompact(mask int) protojson.MarshalOptions { return protojson.MarshalOptions{} }

func c20MarshalWith(f univ.Flavor, m protoreflect.Message, mask int) ([]byte, error) {
	o := protojson.MarshalOptions{AllowPartial: true}
	o.UseProtoNames = mask&4 != 0
	o.UseEnumNumbers = mask&8 != 0
	o.EmitUnpopulated = mask&16 != 0
	o.EmitDefaultValues = mask&32 != 0
	if f.Dynamic {
		o.Resolver = univ.DynTypes{}
	}
	return o.Marshal(m.Interface())
}
