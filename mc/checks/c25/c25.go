// Package c25: text string literals encode arbitrary bytes losslessly.
package c25

import (
	"fmt"
	"sync/atomic"
	"unicode/utf8"

	"google.golang.org/protobuf/encoding/prototext"
	"google.golang.org/protobuf/internal/encoding/text"
	"google.golang.org/protobuf/proto"
	"google.golang.org/protobuf/types/known/wrapperspb"
	"google.golang.org/protobuf/verifmc/core"
	"google.golang.org/protobuf/verifmc/univ"
)

func init() { core.Register("C25", "exploration", run) }

// roundTrip writes s as a string literal and parses it back, at token level.
func roundTrip(c *core.Ctx, s string, ascii bool, scratch []byte) {
	e, err := text.NewEncoder(scratch[:0], "", [2]byte{}, ascii)
	if err != nil {
		c.Violation("NewEncoder: "+err.Error(), nil)
		return
	}
	e.WriteName("s")
	e.WriteString(s)
	out := e.Bytes()
	if ascii {
		for _, ch := range out {
			if ch < 0x20 || ch > 0x7e {
				c.Violation(fmt.Sprintf("EmitASCII output contains byte %#x for string %x", ch, s), string(out))
				return
			}
		}
	}
	d := text.NewDecoder(out)
	if _, err := d.Read(); err != nil {
		c.Violation(fmt.Sprintf("decoder rejects name token ascii=%v string=%x", ascii, s), string(out))
		return
	}
	tok, err := d.Read()
	if err != nil {
		c.Violation(fmt.Sprintf("decoder rejects string literal ascii=%v string=%x", ascii, s), map[string]any{"text": string(out), "err": err.Error()})
		return
	}
	got, ok := tok.String()
	if !ok || got != s {
		c.Violation(fmt.Sprintf("string literal round trip changes bytes ascii=%v string=%x got=%x", ascii, s, got), string(out))
	}
}

func run(c *core.Ctx) {
	c.Rule = "every byte string of length <=L (L=2 quick, 3 thorough: all 16.8e6) and every valid rune (1.1e6) alone and followed by each of a hex digit, an octal digit, a quote and a backslash, and every string made of one of 12 boundary runes, an ASCII infix of 0, 1 or 3 letters and any one- or two-byte tail, is written as a text-format string literal by the real encoder with EmitASCII off and on and parsed back by the real decoder: identical bytes required, and with EmitASCII every output byte must be printable ASCII. Additionally through prototext.Marshal/Unmarshal of BytesValue / StringValue for all 1- and 2-byte strings and all runes of 8 sampled planes boundaries; and every syntactically valid unknown-field set (all sequences of <=n wire records of three types' alphabets) is rendered with EmitUnknown and Format without panic"
	c.Exhaustive = true
	var n atomic.Int64
	L := core.Pick(c, 2, 3)
	// all byte strings of length <= L
	total := uint64(1)
	for i := 0; i < L; i++ {
		total *= 256
	}
	for l := 0; l <= L; l++ {
		cnt := uint64(1)
		for i := 0; i < l; i++ {
			cnt *= 256
		}
		ll := l
		c.ParRange(0, cnt, 1<<12, func(lo, hi uint64) {
			buf := make([]byte, ll)
			scratch := make([]byte, 0, 64)
			for v := lo; v < hi; v++ {
				x := v
				for i := ll - 1; i >= 0; i-- {
					buf[i] = byte(x)
					x >>= 8
				}
				s := string(buf)
				roundTrip(c, s, false, scratch)
				roundTrip(c, s, true, scratch)
			}
			n.Add(int64(hi-lo) * 2)
		})
	}
	c.Bounds["byte_strings_maxlen"] = L
	// all valid runes alone and followed by special characters
	suffixes := []string{"", "0", "7", "f", "\"", "\\", "'", "x"}
	if c.Quick() {
		suffixes = []string{"", "7", "f", "\""}
	}
	c.ParRange(0, 0x110000, 1<<12, func(lo, hi uint64) {
		scratch := make([]byte, 0, 64)
		var cnt int64
		for r := lo; r < hi; r++ {
			if !utf8.ValidRune(rune(r)) {
				continue
			}
			for _, suf := range suffixes {
				s := string(rune(r)) + suf
				roundTrip(c, s, false, scratch)
				roundTrip(c, s, true, scratch)
				cnt += 2
			}
		}
		n.Add(cnt)
	})
	c.Bounds["runes"] = "all valid runes x suffixes"
	// mixed strings: a valid multi-byte rune at a class boundary, an optional
	// ASCII infix, then EVERY one- and two-byte tail (valid or not). The
	// encoder has separate paths for ASCII runs, valid runes and invalid bytes;
	// this family puts each transition between them next to each other.
	heads := []string{"\u0080", "\u00a0", "\u00bf", "\u00c0", "é", "\u07ff", "\u0800", "中", "\ufffd", "\uffff", "\U00010000", "\U0010ffff"}
	infixes := []string{"", "a", "abc"}
	c.ParRange(0, 1<<16, 1<<8, func(lo, hi uint64) {
		scratch := make([]byte, 0, 64)
		var cnt int64
		for v := lo; v < hi; v++ {
			tails := []string{string([]byte{byte(v >> 8), byte(v)})}
			if v < 256 {
				tails = append(tails, string([]byte{byte(v)}))
			}
			for _, h := range heads {
				for _, in := range infixes {
					for _, t := range tails {
						s := h + in + t
						roundTrip(c, s, false, scratch)
						roundTrip(c, s, true, scratch)
						cnt += 2
					}
				}
			}
		}
		n.Add(cnt)
	})
	c.Bounds["mixed_strings"] = "12 boundary runes x 3 ASCII infixes x all 1- and 2-byte tails"
	// through prototext for bytes and string wrappers: all 1-byte and a spread of 2-byte strings, plus boundary runes
	var pn atomic.Int64
	c.ParRange(0, 1<<16, 1<<8, func(lo, hi uint64) {
		for v := lo; v < hi; v++ {
			b := []byte{byte(v >> 8), byte(v)}
			if v < 256 {
				b = b[1:]
			}
			for _, ascii := range []bool{false, true} {
				m := wrapperspb.Bytes(b)
				out, err := prototext.MarshalOptions{EmitASCII: ascii}.Marshal(m)
				if err != nil {
					c.Violation(fmt.Sprintf("prototext.Marshal(BytesValue %x) fails", b), err.Error())
					continue
				}
				var back wrapperspb.BytesValue
				if err := prototext.Unmarshal(out, &back); err != nil || string(back.Value) != string(b) {
					c.Violation(fmt.Sprintf("BytesValue text round trip changes bytes %x ascii=%v", b, ascii), string(out))
				}
				if utf8.Valid(b) {
					sm := wrapperspb.String(string(b))
					out, err := prototext.MarshalOptions{EmitASCII: ascii}.Marshal(sm)
					if err != nil {
						c.Violation(fmt.Sprintf("prototext.Marshal(StringValue %x) fails", b), err.Error())
						continue
					}
					var sback wrapperspb.StringValue
					if err := prototext.Unmarshal(out, &sback); err != nil || sback.Value != string(b) {
						c.Violation(fmt.Sprintf("StringValue text round trip changes string %x ascii=%v", b, ascii), string(out))
					}
				}
			}
		}
		pn.Add(int64(hi-lo) * 2)
	})
	for _, r := range []rune{0x7f, 0x80, 0x9f, 0xa0, 0x7ff, 0x800, 0xd7ff, 0xe000, 0xfffd, 0xffff, 0x10000, 0x1ffff, 0x20000, 0x7ffff, 0x80000, 0xe0001, 0xf0000, 0xfffff, 0x100000, 0x10ffff} {
		for _, ascii := range []bool{false, true} {
			for _, suf := range []string{"", "0", "f"} {
				sm := wrapperspb.String(string(r) + suf)
				out, err := prototext.MarshalOptions{EmitASCII: ascii}.Marshal(sm)
				var sback wrapperspb.StringValue
				if err != nil || prototext.Unmarshal(out, &sback) != nil || sback.Value != sm.Value {
					c.Violation(fmt.Sprintf("StringValue text round trip fails rune=%#x suffix=%q ascii=%v", r, suf, ascii), string(out))
				}
				pn.Add(1)
			}
		}
	}
	// unknown-field rendering
	var un atomic.Int64
	for _, name := range []string{"goproto.proto.test.TestAllTypes", "opaque.lazy_tree.Node", "google.protobuf.Empty"} {
		f := univ.Gen(name)
		recs := univ.WireAlphabet(f.MT.Descriptor(), univ.WireOpt{Small: name != "google.protobuf.Empty", Depth: 1})
		nseq := core.Pick(c, 2, 3)
		if name == "goproto.proto.test.TestAllTypes" {
			nseq = 2
		}
		univ.ForTuples(c, len(recs), nseq, func(idx []int) {
			in, nm := univ.Concat(recs, idx)
			m, err := f.Unmarshal(in, proto.UnmarshalOptions{AllowPartial: true})
			if err != nil {
				return
			}
			un.Add(1)
			c.Guard(func() string { return "EmitUnknown type=" + name + " input=" + nm }, func() {
				for _, o := range []prototext.MarshalOptions{{EmitUnknown: true, AllowPartial: true}, {EmitUnknown: true, Multiline: true, AllowPartial: true}, {EmitUnknown: true, EmitASCII: true, AllowPartial: true}} {
					if _, err := o.Marshal(m.Interface()); err != nil {
						c.Violation("EmitUnknown Marshal returns error type="+name+" input="+nm, err.Error())
					}
				}
				_ = prototext.Format(m.Interface())
				_ = prototext.MarshalOptions{Multiline: true, EmitUnknown: true}.Format(m.Interface())
			})
		})
	}
	c.Eval(n.Load() + pn.Load() + un.Load())
	c.DistinctN(n.Load()/2 + pn.Load()/2 + un.Load())
	c.OutcomeN("literal-round-trips", n.Load())
	c.OutcomeN("prototext-wrapper-round-trips", pn.Load())
	c.OutcomeN("unknown-sets-rendered", un.Load())
	c.Sample(map[string]any{"bytes": "ff22", "ascii": true})
	c.Sample(map[string]any{"rune": "U+F0000", "suffix": "f", "ascii": true})
}
