package c07

import (
	"fmt"

	"google.golang.org/protobuf/encoding/protowire"
	"google.golang.org/protobuf/proto"
	"google.golang.org/protobuf/reflect/protoreflect"
	"google.golang.org/protobuf/verifmc/core"
	"google.golang.org/protobuf/verifmc/hist"
	"google.golang.org/protobuf/verifmc/univ"
)

// Merge histories. The pairwise family starts every Merge from freshly built
// operands; this family chains operations over three registers that hold
// messages of one type, so that a destination, a source and a clone may share
// whatever the implementation lets them share. The reference model is as
// boring as the property allows: the content of a register is the
// concatenation of the encodings that were merged into it.

type regs struct {
	m   [3]protoreflect.Message
	ref [3][]byte
}

func histories(c *core.Ctx, f univ.Flavor, depth int) map[string]any {
	md := f.MT.Descriptor()
	un := univ.UnusedNumbers(md)
	if len(un) < 3 {
		return nil
	}
	unk := func(i int, v uint64) []byte {
		return protowire.AppendVarint(protowire.AppendTag(nil, un[i], protowire.VarintType), v)
	}
	// records merged with UnmarshalOptions{Merge:true}: two unknown fields and
	// the first scalar / first repeated or bytes field of the type
	recs := []univ.Rec{{Name: "unkA", B: unk(0, 2)}, {Name: "unkB", B: unk(1, 3)}}
	known := univ.WireAlphabet(md, univ.WireOpt{Small: true, Depth: 1, NoGeneric: true})
	for _, r := range known {
		if _, err := f.Unmarshal(r.B, proto.UnmarshalOptions{AllowPartial: true}); err == nil {
			recs = append(recs, r)
			if len(recs) == 4 {
				break
			}
		}
	}
	initial := append(append(append([]byte{}, recs[len(recs)-1].B...), unk(2, 1)...), unk(0, 9)...)
	uo := proto.UnmarshalOptions{AllowPartial: true, Resolver: f.Res}
	sys := &hist.System[*regs]{
		Name: "merge-history(" + f.Name + ")",
		New: func() *regs {
			s := &regs{}
			for i := range s.m {
				s.m[i] = f.MT.New()
			}
			// register 0 starts from a decoded message (unknown fields, lazy
			// fields and spare capacity as the decoder leaves them)
			if err := uo.Unmarshal(initial, s.m[0].Interface()); err != nil {
				panic(err)
			}
			s.ref[0] = append([]byte{}, initial...)
			return s
		},
		Check: func(c *core.Ctx, s *regs, h string) {
			for i := range s.m {
				want, err := f.Unmarshal(s.ref[i], proto.UnmarshalOptions{AllowPartial: true})
				if err != nil {
					c.Violation(fmt.Sprintf("reference concatenation does not decode: %s", h), err.Error())
					return
				}
				eq(c, fmt.Sprintf("%s register=%d", h, i), want, s.m[i], "Unmarshal(concatenation of everything merged in)", "register")
			}
		},
	}
	for i := 0; i < 3; i++ {
		for j := 0; j < 3; j++ {
			if i == j {
				continue
			}
			i, j := i, j
			sys.Ops = append(sys.Ops, hist.Op[*regs]{Name: fmt.Sprintf("Merge(r%d<-r%d)", i, j), Do: func(c *core.Ctx, s *regs, h string) {
				proto.Merge(s.m[i].Interface(), s.m[j].Interface())
				s.ref[i] = append(append([]byte{}, s.ref[i]...), s.ref[j]...)
			}})
		}
	}
	for i := 0; i < 3; i++ {
		for _, r := range recs {
			i, r := i, r
			sys.Ops = append(sys.Ops, hist.Op[*regs]{Name: fmt.Sprintf("Unmarshal{Merge}(%s->r%d)", r.Name, i), Do: func(c *core.Ctx, s *regs, h string) {
				o := uo
				o.Merge = true
				if err := o.Unmarshal(r.B, s.m[i].Interface()); err != nil {
					c.Violation("merge-unmarshal-error "+h, err.Error())
				}
				s.ref[i] = append(append([]byte{}, s.ref[i]...), r.B...)
			}})
		}
	}
	for i := 0; i < 3; i++ {
		for j := 0; j < 3; j++ {
			if i == j {
				continue
			}
			i, j := i, j
			sys.Ops = append(sys.Ops, hist.Op[*regs]{Name: fmt.Sprintf("r%d=Clone(r%d)", i, j), Do: func(c *core.Ctx, s *regs, h string) {
				s.m[i] = proto.Clone(s.m[j].Interface()).ProtoReflect()
				s.ref[i] = append([]byte{}, s.ref[j]...)
			}})
		}
	}
	for i := 0; i < 3; i++ {
		i := i
		sys.Ops = append(sys.Ops, hist.Op[*regs]{Name: fmt.Sprintf("Reset(r%d)", i), Do: func(c *core.Ctx, s *regs, h string) {
			proto.Reset(s.m[i].Interface())
			s.ref[i] = nil
		}})
	}
	res := hist.BFS(c, sys, depth)
	return map[string]any{"type": f.Name, "registers": 3, "operations": len(sys.Ops), "depth": depth, "histories": res.Transitions, "merge_records": len(recs)}
}
