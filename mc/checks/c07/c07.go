// Package c07: Merge equals concatenated decoding.
package c07

import (
	"fmt"

	"google.golang.org/protobuf/proto"
	"google.golang.org/protobuf/reflect/protoreflect"
	"google.golang.org/protobuf/verifmc/core"
	"google.golang.org/protobuf/verifmc/univ"
)

func init() { core.Register("C07", "exploration", run) }

type plan struct {
	name   string
	ka, kb int
	depth  int
	thin   bool
	dyn    bool
	wire   bool
}

func plans(c *core.Ctx) []plan {
	q := c.Quick()
	p := []plan{
		{name: "goproto.proto.test.TestAllTypes", ka: 1, kb: 1, depth: 2, thin: q, dyn: true, wire: true},
		{name: "goproto.proto.test3.TestAllTypes", ka: 1, kb: 1, depth: 2, thin: q, dyn: true, wire: true},
		{name: "opaque.goproto.proto.testeditions.TestAllTypes", ka: 1, kb: 1, depth: 2, thin: q, wire: true},
		{name: "hybrid.goproto.proto.testeditions.TestAllTypes", ka: 1, kb: 1, depth: 2, thin: true},
		{name: "goproto.proto.testeditions.TestAllTypes", ka: 1, kb: 1, depth: 2, thin: true, dyn: !q},
		{name: "goproto.proto.test.TestAllExtensions", ka: 1, kb: 1, depth: 2, thin: q, dyn: true},
		{name: "opaque.lazy_tree.Node", ka: 2, kb: 1, depth: 3, thin: true, dyn: true, wire: true},
		{name: "opaque.lazy_tree.Node", ka: 1, kb: 2, depth: 3, thin: true},
		{name: "goproto.proto.test.TestRequiredLazy", ka: 2, kb: 2, depth: 2, wire: true},
		{name: "pb2.Nests", ka: 2, kb: 1, depth: 3, thin: true, dyn: true, wire: true},
		{name: "pb2.Nests", ka: 1, kb: 2, depth: 3, thin: true, dyn: true},
		{name: "pb2.Maps", ka: 2, kb: 2, depth: 2, thin: true, dyn: true},
		{name: "google.protobuf.Struct", ka: 2, kb: 2, depth: 3, thin: true, dyn: true},
		{name: "google.golang.org.Article", ka: 2, kb: 1, depth: 2, dyn: true},
		{name: "lazy_normalized_wire_test.FTop", ka: 2, kb: 2, depth: 2, wire: true},
		{name: "goproto.proto.test.OpaqueLazy", ka: 2, kb: 1, depth: 2, thin: true, wire: true},
	}
	if c.Thorough() {
		p = append(p,
			plan{name: "goproto.proto.test.TestAllTypes", ka: 2, kb: 1, depth: 2, thin: true, dyn: true},
			plan{name: "goproto.proto.test.TestAllTypes", ka: 1, kb: 2, depth: 2, thin: true},
			plan{name: "goproto.proto.test3.TestAllTypes", ka: 2, kb: 1, depth: 2, thin: true, dyn: true},
			plan{name: "opaque.goproto.proto.testeditions.TestAllTypes", ka: 2, kb: 1, depth: 2, thin: true},
			plan{name: "opaque.goproto.proto.testeditions.TestAllTypes", ka: 1, kb: 2, depth: 2, thin: true},
			plan{name: "opaque.lazy_tree.Node", ka: 2, kb: 2, depth: 3, thin: true, dyn: true},
			plan{name: "hybrid.goproto.proto.test3.TestAllTypes", ka: 1, kb: 1, depth: 2},
			plan{name: "pb2.Nests", ka: 2, kb: 2, depth: 3, thin: true, dyn: true},
		)
	}
	return p
}

func eq(c *core.Ctx, sig string, want, got protoreflect.Message, wantName, gotName string) {
	if !proto.Equal(want.Interface(), got.Interface()) {
		c.Violation(fmt.Sprintf("%s: %s !Equal %s", sig, gotName, wantName), map[string]any{wantName: univ.Snapshot(want), gotName: univ.Snapshot(got)})
		return
	}
	if a, b := univ.Snapshot(want), univ.Snapshot(got); a != b {
		c.Violation(fmt.Sprintf("%s: snapshot(%s) != snapshot(%s)", sig, gotName, wantName), map[string]any{wantName: a, gotName: b})
	}
}

func run(c *core.Ctx) {
	c.Rule = "all ordered pairs (a,b) with a in M(T,ka), b in M(T,kb) over the slot alphabet of each listed type (generated and dynamicpb): Merge(a,b) == Unmarshal(Marshal(a)||Marshal(b)) == Unmarshal{Merge}(Marshal(b)) into a; and all ordered pairs (x,y) of decodable wire-record sequences: Unmarshal(x||y) == Merge(Unmarshal(x),Unmarshal(y)) with lazy and eager operands; and ALL histories of <=d operations (d=4 quick, 5 thorough) over three registers of one type (register 0 starts from a decoded message with unknown fields): Merge(ri<-rj), Unmarshal{Merge}(record->ri) for 4 records (two unknown, two known), ri=Clone(rj), Reset(ri); after every history each register must equal Unmarshal of the concatenation of everything merged into it (every history is its own state: no merging of states, because what registers share is exactly what is being probed). distinct_nontrivial = distinct (a,b) name pairs with both non-empty"
	c.Exhaustive = true
	mo := proto.MarshalOptions{AllowPartial: true}
	var planOut []map[string]any
	// the history family first: it is cheap, and a budget that runs out under load
	// then cuts the pairwise plans, which are ordered simplest-first anyway
	var histOut []map[string]any
	for _, f := range []univ.Flavor{univ.Gen("goproto.proto.test.TestAllTypes"), univ.Gen("opaque.goproto.proto.testeditions.TestAllTypes"), univ.Dyn("goproto.proto.test.TestAllTypes"), univ.Gen("opaque.lazy_tree.Node"), univ.Gen("goproto.proto.test.TestAllExtensions")} {
		if c.Expired() {
			c.Exhaustive = false
			break
		}
		if r := histories(c, f, core.Pick(c, 4, 5)); r != nil {
			histOut = append(histOut, r)
		}
	}
	c.Bounds["merge_histories"] = histOut
	for _, p := range plans(c) {
		if c.Expired() {
			break
		}
		md := univ.MT(p.name).Descriptor()
		alpha := univ.Alphabet(md, p.depth, univ.Opt{Thin: p.thin})
		flavors := []univ.Flavor{univ.Gen(p.name)}
		if p.dyn {
			flavors = append(flavors, univ.Dyn(p.name))
		}
		na := univ.TupleCount(len(alpha), p.ka)
		nb := univ.TupleCount(len(alpha), p.kb)
		for _, f := range flavors {
			f := f
			// pre-encode all b's
			type enc struct {
				name  string
				slots []*univ.Slot
				b     []byte
			}
			bs := make([]enc, nb)
			for i := 0; i < nb; i++ {
				idx := univ.TupleAt(len(alpha), p.kb, i, nil)
				slots := univ.PickSlots(alpha, idx, nil)
				b, err := mo.Marshal(f.Build(slots).Interface())
				if err != nil {
					c.Violation("marshal-error type="+f.Name+" case="+univ.Names(slots), err.Error())
				}
				bs[i] = enc{univ.Names(slots), slots, b}
			}
			c.Par(na, func(ai int) {
				idx := univ.TupleAt(len(alpha), p.ka, ai, nil)
				aSlots := univ.PickSlots(alpha, idx, nil)
				aName := univ.Names(aSlots)
				aBytes, _ := mo.Marshal(f.Build(aSlots).Interface())
				for bi := range bs {
					e := &bs[bi]
					sig := "type=" + f.Name + " a=" + aName + " b=" + e.name
					c.Eval(1)
					c.Guard(func() string { return sig }, func() {
						m1 := f.Build(aSlots)
						bm := f.Build(e.slots)
						proto.Merge(m1.Interface(), bm.Interface())
						m2, err := f.Unmarshal(append(append([]byte{}, aBytes...), e.b...), proto.UnmarshalOptions{AllowPartial: true})
						if err != nil {
							c.Violation("concat-unmarshal-error "+sig, err.Error())
							return
						}
						m3 := f.Build(aSlots)
						if err := (proto.UnmarshalOptions{AllowPartial: true, Merge: true, Resolver: f.Res}).Unmarshal(e.b, m3.Interface()); err != nil {
							c.Violation("merge-unmarshal-error "+sig, err.Error())
							return
						}
						eq(c, sig, m2, m1, "Unmarshal(a||b)", "Merge(a,b)")
						eq(c, sig, m2, m3, "Unmarshal(a||b)", "Unmarshal{Merge}(b->a)")
					})
				}
			})
			if !f.Dynamic {
				c.DistinctN(int64(na-1) * int64(nb-1))
			}
		}
		rec := map[string]any{"type": p.name, "ka": p.ka, "kb": p.kb, "slot_alphabet": len(alpha), "pairs": na * nb, "flavors": len(flavors)}
		if p.wire {
			recs := univ.WireAlphabet(md, univ.WireOpt{Small: true, Depth: 1})
			f := flavors[0]
			// decodable single records (and pairs in thorough)
			n := core.Pick(c, 1, 1)
			if len(recs) < 60 && (c.Thorough() || len(recs) < 30) {
				n = 2
			}
			var xs []struct {
				name string
				b    []byte
			}
			total := univ.TupleCount(len(recs), n)
			for i := 0; i < total; i++ {
				b, name := univ.Concat(recs, univ.TupleAt(len(recs), n, i, nil))
				if _, err := f.Unmarshal(b, proto.UnmarshalOptions{AllowPartial: true}); err == nil {
					xs = append(xs, struct {
						name string
						b    []byte
					}{name, b})
				}
			}
			c.Par(len(xs), func(i int) {
				x := xs[i]
				for _, y := range xs {
					sig := "type=" + f.Name + " x=" + x.name + " y=" + y.name
					c.Eval(1)
					c.Guard(func() string { return sig }, func() {
						for _, nolazy := range []bool{false, true} {
							uo := proto.UnmarshalOptions{AllowPartial: true, NoLazyDecoding: nolazy}
							mx, _ := f.Unmarshal(x.b, uo)
							my, _ := f.Unmarshal(y.b, uo)
							mxy, err := f.Unmarshal(append(append([]byte{}, x.b...), y.b...), uo)
							if err != nil {
								c.Violation(fmt.Sprintf("concat-unmarshal-error nolazy=%v %s", nolazy, sig), err.Error())
								return
							}
							proto.Merge(mx.Interface(), my.Interface())
							eq(c, fmt.Sprintf("wire nolazy=%v %s", nolazy, sig), mxy, mx, "Unmarshal(x||y)", "Merge(U(x),U(y))")
						}
					})
				}
			})
			c.DistinctN(int64(len(xs)) * int64(len(xs)))
			rec["wire_decodable"] = len(xs)
			rec["wire_pairs"] = len(xs) * len(xs)
		}
		planOut = append(planOut, rec)
		if len(alpha) > 2 {
			c.Sample(map[string]any{"type": p.name, "a": alpha[len(alpha)/3].Name, "b": alpha[len(alpha)/2].Name})
		}
	}
	c.Bounds["plans"] = planOut
	c.Assume("AllowPartial everywhere; expected values are built from slot lists, never with Clone")
}
