// Package c20 holds C20 (protojson round trip) and the output half of C21
// (every Marshal output is valid JSON, Multiline-invariant).
package c20

import (
	"encoding/json"
	"fmt"
	"math"
	"strings"
	"unicode/utf8"

	"google.golang.org/protobuf/encoding/protojson"
	"google.golang.org/protobuf/proto"
	"google.golang.org/protobuf/reflect/protodesc"
	"google.golang.org/protobuf/reflect/protoreflect"
	"google.golang.org/protobuf/reflect/protoregistry"
	"google.golang.org/protobuf/types/descriptorpb"
	"google.golang.org/protobuf/types/dynamicpb"
	"google.golang.org/protobuf/types/known/anypb"
	"google.golang.org/protobuf/verifmc/core"
	"google.golang.org/protobuf/verifmc/ref/refjson"
	"google.golang.org/protobuf/verifmc/univ"
)

func init() {
	core.Register("C20", "exploration", func(c *core.Ctx) { Run(c, false) })
}

type jres interface {
	protoregistry.MessageTypeResolver
	protoregistry.ExtensionTypeResolver
}

func resolver(f univ.Flavor) jres {
	if f.Dynamic {
		return univ.DynTypes{}
	}
	return protoregistry.GlobalTypes
}

// Unrepresentable is the independent predicate for content the JSON mapping
// cannot represent.
func Unrepresentable(m protoreflect.Message) (bad bool, why string) {
	switch m.Descriptor().FullName() {
	case "google.protobuf.Timestamp":
		s := m.Get(m.Descriptor().Fields().ByNumber(1)).Int()
		n := m.Get(m.Descriptor().Fields().ByNumber(2)).Int()
		if s < -62135596800 || s > 253402300799 || n < 0 || n > 999999999 {
			return true, "timestamp out of range"
		}
		return false, ""
	case "google.protobuf.Duration":
		s := m.Get(m.Descriptor().Fields().ByNumber(1)).Int()
		n := m.Get(m.Descriptor().Fields().ByNumber(2)).Int()
		if s < -315576000000 || s > 315576000000 || n < -999999999 || n > 999999999 || (s < 0 && n > 0) || (s > 0 && n < 0) {
			return true, "duration out of range"
		}
		return false, ""
	case "google.protobuf.Value":
		od := m.Descriptor().Oneofs().Get(0)
		w := m.WhichOneof(od)
		if w == nil {
			return true, "Value without kind"
		}
		if w.Number() == 2 {
			f := m.Get(w).Float()
			if math.IsNaN(f) || math.IsInf(f, 0) {
				return true, "non-finite Value number"
			}
		}
	case "google.protobuf.FieldMask":
		l := m.Get(m.Descriptor().Fields().ByNumber(1)).List()
		for i := 0; i < l.Len(); i++ {
			p := l.Get(i).String()
			if !protoreflect.FullName(p).IsValid() {
				return true, "invalid FieldMask path"
			}
			for j := 0; j < len(p); j++ {
				if p[j] >= 'A' && p[j] <= 'Z' {
					return true, "irreversible FieldMask path"
				}
				if p[j] == '_' && (j+1 >= len(p) || p[j+1] < 'a' || p[j+1] > 'z') {
					return true, "irreversible FieldMask path"
				}
			}
		}
		return false, ""
	case "google.protobuf.Any":
		url := m.Get(m.Descriptor().Fields().ByNumber(1)).String()
		val := m.Get(m.Descriptor().Fields().ByNumber(2)).Bytes()
		if url == "" && len(val) == 0 && !m.Has(m.Descriptor().Fields().ByNumber(1)) {
			return false, "" // empty Any marshals as {}
		}
		if !utf8.ValidString(url) {
			return true, "invalid UTF-8"
		}
		mt, err := protoregistry.GlobalTypes.FindMessageByURL(url)
		if err != nil {
			return true, "unresolvable Any"
		}
		em := mt.New()
		if err := (proto.UnmarshalOptions{AllowPartial: true}).Unmarshal(val, em.Interface()); err != nil {
			return true, "malformed Any"
		}
		clean := mt.New()
		(proto.UnmarshalOptions{AllowPartial: true, DiscardUnknown: true}).Unmarshal(val, clean.Interface())
		if rb, err := (proto.MarshalOptions{AllowPartial: true, Deterministic: true}).Marshal(clean.Interface()); err != nil || string(rb) != string(val) {
			// byte identity of Any.value is only promised for canonical bodies (C23 compares the rest semantically)
			return true, SkipNonCanonicalAny
		}
		return Unrepresentable(em)
	}
	m.Range(func(fd protoreflect.FieldDescriptor, v protoreflect.Value) bool {
		chkStr := func(d protoreflect.FieldDescriptor, v protoreflect.Value) {
			if d.Kind() == protoreflect.StringKind && !utf8.ValidString(v.String()) {
				bad, why = true, "invalid UTF-8"
			}
		}
		switch {
		case fd.IsList():
			for i := 0; i < v.List().Len() && !bad; i++ {
				if fd.Message() != nil {
					bad, why = Unrepresentable(v.List().Get(i).Message())
				} else {
					chkStr(fd, v.List().Get(i))
				}
			}
		case fd.IsMap():
			v.Map().Range(func(k protoreflect.MapKey, mv protoreflect.Value) bool {
				chkStr(fd.MapKey(), k.Value())
				if fd.MapValue().Message() != nil {
					bad, why = Unrepresentable(mv.Message())
				} else if !bad {
					chkStr(fd.MapValue(), mv)
				}
				return !bad
			})
		case fd.Message() != nil:
			bad, why = Unrepresentable(v.Message())
		default:
			chkStr(fd, v)
			if fd.Enum() != nil && fd.Enum().FullName() == "google.protobuf.NullValue" && v.Enum() != 0 {
				bad, why = true, SkipNullValue
			}
		}
		return !bad
	})
	return
}

// SkipNonCanonicalAny marks an Any whose value bytes are not the canonical
// (deterministic, unknown-free) encoding of the embedded message: protojson
// re-marshals the body on parse, so byte identity is not promised.
const SkipNonCanonicalAny = "Any with non-canonical body (compared semantically elsewhere)"

// SkipNullValue marks content that JSON cannot represent but for which the
// statement does not demand a Marshal error: a NullValue enum field holding a
// number other than NULL_VALUE is always written as null.
const SkipNullValue = "NullValue enum with a non-zero number (always written as null; no error required)"

// clearNullArtifacts clears, in got, every explicit-presence field that is
// unset in ref but holds a JSON-null artifact in got (a Value with null_value,
// or a NullValue enum), recursively; the paths are recorded.
func clearNullArtifacts(got, ref protoreflect.Message, prefix string, paths *[]string) {
	var fds []protoreflect.FieldDescriptor
	got.Range(func(fd protoreflect.FieldDescriptor, _ protoreflect.Value) bool { fds = append(fds, fd); return true })
	for _, fd := range fds {
		if fd.IsList() || fd.IsMap() {
			continue
		}
		isNullEnum := fd.Enum() != nil && fd.Enum().FullName() == "google.protobuf.NullValue"
		isValue := fd.Message() != nil && fd.Message().FullName() == "google.protobuf.Value"
		if !ref.Has(fd) && fd.HasPresence() {
			if isNullEnum && got.Get(fd).Enum() == 0 {
				got.Clear(fd)
				*paths = append(*paths, fmt.Sprintf("%s%d", prefix, fd.Number()))
				continue
			}
			if isValue {
				v := got.Get(fd).Message()
				if w := v.WhichOneof(v.Descriptor().Oneofs().Get(0)); w != nil && w.Number() == 1 {
					got.Clear(fd)
					*paths = append(*paths, fmt.Sprintf("%s%d", prefix, fd.Number()))
					continue
				}
			}
		}
		if fd.Message() != nil && ref.Has(fd) {
			clearNullArtifacts(got.Mutable(fd).Message(), ref.Get(fd).Message(), fmt.Sprintf("%s%d.", prefix, fd.Number()), paths)
		}
	}
}

type plan struct {
	name    string
	k       int
	depth   int
	thin    bool
	dyn     bool
	allOpts bool // all 2^6 option combinations (else 8)
	nested  int
}

func plans(c *core.Ctx) []plan {
	q := c.Quick()
	return []plan{
		{name: "goproto.proto.test.TestAllTypes", k: 1, depth: 2, dyn: true, allOpts: true},
		{name: "goproto.proto.test.TestAllTypes", k: 2, depth: 2, thin: true, allOpts: !q},
		{name: "goproto.proto.test3.TestAllTypes", k: 1, depth: 2, dyn: true, allOpts: true},
		{name: "goproto.proto.test3.TestAllTypes", k: 2, depth: 2, thin: true, allOpts: !q},
		{name: "goproto.proto.testeditions.TestAllTypes", k: 1, depth: 2, allOpts: !q},
		{name: "opaque.goproto.proto.testeditions.TestAllTypes", k: 1, depth: 2, allOpts: true},
		{name: "opaque.goproto.proto.testeditions.TestAllTypes", k: 2, depth: 2, thin: true, allOpts: !q},
		{name: "hybrid.goproto.proto.testeditions.TestAllTypes", k: 1, depth: 2},
		{name: "goproto.proto.test.TestAllExtensions", k: 2, depth: 2, thin: true, dyn: true},
		{name: "pb2.Scalars", k: 2, depth: 1, dyn: true, allOpts: true},
		{name: "pb2.Enums", k: 2, depth: 2, dyn: true, allOpts: true},
		{name: "pb2.Repeats", k: 2, depth: 2, dyn: true},
		{name: "pb2.Nests", k: core.Pick(c, 2, 3), depth: 3, thin: true, dyn: true},
		{name: "pb2.Maps", k: 2, depth: 2, dyn: true, allOpts: true},
		{name: "pb3.Scalars", k: 2, depth: 1, allOpts: true},
		{name: "pb3.Enums", k: 2, depth: 2, allOpts: true},
		{name: "pb3.Maps", k: 2, depth: 2, thin: true},
		{name: "pbeditions.Scalars", k: 2, depth: 1, thin: true},
		{name: "pb2.KnownTypes", k: 1, depth: 3, dyn: true, allOpts: true, nested: 60},
		{name: "pb2.KnownTypes", k: 2, depth: 3, dyn: !q, allOpts: !q, nested: 60},
		{name: "pb2.KnownTypes", k: core.Pick(c, 2, 3), depth: 4, thin: true, nested: 30},
		{name: "google.golang.org.Article", k: 2, depth: 3, dyn: true, nested: 40},
		{name: "google.protobuf.Struct", k: core.Pick(c, 2, 3), depth: 4, dyn: true, allOpts: true},
		{name: "google.protobuf.Value", k: 2, depth: 4, dyn: true, allOpts: true},
		{name: "google.protobuf.ListValue", k: 2, depth: 4},
		{name: "google.protobuf.Timestamp", k: 2, depth: 1, allOpts: true},
		{name: "google.protobuf.Duration", k: 2, depth: 1, allOpts: true},
		{name: "google.protobuf.FieldMask", k: 2, depth: 1, allOpts: true},
		{name: "google.protobuf.Any", k: 2, depth: 1, dyn: true, allOpts: true},
		{name: "google.protobuf.Empty", k: 1, depth: 1},
		{name: "google.protobuf.DoubleValue", k: 1, depth: 1, allOpts: true},
		{name: "google.protobuf.FloatValue", k: 1, depth: 1},
		{name: "google.protobuf.Int64Value", k: 1, depth: 1},
		{name: "google.protobuf.UInt64Value", k: 1, depth: 1},
		{name: "google.protobuf.BytesValue", k: 1, depth: 1},
		{name: "google.protobuf.StringValue", k: 1, depth: 1},
		{name: "google.protobuf.BoolValue", k: 1, depth: 1},
	}
}

// anySlots returns type_url / value slots that make valid (and mismatched)
// Any messages, appended wherever the alphabet addresses an Any.
func anyPayloads() (urls []string, vals [][]byte) {
	add := func(m proto.Message) {
		b, _ := proto.MarshalOptions{Deterministic: true}.Marshal(m)
		urls = append(urls, "type.googleapis.com/"+string(m.ProtoReflect().Descriptor().FullName()))
		vals = append(vals, b)
	}
	for _, n := range []string{"google.protobuf.Duration", "google.protobuf.Int32Value", "google.protobuf.Empty", "pb2.Nested", "google.protobuf.Struct", "google.protobuf.Any", "google.protobuf.StringValue"} {
		mt, err := protoregistry.GlobalTypes.FindMessageByName(protoreflect.FullName(n))
		if err != nil {
			continue
		}
		m := mt.New()
		fds := m.Descriptor().Fields()
		switch n {
		case "google.protobuf.Duration":
			m.Set(fds.ByNumber(1), protoreflect.ValueOfInt64(3))
			m.Set(fds.ByNumber(2), protoreflect.ValueOfInt32(500000000))
		case "google.protobuf.Int32Value":
			m.Set(fds.ByNumber(1), protoreflect.ValueOfInt32(-7))
		case "pb2.Nested":
			m.Set(fds.ByNumber(1), protoreflect.ValueOfString("C:\\new\\table \"q\" \x0b"))
		case "google.protobuf.StringValue":
			m.Set(fds.ByNumber(1), protoreflect.ValueOfString("tab\there\\n"))
		case "google.protobuf.Struct":
			mp := m.Mutable(fds.ByNumber(1)).Map()
			v := mp.NewValue()
			v.Message().Set(v.Message().Descriptor().Fields().ByNumber(4), protoreflect.ValueOfBool(true))
			mp.Set(protoreflect.ValueOfString("k").MapKey(), v)
		case "google.protobuf.Any":
			m.Set(fds.ByNumber(1), protoreflect.ValueOfString("type.googleapis.com/google.protobuf.Empty"))
		}
		add(m.Interface())
	}
	return
}

func withAnySlots(md protoreflect.MessageDescriptor, alpha []*univ.Slot) []*univ.Slot {
	urls, vals := anyPayloads()
	mk := func(wrap func(sub *univ.Slot, tag string) *univ.Slot) {
		for i := range urls {
			alpha = append(alpha, wrap(&univ.Slot{Num: 1, Op: univ.OpSet, Val: protoreflect.ValueOfString(urls[i]), Name: fmt.Sprintf("1=%q", urls[i])}, fmt.Sprintf("url#%d", i)))
			alpha = append(alpha, wrap(&univ.Slot{Num: 2, Op: univ.OpSet, Val: protoreflect.ValueOfBytes(vals[i]), Name: fmt.Sprintf("2=y%x", vals[i])}, fmt.Sprintf("val#%d", i)))
		}
	}
	if md.FullName() == "google.protobuf.Any" {
		mk(func(sub *univ.Slot, tag string) *univ.Slot { return sub })
		return alpha
	}
	for _, fd := range univ.SortedFields(md) {
		fd := fd
		if fd.Message() == nil || fd.Message().FullName() != "google.protobuf.Any" || fd.IsMap() {
			continue
		}
		if fd.IsList() {
			continue // list elements cannot be addressed twice; singular Any fields suffice
		}
		mk(func(sub *univ.Slot, tag string) *univ.Slot {
			return &univ.Slot{Num: fd.Number(), Op: univ.OpMsg, Sub: sub, Name: fmt.Sprintf("%d{%s}", fd.Number(), sub.Name)}
		})
	}
	return alpha
}

func options(mask int) protojson.MarshalOptions {
	o := protojson.MarshalOptions{AllowPartial: true}
	o.Multiline = mask&1 != 0
	if mask&2 != 0 {
		o.Indent = "\t"
	}
	o.UseProtoNames = mask&4 != 0
	o.UseEnumNumbers = mask&8 != 0
	o.EmitUnpopulated = mask&16 != 0
	o.EmitDefaultValues = mask&32 != 0
	return o
}

var fewMasks = []int{0, 1, 3, 4, 8, 16, 32, 63}

// OutputHook, if set, receives every successful Marshal output (C21).
var OutputHook func(c *core.Ctx, f univ.Flavor, name string, mask int, m protoreflect.Message, out []byte)

// Run enumerates messages; in outputsOnly mode only the hook runs.
func Run(c *core.Ctx, outputsOnly bool) {
	if !outputsOnly {
		c.Rule = "messages = all slot lists of length <=k over the slot alphabet of each type (scalars incl. NaN/inf/-0, 64-bit boundaries, bytes, open-enum numbers, maps, oneofs, groups, extensions, unknown fields; all well-known types with in- and out-of-range seconds/nanos, Value/Struct/ListValue nesting incl. kind-less and non-finite Values, FieldMask paths, resolvable / unresolvable / malformed / nested Any) crossed with all 2^6 (or 8 representative) combinations of Multiline, Indent, UseProtoNames, UseEnumNumbers, EmitUnpopulated, EmitDefaultValues. Marshal must fail exactly when an independent predicate says the content is not representable; otherwise Unmarshal(Marshal(m)) - into a fresh destination or, for every second option set, into one that already holds another message - must be proto.Equal (and snapshot-equal) to m with unknown fields removed recursively"
	}
	c.Exhaustive = true
	var planOut []map[string]any
	for _, p := range plans(c) {
		if c.Expired() {
			break
		}
		mt, err := protoregistry.GlobalTypes.FindMessageByName(protoreflect.FullName(p.name))
		if err != nil {
			c.Extra("missing_type_"+p.name, err.Error())
			continue
		}
		md := mt.Descriptor()
		alpha := univ.Alphabet(md, p.depth, univ.Opt{Thin: p.thin, MaxNested: p.nested})
		alpha = withAnySlots(md, alpha)
		flavors := []univ.Flavor{univ.Gen(p.name)}
		if p.dyn {
			flavors = append(flavors, univ.Dyn(p.name))
		}
		masks := fewMasks
		if p.allOpts && !(outputsOnly && c.Quick() && p.k > 1) {
			masks = nil
			for i := 0; i < 64; i++ {
				masks = append(masks, i)
			}
		}
		n := univ.TupleCount(len(alpha), p.k)
		for _, f := range flavors {
			f := f
			univ.ForTuples(c, len(alpha), p.k, func(idx []int) {
				slots := univ.PickSlots(alpha, idx, nil)
				name := univ.Names(slots)
				c.Guard(func() string { return "type=" + f.Name + " case=" + name }, func() {
					m := f.Build(slots)
					bad, why := Unrepresentable(m)
					if why == SkipNullValue || why == SkipNonCanonicalAny {
						c.Outcome("skipped:" + why[:12])
						return
					}
					var ref protoreflect.Message
					var want string
					if !bad {
						b, err := proto.MarshalOptions{AllowPartial: true}.Marshal(m.Interface())
						if err != nil {
							return
						}
						ref, err = f.Unmarshal(b, proto.UnmarshalOptions{AllowPartial: true, DiscardUnknown: true})
						if err != nil {
							return
						}
						want = univ.Snapshot(ref)
						c.Outcome("representable")
					} else {
						c.Outcome("unrepresentable:" + why)
					}
					for _, mask := range masks {
						c.Eval(1)
						o := options(mask)
						o.Resolver = resolver(f)
						jb, err := o.Marshal(m.Interface())
						if outputsOnly {
							if err == nil && OutputHook != nil {
								OutputHook(c, f, name, mask, m, jb)
							}
							continue
						}
						if (err != nil) != bad {
							c.Violation(fmt.Sprintf("protojson.Marshal error=%v but content unrepresentable=%v (%s) opts=%d type=%s case=%s", err != nil, bad, why, mask, f.Name, name), fmt.Sprint(err))
							continue
						}
						if err != nil {
							continue
						}
						m2 := f.MT.New()
						if mask&1 == 1 && len(alpha) > 0 {
							// Unmarshal replaces the destination's content: for every second
							// option set the destination already holds another message
							m2 = f.Build([]*univ.Slot{alpha[len(alpha)/2]})
						}
						if err := (protojson.UnmarshalOptions{AllowPartial: true, Resolver: resolver(f)}).Unmarshal(jb, m2.Interface()); err != nil {
							c.Violation(fmt.Sprintf("protojson.Unmarshal rejects Marshal output opts=%d type=%s case=%s", mask, f.Name, name), map[string]any{"err": err.Error(), "json": string(jb)})
							continue
						}
						if !proto.Equal(ref.Interface(), m2.Interface()) {
							if mask&16 != 0 {
								// classify: unset Value / NullValue fields emitted as null by EmitUnpopulated come back populated
								var paths []string
								clearNullArtifacts(m2, ref, "", &paths)
								if len(paths) > 0 && univ.Snapshot(m2) == want {
									c.Violation(fmt.Sprintf("EmitUnpopulated: unset google.protobuf.Value / NullValue field emitted as null parses back as populated; type=%s", f.Name), map[string]any{"json": string(jb), "fields": paths, "case": name})
									continue
								}
							}
							c.Violation(fmt.Sprintf("JSON round trip not Equal opts=%d type=%s case=%s", mask, f.Name, name), map[string]any{"json": string(jb), "want": want, "got": univ.Snapshot(m2)})
							continue
						}
						if got := univ.Snapshot(m2); got != want {
							c.Violation(fmt.Sprintf("JSON round trip snapshot differs opts=%d type=%s case=%s", mask, f.Name, name), map[string]any{"json": string(jb), "want": want, "got": got})
						}
					}
				})
			})
		}
		c.DistinctN(int64(n))
		planOut = append(planOut, map[string]any{"type": p.name, "k": p.k, "slot_alphabet": len(alpha), "messages": n, "flavors": len(flavors), "option_sets": len(masks)})
		if len(alpha) > 2 {
			c.Sample(map[string]any{"type": p.name, "slots": univ.Names([]*univ.Slot{alpha[len(alpha)/3], alpha[len(alpha)-1]})})
		}
	}
	if !outputsOnly {
		anyWithPrivateResolver(c)
	}
	c.Bounds["plans"] = planOut
	_ = json.Valid
	_ = refjson.Valid
	_ = strings.Contains
}

// anyWithPrivateResolver: an Any whose payload type and extensions exist only
// in the caller's Resolver must survive the JSON round trip made with that
// Resolver (every payload of <=2 setters x 4 option sets).
func anyWithPrivateResolver(c *core.Ctx) {
	fdp := univ.SchemaFile("verif/c20/private.proto", "verif.c20.private", univ.Proto2, []univ.Shape{
		{Name: "optional int32", Type: descriptorpb.FieldDescriptorProto_TYPE_INT32, Label: descriptorpb.FieldDescriptorProto_LABEL_OPTIONAL, Ext: true},
		{Name: "repeated string", Type: descriptorpb.FieldDescriptorProto_TYPE_STRING, Label: descriptorpb.FieldDescriptorProto_LABEL_REPEATED, Ext: true},
		{Name: "optional message", Type: descriptorpb.FieldDescriptorProto_TYPE_MESSAGE, Label: descriptorpb.FieldDescriptorProto_LABEL_OPTIONAL, Ext: true},
	})
	fdp.MessageType[2].Field = append(fdp.MessageType[2].Field, &descriptorpb.FieldDescriptorProto{Name: proto.String("id"), Number: proto.Int32(1), Type: descriptorpb.FieldDescriptorProto_TYPE_INT32.Enum(), Label: descriptorpb.FieldDescriptorProto_LABEL_OPTIONAL.Enum(), JsonName: proto.String("id")})
	fd, err := protodesc.NewFile(fdp, protoregistry.GlobalFiles)
	if err != nil {
		panic(err)
	}
	types := &protoregistry.Types{}
	xmd := fd.Messages().ByName("X")
	types.RegisterMessage(dynamicpb.NewMessageType(xmd))
	types.RegisterMessage(dynamicpb.NewMessageType(fd.Messages().ByName("Sub")))
	var xts []protoreflect.ExtensionType
	for i := 0; i < fd.Extensions().Len(); i++ {
		xt := dynamicpb.NewExtensionType(fd.Extensions().Get(i))
		types.RegisterExtension(xt)
		xts = append(xts, xt)
	}
	type setter struct {
		name string
		f    func(m protoreflect.Message)
	}
	setters := []setter{
		{"id=7", func(m protoreflect.Message) { m.Set(xmd.Fields().ByName("id"), protoreflect.ValueOfInt32(7)) }},
		{"ext int32=-1", func(m protoreflect.Message) { m.Set(xts[0].TypeDescriptor(), protoreflect.ValueOfInt32(-1)) }},
		{"ext repeated string+=é", func(m protoreflect.Message) {
			m.Mutable(xts[1].TypeDescriptor()).List().Append(protoreflect.ValueOfString("é"))
		}},
		{"ext message{a:4}", func(m protoreflect.Message) {
			s := dynamicpb.NewMessage(fd.Messages().ByName("Sub"))
			s.Set(s.Descriptor().Fields().ByName("a"), protoreflect.ValueOfInt32(4))
			m.Set(xts[2].TypeDescriptor(), protoreflect.ValueOfMessage(s))
		}},
	}
	opts := []protojson.MarshalOptions{{}, {Multiline: true}, {UseProtoNames: true, EmitUnpopulated: true}, {UseEnumNumbers: true, EmitDefaultValues: true}}
	n := univ.TupleCount(len(setters), 2)
	univ.ForTuples(c, len(setters), 2, func(idx []int) {
		var names []string
		payload := dynamicpb.NewMessage(xmd)
		for _, i := range idx {
			setters[i].f(payload)
			names = append(names, setters[i].name)
		}
		name := strings.Join(names, " ; ")
		c.Eval(1)
		c.Guard(func() string { return "any with private resolver case=" + name }, func() {
			pb, err := proto.MarshalOptions{Deterministic: true}.Marshal(payload)
			if err != nil {
				panic(err)
			}
			a := &anypb.Any{TypeUrl: "type.googleapis.com/" + string(xmd.FullName()), Value: pb}
			for oi, o := range opts {
				o.Resolver = types
				jb, err := o.Marshal(a)
				if err != nil {
					c.Violation(fmt.Sprintf("protojson.Marshal of an Any resolvable through MarshalOptions.Resolver fails opts#%d case=[%s]", oi, name), err.Error())
					continue
				}
				var back anypb.Any
				if err := (protojson.UnmarshalOptions{Resolver: types}).Unmarshal(jb, &back); err != nil {
					c.Violation(fmt.Sprintf("protojson.Unmarshal rejects its own Any output opts#%d case=[%s]", oi, name), map[string]any{"err": err.Error(), "json": string(jb)})
					continue
				}
				got := dynamicpb.NewMessage(xmd)
				if err := (proto.UnmarshalOptions{Resolver: types}).Unmarshal(back.Value, got); err != nil || back.TypeUrl != a.TypeUrl || !proto.Equal(got, payload) {
					c.Violation(fmt.Sprintf("Any payload changes in the JSON round trip with a caller-supplied Resolver opts#%d case=[%s]", oi, name), map[string]any{"json": string(jb), "value_in": fmt.Sprintf("%x", pb), "value_out": fmt.Sprintf("%x", back.Value)})
				}
			}
		})
	})
	c.DistinctN(int64(n))
	c.Bounds["any_private_resolver_payloads"] = n
}
