// Package c26: JSON and text decoders are total and enforce field uniqueness.
package c26

import (
	"fmt"
	"google.golang.org/protobuf/types/known/anypb"
	"sort"
	"strings"
	"sync/atomic"

	"google.golang.org/protobuf/encoding/protojson"
	"google.golang.org/protobuf/encoding/prototext"
	"google.golang.org/protobuf/proto"
	"google.golang.org/protobuf/reflect/protoreflect"
	"google.golang.org/protobuf/reflect/protoregistry"
	"google.golang.org/protobuf/verifmc/core"
	"google.golang.org/protobuf/verifmc/univ"
)

func init() { core.Register("C26", "exploration", run) }

type piece struct {
	fd           protoreflect.FieldDescriptor
	name         string
	json, jsonPN string // member text with JSON name / proto name
	text         string
}

func trimObj(s string) string {
	s = strings.TrimSpace(s)
	return strings.TrimSpace(strings.TrimSuffix(strings.TrimPrefix(s, "{"), "}"))
}

// pieces builds, for one representative field per shape class (and every
// member of every oneof), the JSON member and text field that set it.
func pieces(f univ.Flavor) []piece {
	md := f.MT.Descriptor()
	var out []piece
	seen := map[string]bool{}
	var fds []protoreflect.FieldDescriptor
	fds = append(fds, univ.SortedFields(md)...)
	for _, xt := range univ.Extensions(md) {
		fds = append(fds, xt.TypeDescriptor())
	}
	for _, fd := range fds {
		cls := fmt.Sprintf("%v/%v/%v/%v", fd.Kind(), fd.Cardinality(), fd.IsMap(), fd.HasPresence())
		inOneof := fd.ContainingOneof() != nil
		if !inOneof && seen[cls] {
			continue
		}
		seen[cls] = true
		alpha := univ.Alphabet(md, 2, univ.Opt{Thin: true, NoUnknown: true})
		var slot *univ.Slot
		for _, s := range alpha {
			if s.Num == fd.Number() && s.Ext == fd.IsExtension() && s.Op != univ.OpUnknown {
				slot = s // keep the last (non-zero, nested) variant
			}
		}
		if slot == nil {
			continue
		}
		m := f.Build([]*univ.Slot{slot})
		if !m.Has(fieldIn(m, fd)) {
			continue
		}
		jb, err1 := protojson.MarshalOptions{AllowPartial: true}.Marshal(m.Interface())
		jp, err2 := protojson.MarshalOptions{AllowPartial: true, UseProtoNames: true}.Marshal(m.Interface())
		tb, err3 := prototext.MarshalOptions{AllowPartial: true}.Marshal(m.Interface())
		if err1 != nil || err2 != nil || err3 != nil {
			continue
		}
		out = append(out, piece{fd, fmt.Sprint(fd.Number()), trimObj(string(jb)), trimObj(string(jp)), strings.TrimSpace(string(tb))})
	}
	return out
}

func fieldIn(m protoreflect.Message, fd protoreflect.FieldDescriptor) protoreflect.FieldDescriptor {
	if fd.IsExtension() {
		return fd
	}
	return m.Descriptor().Fields().ByNumber(fd.Number())
}

func run(c *core.Ctx) {
	c.Rule = "uniqueness: for 9 types, every ordered pair of (representative field | oneof member | extension) pieces, in JSON (each piece spelled with its JSON name and with its proto name: 4 spellings per pair) and in text format: naming a non-repeated field twice, or two members of one oneof, must be rejected; two different compatible fields must be accepted. Totality: every sequence of <=N tokens over JSON and text token alphabets (braces, brackets, separators, a known singular field name in both spellings, a repeated field name, two oneof member names, an extension name, an unknown name, scalar / string / literal values) and every byte string of <=4 over a 14-byte alphabet is decoded into 3 types without panic. Any: every document naming type_url or value twice (first occurrence empty or not), or mixing the expanded form with a plain field, at top level and nested, and JSON Any objects with a duplicated key, must be rejected. Foreign extension keys: every registered extension named as [full.name] in a document for each of 6 targets it may or may not extend (generated and dynamicpb), followed by 7 kinds of value, JSON and text: no panic. Depth: documents nested to depth limit-1, limit, limit+1 through message fields, Struct/ListValue/Value for RecursionLimit in {1,2,3,5,8}, and through expanded Any (Any inside Any, message / Any alternating; JSON and text; every document also decoded with limit 1000 to show it is well-formed): deeper than the limit must be rejected"
	c.Exhaustive = true
	var n atomic.Int64
	types := []string{"goproto.proto.test.TestAllTypes", "goproto.proto.test3.TestAllTypes", "goproto.proto.testeditions.TestAllTypes", "opaque.goproto.proto.testeditions.TestAllTypes", "goproto.proto.test.TestAllExtensions", "pb3.Proto3Optional", "pb3.Oneofs", "pb2.Nests", "pb2.KnownTypes"}
	var out []map[string]any
	for _, name := range types {
		if _, err := protoregistry.GlobalTypes.FindMessageByName(protoreflect.FullName(name)); err != nil {
			c.Extra("missing_type_"+name, err.Error())
			continue
		}
		f := univ.Gen(name)
		ps := pieces(f)
		c.Par(len(ps)*len(ps), func(k int) {
			a, b := ps[k/len(ps)], ps[k%len(ps)]
			same := a.fd.Number() == b.fd.Number() && a.fd.IsExtension() == b.fd.IsExtension()
			sameOneof := !same && a.fd.ContainingOneof() != nil && a.fd.ContainingOneof() == b.fd.ContainingOneof()
			mustReject := sameOneof || (same && !a.fd.IsList() && !a.fd.IsMap())
			mustAccept := !same && !sameOneof
			sig := fmt.Sprintf("type=%s fields=(%s,%s)", name, a.name, b.name)
			for si, pair := range [][2]string{{a.json, b.json}, {a.json, b.jsonPN}, {a.jsonPN, b.json}, {a.jsonPN, b.jsonPN}} {
				doc := "{" + pair[0] + "," + pair[1] + "}"
				m := f.MT.New()
				var err error
				if c.Guard(func() string { return "protojson.Unmarshal " + doc }, func() {
					err = protojson.UnmarshalOptions{AllowPartial: true}.Unmarshal([]byte(doc), m.Interface())
				}) {
					continue
				}
				n.Add(1)
				if mustReject && err == nil {
					c.Violation(fmt.Sprintf("protojson accepts a non-repeated field / oneof set twice %s spelling=%d", sig, si), doc)
				}
				if mustAccept && err != nil {
					c.Violation(fmt.Sprintf("protojson rejects two different fields %s spelling=%d", sig, si), map[string]any{"doc": doc, "err": err.Error()})
				}
			}
			for _, sep := range []string{"\n", " ", ", ", "; "} {
				doc := a.text + sep + b.text
				m := f.MT.New()
				var err error
				if c.Guard(func() string { return "prototext.Unmarshal " + doc }, func() {
					err = prototext.UnmarshalOptions{AllowPartial: true}.Unmarshal([]byte(doc), m.Interface())
				}) {
					continue
				}
				n.Add(1)
				if mustReject && err == nil {
					c.Violation(fmt.Sprintf("prototext accepts a non-repeated field / oneof set twice %s", sig), doc)
				}
				if mustAccept && err != nil {
					c.Violation(fmt.Sprintf("prototext rejects two different fields %s", sig), map[string]any{"doc": doc, "err": err.Error()})
				}
			}
		})
		out = append(out, map[string]any{"type": name, "pieces": len(ps), "pairs": len(ps) * len(ps)})
		if len(ps) > 1 {
			c.Sample(map[string]any{"type": name, "json": "{" + ps[0].json + "," + ps[0].jsonPN + "}", "text": ps[0].text + " " + ps[0].text})
		}
	}
	c.Bounds["uniqueness"] = out
	// totality: token soups
	t3 := univ.Gen("goproto.proto.test3.TestAllTypes")
	t2 := univ.Gen("goproto.proto.test.TestAllExtensions")
	kt := univ.Gen("pb2.KnownTypes")
	jtok := []string{"{", "}", "[", "]", ",", ":", `"singularInt32"`, `"singular_int32"`, `"repeatedInt32"`, `"oneofUint32"`, `"oneofString"`, `"optStruct"`, `"[goproto.proto.test.optional_int32]"`, `"x"`, "1", `"s"`, "null", "true", `"@type"`}
	ttok := []string{"{", "}", "<", ">", "[", "]", ",", ";", ":", "singular_int32", "repeated_int32", "oneof_uint32", "oneof_string", "[goproto.proto.test.optional_int32]", "opt_any", "[type.googleapis.com/pb2.Nested]", "x", "1", `"s"`, "inf", " "}
	N := core.Pick(c, 4, 5)
	soup := func(toks []string, sep string, json bool) int {
		total := univ.TupleCount(len(toks), N)
		univ.ForTuples(c, len(toks), N, func(idx []int) {
			var parts []string
			for _, i := range idx {
				parts = append(parts, toks[i])
			}
			doc := []byte(strings.Join(parts, sep))
			for _, f := range []univ.Flavor{t3, t2, kt} {
				m := f.MT.New()
				c.Guard(func() string { return fmt.Sprintf("decoder panics json=%v type=%s doc=%q", json, f.Name, doc) }, func() {
					if json {
						protojson.UnmarshalOptions{AllowPartial: true}.Unmarshal(doc, m.Interface())
						protojson.UnmarshalOptions{AllowPartial: true, DiscardUnknown: true}.Unmarshal(doc, f.MT.New().Interface())
					} else {
						prototext.UnmarshalOptions{AllowPartial: true}.Unmarshal(doc, m.Interface())
						prototext.UnmarshalOptions{AllowPartial: true, DiscardUnknown: true}.Unmarshal(doc, f.MT.New().Interface())
					}
				})
			}
		})
		return total
	}
	nj := soup(jtok, "", true)
	nt := soup(ttok, " ", false)
	n.Add(int64(nj+nt) * 6)
	balpha := []byte{'{', '}', '[', ']', '"', '\\', ':', ',', 'a', '1', '-', '.', 0x80, 0x00}
	nb := univ.TupleCount(len(balpha), 4)
	univ.ForTuples(c, len(balpha), 4, func(idx []int) {
		doc := make([]byte, len(idx))
		for i, j := range idx {
			doc[i] = balpha[j]
		}
		for _, f := range []univ.Flavor{t3, kt} {
			c.Guard(func() string { return fmt.Sprintf("decoder panics type=%s bytes=%q", f.Name, doc) }, func() {
				protojson.UnmarshalOptions{AllowPartial: true}.Unmarshal(doc, f.MT.New().Interface())
				prototext.UnmarshalOptions{AllowPartial: true}.Unmarshal(doc, f.MT.New().Interface())
			})
		}
	})
	n.Add(int64(nb) * 4)
	c.Bounds["json_token_sequences"] = nj
	c.Bounds["text_token_sequences"] = nt
	c.Bounds["byte_strings"] = nb
	// depth
	anyDuplicates(c, &n)
	depthFamilies(c, &n)
	foreignExtensionKeys(c, &n)
	c.Eval(n.Load())
	c.DistinctN(n.Load())
}

// depthFamilies nests documents and checks the RecursionLimit.
// anyDuplicates: the fields of google.protobuf.Any are special-cased by both
// decoders; naming one of them twice must be rejected whatever the values
// (in particular when the first occurrence is empty), and the expanded form
// must not be combined with the plain fields.
func anyDuplicates(c *core.Ctx, n *atomic.Int64) {
	const url = "type.googleapis.com/pb2.Nested"
	vals := map[string][]string{"type_url": {`""`, `"` + url + `"`, `"x"`}, "value": {`""`, `"\n\001a"`, `"x"`}}
	var docs []string
	for _, f := range []string{"type_url", "value"} {
		other := map[string]string{"type_url": "value", "value": "type_url"}[f]
		for _, v1 := range vals[f] {
			for _, v2 := range vals[f] {
				for _, o := range []string{"", other + `: ` + vals[other][1] + " "} {
					docs = append(docs, fmt.Sprintf("%s%s: %s %s: %s", o, f, v1, f, v2), fmt.Sprintf("%s: %s %s%s: %s", f, v1, o, f, v2))
				}
			}
		}
		for _, v := range vals[f] {
			docs = append(docs, fmt.Sprintf("%s: %s [%s]: {}", f, v, url), fmt.Sprintf("[%s]: {} %s: %s", url, f, v))
		}
	}
	docs = append(docs, fmt.Sprintf("[%s]: {} [%s]: {}", url, url))
	for _, d := range docs {
		for _, wrap := range []struct {
			name string
			mk   func() proto.Message
			doc  string
		}{{"google.protobuf.Any", func() proto.Message { return &anypb.Any{} }, d}, {"pb2.KnownTypes.opt_any", func() proto.Message { return univ.MT("pb2.KnownTypes").New().Interface() }, "opt_any: {" + d + "}"}} {
			m := wrap.mk()
			var err error
			if c.Guard(func() string { return "prototext.Unmarshal " + wrap.doc }, func() { err = prototext.Unmarshal([]byte(wrap.doc), m) }) {
				continue
			}
			n.Add(1)
			if err == nil {
				c.Violation(fmt.Sprintf("prototext accepts an Any that names a field twice or mixes expanded and plain form: target=%s doc=%s", wrap.name, wrap.doc), nil)
			}
		}
	}
	jdocs := []string{
		`{"@type":"","@type":"type.googleapis.com/pb2.Nested"}`, `{"@type":"type.googleapis.com/pb2.Nested","@type":"type.googleapis.com/pb2.Nested"}`,
		`{"@type":"type.googleapis.com/pb2.Nested","@type":""}`,
		`{"@type":"type.googleapis.com/google.protobuf.Duration","value":"1s","value":"2s"}`, `{"value":"1s","@type":"type.googleapis.com/google.protobuf.Duration","value":"1s"}`,
		`{"@type":"type.googleapis.com/pb2.Nested","optString":"","optString":"a"}`,
	}
	for _, d := range jdocs {
		for _, wrap := range []struct {
			name string
			mk   func() proto.Message
			doc  string
		}{{"google.protobuf.Any", func() proto.Message { return &anypb.Any{} }, d}, {"pb2.KnownTypes.optAny", func() proto.Message { return univ.MT("pb2.KnownTypes").New().Interface() }, `{"optAny":` + d + `}`}} {
			m := wrap.mk()
			var err error
			if c.Guard(func() string { return "protojson.Unmarshal " + wrap.doc }, func() { err = protojson.Unmarshal([]byte(wrap.doc), m) }) {
				continue
			}
			n.Add(1)
			if err == nil {
				c.Violation(fmt.Sprintf("protojson accepts an Any object that names a key twice: target=%s doc=%s", wrap.name, wrap.doc), nil)
			}
		}
	}
}

func depthFamilies(c *core.Ctx, n *atomic.Int64) {
	type fam struct {
		name  string
		mt    protoreflect.MessageType
		json  func(d int) string // document with d message levels (top-level = 1)
		text  func(d int) string
		exact bool
	}
	t2 := univ.MT("goproto.proto.test.TestAllTypes")
	nest := func(open, close string, d int, leaf string) string {
		return strings.Repeat(open, d-1) + leaf + strings.Repeat(close, d-1)
	}
	fams := []fam{
		{"message fields", t2,
			func(d int) string { // each level = one message: alternate nested message / corecursive
				s := ""
				for i := 1; i < d; i++ {
					if i%2 == 1 {
						s += `{"optionalNestedMessage":`
					} else {
						s += `{"corecursive":`
					}
				}
				return s + "{}" + strings.Repeat("}", d-1)
			},
			func(d int) string {
				s := ""
				for i := 1; i < d; i++ {
					if i%2 == 1 {
						s += "optional_nested_message{"
					} else {
						s += "corecursive{"
					}
				}
				return s + strings.Repeat("}", d-1)
			}, true},
		{"Struct/Value nesting", univ.MT("google.protobuf.Struct"),
			func(d int) string { return nest(`{"k":`, "}", d, "{}") }, nil, false},
		{"ListValue nesting", univ.MT("google.protobuf.ListValue"),
			func(d int) string { return nest("[", "]", d, "[]") }, nil, false},
	}
	// nesting through google.protobuf.Any in its expanded form. Every Any and
	// every embedded message is at least one message level, so d counted that
	// way is a lower bound of what the decoders count: deeper than the limit
	// must be rejected (one-sided); every document is also decoded with a
	// generous limit to show that it is well-formed.
	const anyURL = "type.googleapis.com/google.protobuf.Any"
	const ktURL = "type.googleapis.com/pb2.KnownTypes"
	anyT, kt := univ.MT("google.protobuf.Any"), univ.MT("pb2.KnownTypes")
	oneSided := []fam{
		{"Any expanded inside Any", anyT,
			func(d int) string {
				return strings.Repeat(`{"@type":"`+anyURL+`","value":`, d-1) + "{}" + strings.Repeat("}", d-1)
			},
			func(d int) string { return strings.Repeat("["+anyURL+"]{", d-1) + strings.Repeat("}", d-1) }, false},
		{"message / expanded Any alternating", kt,
			func(d int) string { // d = 1 + 2*hops
				h := (d - 1) / 2
				return "{" + strings.Repeat(`"optAny":{"@type":"`+ktURL+`",`, h) + `"optBool":true` + strings.Repeat("}", h) + "}"
			},
			func(d int) string {
				h := (d - 1) / 2
				return strings.Repeat("opt_any{["+ktURL+"]{", h) + strings.Repeat("}}", h)
			}, false},
	}
	for _, f := range oneSided {
		for _, limit := range []int{1, 2, 3, 5, 8} {
			for _, d := range []int{1, 3, limit + 1, limit + 2, limit + 3, 2*limit + 3, 4*limit + 6, 50} {
				if f.name != "Any expanded inside Any" {
					d |= 1 // this family only has odd depths
				}
				n.Add(1)
				for fi, doc := range []string{f.json(d), f.text(d)} {
					format := []string{"protojson", "prototext"}[fi]
					dec := func(lim int) (err error, panicked bool) {
						m := f.mt.New()
						panicked = c.Guard(func() string { return format + " depth doc=" + doc }, func() {
							if fi == 0 {
								err = protojson.UnmarshalOptions{AllowPartial: true, RecursionLimit: lim}.Unmarshal([]byte(doc), m.Interface())
							} else {
								err = prototext.UnmarshalOptions{AllowPartial: true, RecursionLimit: lim}.Unmarshal([]byte(doc), m.Interface())
							}
						})
						return
					}
					if err, p := dec(1000); p {
						continue
					} else if err != nil {
						c.Violation(fmt.Sprintf("harness: %s depth document of family %q is not accepted even with RecursionLimit 1000", format, f.name), map[string]any{"doc": doc, "err": err.Error()})
						continue
					}
					if err, p := dec(limit); !p && d > limit && err == nil {
						c.Violation(fmt.Sprintf("%s accepts nesting depth >=%d with RecursionLimit %d (%s)", format, d, limit, f.name), doc)
					}
				}
			}
		}
	}
	for _, f := range fams {
		for _, limit := range []int{1, 2, 3, 5, 8} {
			for _, d := range []int{1, limit - 1, limit, limit + 1, limit + 2, 2*limit + 3, 4*limit + 6} {
				if d < 1 {
					continue
				}
				n.Add(1)
				doc := f.json(d)
				m := f.mt.New()
				var err error
				if !c.Guard(func() string { return "protojson depth doc=" + doc }, func() {
					err = protojson.UnmarshalOptions{AllowPartial: true, RecursionLimit: limit}.Unmarshal([]byte(doc), m.Interface())
				}) {
					if f.exact && d > limit && err == nil {
						c.Violation(fmt.Sprintf("protojson accepts nesting depth %d with RecursionLimit %d (%s)", d, limit, f.name), doc)
					}
					if !f.exact && d > 2*limit+2 && err == nil {
						c.Violation(fmt.Sprintf("protojson accepts nesting depth %d with RecursionLimit %d (%s)", d, limit, f.name), doc)
					}
					if d <= limit && f.exact && err != nil {
						c.Violation(fmt.Sprintf("protojson rejects nesting depth %d within RecursionLimit %d (%s)", d, limit, f.name), map[string]any{"doc": doc, "err": err.Error()})
					}
				}
				if f.text != nil {
					doc := f.text(d)
					m := f.mt.New()
					if !c.Guard(func() string { return "prototext depth doc=" + doc }, func() {
						err = prototext.UnmarshalOptions{AllowPartial: true, RecursionLimit: limit}.Unmarshal([]byte(doc), m.Interface())
					}) {
						if d > limit && err == nil {
							c.Violation(fmt.Sprintf("prototext accepts nesting depth %d with RecursionLimit %d", d, limit), doc)
						}
						if d <= limit && err != nil {
							c.Violation(fmt.Sprintf("prototext rejects nesting depth %d within RecursionLimit %d", d, limit), map[string]any{"doc": doc, "err": err.Error()})
						}
					}
				}
			}
		}
	}
	c.Assume("depth accounting: a document with d nested message levels (top level = 1) must be rejected when d > RecursionLimit and accepted when d <= RecursionLimit for plain message fields; for Struct/Value/ListValue (two messages per JSON level) only 'far beyond the limit is rejected' is asserted")
	var _ proto.Message
}

// foreignExtensionKeys: totality when a document names, as [full.name], an
// extension that exists but extends ANOTHER message - whatever its field
// number (inside or outside the target's extension ranges) and whatever value
// follows. Every registered extension x every extendable target x 7 values,
// JSON and text.
func foreignExtensionKeys(c *core.Ctx, n *atomic.Int64) {
	var xts []protoreflect.ExtensionType
	protoregistry.GlobalTypes.RangeExtensions(func(xt protoreflect.ExtensionType) bool { xts = append(xts, xt); return true })
	sort.Slice(xts, func(i, j int) bool { return xts[i].TypeDescriptor().FullName() < xts[j].TypeDescriptor().FullName() })
	targets := []string{"goproto.proto.test.TestAllExtensions", "goproto.proto.testeditions.TestAllExtensions", "opaque.goproto.proto.testeditions.TestAllExtensions", "goproto.proto.test.TestPackedExtensions", "goproto.proto.test.TestAllTypes", "pb2.Extensions"}
	jvals := []string{"1", "[1]", `"x"`, "{}", "[{}]", "true", "null"}
	tvals := []string{": 1", ": [1]", `: "x"`, " {}", ": [{}]", ": true", " <>"}
	type job struct {
		target string
		xt     protoreflect.ExtensionType
	}
	var jobs []job
	for _, t := range targets {
		if _, err := protoregistry.GlobalTypes.FindMessageByName(protoreflect.FullName(t)); err != nil {
			continue
		}
		for _, xt := range xts {
			jobs = append(jobs, job{t, xt})
		}
	}
	c.Par(len(jobs), func(i int) {
		j := jobs[i]
		name := string(j.xt.TypeDescriptor().FullName())
		for _, f := range []univ.Flavor{univ.Gen(j.target), univ.Dyn(j.target)} {
			for vi := range jvals {
				jdoc := `{"[` + name + `]":` + jvals[vi] + `}`
				tdoc := "[" + name + "]" + tvals[vi]
				c.Guard(func() string { return "protojson.Unmarshal type=" + f.Name + " doc=" + jdoc }, func() {
					protojson.UnmarshalOptions{AllowPartial: true}.Unmarshal([]byte(jdoc), f.MT.New().Interface())
				})
				c.Guard(func() string { return "prototext.Unmarshal type=" + f.Name + " doc=" + tdoc }, func() {
					prototext.UnmarshalOptions{AllowPartial: true}.Unmarshal([]byte(tdoc), f.MT.New().Interface())
				})
				n.Add(2)
			}
		}
	})
	c.Bounds["foreign_extension_keys"] = map[string]any{"registered_extensions": len(xts), "targets": targets, "values": len(jvals), "formats": 2}
}
