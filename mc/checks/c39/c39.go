// Package c39: textual default values round-trip exactly.
package c39

import (
	"fmt"
	"math"
	"sync/atomic"

	"google.golang.org/protobuf/internal/encoding/defval"
	"google.golang.org/protobuf/proto"
	"google.golang.org/protobuf/reflect/protodesc"
	"google.golang.org/protobuf/reflect/protoreflect"
	"google.golang.org/protobuf/reflect/protoregistry"
	"google.golang.org/protobuf/types/descriptorpb"
	"google.golang.org/protobuf/verifmc/core"
	"google.golang.org/protobuf/verifmc/univ"
)

func init() { core.Register("C39", "exploration", run) }

var formats = []defval.Format{defval.Descriptor, defval.GoTag}

func same(k protoreflect.Kind, a, b protoreflect.Value) bool {
	switch k {
	case protoreflect.FloatKind:
		x, y := float32(a.Float()), float32(b.Float())
		return math.Float32bits(x) == math.Float32bits(y) || (x != x && y != y)
	case protoreflect.DoubleKind:
		x, y := a.Float(), b.Float()
		return math.Float64bits(x) == math.Float64bits(y) || (x != x && y != y)
	case protoreflect.BytesKind:
		return string(a.Bytes()) == string(b.Bytes())
	}
	return a.Interface() == b.Interface()
}

func roundTrip(c *core.Ctx, k protoreflect.Kind, v protoreflect.Value) {
	for _, f := range formats {
		s, err := defval.Marshal(v, nil, k, f)
		if err != nil {
			c.Violation(fmt.Sprintf("defval.Marshal fails kind=%v format=%d value=%s", k, f, univ.FormatValue(v)), err.Error())
			continue
		}
		got, _, err := defval.Unmarshal(s, k, nil, f)
		if err != nil || !same(k, v, got) {
			gs := "-"
			if err == nil {
				gs = univ.FormatValue(got)
			}
			c.Violation(fmt.Sprintf("default value does not round trip kind=%v format=%d value=%s text=%q got=%s", k, f, univ.FormatValue(v), s, gs), fmt.Sprint(err))
		}
	}
}

func lattice64() []uint64 {
	var out []uint64
	for bl := 0; bl <= 64; bl++ {
		if bl == 0 {
			out = append(out, 0)
			continue
		}
		top := uint64(1) << uint(bl-1)
		mask := top | (top - 1)
		out = append(out, top, mask, 0xaaaaaaaaaaaaaaaa&mask|top, top|1)
	}
	for d := int64(-3); d <= 3; d++ {
		out = append(out, uint64(d), uint64(math.MaxInt64)+uint64(d), uint64(math.MaxInt32)+uint64(d), uint64(math.MaxUint32)+uint64(d))
	}
	return out
}

func run(c *core.Ctx) {
	c.Rule = "every float32 bit pattern (thorough: all 2^32; quick: stride 61 plus a full exponent x mantissa-pattern set incl. known double-rounding witnesses), doubles with <=2 set or cleared mantissa bits per exponent, the 64-bit integer boundary lattice for every integer kind, bool, every byte string of length <=2 and longer strings in context, each through defval.Marshal -> Unmarshal in both formats (descriptor and Go struct tag): the parsed value must equal the original bit for bit (NaNs identified). Then the same values as field defaults of a schema through ToFileDescriptorProto -> NewFile: FieldDescriptor.Default must be unchanged"
	c.Exhaustive = true
	var n atomic.Int64
	stride := uint64(core.Pick(c, 61, 1))
	c.ParRange(0, 1<<32, 1<<18, func(a, b uint64) {
		var cnt int64
		for x := a + (stride-a%stride)%stride; x < b; x += stride {
			roundTrip(c, protoreflect.FloatKind, protoreflect.ValueOfFloat32(math.Float32frombits(uint32(x))))
			cnt++
		}
		n.Add(cnt)
	})
	for e := uint32(0); e < 256; e++ {
		for _, m := range []uint32{0, 1, 2, 0x7fffff, 0x7ffffe, 0x2aaaaa, 0x555555, 0x400000, 0x3fffff, 0x2e43fd} {
			for _, s := range []uint32{0, 1 << 31} {
				roundTrip(c, protoreflect.FloatKind, protoreflect.ValueOfFloat32(math.Float32frombits(s|e<<23|m)))
				n.Add(1)
			}
		}
	}
	c.Bounds["float32_stride"] = stride
	expStep := uint64(core.Pick(c, 7, 1))
	c.ParRange(0, 2048, 1, func(a, b uint64) {
		var cnt int64
		for e := a; e < b; e++ {
			if e%expStep != 0 && e < 2046 && e > 1 {
				continue
			}
			for i := 0; i <= 52; i++ {
				for j := i; j <= 52; j += 3 {
					var m uint64
					if i < 52 {
						m |= 1 << uint(i)
					}
					if j < 52 {
						m |= 1 << uint(j)
					}
					for _, bits := range []uint64{e<<52 | m, 1<<63 | e<<52 | m, e<<52 | (1<<52-1)&^m} {
						roundTrip(c, protoreflect.DoubleKind, protoreflect.ValueOfFloat64(math.Float64frombits(bits)))
						cnt++
					}
				}
			}
		}
		n.Add(cnt)
	})
	for _, v := range lattice64() {
		roundTrip(c, protoreflect.Int64Kind, protoreflect.ValueOfInt64(int64(v)))
		roundTrip(c, protoreflect.Sint64Kind, protoreflect.ValueOfInt64(int64(v)))
		roundTrip(c, protoreflect.Sfixed64Kind, protoreflect.ValueOfInt64(int64(v)))
		roundTrip(c, protoreflect.Uint64Kind, protoreflect.ValueOfUint64(v))
		roundTrip(c, protoreflect.Fixed64Kind, protoreflect.ValueOfUint64(v))
		roundTrip(c, protoreflect.Int32Kind, protoreflect.ValueOfInt32(int32(v)))
		roundTrip(c, protoreflect.Sint32Kind, protoreflect.ValueOfInt32(int32(v)))
		roundTrip(c, protoreflect.Sfixed32Kind, protoreflect.ValueOfInt32(int32(v)))
		roundTrip(c, protoreflect.Uint32Kind, protoreflect.ValueOfUint32(uint32(v)))
		roundTrip(c, protoreflect.Fixed32Kind, protoreflect.ValueOfUint32(uint32(v)))
		n.Add(10)
	}
	roundTrip(c, protoreflect.BoolKind, protoreflect.ValueOfBool(true))
	roundTrip(c, protoreflect.BoolKind, protoreflect.ValueOfBool(false))
	// bytes: all strings of length <= 2, and every single byte in context
	for l := 0; l <= 2; l++ {
		cnt := 1
		for i := 0; i < l; i++ {
			cnt *= 256
		}
		c.ParRange(0, uint64(cnt), 1<<10, func(a, b uint64) {
			for v := a; v < b; v++ {
				bs := make([]byte, l)
				x := v
				for i := l - 1; i >= 0; i-- {
					bs[i] = byte(x)
					x >>= 8
				}
				roundTrip(c, protoreflect.BytesKind, protoreflect.ValueOfBytes(bs))
				roundTrip(c, protoreflect.StringKind, protoreflect.ValueOfString(string(bs)))
			}
			n.Add(int64(b-a) * 2)
		})
	}
	for b := 0; b < 256; b++ {
		for _, ctx := range []string{"7", "a", "\\", "\"", "x"} {
			roundTrip(c, protoreflect.BytesKind, protoreflect.ValueOfBytes([]byte("p"+string(rune(0))[:0]+string([]byte{byte(b)})+ctx)))
			n.Add(1)
		}
	}
	// through descriptors: defaults survive ToFileDescriptorProto -> NewFile
	type dv struct {
		t descriptorpb.FieldDescriptorProto_Type
		k protoreflect.Kind
		v protoreflect.Value
	}
	var dvs []dv
	for _, bits := range []uint32{0, 1 << 31, 0x3fc00000, 0x7f800000, 0xff800000, 0x7fc00000, 0x15ae43fd, 0x95ae43fd, 1, 0x7f7fffff, 0x00800000, 0x3dcccccd} {
		dvs = append(dvs, dv{descriptorpb.FieldDescriptorProto_TYPE_FLOAT, protoreflect.FloatKind, protoreflect.ValueOfFloat32(math.Float32frombits(bits))})
	}
	step := uint32(core.Pick(c, 1<<20+7, 1<<12+1))
	for bits := uint32(0); bits < 0xffffffff-step; bits += step {
		dvs = append(dvs, dv{descriptorpb.FieldDescriptorProto_TYPE_FLOAT, protoreflect.FloatKind, protoreflect.ValueOfFloat32(math.Float32frombits(bits))})
	}
	for _, bits := range []uint64{0, 1 << 63, 0x3ff8000000000000, 0x7ff0000000000000, 0xfff0000000000000, 0x7ff8000000000000, 1, 0x7fefffffffffffff, 0x3fb999999999999a, 0x0010000000000000} {
		dvs = append(dvs, dv{descriptorpb.FieldDescriptorProto_TYPE_DOUBLE, protoreflect.DoubleKind, protoreflect.ValueOfFloat64(math.Float64frombits(bits))})
	}
	for _, v := range []int64{0, 1, -1, math.MaxInt64, math.MinInt64} {
		dvs = append(dvs, dv{descriptorpb.FieldDescriptorProto_TYPE_INT64, protoreflect.Int64Kind, protoreflect.ValueOfInt64(v)})
		dvs = append(dvs, dv{descriptorpb.FieldDescriptorProto_TYPE_UINT64, protoreflect.Uint64Kind, protoreflect.ValueOfUint64(uint64(v))})
		dvs = append(dvs, dv{descriptorpb.FieldDescriptorProto_TYPE_SINT32, protoreflect.Sint32Kind, protoreflect.ValueOfInt32(int32(v))})
	}
	for b := 0; b < 256; b++ {
		dvs = append(dvs, dv{descriptorpb.FieldDescriptorProto_TYPE_BYTES, protoreflect.BytesKind, protoreflect.ValueOfBytes([]byte{'a', byte(b), '7'})})
	}
	for _, s := range []string{"", "a", "é", "\"'\\", "\n\t\x00", "😀"} {
		dvs = append(dvs, dv{descriptorpb.FieldDescriptorProto_TYPE_STRING, protoreflect.StringKind, protoreflect.ValueOfString(s)})
	}
	dvs = append(dvs, dv{descriptorpb.FieldDescriptorProto_TYPE_BOOL, protoreflect.BoolKind, protoreflect.ValueOfBool(true)}, dv{descriptorpb.FieldDescriptorProto_TYPE_BOOL, protoreflect.BoolKind, protoreflect.ValueOfBool(false)})
	c.Par(len(dvs), func(i int) {
		d := dvs[i]
		c.Guard(func() string { return "descriptor default " + univ.FormatValue(d.v) }, func() {
			text, err := defval.Marshal(d.v, nil, d.k, defval.Descriptor)
			if err != nil {
				return
			}
			fdp := univ.SchemaFile(fmt.Sprintf("verif/dv%d.proto", i), fmt.Sprintf("verif.dv%d", i), univ.Proto2, []univ.Shape{{Name: "d", Type: d.t, Label: descriptorpb.FieldDescriptorProto_LABEL_OPTIONAL}})
			fdp.MessageType[0].Field[0].DefaultValue = proto.String(text)
			fd1, err := protodesc.NewFile(fdp, protoregistry.GlobalFiles)
			if err != nil {
				c.Violation(fmt.Sprintf("NewFile rejects a default written by defval.Marshal kind=%v text=%q", d.k, text), err.Error())
				return
			}
			f1 := fd1.Messages().Get(0).Fields().Get(0)
			if !f1.HasDefault() || !same(d.k, d.v, f1.Default()) {
				c.Violation(fmt.Sprintf("FieldDescriptor.Default differs from the written default kind=%v value=%s text=%q got=%s", d.k, univ.FormatValue(d.v), text, univ.FormatValue(f1.Default())), nil)
				return
			}
			fd2, err := protodesc.NewFile(protodesc.ToFileDescriptorProto(fd1), protoregistry.GlobalFiles)
			if err != nil {
				c.Violation(fmt.Sprintf("NewFile rejects ToFileDescriptorProto output kind=%v text=%q", d.k, text), err.Error())
				return
			}
			f2 := fd2.Messages().Get(0).Fields().Get(0)
			if !f2.HasDefault() || !same(d.k, d.v, f2.Default()) {
				c.Violation(fmt.Sprintf("default changes across ToFileDescriptorProto/NewFile kind=%v value=%s got=%s", d.k, univ.FormatValue(d.v), univ.FormatValue(f2.Default())), nil)
			}
		})
	})
	n.Add(int64(len(dvs)))
	c.Bounds["descriptor_defaults"] = len(dvs)
	c.Eval(n.Load())
	c.DistinctN(n.Load())
	c.Sample(map[string]any{"kind": "float", "bits": "0x15ae43fd", "text": "7.038531e-26"})
	c.Sample(map[string]any{"kind": "bytes", "value": "61ff37", "text": "a\\3777"})
}
