// Package c02: the wire field parser accepts exactly the wire grammar and
// never over-reads.
package c02

import (
	"fmt"
	"io"
	"strings"
	"sync/atomic"

	"google.golang.org/protobuf/encoding/protowire"
	"google.golang.org/protobuf/verifmc/core"
	"google.golang.org/protobuf/verifmc/ref/refwire"
)

func init() { core.Register("C02", "exploration", Run) }

var alpha = []byte{0x00, 0x01, 0x02, 0x03, 0x04, 0x08, 0x09, 0x0a, 0x0b, 0x0c, 0x0d, 0x0e, 0x0f, 0x13, 0x14, 0x7f, 0x80, 0x81, 0xff}

func wantErr(d refwire.Defect) string {
	switch d {
	case refwire.Truncated:
		return io.ErrUnexpectedEOF.Error()
	case refwire.FieldNumber:
		return "invalid field number"
	case refwire.Overflow:
		return "variable length integer overflow"
	case refwire.Reserved:
		return "cannot parse reserved wire type"
	case refwire.EndGroup:
		return "mismatching end group marker"
	case refwire.Depth:
		return "parse error"
	}
	return ""
}

var fvNames, grNames = func() (a [3][8]string, g [3]string) {
	for n := 1; n <= 2; n++ {
		g[n] = fmt.Sprintf("ConsumeGroup(%d)", n)
		for t := 0; t < 8; t++ {
			a[n][t] = fmt.Sprintf("ConsumeFieldValue(%d,%d)", n, t)
		}
	}
	return
}()

type res struct {
	num int64
	typ int
	n   int
}

// guarded returns in placed in three backings: exact capacity, followed by
// 0xff guards, followed by 0x00 guards.
func guarded(in []byte, scratch *[3][]byte) [3][]byte {
	for i := range scratch {
		if cap(scratch[i]) < len(in)+16 {
			scratch[i] = make([]byte, len(in)+16)
		}
	}
	a := scratch[0][:len(in)]
	copy(a, in)
	b := scratch[1][:len(in)+16]
	copy(b, in)
	for i := len(in); i < len(b); i++ {
		b[i] = 0xff
	}
	cc := scratch[2][:len(in)+16]
	copy(cc, in)
	for i := len(in); i < len(cc); i++ {
		cc[i] = 0x00
	}
	return [3][]byte{a[:len(in):len(in)], b[:len(in)], cc[:len(in)]}
}

func check(c *core.Ctx, in []byte, scratch *[3][]byte, outcomes *[8]int64) {
	defer func() {
		if r := recover(); r != nil {
			c.Violation(fmt.Sprintf("panic input=%x: %v", in, r), nil)
		}
	}()
	g := guarded(in, scratch)
	report := func(fn string, got res, want res, d refwire.Defect) {
		c.Violation(fmt.Sprintf("%s input=%x got=(%d,%d,%d) want=(%d,%d,%d) defect=%v", fn, in, got.num, got.typ, got.n, want.num, want.typ, want.n, d), nil)
	}
	verdict := func(fn string, got res, want res, d refwire.Defect) {
		if got.n > len(in) {
			report(fn+".overlong", got, want, d)
			return
		}
		if d == refwire.OK {
			if got != want {
				report(fn, got, want, d)
			}
			return
		}
		if got.n >= 0 {
			report(fn+".accepts-malformed", got, want, d)
			return
		}
		e := protowire.ParseError(got.n)
		if e == nil || (d == refwire.Truncated && e != io.ErrUnexpectedEOF) || !strings.HasSuffix(e.Error(), wantErr(d)) {
			report(fn+".errcode", got, want, d)
		}
	}
	// ConsumeTag
	{
		num, typ, n, d := refwire.ConsumeTag(in)
		var got [3]res
		for i := range g {
			a, b, cc := protowire.ConsumeTag(g[i])
			got[i] = res{int64(a), int(b), cc}
		}
		if got[0] != got[1] || got[0] != got[2] {
			report("ConsumeTag.overread", got[1], got[0], d)
		}
		w := res{num, typ, n}
		if d != refwire.OK {
			w = res{}
		}
		verdict("ConsumeTag", got[0], w, d)
	}
	// ConsumeField
	{
		num, typ, n, d := refwire.ConsumeField(in)
		outcomes[d]++
		var got [3]res
		for i := range g {
			a, b, cc := protowire.ConsumeField(g[i])
			got[i] = res{int64(a), int(b), cc}
		}
		if got[0] != got[1] || got[0] != got[2] {
			report("ConsumeField.overread", got[1], got[0], d)
		}
		w := res{num, typ, n}
		if d != refwire.OK {
			w = res{}
		}
		verdict("ConsumeField", got[0], w, d)
	}
	// ConsumeFieldValue for every wire type, numbers 1 and 2
	for typ := 0; typ < 8; typ++ {
		for num := int64(1); num <= 2; num++ {
			if num == 2 && typ != 3 {
				continue
			}
			n, d := refwire.ConsumeValue(num, typ, in, refwire.GroupLevels)
			var got [3]res
			for i := range g {
				got[i] = res{0, 0, protowire.ConsumeFieldValue(protowire.Number(num), protowire.Type(typ), g[i])}
			}
			if got[0] != got[1] || got[0] != got[2] {
				report(fvNames[num][typ]+".overread", got[1], got[0], d)
			}
			verdict(fvNames[num][typ], got[0], res{0, 0, n}, d)
			if typ == 3 {
				// ConsumeGroup: same verdict, and value = input minus the end tag
				v, gn := protowire.ConsumeGroup(protowire.Number(num), g[0])
				verdict(grNames[num], res{0, 0, gn}, res{0, 0, n}, d)
				if d == refwire.OK {
					// reference body: walk records until the end tag
					recs, _ := refwire.Split(append([]byte{byte(num<<3 | 3)}, in[:n]...))
					if len(recs) != 1 || string(recs[0].Body) != string(v) {
						c.Violation(fmt.Sprintf("ConsumeGroup(%d).value input=%x got=%x", num, in, v), nil)
					}
				} else if v != nil {
					c.Violation(fmt.Sprintf("ConsumeGroup(%d).value-on-error input=%x got=%x", num, in, v), nil)
				}
			}
		}
	}
}

func Run(c *core.Ctx) {
	c.Rule = "all byte strings over a 19-byte alphabet (every wire type for fields 1,2; field 0; reserved types; 1-byte and continuation varint bytes) up to length L, each fed to ConsumeTag/ConsumeField/ConsumeFieldValue(8 types)/ConsumeGroup in three backings (exact capacity, 0xff guards, 0x00 guards) and compared with a recursive-descent reference grammar incl. first-defect error mapping; plus structured families (varint lengths x terminal bytes, length prefixes, group nesting depth around the limit, group shapes = s sibling groups x chain of d nested groups x 3 placements with s,d around 5000 and 10000, field-number boundaries); distinct = distinct inputs (by construction), non-trivial = non-empty"
	c.Assume("valid field number = 1..MaxInt32 as ConsumeTag documents (MessageSet)")
	c.Assume("group nesting admitted by ConsumeFieldValue pinned at DefaultRecursionLimit+1 levels (statement says only 'within the recursion limit')")
	L := core.Pick(c, 5, 7)
	c.Bounds["alphabet"] = fmt.Sprintf("%x", alpha)
	c.Bounds["maxlen"] = L
	K := len(alpha)
	// shard on the first two bytes
	var total atomic.Int64
	var oc [8]atomic.Int64
	var sampleEvery int64 = 1
	_ = sampleEvery
	prefixes := [][]byte{{}}
	for _, a := range alpha {
		prefixes = append(prefixes, []byte{a})
	}
	var shards [][]byte
	for _, a := range alpha {
		for _, b := range alpha {
			shards = append(shards, []byte{a, b})
		}
	}
	var scratch0 [3][]byte
	var out0 [8]int64
	for _, p := range prefixes {
		check(c, p, &scratch0, &out0)
	}
	total.Add(int64(len(prefixes)))
	c.Par(len(shards), func(si int) {
		var scratch [3][]byte
		var out [8]int64
		buf := make([]byte, 0, L)
		buf = append(buf, shards[si]...)
		var cnt int64
		var rec func()
		rec = func() {
			check(c, buf, &scratch, &out)
			cnt++
			if len(buf) == L {
				return
			}
			for i := 0; i < K; i++ {
				buf = append(buf, alpha[i])
				rec()
				buf = buf[:len(buf)-1]
			}
		}
		rec()
		total.Add(cnt)
		for i := range out {
			oc[i].Add(out[i])
		}
		if si%97 == int(c.Seed%97) {
			c.Sample(fmt.Sprintf("input %x", append(append([]byte{}, shards[si]...), alpha[si%K], alpha[(si/3)%K])))
		}
	})
	for i := range out0 {
		oc[i].Add(out0[i])
	}

	// structured families
	var fam int64
	var scratch [3][]byte
	var out [8]int64
	// varints of 1..11 bytes x terminal byte, as tag, as varint value, as length prefix
	for l := 1; l <= 11; l++ {
		for _, fill := range []byte{0x80, 0xff, 0x81} {
			for _, term := range []byte{0, 1, 2, 0x7f, 0x80, 0xff} {
				v := make([]byte, l)
				for i := range v {
					v[i] = fill
				}
				v[l-1] = term
				for _, pre := range [][]byte{{}, {0x08}, {0x0a}, {0x0b, 0x08}} {
					for _, suf := range [][]byte{{}, {0x00}, {0x0c}, {0x01, 0x02, 0x03}} {
						in := append(append(append([]byte{}, pre...), v...), suf...)
						check(c, in, &scratch, &out)
						fam++
					}
				}
			}
		}
	}
	// length prefixes around the payload length and huge
	for _, plen := range []int{0, 1, 5, 127, 128, 300} {
		payload := make([]byte, plen)
		for _, lp := range []uint64{uint64(plen) - 1, uint64(plen), uint64(plen) + 1, 1 << 31, 1<<31 - 1, 1 << 32, 1 << 63, 1<<64 - 1, 1<<63 - 1} {
			in := append(refwire.AppendVarint([]byte{0x0a}, lp), payload...)
			check(c, in, &scratch, &out)
			check(c, in[1:], &scratch, &out)
			fam += 2
		}
	}
	// field number boundaries
	for _, num := range []uint64{0, 1, 1<<29 - 1, 1 << 29, 1<<31 - 1, 1 << 31, 1<<32 - 1, 1 << 32, 1<<61 - 1} {
		for typ := uint64(0); typ < 8; typ++ {
			in := append(refwire.AppendVarint(nil, num<<3|typ), 0x00, 0x00, 0x00, 0x00, 0x00, 0x00, 0x00, 0x00)
			check(c, in, &scratch, &out)
			fam++
		}
	}
	// nesting depth around the limit
	for _, depth := range []int{1, 2, 9999, 10000, 10001, 10002, 10003} {
		for _, closeAll := range []bool{true, false} {
			in := make([]byte, 0, 2*depth)
			for i := 0; i < depth; i++ {
				in = append(in, 0x0b)
			}
			if closeAll {
				for i := 0; i < depth; i++ {
					in = append(in, 0x0c)
				}
			}
			check(c, in, &scratch, &out)
			fam++
		}
	}
	// group shapes: s empty sibling groups and a chain of d nested groups inside
	// one outer group, the siblings before the chain, at its bottom, or after
	// it. The recursion budget is a property of the deepest path, not of the
	// number of groups met on the way.
	ns := []int{0, 1, 2, 4999, 5000, 9999, 10000, 10001, 10002}
	nd := []int{0, 1, 2, 4999, 5000, 5001, 5002, 9998, 9999, 10000, 10001}
	for _, sib := range ns {
		for _, d := range nd {
			for pos := 0; pos < 3; pos++ {
				if (sib == 0 || d == 0) && pos > 0 {
					continue
				}
				in := make([]byte, 0, 2+2*sib+2*d)
				in = append(in, 0x0b)
				sibs := func() {
					for i := 0; i < sib; i++ {
						in = append(in, 0x13, 0x14)
					}
				}
				if pos == 0 {
					sibs()
				}
				for i := 0; i < d; i++ {
					in = append(in, 0x0b)
				}
				if pos == 1 {
					sibs()
				}
				for i := 0; i < d; i++ {
					in = append(in, 0x0c)
				}
				if pos == 2 {
					sibs()
				}
				in = append(in, 0x0c)
				check(c, in, &scratch, &out)
				fam++
			}
		}
	}
	for i := range out {
		oc[i].Add(out[i])
	}
	c.Sample("family: 0b x10001 0c x10001 (group nesting at the limit)")
	c.Sample("family: 0b (13 14)x10001 0c (10001 sibling groups inside one group)")
	total.Add(fam)
	c.Eval(total.Load())
	c.DistinctN(total.Load() - 1)
	for d := refwire.OK; d <= refwire.Depth; d++ {
		c.OutcomeN("ConsumeField:"+d.String(), oc[d].Load())
	}
	c.Exhaustive = true
}
