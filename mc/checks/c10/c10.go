// Package c10: required-field checks are exact.
package c10

import (
	"fmt"
	"google.golang.org/protobuf/verifmc/checks/c03"

	"google.golang.org/protobuf/encoding/protojson"
	"google.golang.org/protobuf/encoding/prototext"
	"google.golang.org/protobuf/proto"
	"google.golang.org/protobuf/reflect/protoreflect"
	"google.golang.org/protobuf/reflect/protoregistry"
	piface "google.golang.org/protobuf/runtime/protoiface"
	"google.golang.org/protobuf/verifmc/core"
	"google.golang.org/protobuf/verifmc/univ"
)

func init() { core.Register("C10", "exploration", run) }

type plan struct {
	name    string
	k       int
	depth   int
	wireN   int
	wireAll bool
	dyn     bool
	noText  bool
}

func plans(c *core.Ctx) []plan {
	var p []plan
	for _, pfx := range []string{"goproto.proto.testrequired.", "hybrid.goproto.proto.testrequired.", "opaque.goproto.proto.testrequired."} {
		for _, n := range []string{"Int32", "Int64", "Uint32", "Uint64", "Sint32", "Sint64", "Fixed32", "Fixed64", "Float", "Double", "Bool", "String", "Bytes", "Message", "Group"} {
			p = append(p, plan{name: pfx + n, k: 2, depth: 2, wireN: 2, wireAll: true, dyn: pfx == "goproto.proto.testrequired."})
		}
	}
	p = append(p,
		plan{name: "goproto.proto.test.TestRequired", k: 3, depth: 2, wireN: 3, wireAll: true, dyn: true},
		plan{name: "goproto.proto.test.TestRequiredForeign", k: 3, depth: 2, wireN: 3, wireAll: true, dyn: true},
		plan{name: "goproto.proto.test.TestRequiredGroupFields", k: 3, depth: 3, wireN: 2, wireAll: true, dyn: true},
		plan{name: "goproto.proto.test.TestRequiredLazy", k: 3, depth: 2, wireN: 3, wireAll: true},
		plan{name: "goproto.proto.test.TestOneofWithRequired", k: 3, depth: 2, wireN: 3, wireAll: true, dyn: true},
		plan{name: "goproto.proto.testeditions.TestRequired", k: 3, depth: 2, wireN: 3, wireAll: true, dyn: true},
		plan{name: "goproto.proto.testeditions.TestRequiredForeign", k: 3, depth: 2, wireN: 2, wireAll: true},
		plan{name: "goproto.proto.testeditions.TestRequiredLazy", k: 3, depth: 2, wireN: 3, wireAll: true},
		plan{name: "goproto.proto.testeditions.TestOneofWithRequired", k: 3, depth: 2, wireN: 3, wireAll: true},
		plan{name: "goproto.proto.testeditions.TestRequiredGroupFields", k: 3, depth: 3, wireN: 2, wireAll: true},
		plan{name: "opaque.goproto.proto.testeditions.TestRequired", k: 3, depth: 2, wireN: 3, wireAll: true},
		plan{name: "opaque.goproto.proto.testeditions.TestRequiredForeign", k: 3, depth: 2, wireN: 3, wireAll: true},
		plan{name: "opaque.goproto.proto.testeditions.TestRequiredLazy", k: 3, depth: 2, wireN: 3, wireAll: true},
		plan{name: "opaque.goproto.proto.testeditions.TestOneofWithRequired", k: 3, depth: 2, wireN: 3, wireAll: true},
		plan{name: "opaque.goproto.proto.testeditions.TestRequiredGroupFields", k: 3, depth: 3, wireN: 2, wireAll: true},
		plan{name: "hybrid.goproto.proto.testeditions.TestRequiredLazy", k: 3, depth: 2, wireN: 3, wireAll: true},
		plan{name: "hybrid.goproto.proto.testeditions.TestRequiredForeign", k: 2, depth: 2, wireN: 2, wireAll: true},
		plan{name: "pb2.Requireds", k: core.Pick(c, 2, 3), depth: 2, wireN: 2, dyn: true},
		plan{name: "pb2.PartialRequired", k: 3, depth: 2, wireN: 3, wireAll: true, dyn: true},
		plan{name: "pb2.IndirectRequired", k: 3, depth: 3, wireN: core.Pick(c, 2, 3), wireAll: true, dyn: true},
		plan{name: "pb2.NestedWithRequired", k: 2, depth: 2, wireN: 2, wireAll: true},
		plan{name: "pbeditions.IndirectRequired", k: 3, depth: 3, wireN: 2, wireAll: true},
		plan{name: "opaque.pbeditions.IndirectRequired", k: 3, depth: 3, wireN: 2, wireAll: true},
		plan{name: "opaque.pbeditions.Requireds", k: 2, depth: 2, wireN: 2},
	)
	return p
}

// extension of a required-bearing message on TestAllExtensions: handled by a plan restricted to those extensions
func extPlan() plan {
	return plan{name: "goproto.proto.test.TestAllExtensions", k: 2, depth: 2, wireN: 2}
}

type checker struct {
	c *core.Ctx
	f univ.Flavor
}

func (k *checker) message(m protoreflect.Message, origin string, jsonText bool) {
	c := k.c
	c.Eval(1)
	want := univ.Initialized(m)
	if want {
		c.Outcome("initialized")
	} else {
		c.Outcome("partial")
	}
	sig := func(cl string) string {
		return fmt.Sprintf("%s want-initialized=%v type=%s case=%s", cl, want, k.f.Name, origin)
	}
	mi := m.Interface()
	c.Guard(func() string { return sig("") }, func() {
		if got := proto.CheckInitialized(mi) == nil; got != want {
			c.Violation(sig("CheckInitialized"), nil)
		}
		_, err := proto.Marshal(mi)
		if (err == nil) != want {
			c.Violation(sig("Marshal"), fmt.Sprint(err))
		}
		b, err := proto.MarshalOptions{AllowPartial: true}.Marshal(mi)
		if err != nil {
			c.Violation(sig("Marshal{AllowPartial} fails"), err.Error())
			return
		}
		k.bytes(b, origin+" (marshaled)", want, true)
		if !jsonText {
			return
		}
		// JSON
		if jb, err := (protojson.MarshalOptions{AllowPartial: true}).Marshal(mi); err == nil {
			_, err2 := protojson.Marshal(mi)
			if (err2 == nil) != want {
				c.Violation(sig("protojson.Marshal"), fmt.Sprint(err2))
			}
			m2 := k.f.MT.New()
			if err := (protojson.UnmarshalOptions{AllowPartial: true, Resolver: jres(k.f)}).Unmarshal(jb, m2.Interface()); err == nil {
				m3 := k.f.MT.New()
				err3 := (protojson.UnmarshalOptions{Resolver: jres(k.f)}).Unmarshal(jb, m3.Interface())
				if (err3 == nil) != want {
					c.Violation(sig("protojson.Unmarshal"), map[string]any{"err": fmt.Sprint(err3), "json": string(jb)})
				}
			}
		}
		if tb, err := (prototext.MarshalOptions{AllowPartial: true}).Marshal(mi); err == nil {
			_, err2 := prototext.Marshal(mi)
			if (err2 == nil) != want {
				c.Violation(sig("prototext.Marshal"), fmt.Sprint(err2))
			}
			m2 := k.f.MT.New()
			if err := (prototext.UnmarshalOptions{AllowPartial: true, Resolver: jres(k.f)}).Unmarshal(tb, m2.Interface()); err == nil {
				m3 := k.f.MT.New()
				err3 := (prototext.UnmarshalOptions{Resolver: jres(k.f)}).Unmarshal(tb, m3.Interface())
				if (err3 == nil) != want {
					c.Violation(sig("prototext.Unmarshal"), map[string]any{"err": fmt.Sprint(err3), "text": string(tb)})
				}
			}
		}
	})
}

type jsonResolver interface {
	protoregistry.MessageTypeResolver
	protoregistry.ExtensionTypeResolver
}

func jres(f univ.Flavor) jsonResolver {
	if f.Dynamic {
		return univ.DynTypes{}
	}
	return protoregistry.GlobalTypes
}

// bytes checks the strict-decode verdicts for wire input in. If knownWant is
// false, the expectation is derived from an eager AllowPartial decode.
func (k *checker) bytes(in []byte, origin string, want bool, knownWant bool) {
	c := k.c
	ref, err := k.f.Unmarshal(in, proto.UnmarshalOptions{AllowPartial: true, NoLazyDecoding: true})
	if err != nil {
		return
	}
	if !knownWant {
		c.Eval(1)
		want = univ.Initialized(ref)
		if want {
			c.Outcome("wire-initialized")
		} else {
			c.Outcome("wire-partial")
		}
	}
	for _, nolazy := range []bool{false, true} {
		sig := func(cl string) string {
			return fmt.Sprintf("%s want-initialized=%v nolazy=%v type=%s case=%s", cl, want, nolazy, k.f.Name, origin)
		}
		c.Guard(func() string { return sig("") }, func() {
			m, err := k.f.Unmarshal(in, proto.UnmarshalOptions{NoLazyDecoding: nolazy})
			if (err == nil) != want {
				c.Violation(sig("Unmarshal"), map[string]any{"err": fmt.Sprint(err), "bytes": fmt.Sprintf("%x", in)})
			}
			_ = m
			// a message decoded with AllowPartial (possibly lazily) must be judged exactly afterwards
			m2, err := k.f.Unmarshal(in, proto.UnmarshalOptions{AllowPartial: true, NoLazyDecoding: nolazy})
			if err != nil {
				c.Violation(sig("Unmarshal{AllowPartial} fails"), err.Error())
				return
			}
			if got := proto.CheckInitialized(m2.Interface()) == nil; got != want {
				c.Violation(sig("CheckInitialized(after AllowPartial decode)"), fmt.Sprintf("%x", in))
			}
			if _, err := proto.Marshal(m2.Interface()); (err == nil) != want {
				c.Violation(sig("Marshal(after AllowPartial decode)"), fmt.Sprintf("%x", in))
			}
			// fast-path flag
			if !k.f.Dynamic {
				if methods := k.f.MT.New().ProtoMethods(); methods != nil && methods.Unmarshal != nil {
					var fl piface.UnmarshalInputFlags
					if nolazy {
						fl |= piface.UnmarshalNoLazyDecoding
					}
					out, err := methods.Unmarshal(piface.UnmarshalInput{Message: k.f.MT.New(), Buf: in, Resolver: protoregistry.GlobalTypes, Depth: 10000, Flags: fl})
					if err == nil && !want && out.Flags&piface.UnmarshalInitialized != 0 {
						c.Violation(sig("fast path reports partial message as initialized"), fmt.Sprintf("%x", in))
					}
				}
			}
		})
	}
}

func run(c *core.Ctx) {
	c.Rule = "for every required-bearing corpus type (proto2, editions LEGACY_REQUIRED; open/hybrid/opaque; lazy; required inside optional/repeated/map/oneof/group/extension): all messages with <=k slots over a slot alphabet that contains, besides every single field value, FILL slots that set all required fields of a (sub)message, and all decodable sequences of <=n wire records; an independent recursive required-field walk gives the expected verdict, which CheckInitialized, Marshal, binary Unmarshal (lazy and eager), protojson and prototext Marshal/Unmarshal without AllowPartial must reproduce exactly, while every AllowPartial variant succeeds; the fast path must never flag a partial message as initialized. distinct = distinct (type, slot list / record sequence). Histories: on ONE reused message whose field is a lazily decoded submessage with required fields, every sequence of <=d operations (d=4 quick, 5 thorough) from Unmarshal / Unmarshal{AllowPartial} / Unmarshal{Merge} / Unmarshal{Merge,AllowPartial} of {no bytes, a complete child, a partial child}, Clear, Get (expansion), Reset, Size: after each, CheckInitialized and strict Marshal must give the verdict of an independent required-field walk over the current content (reference = dynamicpb decode of the bytes that make up the content); every history is its own state. Content that exists only through the Go API of open-struct messages (a nil message as map value, list element or oneof payload, in every such field of every registered type) gets the same verdict check"
	c.Exhaustive = true
	var planOut []map[string]any
	ps := plans(c)
	ps = append(ps, extPlan())
	for _, p := range ps {
		if c.Expired() {
			break
		}
		mt, err := protoregistry.GlobalTypes.FindMessageByName(protoreflect.FullName(p.name))
		if err != nil {
			c.Extra("missing_type_"+p.name, err.Error())
			continue
		}
		md := mt.Descriptor()
		alpha := univ.Alphabet(md, p.depth, univ.Opt{Thin: true, Fill: true, NoUnknown: true})
		if p.name == "goproto.proto.test.TestAllExtensions" {
			// keep only extensions whose message type bears required fields
			var a2 []*univ.Slot
			for _, xt := range univ.Extensions(md) {
				xd := xt.TypeDescriptor()
				if xd.Message() != nil && univ.HasRequired(xd.Message()) {
					for _, s := range alpha {
						if s.Ext && s.Num == xd.Number() {
							a2 = append(a2, s)
						}
					}
				}
			}
			alpha = a2
		}
		flavors := []univ.Flavor{univ.Gen(p.name)}
		if p.dyn {
			flavors = append(flavors, univ.Dyn(p.name))
		}
		nmsg := univ.TupleCount(len(alpha), p.k)
		var nwire int
		for _, f := range flavors {
			k := &checker{c: c, f: f}
			univ.ForTuples(c, len(alpha), p.k, func(idx []int) {
				slots := univ.PickSlots(alpha, idx, nil)
				var m protoreflect.Message
				if c.Guard(func() string { return "build type=" + f.Name + " case=" + univ.Names(slots) }, func() { m = f.Build(slots) }) {
					return
				}
				k.message(m, univ.Names(slots), !p.noText)
			})
			if p.wireN > 0 {
				recs := univ.WireAlphabet(md, univ.WireOpt{AllFields: p.wireAll, Small: true, Depth: 2})
				if p.name == "goproto.proto.test.TestAllExtensions" {
					var r2 []univ.Rec
					for _, r := range recs {
						if len(r.Name) > 4 && (r.Name[:5] == "1000:" || r.Name[:5] == "1001:") {
							r2 = append(r2, r)
						}
					}
					recs = r2
				}
				nwire = univ.TupleCount(len(recs), p.wireN)
				univ.ForTuples(c, len(recs), p.wireN, func(idx []int) {
					in, name := univ.Concat(recs, idx)
					k.bytes(in, "wire"+name, false, false)
				})
			}
		}
		c.DistinctN(int64(nmsg + nwire))
		planOut = append(planOut, map[string]any{"type": p.name, "k": p.k, "slot_alphabet": len(alpha), "messages": nmsg, "wire_sequences": nwire, "flavors": len(flavors)})
		if len(alpha) > 1 {
			c.Sample(map[string]any{"type": p.name, "slots": univ.Names([]*univ.Slot{alpha[0], alpha[len(alpha)-1]})})
		}
	}
	c.Bounds["plans"] = planOut
	var histOut []map[string]any
	for _, name := range []string{"opaque.goproto.proto.testeditions.TestRequiredLazy", "hybrid.goproto.proto.testeditions.TestRequiredLazy", "goproto.proto.testeditions.TestRequiredLazy", "goproto.proto.test.TestRequiredLazy"} {
		if c.Expired() {
			break
		}
		histOut = append(histOut, lazyHistories(c, name, core.Pick(c, 4, 5)))
	}
	c.Bounds["required_in_lazy_histories"] = histOut
	c03.NilCompositesInitialized(c)
	c.Assume("the expected verdict is an independent recursive walk: every required field of every message reachable through populated fields, list elements, map values and extensions is populated")
}
