package c10

import (
	"fmt"

	"google.golang.org/protobuf/encoding/protowire"
	"google.golang.org/protobuf/proto"
	"google.golang.org/protobuf/reflect/protoreflect"
	"google.golang.org/protobuf/types/dynamicpb"
	"google.golang.org/protobuf/verifmc/core"
	"google.golang.org/protobuf/verifmc/hist"
	"google.golang.org/protobuf/verifmc/univ"
)

// Histories on ONE reused message whose only field is a lazily decoded
// submessage with required fields. The verdict of CheckInitialized / Marshal
// must depend on the message's current content only - not on what an earlier
// decode into the same message looked like, nor on the options it used.
//
// Reference model: the bytes that make up the current content (a
// concatenation, reset by a non-merging decode / Reset / Clear), decoded by
// dynamicpb and walked by an independent required-field check.

type lazyReg struct {
	m    protoreflect.Message
	ref  []byte
	dead bool // a decode failed: the content is no longer defined
}

func lazyHistories(c *core.Ctx, name string, depth int) map[string]any {
	mt := univ.MT(name)
	dyn := dynamicpb.NewMessageType(mt.Descriptor())
	fd := mt.Descriptor().Fields().Get(0) // the lazy message field
	child := fd.Message()
	// payloads of the lazy field: complete (all required fields set) and partial (empty)
	full := dynamicpb.NewMessage(child)
	univ.FillRequired(full)
	fullB, _ := proto.MarshalOptions{AllowPartial: true}.Marshal(full)
	wrap := func(b []byte) []byte {
		return protowire.AppendBytes(protowire.AppendTag(nil, fd.Number(), protowire.BytesType), b)
	}
	recs := []struct {
		name string
		b    []byte
	}{{"no bytes", nil}, {"lazy{complete}", wrap(fullB)}, {"lazy{partial}", wrap(nil)}}
	sys := &hist.System[*lazyReg]{
		Name: "required-in-lazy history(" + name + ")",
		New:  func() *lazyReg { return &lazyReg{m: mt.New()} },
		Check: func(c *core.Ctx, s *lazyReg, h string) {
			if s.dead {
				return
			}
			ref := dyn.New()
			if err := (proto.UnmarshalOptions{AllowPartial: true}).Unmarshal(s.ref, ref.Interface()); err != nil {
				return
			}
			want := univ.Initialized(ref)
			if got := proto.CheckInitialized(s.m.Interface()) == nil; got != want {
				c.Violation(fmt.Sprintf("CheckInitialized says initialized=%v, the content is initialized=%v: %s", got, want, h), fmt.Sprintf("content=%x", s.ref))
			}
			if _, err := proto.Marshal(s.m.Interface()); (err == nil) != want {
				c.Violation(fmt.Sprintf("Marshal error=%v, the content is initialized=%v: %s", err != nil, want, h), fmt.Sprintf("content=%x", s.ref))
			}
		},
	}
	add := func(n string, f func(s *lazyReg)) {
		sys.Ops = append(sys.Ops, hist.Op[*lazyReg]{Name: n, Do: func(c *core.Ctx, s *lazyReg, h string) {
			if !s.dead {
				f(s)
			}
		}})
	}
	for _, r := range recs {
		r := r
		for _, o := range []struct {
			name           string
			merge, partial bool
		}{{"Unmarshal", false, false}, {"Unmarshal{AllowPartial}", false, true}, {"Unmarshal{Merge}", true, false}, {"Unmarshal{Merge,AllowPartial}", true, true}} {
			o := o
			add(fmt.Sprintf("%s(%s)", o.name, r.name), func(s *lazyReg) {
				err := proto.UnmarshalOptions{Merge: o.merge, AllowPartial: o.partial}.Unmarshal(r.b, s.m.Interface())
				if o.merge {
					s.ref = append(append([]byte{}, s.ref...), r.b...)
				} else {
					s.ref = append([]byte{}, r.b...)
				}
				if err != nil {
					s.dead = true
				}
			})
		}
	}
	add("Clear(lazy field)", func(s *lazyReg) { s.m.Clear(fd); s.ref = nil })
	add("Get(lazy field)", func(s *lazyReg) { s.m.Get(fd).Message().IsValid() })
	add("Reset", func(s *lazyReg) { proto.Reset(s.m.Interface()); s.ref = nil })
	add("Size", func(s *lazyReg) { proto.Size(s.m.Interface()) })
	res := hist.BFS(c, sys, depth)
	return map[string]any{"type": name, "operations": len(sys.Ops), "depth": depth, "histories": res.Transitions}
}
