// Package c15: Unmarshal and Reset erase all prior state.
package c15

import (
	"bytes"
	"fmt"
	"google.golang.org/protobuf/runtime/protoiface"
	"strings"

	"google.golang.org/protobuf/proto"
	"google.golang.org/protobuf/reflect/protoreflect"
	"google.golang.org/protobuf/verifmc/core"
	"google.golang.org/protobuf/verifmc/hist"
	"google.golang.org/protobuf/verifmc/univ"
)

func init() { core.Register("C15", "model_checking", run) }

// fullDump observes every field and every registered extension of m, whether
// populated or not (values of unpopulated fields must be the defaults).
func fullDump(m protoreflect.Message) string {
	var sb strings.Builder
	one := func(fd protoreflect.FieldDescriptor) {
		v := m.Get(fd)
		fmt.Fprintf(&sb, "%d:has=%v ", fd.Number(), m.Has(fd))
		if !v.IsValid() {
			sb.WriteString("INVALID-VALUE ")
			return
		}
		switch {
		case fd.IsList():
			fmt.Fprintf(&sb, "len=%d valid=%v ", v.List().Len(), v.List().IsValid())
		case fd.IsMap():
			fmt.Fprintf(&sb, "len=%d valid=%v ", v.Map().Len(), v.Map().IsValid())
		case fd.Message() != nil:
			fmt.Fprintf(&sb, "valid=%v %s ", v.Message().IsValid(), univ.Snapshot(v.Message()))
		default:
			sb.WriteString(univ.FormatValue(v) + " ")
		}
	}
	for _, fd := range univ.SortedFields(m.Descriptor()) {
		one(fd)
	}
	for _, xt := range univ.Extensions(m.Descriptor()) {
		func() {
			defer func() {
				if r := recover(); r != nil {
					fmt.Fprintf(&sb, "x%d:PANIC(%v) ", xt.TypeDescriptor().Number(), r)
				}
			}()
			fd := xt.TypeDescriptor()
			// use an extension type appropriate for the message implementation
			if _, dyn := m.Interface().(interface{ IsDynamic() }); dyn {
				return
			}
			one(fd)
		}()
	}
	for i := 0; i < m.Descriptor().Oneofs().Len(); i++ {
		od := m.Descriptor().Oneofs().Get(i)
		if w := m.WhichOneof(od); w != nil {
			fmt.Fprintf(&sb, "oneof%d=%d ", i, w.Number())
		}
	}
	fmt.Fprintf(&sb, "unknown=%x", []byte(m.GetUnknown()))
	return sb.String()
}

type state struct {
	m protoreflect.Message
	f univ.Flavor
	// failed is set once an Unmarshal in the history returned an error: the
	// message is then only promised to be usable by Unmarshal and Reset, so a
	// panic of an intermediate operation is tolerated (and ends the history).
	failed  bool
	aborted bool
}

type sysCfg struct {
	name   string
	dyn    bool
	depth  int
	inputs []univ.Rec // decodable and non-decodable encodings used by Unmarshal ops and closings
	alpha  []*univ.Slot
}

func buildCfg(c *core.Ctx, name string, dyn bool, depth int) *sysCfg {
	g := univ.Gen(name)
	md := g.MT.Descriptor()
	cfg := &sysCfg{name: name, dyn: dyn, depth: depth}
	// mutation slots: a spread of the thin alphabet covering every op class once per field class
	all := univ.Alphabet(md, 2, univ.Opt{Thin: true})
	seen := map[string]bool{}
	for _, s := range all {
		var cls string
		if s.Op == univ.OpUnknown {
			cls = "unknown"
		} else {
			var fd protoreflect.FieldDescriptor
			if s.Ext {
				for _, xt := range univ.Extensions(md) {
					if xt.TypeDescriptor().Number() == s.Num {
						fd = xt.TypeDescriptor()
					}
				}
			} else {
				fd = md.Fields().ByNumber(s.Num)
			}
			if fd == nil {
				continue
			}
			k := fd.Kind().String()
			if fd.Message() == nil && fd.Kind() != protoreflect.StringKind && fd.Kind() != protoreflect.BytesKind && fd.Kind() != protoreflect.EnumKind {
				k = "num"
			}
			cls = fmt.Sprintf("%s/%v/%v/oneof=%v/ext=%v/lazy=%v/op=%d/sub=%v", k, fd.Cardinality(), fd.IsMap(), fd.ContainingOneof() != nil, s.Ext, univ.IsLazy(fd), s.Op, s.Sub != nil)
		}
		if !seen[cls] {
			seen[cls] = true
			cfg.alpha = append(cfg.alpha, s)
		}
	}
	// inputs: encodings of a few messages + malformed ones
	pick := func(slots ...*univ.Slot) {
		b, err := proto.MarshalOptions{AllowPartial: true}.Marshal(g.Build(slots).Interface())
		if err == nil {
			cfg.inputs = append(cfg.inputs, univ.Rec{Name: "enc" + univ.Names(slots), B: b})
		}
	}
	pick()
	for i, s := range cfg.alpha {
		if s.Op == univ.OpMsg || s.Op == univ.OpAppendMsg || s.Op == univ.OpMapMsg || s.Ext || s.Op == univ.OpUnknown || i%7 == 0 {
			pick(s)
		}
	}
	if len(cfg.inputs) > 10 {
		// keep a spread
		step := float64(len(cfg.inputs)) / 10
		var keep []univ.Rec
		for i := 0; i < 10; i++ {
			keep = append(keep, cfg.inputs[int(float64(i)*step)])
		}
		cfg.inputs = keep
	}
	// a truncated and an invalid input (failed decodes leave partial state behind)
	if len(cfg.inputs) > 1 {
		last := cfg.inputs[len(cfg.inputs)-1].B
		long := append(append([]byte{}, cfg.inputs[1].B...), last...)
		cfg.inputs = append(cfg.inputs, univ.Rec{Name: "truncated", B: long[:len(long)-1]})
		cfg.inputs = append(cfg.inputs, univ.Rec{Name: "valid-then-garbage", B: append(append([]byte{}, long...), 0x07)})
	}
	return cfg
}

func (cfg *sysCfg) ops(f univ.Flavor) []hist.Op[*state] {
	var ops []hist.Op[*state]
	for _, s := range cfg.alpha {
		s := s
		ops = append(ops, hist.Op[*state]{Name: "apply(" + s.Name + ")", Do: func(c *core.Ctx, st *state, h string) {
			univ.Apply(st.m, s, f.Res)
		}})
	}
	ops = append(ops, hist.Op[*state]{Name: "clear-all-populated", Do: func(c *core.Ctx, st *state, h string) {
		var fds []protoreflect.FieldDescriptor
		st.m.Range(func(fd protoreflect.FieldDescriptor, _ protoreflect.Value) bool { fds = append(fds, fd); return true })
		for _, fd := range fds {
			st.m.Clear(fd)
		}
	}})
	ops = append(ops, hist.Op[*state]{Name: "Size", Do: func(c *core.Ctx, st *state, h string) { proto.Size(st.m.Interface()) }})
	ops = append(ops, hist.Op[*state]{Name: "touch-all", Do: func(c *core.Ctx, st *state, h string) { univ.Snapshot(st.m) }})
	for i, in := range cfg.inputs {
		in := in
		for _, mode := range []string{"", "merge", "nolazy"} {
			mode := mode
			if mode != "" && i%2 == 1 {
				continue
			}
			ops = append(ops, hist.Op[*state]{Name: fmt.Sprintf("Unmarshal%s(%s)", mode, in.Name), Do: func(c *core.Ctx, st *state, h string) {
				uo := proto.UnmarshalOptions{AllowPartial: true, Resolver: f.Res, Merge: mode == "merge", NoLazyDecoding: mode == "nolazy"}
				if err := uo.Unmarshal(in.B, st.m.Interface()); err != nil {
					st.failed = true
				}
			}})
		}
	}
	for i := range ops {
		do := ops[i].Do
		ops[i].Do = func(c *core.Ctx, st *state, h string) {
			if st.aborted {
				return
			}
			defer func() {
				if r := recover(); r != nil {
					if !st.failed {
						panic(r)
					}
					st.aborted = true
				}
			}()
			do(c, st, h)
		}
	}
	return ops
}

func run(c *core.Ctx) {
	c.Rule = "explicit-state exploration of every history of <=D operations (one mutation per field class: scalar/bytes/enum/message/list/map/oneof/extension/unknown/lazy; clear-all; Size; touch-all; Unmarshal / Unmarshal{Merge} / Unmarshal{NoLazyDecoding} of 10 encodings plus a truncated and a trailing-garbage input, which fail and leave partial state) on a real message, each followed by every closing operation: Unmarshal(w) without Merge for each w (through UnmarshalOptions.Unmarshal, then again through UnmarshalState and proto.Unmarshal), which must leave the message identical to a fresh decode of w (Equal both ways, snapshot, deterministic bytes, and a full dump of Has/Get of EVERY field and registered extension, populated or not), and proto.Reset - directly and through a wrapper value without a Reset method, which takes the reflection fallback -, which must leave it identical to a fresh empty message (same full dump, Size 0). Generated (open, opaque, hybrid, lazy) and dynamicpb messages"
	c.Exhaustive = true
	depth := core.Pick(c, 2, 3)
	type tc struct {
		name string
		dyn  bool
		d    int
	}
	tcs := []tc{
		{"goproto.proto.test.TestAllTypes", false, depth}, {"goproto.proto.test.TestAllTypes", true, depth},
		{"opaque.goproto.proto.testeditions.TestAllTypes", false, depth},
		{"goproto.proto.test.TestAllExtensions", false, depth}, {"goproto.proto.test.TestAllExtensions", true, depth},
		{"opaque.lazy_tree.Node", false, depth + 1}, {"opaque.lazy_tree.Node", true, depth},
		{"goproto.proto.test.OpaqueLazy", false, depth + 1},
		{"opaque.goproto.proto.testeditions.TestRequiredLazy", false, depth + 1},
		{"hybrid.goproto.proto.testeditions.TestAllTypes", false, depth},
		{"goproto.proto.test3.TestAllTypes", false, depth},
	}
	var out []map[string]any
	for _, t := range tcs {
		if c.Expired() {
			c.Exhaustive = false
			break
		}
		cfg := buildCfg(c, t.name, t.dyn, t.d)
		f := univ.Gen(t.name)
		if t.dyn {
			f = univ.Dyn(t.name)
		}
		// references for the closings
		type ref struct {
			in        univ.Rec
			ok        bool
			dump, det string
			m         protoreflect.Message
		}
		var refs []ref
		for _, in := range cfg.inputs {
			m, err := f.Unmarshal(in.B, proto.UnmarshalOptions{AllowPartial: true})
			r := ref{in: in, ok: err == nil}
			if err == nil {
				b, _ := proto.MarshalOptions{AllowPartial: true, Deterministic: true}.Marshal(m.Interface())
				r.dump, r.det, r.m = fullDump(m), string(b), m
			}
			refs = append(refs, r)
		}
		emptyDump := fullDump(f.MT.New())
		check := func(c *core.Ctx, st *state, h string) {
			// closings are applied to copies obtained by replay, so we re-run the history for each closing:
		}
		_ = check
		ops := cfg.ops(f)
		sys := &hist.System[*state]{
			Name: f.Name,
			New:  func() *state { return &state{m: f.MT.New(), f: f} },
			Ops:  ops,
		}
		// enumerate histories (no merging of states: hidden state is what is being tested)
		var nh int64
		var rec func(path []uint16)
		var paths [][]uint16
		rec = func(path []uint16) {
			paths = append(paths, append([]uint16{}, path...))
			if len(path) == t.d {
				return
			}
			for oi := range ops {
				rec(append(path, uint16(oi)))
			}
		}
		rec(nil)
		c.Par(len(paths), func(pi int) {
			path := paths[pi]
			hname := func() string {
				var parts []string
				for _, o := range path {
					parts = append(parts, ops[o].Name)
				}
				return f.Name + ":[" + strings.Join(parts, " ; ") + "]"
			}
			for ci := 0; ci <= len(refs)+1; ci++ {
				if ci < len(refs) && !refs[ci].ok {
					continue
				}
				c.Guard(func() string { return fmt.Sprintf("closing#%d history=%s", ci, hname()) }, func() {
					st := hist.Replay(c, sys, path)
					if st.aborted {
						c.Outcome("history-aborted-after-failed-unmarshal")
						return
					}
					c.States(1)
					c.Transitions(1)
					c.Traces(1)
					c.Eval(1)
					if ci >= len(refs) {
						how := "Reset"
						if ci == len(refs) {
							proto.Reset(st.m.Interface())
						} else {
							// a message value without a Reset method of its own: proto.Reset falls
							// back to clearing through reflection (fields, extensions, unknown)
							how = "Reset (reflection fallback, no Reset method)"
							proto.Reset(struct{ proto.Message }{st.m.Interface()})
						}
						if got := fullDump(st.m); got != emptyDump {
							c.Violation(how+" leaves state behind: history="+hname(), map[string]any{"want": emptyDump, "got": got})
						}
						if n := proto.Size(st.m.Interface()); n != 0 {
							c.Violation(fmt.Sprintf("Reset: Size=%d history=%s", n, hname()), nil)
						}
						if !proto.Equal(st.m.Interface(), f.MT.New().Interface()) {
							c.Violation("Reset: not Equal to a fresh message history="+hname(), nil)
						}
						return
					}
					r := refs[ci]
					err := proto.UnmarshalOptions{AllowPartial: true, Resolver: f.Res}.Unmarshal(r.in.B, st.m.Interface())
					if err != nil {
						c.Violation(fmt.Sprintf("Unmarshal(%s) fails after history=%s", r.in.Name, hname()), err.Error())
						return
					}
					b, _ := proto.MarshalOptions{AllowPartial: true, Deterministic: true}.Marshal(st.m.Interface())
					if !bytes.Equal(b, []byte(r.det)) {
						c.Violation(fmt.Sprintf("Unmarshal(%s) deterministic bytes differ from fresh decode: history=%s", r.in.Name, hname()), map[string]any{"want": fmt.Sprintf("%x", r.det), "got": fmt.Sprintf("%x", b)})
					}
					if !proto.Equal(st.m.Interface(), r.m.Interface()) || !proto.Equal(r.m.Interface(), st.m.Interface()) {
						c.Violation(fmt.Sprintf("Unmarshal(%s) not Equal to fresh decode: history=%s", r.in.Name, hname()), nil)
					}
					if got := fullDump(st.m); got != r.dump {
						c.Violation(fmt.Sprintf("Unmarshal(%s) leaves state behind: history=%s", r.in.Name, hname()), map[string]any{"want": r.dump, "got": got})
					}
					// a second decode of the same bytes into the same message (Reset path again)
					if err := (proto.UnmarshalOptions{AllowPartial: true, Resolver: f.Res}).Unmarshal(r.in.B, st.m.Interface()); err != nil {
						c.Violation(fmt.Sprintf("second Unmarshal(%s) fails: history=%s", r.in.Name, hname()), err.Error())
					} else if got := fullDump(st.m); got != r.dump {
						c.Violation(fmt.Sprintf("second Unmarshal(%s) differs: history=%s", r.in.Name, hname()), nil)
					}
					// the third public entry point: a non-merging UnmarshalState must reset as well
					if _, err := (proto.UnmarshalOptions{AllowPartial: true, Resolver: f.Res}).UnmarshalState(protoiface.UnmarshalInput{Buf: r.in.B, Message: st.m}); err != nil {
						c.Violation(fmt.Sprintf("UnmarshalState(%s) fails: history=%s", r.in.Name, hname()), err.Error())
					} else if got := fullDump(st.m); got != r.dump {
						c.Violation(fmt.Sprintf("non-merging UnmarshalState(%s) leaves state behind: history=%s", r.in.Name, hname()), map[string]any{"want": r.dump, "got": got})
					}
					if !f.Dynamic {
						if err := proto.Unmarshal(r.in.B, st.m.Interface()); err == nil {
							if got := fullDump(st.m); got != r.dump {
								c.Violation(fmt.Sprintf("proto.Unmarshal(%s) leaves state behind: history=%s", r.in.Name, hname()), nil)
							}
						}
					}
				})
			}
		})
		nh = int64(len(paths))
		c.DistinctN(nh * int64(len(refs)+1))
		out = append(out, map[string]any{"type": f.Name, "depth": t.d, "ops": len(ops), "histories": nh, "closings": len(refs) + 2})
		c.Sample(map[string]any{"type": f.Name, "history": []string{ops[0].Name, ops[len(ops)-1].Name}, "closing": "Reset"})
	}
	c.Bounds["systems"] = out
	c.Assume("after an Unmarshal that returned an error the message is only promised to be usable by Unmarshal and Reset: a panic of an intermediate operation (e.g. Size) on such a message ends that history without alarm; closings on it are still checked")
}
