// Package c30: proto.Equal is an equivalence consistent across implementations.
package c30

import (
	"bytes"
	"fmt"
	"google.golang.org/protobuf/encoding/protowire"
	"strings"

	"github.com/google/go-cmp/cmp"
	"google.golang.org/protobuf/proto"
	"google.golang.org/protobuf/reflect/protoreflect"
	"google.golang.org/protobuf/testing/protocmp"
	"google.golang.org/protobuf/verifmc/core"
	"google.golang.org/protobuf/verifmc/univ"
)

func init() { core.Register("C30", "exploration", run) }

type plan struct {
	name  string
	k     int
	depth int
	thin  bool
	cmpN  int // size of the sub-universe compared with cmp.Equal(protocmp.Transform())
	// touchOnly restricts the alphabet to the stored-but-empty composite slots plus a few value slots
	touchOnly bool
}

func plans(c *core.Ctx) []plan {
	q := c.Quick()
	p := []plan{
		{name: "goproto.proto.test.TestAllTypes", k: 1, depth: 2, cmpN: 120},
		{name: "goproto.proto.test3.TestAllTypes", k: 1, depth: 2, cmpN: 120},
		{name: "opaque.goproto.proto.testeditions.TestAllTypes", k: 1, depth: 2, cmpN: 60},
		{name: "goproto.proto.test.TestAllExtensions", k: 1, depth: 2, cmpN: 60},
		{name: "goproto.proto.test.TestAllExtensions", k: 2, depth: 1, thin: true, touchOnly: true},
		{name: "goproto.proto.test.TestAllTypes", k: 2, depth: 1, thin: true, touchOnly: true},
		{name: "opaque.lazy_tree.Node", k: 2, depth: 3, thin: true, cmpN: 60},
		{name: "pb2.Nests", k: 2, depth: 3, thin: true, cmpN: 60},
		{name: "pb2.Maps", k: 2, depth: 2, cmpN: 60},
		{name: "pb2.Scalars", k: 2, depth: 1, thin: q, cmpN: 60},
		{name: "google.protobuf.Struct", k: 2, depth: 3, cmpN: 40},
		{name: "google.golang.org.Article", k: 2, depth: 2, thin: true},
	}
	if !q {
		p = append(p,
			plan{name: "goproto.proto.test.TestAllTypes", k: 2, depth: 2, thin: true, cmpN: 200},
			plan{name: "goproto.proto.test3.TestAllTypes", k: 2, depth: 2, thin: true},
			plan{name: "hybrid.goproto.proto.testeditions.TestAllTypes", k: 1, depth: 2},
			plan{name: "goproto.proto.testeditions.TestAllTypes", k: 1, depth: 2},
		)
	}
	return p
}

type elem struct {
	name string
	gen  protoreflect.Message
	dyn  protoreflect.Message
	key  string
	// derived from gen by operations under test
	plain bool // free of NaN, Any and unknown fields
	ext   bool // holds extension fields (gen/dyn cross comparison not meaningful: different extension types)
}

func run(c *core.Ctx) {
	c.Rule = "U = all messages with <=k slots over the slot alphabet of each listed type (incl. near-miss pairs differing in one nested value, nil vs empty bytes, +0/-0, NaN, unknown records permuted across and within field numbers), each in generated and dynamicpb form; ALL ordered pairs of U: Equal(x,y) must equal equality of the reference key (an equivalence by construction => reflexive, symmetric, transitive), for gen/gen (fast path), dyn/dyn and gen/dyn (reflection path) and protoreflect.Value.Equal; plus Equal(m,Clone(m)), Equal(m,decode(encode(m))), and cmp.Equal(protocmp.Transform()) on all pairs of a sub-universe free of NaN/Any/unknown. Unknown-field interleavings: ALL sequences of <=3 unknown records over {100000:varint 1, 100000:varint 3, 100001:varint 2, 100002:bytes x} (84 sequences) as the unknown fields of generated open / opaque and dynamicpb messages, ALL ordered pairs: Equal == (per field number, the concatenation of its records is identical), the operands are byte-identical afterwards and still Equal to clones taken before"
	c.Exhaustive = true
	unknownInterleavings(c)
	var planOut []map[string]any
	for _, p := range plans(c) {
		if c.Expired() {
			break
		}
		md := univ.MT(p.name).Descriptor()
		alpha := univ.Alphabet(md, p.depth, univ.Opt{Thin: p.thin, EmptyComposite: true})
		if p.touchOnly {
			var a2 []*univ.Slot
			other := 0
			for _, s := range alpha {
				if s.Op == univ.OpTouch {
					if len(a2) < 40 {
						a2 = append(a2, s)
					}
				} else if other < 14 && s.Op != univ.OpUnknown && (other%2 == 0 || s.Ext) {
					a2 = append(a2, s)
					other++
				} else if s.Op != univ.OpUnknown {
					other++
				}
			}
			alpha = a2
		}
		g, d := univ.Gen(p.name), univ.Dyn(p.name)
		n := univ.TupleCount(len(alpha), p.k)
		U := make([]elem, n)
		c.Par(n, func(i int) {
			slots := univ.PickSlots(alpha, univ.TupleAt(len(alpha), p.k, i, nil), nil)
			e := elem{name: univ.Names(slots), gen: g.Build(slots), dyn: d.Build(slots)}
			e.key = univ.EqualKey(e.gen)
			if k2 := univ.EqualKey(e.dyn); k2 != e.key {
				c.Violation("build-key-mismatch gen vs dyn type="+p.name+" case="+e.name, map[string]any{"gen": e.key, "dyn": k2})
			}
			e.plain = !strings.Contains(e.key, "nan") && !strings.Contains(e.key, "?:") && !strings.Contains(p.name, "Any")
			e.gen.Range(func(fd protoreflect.FieldDescriptor, _ protoreflect.Value) bool {
				if fd.IsExtension() {
					e.ext = true
				}
				return !e.ext
			})
			U[i] = e
			// Clone and round trip
			c.Guard(func() string { return "clone type=" + p.name + " case=" + e.name }, func() {
				for _, m := range []protoreflect.Message{e.gen, e.dyn} {
					cl := proto.Clone(m.Interface())
					if !proto.Equal(m.Interface(), cl) || !proto.Equal(cl, m.Interface()) {
						c.Violation(fmt.Sprintf("not-equal-to-clone type=%s case=%s", m.Descriptor().FullName(), e.name), nil)
					}
					b, err := proto.MarshalOptions{AllowPartial: true}.Marshal(m.Interface())
					if err != nil {
						continue
					}
					m2 := m.New()
					if err := (proto.UnmarshalOptions{AllowPartial: true, Resolver: g.Res}).Unmarshal(b, m2.Interface()); err == nil {
						if m == e.dyn {
							m2 = m.New()
							(proto.UnmarshalOptions{AllowPartial: true, Resolver: d.Res}).Unmarshal(b, m2.Interface())
						}
						if !proto.Equal(m.Interface(), m2.Interface()) || !proto.Equal(m2.Interface(), m.Interface()) {
							c.Violation(fmt.Sprintf("not-equal-to-decoded-encoding dynamic=%v type=%s case=%s", m == e.dyn, p.name, e.name), nil)
						}
					}
				}
			})
		})
		distinct := map[string]bool{}
		for _, e := range U {
			distinct[e.key] = true
		}
		c.Par(n, func(i int) {
			x := &U[i]
			xi, xd := x.gen.Interface(), x.dyn.Interface()
			var evals int64
			c.Guard(func() string { return "equal type=" + p.name + " x=" + x.name }, func() {
				for j := range U {
					y := &U[j]
					want := x.key == y.key
					evals++
					if got := proto.Equal(xi, y.gen.Interface()); got != want {
						c.Violation(fmt.Sprintf("gen/gen Equal=%v want=%v type=%s x=%s y=%s", got, want, p.name, x.name, y.name), nil)
					}
					if got := proto.Equal(xd, y.dyn.Interface()); got != want {
						c.Violation(fmt.Sprintf("dyn/dyn Equal=%v want=%v type=%s x=%s y=%s", got, want, p.name, x.name, y.name), nil)
					}
					if x.ext || y.ext {
						// generated and dynamic extension types differ; the statement does not cover mixing them
					} else if got := proto.Equal(xi, y.dyn.Interface()); got != want {
						c.Violation(fmt.Sprintf("gen/dyn Equal=%v want=%v type=%s x=%s y=%s", got, want, p.name, x.name, y.name), nil)
					}
					if x.ext || y.ext {
					} else if got := proto.Equal(xd, y.gen.Interface()); got != want {
						c.Violation(fmt.Sprintf("dyn/gen Equal=%v want=%v type=%s x=%s y=%s", got, want, p.name, x.name, y.name), nil)
					}
					if got := protoreflect.ValueOfMessage(x.gen).Equal(protoreflect.ValueOfMessage(y.gen)); got != want {
						c.Violation(fmt.Sprintf("Value.Equal=%v want=%v type=%s x=%s y=%s", got, want, p.name, x.name, y.name), nil)
					}
				}
			})
			c.Eval(evals)
		})
		// cmp.Equal on a plain sub-universe
		var plain []*elem
		if p.cmpN > 0 {
			step := 1
			if n > p.cmpN*3 {
				step = n / (p.cmpN * 3)
			}
			for i := 0; i < n && len(plain) < p.cmpN; i += step {
				if U[i].plain {
					plain = append(plain, &U[i])
				}
			}
			c.Par(len(plain), func(i int) {
				x := plain[i]
				c.Guard(func() string { return "cmp type=" + p.name + " x=" + x.name }, func() {
					for _, y := range plain {
						want := x.key == y.key
						if got := cmp.Equal(x.gen.Interface(), y.gen.Interface(), protocmp.Transform()); got != want {
							c.Violation(fmt.Sprintf("cmp.Equal(protocmp)=%v want=%v type=%s x=%s y=%s", got, want, p.name, x.name, y.name), nil)
						}
						c.Eval(1)
					}
				})
			})
		}
		c.DistinctN(int64(len(distinct)) * int64(len(distinct)-1))
		c.OutcomeN("equal-pairs", int64(n)) // diagonal at least
		planOut = append(planOut, map[string]any{"type": p.name, "k": p.k, "universe": n, "distinct_keys": len(distinct), "pairs": n * n, "cmp_subuniverse": len(plain)})
		c.Sample(map[string]any{"type": p.name, "x": U[n/3].name, "y": U[n/2].name, "key_x": U[n/3].key})
	}
	c.Bounds["plans"] = planOut
	c.Assume("reference equality key: populated fields by number with values (NaN==NaN, -0==+0, nil bytes==empty bytes), unknown records grouped by field number keeping per-number order")
}

// unknownInterleavings: unknown fields compare per field number, regardless of
// the interleaving between numbers, and Equal does not modify its operands.
func unknownInterleavings(c *core.Ctx) {
	recs := []struct {
		num uint64
		b   []byte
	}{
		{100000, protowire.AppendVarint(protowire.AppendTag(nil, 100000, protowire.VarintType), 1)},
		{100000, protowire.AppendVarint(protowire.AppendTag(nil, 100000, protowire.VarintType), 3)},
		{100001, protowire.AppendVarint(protowire.AppendTag(nil, 100001, protowire.VarintType), 2)},
		{100002, protowire.AppendString(protowire.AppendTag(nil, 100002, protowire.BytesType), "x")},
	}
	type useq struct {
		name string
		raw  []byte
		key  string
	}
	var seqs []useq
	n := univ.TupleCount(len(recs), 3)
	for i := 0; i < n; i++ {
		idx := univ.TupleAt(len(recs), 3, i, nil)
		var raw []byte
		by := map[uint64][]byte{}
		var nm []string
		for _, j := range idx {
			raw = append(raw, recs[j].b...)
			by[recs[j].num] = append(by[recs[j].num], recs[j].b...)
			nm = append(nm, fmt.Sprint(j))
		}
		key := ""
		for _, num := range []uint64{100000, 100001, 100002} {
			key += fmt.Sprintf("%d:%x;", num, by[num])
		}
		seqs = append(seqs, useq{strings.Join(nm, ","), raw, key})
	}
	for _, tn := range []string{"goproto.proto.test.TestAllTypes", "opaque.goproto.proto.testeditions.TestAllTypes", "goproto.proto.test3.TestAllTypes"} {
		for _, f := range []univ.Flavor{univ.Gen(tn), univ.Dyn(tn)} {
			f := f
			c.Par(len(seqs), func(i int) {
				for j := range seqs {
					a, b := seqs[i], seqs[j]
					c.Eval(1)
					c.Guard(func() string {
						return fmt.Sprintf("unknown interleaving type=%s x=[%s] y=[%s]", f.Name, a.name, b.name)
					}, func() {
						x, y := f.MT.New(), f.MT.New()
						x.SetUnknown(append(protoreflect.RawFields{}, a.raw...))
						y.SetUnknown(append(protoreflect.RawFields{}, b.raw...))
						cx, cy := proto.Clone(x.Interface()), proto.Clone(y.Interface())
						got := proto.Equal(x.Interface(), y.Interface())
						if want := a.key == b.key; got != want {
							c.Violation(fmt.Sprintf("Equal=%v for unknown fields that are %s per field number: type=%s x=[%s] y=[%s]", got, map[bool]string{true: "identical", false: "different"}[want], f.Name, a.name, b.name), map[string]any{"x": fmt.Sprintf("%x", a.raw), "y": fmt.Sprintf("%x", b.raw)})
						}
						if !bytes.Equal(x.GetUnknown(), a.raw) || !bytes.Equal(y.GetUnknown(), b.raw) {
							c.Violation(fmt.Sprintf("Equal modified the unknown fields of an operand: type=%s x=[%s] y=[%s]", f.Name, a.name, b.name), map[string]any{"x_after": fmt.Sprintf("%x", x.GetUnknown()), "x_before": fmt.Sprintf("%x", a.raw)})
						}
						if !proto.Equal(x.Interface(), cx) || !proto.Equal(y.Interface(), cy) {
							c.Violation(fmt.Sprintf("an operand is no longer Equal to the clone taken before the comparison: type=%s x=[%s] y=[%s]", f.Name, a.name, b.name), nil)
						}
					})
				}
			})
		}
	}
	c.DistinctN(int64(len(seqs) * len(seqs)))
	c.Bounds["unknown_sequences"] = len(seqs)
}
