// Package c31: typed nil messages behave as empty read-only messages.
package c31

import (
	"fmt"
	"reflect"
	"strings"

	"google.golang.org/protobuf/encoding/protojson"
	"google.golang.org/protobuf/encoding/prototext"
	"google.golang.org/protobuf/proto"
	"google.golang.org/protobuf/reflect/protoreflect"
	"google.golang.org/protobuf/verifmc/core"
	"google.golang.org/protobuf/verifmc/univ"
)

func init() { core.Register("C31", "exploration", run) }

func observe(f func() string) (s string) {
	defer func() {
		if r := recover(); r != nil {
			s = fmt.Sprintf("PANIC: %v", r)
		}
	}()
	return f()
}

func run(c *core.Ctx) {
	c.Rule = "finite and fully enumerated: every message type registered in the harness binary (all generated packages of the repository's test corpus and well-known types) x every read-only entry point: proto.Marshal / MarshalAppend / Size / Clone / Equal / CheckInitialized / Merge-from, protojson and prototext Marshal and Format, protoreflect Has / Get / WhichOneof over all fields and oneofs, Range, GetUnknown, IsValid, and every zero-argument Get* / Has* method found by Go reflection, applied to the typed nil pointer: no panic, and the result equals the result on a fresh empty message, except IsValid()==false, Equal(nil, empty)==false, Marshal returns nil bytes and Format prints <nil>"
	c.Exhaustive = true
	types := univ.AllMessageTypes()
	var methods int64
	c.Par(len(types), func(i int) {
		mt := types[i]
		name := string(mt.Descriptor().FullName())
		empty := mt.New().Interface()
		rt := reflect.TypeOf(empty)
		if rt.Kind() != reflect.Ptr {
			c.Outcome("non-pointer-message-type-skipped")
			return
		}
		if strings.Contains(rt.Elem().PkgPath(), "/internal/impl") {
			// a legacy (pre-APIv2) Go type seen through the runtime's wrapper: not a generated
			// message type in the sense of the property; its nil pointer is the wrapper's, not the user's
			c.Outcome("legacy-wrapper-type-skipped")
			return
		}
		nilMsg := reflect.Zero(rt).Interface().(proto.Message)
		c.Eval(1)
		c.Distinct(name)
		cmp := func(entry string, f func(m proto.Message) string) {
			a := observe(func() string { return f(nilMsg) })
			b := observe(func() string { return f(empty) })
			if strings.HasPrefix(a, "PANIC") {
				c.Violation(fmt.Sprintf("%s panics on typed nil type=%s", entry, name), a)
				return
			}
			if a != b {
				c.Violation(fmt.Sprintf("%s differs between typed nil and empty type=%s", entry, name), map[string]any{"nil": a, "empty": b})
			}
		}
		cmp("proto.Marshal", func(m proto.Message) string {
			b, err := proto.MarshalOptions{AllowPartial: true}.Marshal(m)
			return fmt.Sprintf("len=%d err=%v", len(b), err != nil)
		})
		if b, _ := (proto.MarshalOptions{AllowPartial: true}).Marshal(nilMsg); b != nil {
			c.Violation("proto.Marshal(typed nil) returns non-nil bytes type="+name, nil)
		}
		cmp("proto.MarshalAppend", func(m proto.Message) string {
			b, err := proto.MarshalOptions{AllowPartial: true}.MarshalAppend([]byte{1}, m)
			return fmt.Sprintf("%x err=%v", b, err != nil)
		})
		cmp("proto.Marshal(strict)", func(m proto.Message) string {
			_, err := proto.Marshal(m)
			return fmt.Sprint(err != nil)
		})
		cmp("proto.Size", func(m proto.Message) string { return fmt.Sprint(proto.Size(m)) })
		cmp("proto.CheckInitialized", func(m proto.Message) string { return fmt.Sprint(proto.CheckInitialized(m) == nil) })
		cmp("proto.Clone", func(m proto.Message) string {
			cl := proto.Clone(m)
			return univ.Snapshot(cl.ProtoReflect())[len("<invalid>")*b2i(!cl.ProtoReflect().IsValid()):]
		})
		cmp("proto.Merge(from)", func(m proto.Message) string {
			dst := mt.New().Interface()
			proto.Merge(dst, m)
			return univ.Snapshot(dst.ProtoReflect())
		})
		cmp("proto.Equal(self)", func(m proto.Message) string { return fmt.Sprint(proto.Equal(m, m)) })
		if observe(func() string { return fmt.Sprint(proto.Equal(nilMsg, empty), proto.Equal(empty, nilMsg)) }) != "false false" {
			c.Violation("proto.Equal does not distinguish typed nil from a valid empty message type="+name, nil)
		}
		if v := observe(func() string { return fmt.Sprint(nilMsg.ProtoReflect().IsValid(), empty.ProtoReflect().IsValid()) }); v != "false true" {
			c.Violation("IsValid (nil, empty) = "+v+" type="+name, nil)
		}
		cmp("protojson.Marshal", func(m proto.Message) string {
			b, err := protojson.MarshalOptions{AllowPartial: true}.Marshal(m)
			return fmt.Sprintf("%s err=%v", strings.Join(strings.Fields(string(b)), ""), err != nil)
		})
		cmp("protojson.Marshal(EmitUnpopulated)", func(m proto.Message) string {
			b, err := protojson.MarshalOptions{AllowPartial: true, EmitUnpopulated: true}.Marshal(m)
			return fmt.Sprintf("%s err=%v", strings.Join(strings.Fields(string(b)), ""), err != nil)
		})
		cmp("prototext.Marshal", func(m proto.Message) string {
			b, err := prototext.MarshalOptions{AllowPartial: true}.Marshal(m)
			return fmt.Sprintf("%s err=%v", b, err != nil)
		})
		// Format: only "does not panic" (documented to print <nil> for an invalid message)
		for _, s := range []string{
			observe(func() string { return prototext.Format(nilMsg) }),
			observe(func() string { return protojson.Format(nilMsg) }),
			observe(func() string { return prototext.MarshalOptions{Multiline: true, EmitUnknown: true}.Format(nilMsg) }),
			observe(func() string { return fmt.Sprint(nilMsg) }),
			observe(func() string { return fmt.Sprintf("%+v", nilMsg) }),
		} {
			if strings.HasPrefix(s, "PANIC") {
				c.Violation("Format/String panics on typed nil type="+name, s)
			}
		}
		// reflection
		cmp("reflection Has/Get/WhichOneof", func(m proto.Message) string {
			r := m.ProtoReflect()
			var sb strings.Builder
			fds := r.Descriptor().Fields()
			for j := 0; j < fds.Len(); j++ {
				fd := fds.Get(j)
				v := r.Get(fd)
				fmt.Fprintf(&sb, "%d:%v:", fd.Number(), r.Has(fd))
				switch {
				case fd.IsList():
					fmt.Fprintf(&sb, "len%d ", v.List().Len())
				case fd.IsMap():
					fmt.Fprintf(&sb, "len%d ", v.Map().Len())
				case fd.Message() != nil:
					fmt.Fprintf(&sb, "%v%s ", v.Message().IsValid(), strings.TrimPrefix(univ.Snapshot(v.Message()), "<invalid>"))
				default:
					sb.WriteString(univ.FormatValue(v) + " ")
				}
			}
			ods := r.Descriptor().Oneofs()
			for j := 0; j < ods.Len(); j++ {
				fmt.Fprintf(&sb, "oneof%d:%v ", j, r.WhichOneof(ods.Get(j)) == nil)
			}
			n := 0
			r.Range(func(protoreflect.FieldDescriptor, protoreflect.Value) bool { n++; return true })
			fmt.Fprintf(&sb, "range=%d unknown=%d", n, len(r.GetUnknown()))
			fmt.Fprintf(&sb, " desc=%s type=%v", r.Descriptor().FullName(), r.Type() != nil)
			return sb.String()
		})
		// generated getters
		nv, ev := reflect.ValueOf(nilMsg), reflect.ValueOf(empty)
		for j := 0; j < rt.NumMethod(); j++ {
			meth := rt.Method(j)
			if !(strings.HasPrefix(meth.Name, "Get") || strings.HasPrefix(meth.Name, "Has") || strings.HasPrefix(meth.Name, "Which")) || meth.Type.NumIn() != 1 || meth.Type.NumOut() != 1 {
				continue
			}
			methods++
			call := func(v reflect.Value) string {
				return observe(func() string {
					out := v.Method(j).Call(nil)[0]
					switch out.Kind() {
					case reflect.Ptr, reflect.Map, reflect.Slice, reflect.Interface:
						if out.IsNil() {
							return "nil"
						}
						if out.Kind() == reflect.Slice || out.Kind() == reflect.Map {
							return fmt.Sprintf("len%d", out.Len())
						}
						return "non-nil"
					}
					return fmt.Sprint(out.Interface())
				})
			}
			a, b := call(nv), call(ev)
			if strings.HasPrefix(a, "PANIC") {
				c.Violation(fmt.Sprintf("generated method %s panics on typed nil type=%s", meth.Name, name), a)
			} else if a != b {
				c.Violation(fmt.Sprintf("generated method %s differs between typed nil and empty type=%s", meth.Name, name), map[string]any{"nil": a, "empty": b})
			}
		}
	})
	c.Bounds["message_types"] = len(types)
	c.Extra("generated_methods_called", methods)
	c.Sample(map[string]any{"type": string(types[len(types)/2].Descriptor().FullName()), "entry_points": "all"})
}

func b2i(b bool) int {
	if b {
		return 1
	}
	return 0
}
