// Package c33: registries behave like a conflict-checking name table.
package c33

import (
	"fmt"
	"sort"
	"strings"

	"google.golang.org/protobuf/proto"
	"google.golang.org/protobuf/reflect/protodesc"
	"google.golang.org/protobuf/reflect/protoreflect"
	"google.golang.org/protobuf/reflect/protoregistry"
	"google.golang.org/protobuf/types/descriptorpb"
	"google.golang.org/protobuf/types/dynamicpb"
	"google.golang.org/protobuf/verifmc/core"
	"google.golang.org/protobuf/verifmc/hist"
)

func init() { core.Register("C33", "model_checking", run) }

func fld(name string, num int32) *descriptorpb.FieldDescriptorProto {
	return &descriptorpb.FieldDescriptorProto{Name: proto.String(name), Number: proto.Int32(num), Type: descriptorpb.FieldDescriptorProto_TYPE_INT32.Enum(), Label: descriptorpb.FieldDescriptorProto_LABEL_OPTIONAL.Enum()}
}

func msg(name string, nested ...*descriptorpb.DescriptorProto) *descriptorpb.DescriptorProto {
	return &descriptorpb.DescriptorProto{Name: proto.String(name), Field: []*descriptorpb.FieldDescriptorProto{fld("f", 1)}, NestedType: nested}
}

func enum(name string, vals ...string) *descriptorpb.EnumDescriptorProto {
	e := &descriptorpb.EnumDescriptorProto{Name: proto.String(name)}
	for i, v := range vals {
		e.Value = append(e.Value, &descriptorpb.EnumValueDescriptorProto{Name: proto.String(v), Number: proto.Int32(int32(i))})
	}
	return e
}

func ext(name, extendee string, num int32) *descriptorpb.FieldDescriptorProto {
	f := fld(name, num)
	f.Extendee = proto.String(extendee)
	return f
}

// fileProtos is the colliding file alphabet.
func fileProtos(big bool) []*descriptorpb.FileDescriptorProto {
	p2 := proto.String("proto2")
	m1 := msg("M", msg("N"))
	m1.OneofDecl = []*descriptorpb.OneofDescriptorProto{{Name: proto.String("o")}}
	of := fld("g", 2)
	of.OneofIndex = proto.Int32(0)
	m1.Field = append(m1.Field, of)
	m1.EnumType = []*descriptorpb.EnumDescriptorProto{enum("E", "V")}
	m1.ExtensionRange = []*descriptorpb.DescriptorProto_ExtensionRange{{Start: proto.Int32(100), End: proto.Int32(200)}}
	fs := []*descriptorpb.FileDescriptorProto{
		{Name: proto.String("a.proto"), Package: proto.String("a"), Syntax: p2, MessageType: []*descriptorpb.DescriptorProto{m1}, EnumType: []*descriptorpb.EnumDescriptorProto{enum("E1", "X")},
			Service: []*descriptorpb.ServiceDescriptorProto{{Name: proto.String("S"), Method: []*descriptorpb.MethodDescriptorProto{{Name: proto.String("m"), InputType: proto.String(".a.M"), OutputType: proto.String(".a.M")}}}}},
		{Name: proto.String("a.proto"), Package: proto.String("zz"), Syntax: p2, MessageType: []*descriptorpb.DescriptorProto{msg("Q")}},
		{Name: proto.String("b.proto"), Syntax: p2, MessageType: []*descriptorpb.DescriptorProto{msg("a")}},
		{Name: proto.String("c.proto"), Package: proto.String("a.b"), Syntax: p2, MessageType: []*descriptorpb.DescriptorProto{msg("M2")}},
		{Name: proto.String("d.proto"), Package: proto.String("a"), Syntax: p2, MessageType: []*descriptorpb.DescriptorProto{msg("b", msg("c"))}},
		{Name: proto.String("e.proto"), Package: proto.String("a"), Syntax: p2, MessageType: []*descriptorpb.DescriptorProto{msg("M3")}, EnumType: []*descriptorpb.EnumDescriptorProto{enum("E3", "X3")}},
		{Name: proto.String("f.proto"), Package: proto.String("a"), Syntax: p2, MessageType: []*descriptorpb.DescriptorProto{msg("M")}},
		{Name: proto.String("g.proto"), Package: proto.String("a"), Syntax: p2, MessageType: []*descriptorpb.DescriptorProto{msg("X")}},
		{Name: proto.String("h.proto"), Package: proto.String("a.b.c"), Syntax: p2, MessageType: []*descriptorpb.DescriptorProto{msg("D")}},
	}
	if big {
		fs = append(fs,
			&descriptorpb.FileDescriptorProto{Name: proto.String("i.proto"), Package: proto.String("a"), Syntax: p2, Service: []*descriptorpb.ServiceDescriptorProto{{Name: proto.String("M3")}}},
			&descriptorpb.FileDescriptorProto{Name: proto.String("j.proto"), Package: proto.String("a.M"), Syntax: p2, MessageType: []*descriptorpb.DescriptorProto{msg("Z")}},
			&descriptorpb.FileDescriptorProto{Name: proto.String("k.proto"), Package: proto.String("a"), Syntax: p2, Extension: []*descriptorpb.FieldDescriptorProto{ext("E3", ".a.b", 100)}, Dependency: nil},
		)
	}
	return fs
}

// the reference name table
type table struct {
	paths map[string]int    // path -> file index
	names map[string]string // full name -> "package" | "decl:<file>"
	all   map[string]string // every declaration (incl. nested, fields, oneofs, enum values, methods) -> kind
	pkgs  map[string][]int  // package -> file indexes in registration order
	order []int
}

func newTable() *table {
	return &table{paths: map[string]int{}, names: map[string]string{}, all: map[string]string{}, pkgs: map[string][]int{}}
}

type decl struct{ name, kind string }

// declarations lists every named declaration of a file: top = registered at top level.
func declarations(fd protoreflect.FileDescriptor) (top []decl, all []decl) {
	var walkMsg func(md protoreflect.MessageDescriptor, isTop bool)
	addEnum := func(ed protoreflect.EnumDescriptor, isTop bool) {
		d := decl{string(ed.FullName()), "enum"}
		all = append(all, d)
		if isTop {
			top = append(top, d)
		}
		for i := 0; i < ed.Values().Len(); i++ {
			v := decl{string(ed.Values().Get(i).FullName()), "enumvalue"}
			all = append(all, v)
			if isTop {
				top = append(top, v)
			}
		}
	}
	walkMsg = func(md protoreflect.MessageDescriptor, isTop bool) {
		d := decl{string(md.FullName()), "message"}
		all = append(all, d)
		if isTop {
			top = append(top, d)
		}
		for i := 0; i < md.Fields().Len(); i++ {
			all = append(all, decl{string(md.Fields().Get(i).FullName()), "field"})
		}
		for i := 0; i < md.Oneofs().Len(); i++ {
			all = append(all, decl{string(md.Oneofs().Get(i).FullName()), "oneof"})
		}
		for i := 0; i < md.Enums().Len(); i++ {
			addEnum(md.Enums().Get(i), false)
		}
		for i := 0; i < md.Extensions().Len(); i++ {
			all = append(all, decl{string(md.Extensions().Get(i).FullName()), "extension"})
		}
		for i := 0; i < md.Messages().Len(); i++ {
			walkMsg(md.Messages().Get(i), false)
		}
	}
	for i := 0; i < fd.Messages().Len(); i++ {
		walkMsg(fd.Messages().Get(i), true)
	}
	for i := 0; i < fd.Enums().Len(); i++ {
		addEnum(fd.Enums().Get(i), true)
	}
	for i := 0; i < fd.Extensions().Len(); i++ {
		d := decl{string(fd.Extensions().Get(i).FullName()), "extension"}
		all = append(all, d)
		top = append(top, d)
	}
	for i := 0; i < fd.Services().Len(); i++ {
		sd := fd.Services().Get(i)
		d := decl{string(sd.FullName()), "service"}
		all = append(all, d)
		top = append(top, d)
		for j := 0; j < sd.Methods().Len(); j++ {
			all = append(all, decl{string(sd.Methods().Get(j).FullName()), "method"})
		}
	}
	return
}

func prefixes(pkg string) []string {
	var out []string
	for pkg != "" {
		out = append(out, pkg)
		if i := strings.LastIndexByte(pkg, '.'); i >= 0 {
			pkg = pkg[:i]
		} else {
			pkg = ""
		}
	}
	return out
}

func (t *table) register(i int, fd protoreflect.FileDescriptor) bool {
	if _, dup := t.paths[fd.Path()]; dup {
		return false
	}
	for _, p := range prefixes(string(fd.Package())) {
		if k, ok := t.names[p]; ok && k != "package" {
			return false
		}
	}
	top, all := declarations(fd)
	seen := map[string]bool{}
	for _, d := range top {
		if _, ok := t.names[d.name]; ok || seen[d.name] {
			return false
		}
		seen[d.name] = true
	}
	t.paths[fd.Path()] = i
	for _, p := range prefixes(string(fd.Package())) {
		t.names[p] = "package"
	}
	for _, d := range top {
		t.names[d.name] = "decl"
	}
	for _, d := range all {
		t.all[d.name] = d.kind
	}
	t.pkgs[string(fd.Package())] = append(t.pkgs[string(fd.Package())], i)
	t.order = append(t.order, i)
	return true
}

type state struct {
	files *protoregistry.Files
	model *table
	fds   []protoreflect.FileDescriptor
	names []string // observer universe
}

// dump evaluates every observer on the real registry.
func dumpReal(s *state) string {
	var sb strings.Builder
	fmt.Fprintf(&sb, "NumFiles=%d;", s.files.NumFiles())
	pathsSeen := map[string]bool{}
	for _, fd := range s.fds {
		if pathsSeen[fd.Path()] {
			continue
		}
		pathsSeen[fd.Path()] = true
		got, err := s.files.FindFileByPath(fd.Path())
		if err != nil {
			fmt.Fprintf(&sb, "path(%s)=none;", fd.Path())
		} else {
			fmt.Fprintf(&sb, "path(%s)=pkg:%s;", fd.Path(), got.Package())
		}
	}
	for _, n := range s.names {
		d, err := s.files.FindDescriptorByName(protoreflect.FullName(n))
		if err != nil {
			fmt.Fprintf(&sb, "%s=none;", n)
		} else {
			fmt.Fprintf(&sb, "%s=%s;", n, kindOf(d))
		}
	}
	pk := map[string]bool{}
	for _, fd := range s.fds {
		for _, p := range append(prefixes(string(fd.Package())), "") {
			if pk[p] {
				continue
			}
			pk[p] = true
			var got []string
			s.files.RangeFilesByPackage(protoreflect.FullName(p), func(f protoreflect.FileDescriptor) bool { got = append(got, f.Path()); return true })
			sort.Strings(got)
			fmt.Fprintf(&sb, "pkg(%s)=%d:%v;", p, s.files.NumFilesByPackage(protoreflect.FullName(p)), got)
		}
	}
	var all []string
	s.files.RangeFiles(func(f protoreflect.FileDescriptor) bool { all = append(all, f.Path()); return true })
	sort.Strings(all)
	fmt.Fprintf(&sb, "range=%v", all)
	return sb.String()
}

func kindOf(d protoreflect.Descriptor) string {
	switch d.(type) {
	case protoreflect.MessageDescriptor:
		return "message"
	case protoreflect.EnumDescriptor:
		return "enum"
	case protoreflect.EnumValueDescriptor:
		return "enumvalue"
	case protoreflect.FieldDescriptor:
		if d.(protoreflect.FieldDescriptor).IsExtension() {
			return "extension"
		}
		return "field"
	case protoreflect.OneofDescriptor:
		return "oneof"
	case protoreflect.ServiceDescriptor:
		return "service"
	case protoreflect.MethodDescriptor:
		return "method"
	}
	return fmt.Sprintf("%T", d)
}

func dumpModel(s *state) string {
	t := s.model
	var sb strings.Builder
	fmt.Fprintf(&sb, "NumFiles=%d;", len(t.paths))
	pathsSeen := map[string]bool{}
	for _, fd := range s.fds {
		if pathsSeen[fd.Path()] {
			continue
		}
		pathsSeen[fd.Path()] = true
		if i, ok := t.paths[fd.Path()]; ok {
			fmt.Fprintf(&sb, "path(%s)=pkg:%s;", fd.Path(), s.fds[i].Package())
		} else {
			fmt.Fprintf(&sb, "path(%s)=none;", fd.Path())
		}
	}
	for _, n := range s.names {
		if k, ok := t.all[n]; ok {
			fmt.Fprintf(&sb, "%s=%s;", n, k)
		} else {
			fmt.Fprintf(&sb, "%s=none;", n)
		}
	}
	pk := map[string]bool{}
	for _, fd := range s.fds {
		for _, p := range append(prefixes(string(fd.Package())), "") {
			if pk[p] {
				continue
			}
			pk[p] = true
			var got []string
			for _, i := range t.pkgs[p] {
				got = append(got, s.fds[i].Path())
			}
			sort.Strings(got)
			fmt.Fprintf(&sb, "pkg(%s)=%d:%v;", p, len(got), got)
		}
	}
	var all []string
	for p := range t.paths {
		all = append(all, p)
	}
	sort.Strings(all)
	fmt.Fprintf(&sb, "range=%v", all)
	return sb.String()
}

func run(c *core.Ctx) {
	c.Rule = "explicit-state BFS over all sequences of RegisterFile on a local Files registry for an alphabet of 9 (quick) / 12 (thorough) small files designed to collide (same path; package a vs message a; package a.b / a.b.c vs message a with nested b; files sharing a package; duplicate message / enum / service / extension names; enum value vs message in one scope), and of RegisterMessage / RegisterEnum / RegisterExtension on a local Types registry with dynamic types (duplicate names, equal and different extension numbers on one extendee). State = set of accepted registrations; after EVERY transition the full observer set (FindFileByPath for every path, FindDescriptorByName for every declaration name of every file - nested messages, fields, oneofs, enum values in their enclosing scope, services, methods - and every prefix, NumFiles, NumFilesByPackage / RangeFilesByPackage for every package and prefix, RangeFiles; Find*ByName / ByURL / ByNumber, Num*, Range* for Types) must equal the reference name table, the success verdict must equal the table's conflict rule, and a failed registration must leave every observer unchanged"
	fps := fileProtos(c.Thorough())
	var fds []protoreflect.FileDescriptor
	for _, fp := range fps {
		fd, err := protodesc.FileOptions{AllowUnresolvable: true}.New(fp, &protoregistry.Files{})
		if err != nil {
			c.Violation("harness: cannot build file "+fp.GetName(), err.Error())
			return
		}
		fds = append(fds, fd)
	}
	nameSet := map[string]bool{}
	for _, fd := range fds {
		_, all := declarations(fd)
		for _, d := range all {
			for _, p := range prefixes(d.name) {
				nameSet[p] = true
			}
			nameSet[d.name+".nosuch"] = true
		}
		for _, p := range prefixes(string(fd.Package())) {
			nameSet[p] = true
		}
	}
	var names []string
	for n := range nameSet {
		names = append(names, n)
	}
	sort.Strings(names)
	var ops []hist.Op[*state]
	for i := range fds {
		i := i
		ops = append(ops, hist.Op[*state]{Name: fmt.Sprintf("RegisterFile(#%d %s pkg=%s)", i, fds[i].Path(), fds[i].Package()), Do: func(c *core.Ctx, s *state, h string) {
			before := dumpReal(s)
			err := s.files.RegisterFile(fds[i])
			want := s.model.register(i, fds[i])
			if (err == nil) != want {
				c.Violation(fmt.Sprintf("RegisterFile success=%v but the name table says %v: %s", err == nil, want, h), fmt.Sprint(err))
				return
			}
			after := dumpReal(s)
			if err != nil && before != after {
				c.Violation("a failed RegisterFile changed the registry: "+h, map[string]any{"before": before, "after": after})
			}
			if m := dumpModel(s); m != after {
				c.Violation("registry observers differ from the name table: "+h, map[string]any{"registry": after, "table": m})
			}
		}})
	}
	sys := &hist.System[*state]{
		Name: "Files",
		New:  func() *state { return &state{files: &protoregistry.Files{}, model: newTable(), fds: fds, names: names} },
		Ops:  ops,
		Key: func(s *state) string {
			o := append([]int{}, s.model.order...)
			sort.Ints(o)
			return fmt.Sprint(o)
		},
	}
	r := hist.BFS(c, sys, len(fds)+1)
	c.Bounds["files"] = map[string]any{"file_alphabet": len(fds), "observer_names": len(names), "states": r.States, "transitions": r.Transitions, "max_depth": r.MaxDepth, "frontier_exhausted": r.FrontierExhausted}
	c.DistinctN(int64(r.States))
	c.Exhaustive = r.FrontierExhausted
	typesBFS(c, fds)
	c.Sample("Files:[RegisterFile(#2 b.proto pkg=) ; RegisterFile(#0 a.proto pkg=a)]  (message a vs package a)")
	c.Sample("Types:[RegisterExtension(a.ext1 #100 of a.M) ; RegisterExtension(q.ext2 #100 of a.M)]")
	c.Assume("state = set of accepted registrations: the registry's answers are a function of that set (checked: every observer is compared in every state, reached along the shortest path)")
}

// ---- Types registry

type tstate struct {
	types *protoregistry.Types
	names map[string]string // registered full name -> kind
	exts  map[string]string // "extendee#num" -> ext name
	order []int
}

func typesBFS(c *core.Ctx, fds []protoreflect.FileDescriptor) {
	// dynamic types over a small file with two messages, two enums and extensions colliding by name and by number
	p2 := proto.String("proto2")
	m := msg("M")
	m.ExtensionRange = []*descriptorpb.DescriptorProto_ExtensionRange{{Start: proto.Int32(100), End: proto.Int32(200)}}
	fp := &descriptorpb.FileDescriptorProto{Name: proto.String("t.proto"), Package: proto.String("t"), Syntax: p2,
		MessageType: []*descriptorpb.DescriptorProto{m, msg("M2")},
		EnumType:    []*descriptorpb.EnumDescriptorProto{enum("E", "V"), enum("E2", "W")},
		Extension:   []*descriptorpb.FieldDescriptorProto{ext("x100", ".t.M", 100), ext("y100", ".t.M", 100), ext("x101", ".t.M", 101)}}
	fp2 := &descriptorpb.FileDescriptorProto{Name: proto.String("u.proto"), Package: proto.String("t"), Syntax: p2,
		MessageType: []*descriptorpb.DescriptorProto{msg("E"), msg("x101")}, EnumType: []*descriptorpb.EnumDescriptorProto{enum("M2", "Q")}}
	f1, err1 := protodesc.NewFile(fp, &protoregistry.Files{})
	f2, err2 := protodesc.NewFile(fp2, &protoregistry.Files{})
	if err1 != nil || err2 != nil {
		c.Violation("harness: cannot build types files", fmt.Sprint(err1, err2))
		return
	}
	type item struct {
		name, kind string
		reg        func(t *protoregistry.Types) error
		extKey     string
	}
	var items []item
	for _, f := range []protoreflect.FileDescriptor{f1, f2} {
		for i := 0; i < f.Messages().Len(); i++ {
			md := f.Messages().Get(i)
			items = append(items, item{string(md.FullName()), "message", func(t *protoregistry.Types) error { return t.RegisterMessage(dynamicpb.NewMessageType(md)) }, ""})
		}
		for i := 0; i < f.Enums().Len(); i++ {
			ed := f.Enums().Get(i)
			items = append(items, item{string(ed.FullName()), "enum", func(t *protoregistry.Types) error { return t.RegisterEnum(dynamicpb.NewEnumType(ed)) }, ""})
		}
		for i := 0; i < f.Extensions().Len(); i++ {
			xd := f.Extensions().Get(i)
			items = append(items, item{string(xd.FullName()), "extension", func(t *protoregistry.Types) error { return t.RegisterExtension(dynamicpb.NewExtensionType(xd)) }, fmt.Sprintf("%s#%d", xd.ContainingMessage().FullName(), xd.Number())})
		}
	}
	dump := func(s *tstate, real bool) string {
		var sb strings.Builder
		for _, it := range items {
			for _, kind := range []string{"message", "enum", "extension"} {
				var found bool
				if real {
					switch kind {
					case "message":
						_, err := s.types.FindMessageByName(protoreflect.FullName(it.name))
						_, err2 := s.types.FindMessageByURL("type.googleapis.com/" + it.name)
						found = err == nil
						if (err == nil) != (err2 == nil) {
							sb.WriteString("URL-LOOKUP-DISAGREES;")
						}
					case "enum":
						_, err := s.types.FindEnumByName(protoreflect.FullName(it.name))
						found = err == nil
					case "extension":
						_, err := s.types.FindExtensionByName(protoreflect.FullName(it.name))
						found = err == nil
					}
				} else {
					found = s.names[it.name] == kind
				}
				fmt.Fprintf(&sb, "%s/%s=%v;", it.name, kind, found)
			}
		}
		for _, num := range []protoreflect.FieldNumber{100, 101, 102} {
			var got string
			if real {
				if xt, err := s.types.FindExtensionByNumber("t.M", num); err == nil {
					got = string(xt.TypeDescriptor().FullName())
				}
			} else {
				got = s.exts[fmt.Sprintf("t.M#%d", num)]
			}
			fmt.Fprintf(&sb, "ext#%d=%s;", num, got)
		}
		if real {
			var ms, es, xs, xm []string
			s.types.RangeMessages(func(t protoreflect.MessageType) bool { ms = append(ms, string(t.Descriptor().FullName())); return true })
			s.types.RangeEnums(func(t protoreflect.EnumType) bool { es = append(es, string(t.Descriptor().FullName())); return true })
			s.types.RangeExtensions(func(t protoreflect.ExtensionType) bool {
				xs = append(xs, string(t.TypeDescriptor().FullName()))
				return true
			})
			s.types.RangeExtensionsByMessage("t.M", func(t protoreflect.ExtensionType) bool {
				xm = append(xm, string(t.TypeDescriptor().FullName()))
				return true
			})
			sort.Strings(ms)
			sort.Strings(es)
			sort.Strings(xs)
			sort.Strings(xm)
			fmt.Fprintf(&sb, "n=%d/%d/%d/%d;%v%v%v%v", s.types.NumMessages(), s.types.NumEnums(), s.types.NumExtensions(), s.types.NumExtensionsByMessage("t.M"), ms, es, xs, xm)
		} else {
			var ms, es, xs []string
			for n, k := range s.names {
				switch k {
				case "message":
					ms = append(ms, n)
				case "enum":
					es = append(es, n)
				case "extension":
					xs = append(xs, n)
				}
			}
			sort.Strings(ms)
			sort.Strings(es)
			sort.Strings(xs)
			fmt.Fprintf(&sb, "n=%d/%d/%d/%d;%v%v%v%v", len(ms), len(es), len(xs), len(xs), ms, es, xs, xs)
		}
		return sb.String()
	}
	var ops []hist.Op[*tstate]
	for i, it := range items {
		i, it := i, it
		ops = append(ops, hist.Op[*tstate]{Name: fmt.Sprintf("Register%s(%s)", strings.Title(it.kind), it.name), Do: func(c *core.Ctx, s *tstate, h string) {
			before := dump(s, true)
			err := it.reg(s.types)
			_, dupName := s.names[it.name]
			dupNum := it.extKey != "" && s.exts[it.extKey] != ""
			want := !dupName && !dupNum
			if (err == nil) != want {
				c.Violation(fmt.Sprintf("Types registration success=%v but the table says %v: %s", err == nil, want, h), fmt.Sprint(err))
				return
			}
			if want {
				s.names[it.name] = it.kind
				if it.extKey != "" {
					s.exts[it.extKey] = it.name
				}
				s.order = append(s.order, i)
			}
			after := dump(s, true)
			if err != nil && before != after {
				c.Violation("a failed Types registration changed the registry: "+h, nil)
			}
			if m := dump(s, false); m != after {
				c.Violation("Types observers differ from the table: "+h, map[string]any{"registry": after, "table": m})
			}
		}})
	}
	sys := &hist.System[*tstate]{
		Name: "Types",
		New: func() *tstate {
			return &tstate{types: &protoregistry.Types{}, names: map[string]string{}, exts: map[string]string{}}
		},
		Ops: ops,
		Key: func(s *tstate) string {
			o := append([]int{}, s.order...)
			sort.Ints(o)
			return fmt.Sprint(o)
		},
	}
	r := hist.BFS(c, sys, len(items)+1)
	c.Bounds["types"] = map[string]any{"items": len(items), "states": r.States, "transitions": r.Transitions, "max_depth": r.MaxDepth, "frontier_exhausted": r.FrontierExhausted}
	c.DistinctN(int64(r.States))
	if !r.FrontierExhausted {
		c.Exhaustive = false
	}
	_ = fds
}
