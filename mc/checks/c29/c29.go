// Package c29: the open struct API, the hybrid API, the opaque API and
// dynamicpb are interchangeable for one schema. The generated APIs are driven
// through Go reflection on the generated types themselves: exported struct
// fields and oneof wrapper structs for the open API, Set/Get/Has/Clear methods
// for the hybrid and opaque APIs.
package c29

import (
	"fmt"
	"reflect"
	"sort"
	"strconv"
	"strings"

	"google.golang.org/protobuf/encoding/protojson"
	"google.golang.org/protobuf/encoding/prototext"
	"google.golang.org/protobuf/internal/impl"
	"google.golang.org/protobuf/internal/strs"
	"google.golang.org/protobuf/proto"
	"google.golang.org/protobuf/reflect/protoreflect"
	"google.golang.org/protobuf/reflect/protoregistry"
	"google.golang.org/protobuf/verifmc/core"
	"google.golang.org/protobuf/verifmc/univ"
)

func init() { core.Register("C29", "exploration", run) }

// api applies a slot to a generated message through its generated Go API.
type api interface {
	name() string
	apply(msg reflect.Value, md protoreflect.MessageDescriptor, s *univ.Slot)
}

func conv(v any, t reflect.Type) reflect.Value {
	switch x := v.(type) {
	case protoreflect.Value:
		return conv(x.Interface(), t)
	case protoreflect.MapKey:
		return conv(x.Interface(), t)
	}
	if t.Kind() == reflect.Ptr {
		p := reflect.New(t.Elem())
		p.Elem().Set(conv(v, t.Elem()))
		return p
	}
	rv := reflect.ValueOf(v)
	if b, ok := v.([]byte); ok {
		if b == nil {
			b = []byte{}
		}
		return reflect.ValueOf(append([]byte{}, b...)).Convert(t)
	}
	return rv.Convert(t)
}

// ---- open API: exported struct fields --------------------------------------------

type openAPI struct{}

func (openAPI) name() string { return "struct fields" }

func tagNumber(tag string) int {
	parts := strings.Split(tag, ",")
	if len(parts) < 2 {
		return -1
	}
	n, err := strconv.Atoi(parts[1])
	if err != nil {
		return -1
	}
	return n
}

func structFieldFor(t reflect.Type, num protoreflect.FieldNumber) (int, bool) {
	for i := 0; i < t.NumField(); i++ {
		if tag := t.Field(i).Tag.Get("protobuf"); tag != "" && tagNumber(tag) == int(num) {
			return i, true
		}
	}
	return 0, false
}

func oneofWrapper(msg reflect.Value, fd protoreflect.FieldDescriptor) (field int, wrapper reflect.Type) {
	t := msg.Type().Elem()
	mi := msg.Interface().(proto.Message).ProtoReflect().(interface{ ProtoMessageInfo() *impl.MessageInfo }).ProtoMessageInfo()
	for _, w := range mi.OneofWrappers {
		wt := reflect.TypeOf(w).Elem()
		if tagNumber(wt.Field(0).Tag.Get("protobuf")) == int(fd.Number()) {
			for i := 0; i < t.NumField(); i++ {
				if t.Field(i).Tag.Get("protobuf_oneof") == string(fd.ContainingOneof().Name()) {
					return i, wt
				}
			}
		}
	}
	panic("c29: no oneof wrapper for " + string(fd.FullName()))
}

func (a openAPI) apply(msg reflect.Value, md protoreflect.MessageDescriptor, s *univ.Slot) {
	fd := md.Fields().ByNumber(s.Num)
	st := msg.Elem()
	if od := fd.ContainingOneof(); od != nil && !od.IsSynthetic() {
		fi, wt := oneofWrapper(msg, fd)
		w := reflect.New(wt)
		switch s.Op {
		case univ.OpSet:
			w.Elem().Field(0).Set(conv(s.Val, wt.Field(0).Type))
		case univ.OpMsg:
			sub := reflect.New(wt.Field(0).Type.Elem())
			if cur := st.Field(fi); !cur.IsNil() && cur.Elem().Type() == w.Type() && !cur.Elem().Elem().Field(0).IsNil() {
				sub = cur.Elem().Elem().Field(0)
			}
			if s.Sub != nil {
				a.apply(sub, fd.Message(), s.Sub)
			}
			w.Elem().Field(0).Set(sub)
		default:
			panic("c29: unexpected op on oneof member")
		}
		st.Field(fi).Set(w)
		return
	}
	fi, ok := structFieldFor(st.Type(), s.Num)
	if !ok {
		panic("c29: no struct field for " + string(fd.FullName()))
	}
	f := st.Field(fi)
	switch s.Op {
	case univ.OpSet:
		f.Set(conv(s.Val, f.Type()))
	case univ.OpTouch:
		if f.IsNil() {
			if f.Kind() == reflect.Map {
				f.Set(reflect.MakeMap(f.Type()))
			} else {
				f.Set(reflect.MakeSlice(f.Type(), 0, 0))
			}
		}
	case univ.OpAppend:
		f.Set(reflect.Append(f, conv(s.Val, f.Type().Elem())))
	case univ.OpMapPut:
		if f.IsNil() {
			f.Set(reflect.MakeMap(f.Type()))
		}
		f.SetMapIndex(conv(s.Key, f.Type().Key()), conv(s.Val, f.Type().Elem()))
	case univ.OpMsg:
		if f.IsNil() {
			f.Set(reflect.New(f.Type().Elem()))
		}
		if s.Sub != nil {
			a.apply(f, fd.Message(), s.Sub)
		}
	case univ.OpAppendMsg:
		e := reflect.New(f.Type().Elem().Elem())
		if s.Sub != nil {
			a.apply(e, fd.Message(), s.Sub)
		}
		f.Set(reflect.Append(f, e))
	case univ.OpMapMsg:
		if f.IsNil() {
			f.Set(reflect.MakeMap(f.Type()))
		}
		k := conv(s.Key, f.Type().Key())
		e := f.MapIndex(k)
		if !e.IsValid() || e.IsNil() {
			e = reflect.New(f.Type().Elem().Elem())
			f.SetMapIndex(k, e)
		}
		if s.Sub != nil {
			a.apply(e, fd.MapValue().Message(), s.Sub)
		}
	default:
		panic("c29: unsupported op")
	}
}

// ---- hybrid / opaque API: accessor methods -----------------------------------------

type methodAPI struct{}

func (methodAPI) name() string { return "Set/Get/Has methods" }

func method(msg reflect.Value, prefix string, fd protoreflect.FieldDescriptor) reflect.Value {
	camel := strs.GoCamelCase(string(fd.Name()))
	for _, n := range []string{prefix + camel, prefix + "_" + camel} {
		if m := msg.MethodByName(n); m.IsValid() {
			return m
		}
	}
	panic(fmt.Sprintf("c29: no %s method for %s on %v", prefix, fd.FullName(), msg.Type()))
}

func (a methodAPI) apply(msg reflect.Value, md protoreflect.MessageDescriptor, s *univ.Slot) {
	fd := md.Fields().ByNumber(s.Num)
	camel := strs.GoCamelCase(string(fd.Name()))
	if !msg.MethodByName("Set"+camel).IsValid() && !msg.MethodByName("Set_"+camel).IsValid() {
		if _, ok := structFieldFor(msg.Type().Elem(), s.Num); ok || fd.ContainingOneof() != nil {
			// a nested message of another package generated with the open API (e.g. well-known types)
			openAPI{}.apply(msg, md, s)
			return
		}
	}
	set := method(msg, "Set", fd)
	pt := set.Type().In(0)
	get := func() reflect.Value { return method(msg, "Get", fd).Call(nil)[0] }
	switch s.Op {
	case univ.OpSet:
		set.Call([]reflect.Value{conv(s.Val, pt)})
	case univ.OpTouch:
		cur := get()
		if cur.IsNil() {
			if pt.Kind() == reflect.Map {
				cur = reflect.MakeMap(pt)
			} else {
				cur = reflect.MakeSlice(pt, 0, 0)
			}
		}
		set.Call([]reflect.Value{cur})
	case univ.OpAppend:
		set.Call([]reflect.Value{reflect.Append(get(), conv(s.Val, pt.Elem()))})
	case univ.OpMapPut:
		m := get()
		if m.IsNil() {
			m = reflect.MakeMap(pt)
		}
		m.SetMapIndex(conv(s.Key, pt.Key()), conv(s.Val, pt.Elem()))
		set.Call([]reflect.Value{m})
	case univ.OpMsg:
		sub := get()
		has := true
		if hm := msg.MethodByName("Has" + strs.GoCamelCase(string(fd.Name()))); hm.IsValid() {
			has = hm.Call(nil)[0].Bool()
		}
		if sub.IsNil() || !has {
			sub = reflect.New(pt.Elem())
			set.Call([]reflect.Value{sub})
		}
		if s.Sub != nil {
			a.apply(sub, fd.Message(), s.Sub)
		}
	case univ.OpAppendMsg:
		e := reflect.New(pt.Elem().Elem())
		if s.Sub != nil {
			a.apply(e, fd.Message(), s.Sub)
		}
		set.Call([]reflect.Value{reflect.Append(get(), e)})
	case univ.OpMapMsg:
		m := get()
		if m.IsNil() {
			m = reflect.MakeMap(pt)
		}
		k := conv(s.Key, pt.Key())
		e := m.MapIndex(k)
		if !e.IsValid() || e.IsNil() {
			e = reflect.New(pt.Elem().Elem())
			m.SetMapIndex(k, e)
		}
		if s.Sub != nil {
			a.apply(e, fd.MapValue().Message(), s.Sub)
		}
		set.Call([]reflect.Value{m})
	default:
		panic("c29: unsupported op")
	}
}

// getters: every singular scalar field's generated getter agrees with reflection
func checkGetters(msg reflect.Value, m protoreflect.Message) string {
	fds := m.Descriptor().Fields()
	for i := 0; i < fds.Len(); i++ {
		fd := fds.Get(i)
		if fd.IsList() || fd.IsMap() || fd.Message() != nil {
			continue
		}
		gm := msg.MethodByName("Get" + strs.GoCamelCase(string(fd.Name())))
		if !gm.IsValid() {
			gm = msg.MethodByName("Get_" + strs.GoCamelCase(string(fd.Name())))
		}
		if !gm.IsValid() {
			continue
		}
		got := gm.Call(nil)[0]
		want := m.Get(fd).Interface()
		var g any
		switch got.Kind() {
		case reflect.Int32, reflect.Int64:
			g = got.Int()
		case reflect.Uint32, reflect.Uint64:
			g = got.Uint()
		case reflect.Float32, reflect.Float64:
			g = got.Float()
		case reflect.Bool:
			g = got.Bool()
		case reflect.String:
			g = got.String()
		case reflect.Slice:
			g = string(got.Bytes())
		}
		var w any
		switch x := want.(type) {
		case int32:
			w = int64(x)
		case int64:
			w = x
		case uint32:
			w = uint64(x)
		case uint64:
			w = x
		case float32:
			w = float64(x)
		case float64:
			w = x
		case protoreflect.EnumNumber:
			w = int64(x)
		case []byte:
			w = string(x)
		default:
			w = x
		}
		if fmt.Sprintf("%v", g) != fmt.Sprintf("%v", w) {
			return fmt.Sprintf("getter of %s returns %v, reflection says %v", fd.Name(), g, w)
		}
		if hm := msg.MethodByName("Has" + strs.GoCamelCase(string(fd.Name()))); hm.IsValid() && fd.HasPresence() {
			if hm.Call(nil)[0].Bool() != m.Has(fd) {
				return fmt.Sprintf("Has%s()=%v, reflection Has=%v", strs.GoCamelCase(string(fd.Name())), !m.Has(fd), m.Has(fd))
			}
		}
	}
	return ""
}

type flavorAPI struct {
	label string
	mt    protoreflect.MessageType
	api   api
}

func observe(m protoreflect.Message) string {
	b, err := proto.MarshalOptions{Deterministic: true, AllowPartial: true}.Marshal(m.Interface())
	j, jerr := protojson.MarshalOptions{AllowPartial: true}.Marshal(m.Interface())
	t, terr := prototext.MarshalOptions{AllowPartial: true}.Marshal(m.Interface())
	return fmt.Sprintf("wire=%x %v size=%d init=%v\njson=%s %v\ntext=%s %v", b, err != nil, proto.Size(m.Interface()), proto.CheckInitialized(m.Interface()) == nil,
		strings.Join(strings.Fields(string(j)), ""), jerr != nil, strings.Join(strings.Fields(string(t)), " "), terr != nil)
}

func supported(s *univ.Slot) bool {
	if s.Ext {
		return false
	}
	switch s.Op {
	case univ.OpUnknown, univ.OpFill:
		return false
	}
	if s.Sub != nil {
		return supported(s.Sub)
	}
	return true
}

func families() []string {
	var fam []string
	protoregistry.GlobalTypes.RangeMessages(func(mt protoreflect.MessageType) bool {
		n := string(mt.Descriptor().FullName())
		if strings.HasPrefix(n, "opaque.") && mt.Descriptor().Parent() == protoreflect.Descriptor(mt.Descriptor().ParentFile()) {
			base := strings.TrimPrefix(n, "opaque.")
			_, e1 := protoregistry.GlobalTypes.FindMessageByName(protoreflect.FullName(base))
			_, e2 := protoregistry.GlobalTypes.FindMessageByName(protoreflect.FullName("hybrid." + base))
			if e1 == nil && e2 == nil && mt.Descriptor().Fields().Len() > 0 {
				if o, ok := mt.Descriptor().Options().(interface{ GetMessageSetWireFormat() bool }); ok && o.GetMessageSetWireFormat() {
					return true
				}
				usesMessageSet := false
				for i := 0; i < mt.Descriptor().Fields().Len(); i++ {
					if sub := mt.Descriptor().Fields().Get(i).Message(); sub != nil {
						if o, ok := sub.Options().(interface{ GetMessageSetWireFormat() bool }); ok && o.GetMessageSetWireFormat() {
							usesMessageSet = true // MessageSet needs -tags protolegacy (C47)
						}
					}
				}
				if usesMessageSet {
					return true
				}
				fam = append(fam, base)
			}
		}
		return true
	})
	sort.Strings(fam)
	return fam
}

func run(c *core.Ctx) {
	c.Rule = "for EVERY schema generated in open, hybrid and opaque form (top-level messages of test3, testeditions, testrequired, lazy, textpbeditions, messageset extension payloads: about 55 families) and EVERY message of <=k slots over the thin slot alphabet (k=2 for alphabets of <=400 slots, else k=1 in the quick tier; thorough k=2 throughout; scalar set, list append, map put, nested message set/append/map value incl. a nested slot, oneof members, stored-but-empty composites): the content is written (1) into the open type through its exported struct fields and oneof wrapper structs, (2) into the hybrid type through struct fields, (3) into the hybrid type through its Set methods, (4) into the opaque type through its Set methods (Get + append / insert + Set for lists and maps), all by Go reflection on the generated types, and (5) into dynamicpb through protoreflect. All five must give identical deterministic wire bytes, Size, CheckInitialized verdict, protojson and prototext output; every generated scalar getter and Has method must agree with reflection; every flavour must decode the reference bytes to a message that re-encodes to the same bytes, and must decode the concatenation of the encodings of the two single slots (a merge on the wire) to the same content as dynamicpb; and for every ordered pair of slots on the same field number, decoding the first (default lazy decoding) and then proto.Merge-ing the second (built through the API, or itself freshly decoded) must give the content dynamicpb gives for the same program, as must proto.Clone of a freshly decoded message. Builders (M_builder) are not reachable by reflection and are exercised only where the harness uses them statically (C18)"
	c.Exhaustive = true
	var planOut []map[string]any
	for _, base := range families() {
		if c.Expired() {
			c.Exhaustive = false
			break
		}
		open, hyb, opq := univ.MT(base), univ.MT("hybrid."+base), univ.MT("opaque."+base)
		dyn := univ.Dyn(base)
		fl := []flavorAPI{{"open/struct-fields", open, openAPI{}}, {"hybrid/struct-fields", hyb, openAPI{}}, {"hybrid/methods", hyb, methodAPI{}}, {"opaque/methods", opq, methodAPI{}}}
		var alpha []*univ.Slot
		for _, s := range univ.Alphabet(open.Descriptor(), 2, univ.Opt{Thin: true, NoExt: true, NoUnknown: true, EmptyComposite: true, MaxNested: 3}) {
			if supported(s) {
				alpha = append(alpha, s)
			}
		}
		k := 2
		if len(alpha) > 400 && c.Quick() {
			k = 1
		}
		n := univ.TupleCount(len(alpha), k)
		univ.ForTuples(c, len(alpha), k, func(idx []int) {
			slots := univ.PickSlots(alpha, idx, nil)
			name := univ.Names(slots)
			c.Eval(1)
			c.Guard(func() string { return fmt.Sprintf("family=%s case=%s", base, name) }, func() {
				ref := dyn.Build(slots)
				want := observe(ref)
				refBytes, _ := proto.MarshalOptions{Deterministic: true, AllowPartial: true}.Marshal(ref.Interface())
				// the concatenation of the encodings of the single slots (a merge on the wire)
				var cat []byte
				if len(slots) == 2 {
					for _, s1 := range slots {
						b1, _ := proto.MarshalOptions{Deterministic: true, AllowPartial: true}.Marshal(dyn.Build([]*univ.Slot{s1}).Interface())
						cat = append(cat, b1...)
					}
				}
				catWant := ""
				if cat != nil {
					d, err := dyn.Unmarshal(cat, proto.UnmarshalOptions{AllowPartial: true})
					if err == nil {
						catWant = observe(d)
					}
				}
				for _, f := range fl {
					if catWant != "" && f.api.name() != "struct fields" || catWant != "" && f.label == "open/struct-fields" {
						back := f.mt.New()
						if err := (proto.UnmarshalOptions{AllowPartial: true}).Unmarshal(cat, back.Interface()); err != nil || observe(back) != catWant {
							c.Violation(fmt.Sprintf("%s decodes the concatenation of two encodings differently from dynamicpb: family=%s case=%s", strings.Split(f.label, "/")[0], base, name), map[string]any{"input": fmt.Sprintf("%x", cat), "err": fmt.Sprint(err)})
						}
					}
					var msg reflect.Value
					if c.Guard(func() string { return fmt.Sprintf("writing through %s family=%s case=%s", f.label, base, name) }, func() {
						msg = reflect.ValueOf(f.mt.New().Interface())
						for _, s := range slots {
							f.api.apply(msg, f.mt.Descriptor(), s)
						}
					}) {
						return
					}
					m := msg.Interface().(proto.Message).ProtoReflect()
					if got := observe(m); got != want {
						c.Violation(fmt.Sprintf("content written through %s differs from dynamicpb: family=%s case=%s", f.label, base, name), map[string]any{"got": got, "want": want})
						continue
					}
					if msg.NumMethod() > 0 {
						if e := checkGetters(msg, m); e != "" {
							c.Violation(fmt.Sprintf("%s: %s family=%s case=%s", f.label, e, base, name), nil)
						}
					}
					back := f.mt.New()
					if err := (proto.UnmarshalOptions{AllowPartial: true}).Unmarshal(refBytes, back.Interface()); err != nil {
						c.Violation(fmt.Sprintf("%s rejects the bytes of dynamicpb: family=%s case=%s", f.label, base, name), err.Error())
					} else if b2, _ := (proto.MarshalOptions{Deterministic: true, AllowPartial: true}).Marshal(back.Interface()); string(b2) != string(refBytes) {
						c.Violation(fmt.Sprintf("%s decodes the bytes of dynamicpb to different content: family=%s case=%s", f.label, base, name), nil)
					} else if e := checkGetters(reflect.ValueOf(back.Interface()), back); e != "" {
						c.Violation(fmt.Sprintf("%s after decoding: %s family=%s case=%s", f.label, e, base, name), nil)
					}
				}
			})
		})
		c.DistinctN(int64(n))
		// the same program in every flavour: decode one encoding, then proto.Merge /
		// proto.Clone. Pairs are forced to collide on one field number so that
		// message fields (lazy ones included) are merged, not just set.
		var pairs [][2]*univ.Slot
		for _, a := range alpha {
			for _, b := range alpha {
				if a.Num == b.Num {
					pairs = append(pairs, [2]*univ.Slot{a, b})
				}
			}
		}
		c.Par(len(pairs), func(i int) {
			a, b := pairs[i][0], pairs[i][1]
			name := univ.Names([]*univ.Slot{a, b})
			c.Eval(1)
			c.Guard(func() string { return fmt.Sprintf("merge family=%s case=%s", base, name) }, func() {
				mo := proto.MarshalOptions{Deterministic: true, AllowPartial: true}
				ba, _ := mo.Marshal(dyn.Build([]*univ.Slot{a}).Interface())
				bb, _ := mo.Marshal(dyn.Build([]*univ.Slot{b}).Interface())
				dd, err := dyn.Unmarshal(ba, proto.UnmarshalOptions{AllowPartial: true})
				if err != nil {
					return
				}
				proto.Merge(dd.Interface(), dyn.Build([]*univ.Slot{b}).Interface())
				want := observe(dd)
				for _, f := range fl {
					for _, srcDecoded := range []bool{false, true} {
						if srcDecoded && f.api.name() == "struct fields" && f.label != "open/struct-fields" {
							continue
						}
						dst := f.mt.New()
						if err := (proto.UnmarshalOptions{AllowPartial: true}).Unmarshal(ba, dst.Interface()); err != nil {
							c.Violation(fmt.Sprintf("%s rejects the bytes of dynamicpb: family=%s case=%s", f.label, base, name), err.Error())
							continue
						}
						var src proto.Message
						if srcDecoded {
							src = f.mt.New().Interface()
							if err := (proto.UnmarshalOptions{AllowPartial: true}).Unmarshal(bb, src); err != nil {
								continue
							}
						} else {
							v := reflect.ValueOf(f.mt.New().Interface())
							f.api.apply(v, f.mt.Descriptor(), b)
							src = v.Interface().(proto.Message)
						}
						proto.Merge(dst.Interface(), src)
						if got := observe(dst); got != want {
							c.Violation(fmt.Sprintf("decode-then-Merge differs from dynamicpb: %s srcDecoded=%v family=%s case=%s", f.label, srcDecoded, base, name), map[string]any{"got": got, "want": want, "dst": fmt.Sprintf("%x", ba), "src": fmt.Sprintf("%x", bb)})
						}
						if !srcDecoded {
							continue
						}
						// Clone of a freshly decoded (still lazy) message
						if got, w := observe(proto.Clone(src).ProtoReflect()), observe(dyn.Build([]*univ.Slot{b})); got != w {
							c.Violation(fmt.Sprintf("Clone of a decoded message differs from dynamicpb: %s family=%s case=%s", f.label, base, name), map[string]any{"got": got, "want": w})
						}
					}
				}
			})
		})
		c.DistinctN(int64(len(pairs)))
		planOut = append(planOut, map[string]any{"family": base, "slot_alphabet": len(alpha), "k": k, "messages": n, "merge_pairs_same_field": len(pairs)})
	}
	c.Bounds["plans"] = planOut
	c.Bounds["api_flavours"] = []string{"open/struct-fields", "hybrid/struct-fields", "hybrid/methods", "opaque/methods", "dynamicpb/protoreflect"}
	c.Sample(map[string]any{"family": "goproto.proto.testeditions.TestAllTypes", "case": "[14=\"a\" ; 18{1=i1}]", "written through": "SetOptionalString / SetOptionalNestedMessage(&NestedMessage{}) + SetA"})
}
