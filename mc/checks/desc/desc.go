// Package desc holds the descriptor checks C34 (proto <-> descriptor round
// trip), C36 (internal consistency of descriptor views) and C37 (compact
// builder vs protodesc).
package desc

import (
	"fmt"
	"strings"
	"sync"

	"google.golang.org/protobuf/internal/filedesc"
	"google.golang.org/protobuf/proto"
	"google.golang.org/protobuf/reflect/protodesc"
	"google.golang.org/protobuf/reflect/protoreflect"
	"google.golang.org/protobuf/reflect/protoregistry"
	"google.golang.org/protobuf/types/descriptorpb"
	"google.golang.org/protobuf/verifmc/core"
	"google.golang.org/protobuf/verifmc/ref/descdump"
	"google.golang.org/protobuf/verifmc/univ"
)

func init() {
	core.Register("C34", "exploration", runC34)
	core.Register("C36", "exploration", runC36)
	core.Register("C37", "exploration", runC37)
}

var allSyntaxes = []univ.Syntax{univ.Proto2, univ.Proto3, univ.Ed2023, univ.Ed2024}

// schemas materialises the schema universe as FileDescriptorProtos.
type schema struct {
	name string
	fdp  *descriptorpb.FileDescriptorProto
}

func schemas(c *core.Ctx, f int, full bool) []schema {
	var out []schema
	univ.SchemaUniverse(f, full, allSyntaxes, func(idx int, syn univ.Syntax, shapes []univ.Shape) {
		out = append(out, schema{fmt.Sprintf("%s%s", syn, univ.ShapeNames(shapes)), univ.SchemaFile(fmt.Sprintf("verif/s%d.proto", idx), fmt.Sprintf("verif.s%d", idx), syn, shapes)})
	})
	// decorated schemas: services, reserved ranges/names, nested enums, options, public imports
	out = append(out, decorated()...)
	return out
}

func decorated() []schema {
	var out []schema
	base := univ.SchemaFile("verif/deco.proto", "verif.deco", univ.Proto2, univ.Shapes(univ.Proto2, false)[:6])
	m := base.MessageType[0]
	m.ReservedName = []string{"old_a", "old_b"}
	m.ReservedRange = []*descriptorpb.DescriptorProto_ReservedRange{{Start: proto.Int32(50), End: proto.Int32(60)}, {Start: proto.Int32(70), End: proto.Int32(71)}}
	m.ExtensionRange = []*descriptorpb.DescriptorProto_ExtensionRange{
		{Start: proto.Int32(1000), End: proto.Int32(2000)},
		{Start: proto.Int32(3000), End: proto.Int32(3001), Options: &descriptorpb.ExtensionRangeOptions{Verification: descriptorpb.ExtensionRangeOptions_UNVERIFIED.Enum()}},
		{Start: proto.Int32(4000), End: proto.Int32(4010)},
		{Start: proto.Int32(5000), End: proto.Int32(536870912), Options: &descriptorpb.ExtensionRangeOptions{Declaration: []*descriptorpb.ExtensionRangeOptions_Declaration{{Number: proto.Int32(5000), FullName: proto.String(".verif.deco.ext5000"), Type: proto.String("int32")}}}},
	}
	m.EnumType = []*descriptorpb.EnumDescriptorProto{{Name: proto.String("Inner"), Value: []*descriptorpb.EnumValueDescriptorProto{{Name: proto.String("I_A"), Number: proto.Int32(1)}, {Name: proto.String("I_B"), Number: proto.Int32(1)}, {Name: proto.String("I_C"), Number: proto.Int32(5)}},
		Options: &descriptorpb.EnumOptions{AllowAlias: proto.Bool(true)}, ReservedName: []string{"GONE"}, ReservedRange: []*descriptorpb.EnumDescriptorProto_EnumReservedRange{{Start: proto.Int32(10), End: proto.Int32(20)}}}}
	m.Options = &descriptorpb.MessageOptions{Deprecated: proto.Bool(true)}
	base.Service = []*descriptorpb.ServiceDescriptorProto{{Name: proto.String("Svc"), Method: []*descriptorpb.MethodDescriptorProto{
		{Name: proto.String("Unary"), InputType: proto.String(".verif.deco.M"), OutputType: proto.String(".verif.deco.Sub")},
		{Name: proto.String("Stream"), InputType: proto.String(".verif.deco.Sub"), OutputType: proto.String(".verif.deco.M"), ClientStreaming: proto.Bool(true), ServerStreaming: proto.Bool(true), Options: &descriptorpb.MethodOptions{Deprecated: proto.Bool(true)}},
	}}}
	base.Options = &descriptorpb.FileOptions{GoPackage: proto.String("example.com/deco"), JavaMultipleFiles: proto.Bool(true)}
	base.Dependency = []string{"google/protobuf/any.proto", "google/protobuf/duration.proto"}
	base.PublicDependency = []int32{1}
	m.Field = append(m.Field, &descriptorpb.FieldDescriptorProto{Name: proto.String("any"), Number: proto.Int32(40), Type: descriptorpb.FieldDescriptorProto_TYPE_MESSAGE.Enum(), Label: descriptorpb.FieldDescriptorProto_LABEL_OPTIONAL.Enum(), TypeName: proto.String(".google.protobuf.Any"), JsonName: proto.String("any")})
	out = append(out, schema{"decorated proto2", base})
	// defaults of every kind with special values
	defs := []struct {
		t descriptorpb.FieldDescriptorProto_Type
		v string
	}{
		{descriptorpb.FieldDescriptorProto_TYPE_FLOAT, "inf"}, {descriptorpb.FieldDescriptorProto_TYPE_FLOAT, "-inf"}, {descriptorpb.FieldDescriptorProto_TYPE_DOUBLE, "nan"},
		{descriptorpb.FieldDescriptorProto_TYPE_FLOAT, "7.038531e-26"}, {descriptorpb.FieldDescriptorProto_TYPE_DOUBLE, "1e-320"},
		{descriptorpb.FieldDescriptorProto_TYPE_INT64, "-9223372036854775808"}, {descriptorpb.FieldDescriptorProto_TYPE_UINT64, "18446744073709551615"},
		{descriptorpb.FieldDescriptorProto_TYPE_BYTES, "\\000\\001\\\"\\\\\\377"}, {descriptorpb.FieldDescriptorProto_TYPE_STRING, "é\n\t\"'"}, {descriptorpb.FieldDescriptorProto_TYPE_BOOL, "false"},
		{descriptorpb.FieldDescriptorProto_TYPE_ENUM, "E_NEG"}, {descriptorpb.FieldDescriptorProto_TYPE_STRING, ""},
	}
	var shapes []univ.Shape
	for _, d := range defs {
		shapes = append(shapes, univ.Shape{Name: "default", Type: d.t, Label: descriptorpb.FieldDescriptorProto_LABEL_OPTIONAL, Default: d.v})
	}
	df := univ.SchemaFile("verif/defaults.proto", "verif.defaults", univ.Proto2, shapes)
	// an empty-string default must be kept as "has default"
	for _, t := range []descriptorpb.FieldDescriptorProto_Type{descriptorpb.FieldDescriptorProto_TYPE_STRING, descriptorpb.FieldDescriptorProto_TYPE_BYTES} {
		fs := df.MessageType[0].Field
		n := int32(len(fs) + 1)
		df.MessageType[0].Field = append(fs, &descriptorpb.FieldDescriptorProto{Name: proto.String(fmt.Sprintf("empty_default_%d", n)), JsonName: proto.String(fmt.Sprintf("emptyDefault%d", n)), Number: proto.Int32(n + 100), Type: t.Enum(), Label: descriptorpb.FieldDescriptorProto_LABEL_OPTIONAL.Enum(), DefaultValue: proto.String("")})
	}
	out = append(out, schema{"defaults proto2", df})
	return out
}

func hasPlaceholderImport(d protoreflect.FileDescriptor) bool {
	for i := 0; i < d.Imports().Len(); i++ {
		if d.Imports().Get(i).IsPlaceholder() {
			return true
		}
	}
	return false
}

func resolverWith(fds ...protoreflect.FileDescriptor) *protoregistry.Files {
	r := &protoregistry.Files{}
	for _, fd := range fds {
		r.RegisterFile(fd)
	}
	return r
}

// fallback resolver: local files first, then the global registry
type chain struct {
	a, b protodesc.Resolver
}

func (c chain) FindFileByPath(p string) (protoreflect.FileDescriptor, error) {
	if fd, err := c.a.FindFileByPath(p); err == nil {
		return fd, nil
	}
	return c.b.FindFileByPath(p)
}

func (c chain) FindDescriptorByName(n protoreflect.FullName) (protoreflect.Descriptor, error) {
	if d, err := c.a.FindDescriptorByName(n); err == nil {
		return d, nil
	}
	return c.b.FindDescriptorByName(n)
}

func runC34(c *core.Ctx) {
	c.Rule = "(a) every file descriptor d linked into the harness (generated, raw-descriptor built): NewFile(ToFileDescriptorProto(d)) must succeed (MessageSet files only under protolegacy; files importing something not linked are resolved with AllowUnresolvable) and reproduce d in every accessor (canonical dump of names, numbers, kinds, cardinalities, presence, packedness, defaults, JSON/text names, options bytes, ranges, reserved names, oneofs, map links, services, imports); (b) every schema of the generated universe S(f) (all sorted tuples of <=f field shapes over proto2/proto3/editions 2023/2024 shape alphabets: 16 scalar kinds, message, group/DELIMITED, enum x optional/required/repeated/packed/proto3-optional/implicit/legacy-required x plain/oneof/extension/map/lazy/default/json_name, plus decorated files with services, reserved ranges, aliases, options, public imports, special defaults): NewFile(p) succeeds, ToFileDescriptorProto(NewFile(p)) is proto.Equal to p, and NewFile of that proto reproduces the descriptor dump"
	c.Exhaustive = true
	files := univ.AllFiles()
	var skippedMS, unresolvable int
	c.Par(len(files), func(i int) {
		d := files[i]
		c.Eval(1)
		c.Distinct(d.Path())
		c.Guard(func() string { return "linked file " + d.Path() }, func() {
			p := protodesc.ToFileDescriptorProto(d)
			d2, err := protodesc.NewFile(p, protoregistry.GlobalFiles)
			if err != nil {
				if strings.Contains(err.Error(), "MessageSet") {
					skippedMS++
					c.Outcome("skipped: MessageSet file needs -tags protolegacy")
					return
				}
				d2, err = protodesc.FileOptions{AllowUnresolvable: true}.New(p, protoregistry.GlobalFiles)
				if err != nil && strings.Contains(err.Error(), "is not imported") && hasPlaceholderImport(d) {
					// fixture generated by an old protoc-gen-go: its dependency is registered under another
					// path (e.g. "proto2_20180125_92554152/test.proto"), so the import is a placeholder while
					// the type name resolves elsewhere; such a file cannot be rebuilt against this registry
					c.Outcome("skipped: import registered under another path (legacy fixture)")
					return
				}
				if err != nil {
					c.Violation("NewFile(ToFileDescriptorProto(d)) fails for linked file "+d.Path(), err.Error())
					return
				}
				unresolvable++
				c.Outcome("resolved with AllowUnresolvable")
				return // placeholders differ by design
			}
			a, b := descdump.File(d, descdump.Opt{}), descdump.File(d2, descdump.Opt{})
			if a != b {
				c.Violation("descriptor round trip changes an accessor, linked file "+d.Path(), firstDiff(a, b))
			}
			p2 := protodesc.ToFileDescriptorProto(d2)
			if !proto.Equal(p, p2) {
				c.Violation("ToFileDescriptorProto not stable across a round trip, linked file "+d.Path(), nil)
			}
		})
	})
	ss := schemas(c, core.Pick(c, 2, 3), c.Thorough())
	c.Par(len(ss), func(i int) {
		s := ss[i]
		c.Eval(1)
		c.Guard(func() string { return "schema " + s.name }, func() {
			d, err := protodesc.NewFile(s.fdp, protoregistry.GlobalFiles)
			if err != nil {
				c.Violation("NewFile rejects a valid schema "+s.name, err.Error())
				return
			}
			p2 := protodesc.ToFileDescriptorProto(d)
			if !proto.Equal(s.fdp, p2) {
				c.Violation("ToFileDescriptorProto(NewFile(p)) != p for schema "+s.name, map[string]any{"want": fmt.Sprint(s.fdp), "got": fmt.Sprint(p2)})
				return
			}
			d2, err := protodesc.NewFile(p2, protoregistry.GlobalFiles)
			if err != nil {
				c.Violation("NewFile rejects ToFileDescriptorProto output for schema "+s.name, err.Error())
				return
			}
			if a, b := descdump.File(d, descdump.Opt{}), descdump.File(d2, descdump.Opt{}); a != b {
				c.Violation("descriptor round trip changes an accessor, schema "+s.name, firstDiff(a, b))
			}
		})
	})
	c.DistinctN(int64(len(ss)))
	c.Bounds["linked_files"] = len(files)
	c.Bounds["schemas"] = len(ss)
	c.Extra("linked_files_skipped_messageset", skippedMS)
	c.Extra("linked_files_allow_unresolvable", unresolvable)
	c.Sample(map[string]any{"schema": ss[len(ss)/2].name})
	c.Sample(map[string]any{"linked_file": files[len(files)/3].Path()})
	c.Assume("json_name is always written explicitly in the generated schemas (ToFileDescriptorProto always populates it: documented normalisation)")
}

func firstDiff(a, b string) string {
	la, lb := strings.Split(a, "\n"), strings.Split(b, "\n")
	for i := 0; i < len(la) && i < len(lb); i++ {
		if la[i] != lb[i] {
			return fmt.Sprintf("line %d:\n  a: %s\n  b: %s", i, la[i], lb[i])
		}
	}
	return fmt.Sprintf("lengths differ: %d vs %d lines", len(la), len(lb))
}

// ---- C37

var buildMu sync.Mutex

func runC37(c *core.Ctx) {
	c.Rule = "for every schema of the universe S(f) and every linked file: the serialized FileDescriptorProto is handed to filedesc.Builder (the raw-descriptor path of generated code, with lazy second-level decoding forced by walking every accessor) and to protodesc.NewFile; the canonical accessor dumps must be identical"
	c.Exhaustive = true
	ss := schemas(c, core.Pick(c, 2, 3), c.Thorough())
	for _, d := range univ.AllFiles() {
		p := protodesc.ToFileDescriptorProto(d)
		if _, err := protodesc.NewFile(p, protoregistry.GlobalFiles); err != nil {
			continue
		}
		ss = append(ss, schema{"linked:" + d.Path(), p})
	}
	c.Par(len(ss), func(i int) {
		s := ss[i]
		c.Eval(1)
		c.Guard(func() string { return "schema " + s.name }, func() {
			d1, err := protodesc.NewFile(s.fdp, protoregistry.GlobalFiles)
			if err != nil {
				c.Violation("NewFile rejects a valid schema "+s.name, err.Error())
				return
			}
			raw, err := proto.MarshalOptions{Deterministic: true}.Marshal(s.fdp)
			if err != nil {
				return
			}
			// a private registry holding the dependencies (same descriptor objects as the global one)
			reg := &depRegistry{local: &protoregistry.Files{}}
			out := filedesc.Builder{RawDescriptor: raw, FileRegistry: reg, TypeResolver: protoregistry.GlobalTypes}.Build()
			a, b := descdump.File(d1, descdump.Opt{}), descdump.File(out.File, descdump.Opt{})
			if a != b {
				c.Violation("filedesc.Builder and protodesc.NewFile disagree, schema "+s.name, firstDiff(a, b))
			}
		})
	})
	c.DistinctN(int64(len(ss)))
	c.Bounds["schemas_and_files"] = len(ss)
	c.Sample(map[string]any{"schema": ss[len(ss)/2].name})
}

// depRegistry resolves dependencies in the global registry and accepts the
// registration of the file being built locally.
type depRegistry struct {
	local *protoregistry.Files
}

func (r *depRegistry) FindFileByPath(p string) (protoreflect.FileDescriptor, error) {
	if fd, err := r.local.FindFileByPath(p); err == nil {
		return fd, nil
	}
	return protoregistry.GlobalFiles.FindFileByPath(p)
}

func (r *depRegistry) FindDescriptorByName(n protoreflect.FullName) (protoreflect.Descriptor, error) {
	if d, err := r.local.FindDescriptorByName(n); err == nil {
		return d, nil
	}
	return protoregistry.GlobalFiles.FindDescriptorByName(n)
}

func (r *depRegistry) RegisterFile(fd protoreflect.FileDescriptor) error {
	return r.local.RegisterFile(fd)
}
