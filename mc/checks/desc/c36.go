package desc

import (
	"fmt"

	"google.golang.org/protobuf/proto"
	"google.golang.org/protobuf/reflect/protodesc"
	"google.golang.org/protobuf/reflect/protoreflect"
	"google.golang.org/protobuf/reflect/protoregistry"
	"google.golang.org/protobuf/types/descriptorpb"
	"google.golang.org/protobuf/verifmc/core"
	"google.golang.org/protobuf/verifmc/univ"
)

// consistency checks the statement's equalities literally on one file.
func consistency(c *core.Ctx, fd protoreflect.FileDescriptor, origin string) int {
	n := 0
	bad := func(format string, a ...any) {
		c.Violation(fmt.Sprintf(format, a...)+" in "+origin, nil)
	}
	parentOK := func(d protoreflect.Descriptor) {
		n++
		if d.ParentFile() != fd {
			bad("ParentFile of %s is not the file", d.FullName())
		}
		p := d
		for i := 0; i < 64; i++ {
			par := p.Parent()
			if par == nil {
				if p != protoreflect.Descriptor(fd) {
					bad("Parent chain of %s ends at %T, not the file", d.FullName(), p)
				}
				return
			}
			p = par
		}
		bad("Parent chain of %s does not terminate", d.FullName())
	}
	fullNameOK := func(d protoreflect.Descriptor, scope protoreflect.Descriptor) {
		want := protoreflect.FullName(d.Name())
		if sn := scope.FullName(); sn != "" {
			want = sn + "." + want
		}
		if d.FullName() != want {
			bad("FullName %s != parent-scope name %s", d.FullName(), want)
		}
	}
	var checkEnum func(ed protoreflect.EnumDescriptor, idx int, scope protoreflect.Descriptor)
	checkEnum = func(ed protoreflect.EnumDescriptor, idx int, scope protoreflect.Descriptor) {
		parentOK(ed)
		fullNameOK(ed, scope)
		if ed.Index() != idx {
			bad("enum %s Index()=%d at position %d", ed.FullName(), ed.Index(), idx)
		}
		vals := ed.Values()
		for i := 0; i < vals.Len(); i++ {
			v := vals.Get(i)
			parentOK(v)
			if v.Index() != i {
				bad("enum value %s Index()=%d at position %d", v.FullName(), v.Index(), i)
			}
			fullNameOK(v, scope) // enum values live in the enum's parent scope
			// ByName / ByNumber return the first element with that key
			firstByName, firstByNum := -1, -1
			for j := 0; j < vals.Len(); j++ {
				if firstByName < 0 && vals.Get(j).Name() == v.Name() {
					firstByName = j
				}
				if firstByNum < 0 && vals.Get(j).Number() == v.Number() {
					firstByNum = j
				}
			}
			if got := vals.ByName(v.Name()); got == nil || got.Index() != firstByName {
				bad("enum %s ByName(%s) is not the first match", ed.FullName(), v.Name())
			}
			if got := vals.ByNumber(v.Number()); got == nil || got.Index() != firstByNum {
				bad("enum %s ByNumber(%d) is not the first match", ed.FullName(), v.Number())
			}
		}
		if vals.ByName("no_such_value_name") != nil || vals.ByNumber(-123456) != nil {
			bad("enum %s finds a non-existing value", ed.FullName())
		}
		// reserved ranges: Has == membership, around every boundary
		rr := ed.ReservedRanges()
		for _, x := range enumProbes(rr) {
			want := false
			for i := 0; i < rr.Len(); i++ {
				if x >= rr.Get(i)[0] && x <= rr.Get(i)[1] {
					want = true
				}
			}
			n++
			if rr.Has(x) != want {
				bad("enum %s ReservedRanges.Has(%d)=%v want %v", ed.FullName(), x, rr.Has(x), want)
			}
		}
		rn := ed.ReservedNames()
		for i := 0; i < rn.Len(); i++ {
			if !rn.Has(rn.Get(i)) {
				bad("enum %s ReservedNames.Has(%s)=false", ed.FullName(), rn.Get(i))
			}
		}
	}
	var checkMsg func(md protoreflect.MessageDescriptor, idx int, scope protoreflect.Descriptor)
	checkField := func(f protoreflect.FieldDescriptor, i int, list protoreflect.FieldDescriptors, md protoreflect.MessageDescriptor, scope protoreflect.Descriptor) {
		parentOK(f)
		fullNameOK(f, scope)
		if f.Index() != i {
			bad("field %s Index()=%d at position %d", f.FullName(), f.Index(), i)
		}
		if list != nil {
			fn, fj, ft, fnum := -1, -1, -1, -1
			for j := 0; j < list.Len(); j++ {
				g := list.Get(j)
				if fn < 0 && g.Name() == f.Name() {
					fn = j
				}
				if fj < 0 && g.JSONName() == f.JSONName() {
					fj = j
				}
				if ft < 0 && g.TextName() == f.TextName() {
					ft = j
				}
				if fnum < 0 && g.Number() == f.Number() {
					fnum = j
				}
			}
			if g := list.ByName(f.Name()); g == nil || g.Index() != fn {
				bad("fields of %s: ByName(%s) is not the first match", md.FullName(), f.Name())
			}
			if g := list.ByJSONName(f.JSONName()); g == nil || g.Index() != fj {
				bad("fields of %s: ByJSONName(%s) is not the first match", md.FullName(), f.JSONName())
			}
			if g := list.ByTextName(f.TextName()); g == nil || g.Index() != ft {
				bad("fields of %s: ByTextName(%s) is not the first match", md.FullName(), f.TextName())
			}
			if g := list.ByNumber(f.Number()); g == nil || g.Index() != fnum {
				bad("fields of %s: ByNumber(%d) is not the first match", md.FullName(), f.Number())
			}
		}
		if od := f.ContainingOneof(); od != nil {
			found := false
			for j := 0; j < od.Fields().Len(); j++ {
				if od.Fields().Get(j) == f {
					found = true
				}
			}
			if !found {
				bad("field %s names oneof %s which does not list it", f.FullName(), od.FullName())
			}
		}
		if f.IsMap() {
			if f.MapKey() == nil || f.MapValue() == nil || f.MapKey().Number() != 1 || f.MapValue().Number() != 2 || f.MapKey().ContainingMessage() != f.Message() || !f.Message().IsMapEntry() {
				bad("map field %s has inconsistent MapKey/MapValue links", f.FullName())
			}
		} else if f.MapKey() != nil || f.MapValue() != nil {
			bad("non-map field %s has MapKey/MapValue", f.FullName())
		}
	}
	checkMsg = func(md protoreflect.MessageDescriptor, idx int, scope protoreflect.Descriptor) {
		parentOK(md)
		fullNameOK(md, scope)
		if md.Index() != idx {
			bad("message %s Index()=%d at position %d", md.FullName(), md.Index(), idx)
		}
		fs := md.Fields()
		reqWant := map[protoreflect.FieldNumber]bool{}
		for i := 0; i < fs.Len(); i++ {
			f := fs.Get(i)
			checkField(f, i, fs, md, md)
			if f.Cardinality() == protoreflect.Required {
				reqWant[f.Number()] = true
			}
		}
		if fs.ByName("no_such_field") != nil || fs.ByNumber(536870000) != nil || fs.ByJSONName("noSuchField") != nil || fs.ByTextName("no_such_field") != nil {
			bad("message %s finds a non-existing field", md.FullName())
		}
		rq := md.RequiredNumbers()
		if rq.Len() != len(reqWant) {
			bad("message %s RequiredNumbers has %d entries, %d required fields", md.FullName(), rq.Len(), len(reqWant))
		}
		for i := 0; i < rq.Len(); i++ {
			if !reqWant[rq.Get(i)] || !rq.Has(rq.Get(i)) {
				bad("message %s RequiredNumbers lists %d", md.FullName(), rq.Get(i))
			}
		}
		for _, rng := range []struct {
			name string
			r    protoreflect.FieldRanges
		}{{"ReservedRanges", md.ReservedRanges()}, {"ExtensionRanges", md.ExtensionRanges()}} {
			for _, x := range fieldProbes(rng.r) {
				want := false
				for i := 0; i < rng.r.Len(); i++ {
					if x >= rng.r.Get(i)[0] && x < rng.r.Get(i)[1] {
						want = true
					}
				}
				n++
				if rng.r.Has(x) != want {
					bad("message %s %s.Has(%d)=%v want %v", md.FullName(), rng.name, x, rng.r.Has(x), want)
				}
			}
		}
		for i := 0; i < md.ReservedNames().Len(); i++ {
			if !md.ReservedNames().Has(md.ReservedNames().Get(i)) {
				bad("message %s ReservedNames.Has false for a listed name", md.FullName())
			}
		}
		if md.ReservedNames().Has("surely_not_reserved_name") {
			bad("message %s ReservedNames.Has true for an unlisted name", md.FullName())
		}
		os := md.Oneofs()
		for i := 0; i < os.Len(); i++ {
			od := os.Get(i)
			parentOK(od)
			fullNameOK(od, md)
			if od.Index() != i || os.ByName(od.Name()) != od {
				bad("oneof %s index/name lookup inconsistent", od.FullName())
			}
			for j := 0; j < od.Fields().Len(); j++ {
				f := od.Fields().Get(j)
				if f.ContainingOneof() != od {
					bad("oneof %s lists field %s whose ContainingOneof differs", od.FullName(), f.FullName())
				}
				if fs.ByNumber(f.Number()) != f {
					bad("oneof %s lists field %s that is not a field of the message", od.FullName(), f.FullName())
				}
				// the oneof's own keyed views agree with its list and with the message's views
				ofs := od.Fields()
				if ofs.ByNumber(f.Number()) != f || ofs.ByName(f.Name()) != f {
					bad("oneof %s: ByNumber/ByName(%s) does not return the listed member", od.FullName(), f.Name())
				}
				if g := ofs.ByJSONName(f.JSONName()); g == nil || g.JSONName() != f.JSONName() || fs.ByJSONName(f.JSONName()) != nil && g.ContainingOneof() != od {
					bad("oneof %s: ByJSONName(%s) inconsistent", od.FullName(), f.JSONName())
				}
				if g := ofs.ByTextName(f.TextName()); g == nil || g.TextName() != f.TextName() || g.ContainingOneof() != od {
					bad("oneof %s: ByTextName(%s) does not return a member with that text name", od.FullName(), f.TextName())
				}
			}
			if ofs := od.Fields(); ofs.ByName("no_such_member") != nil || ofs.ByNumber(536870000) != nil || ofs.ByJSONName("noSuchMember") != nil || ofs.ByTextName("no_such_member") != nil {
				bad("oneof %s: lookup of an absent key returns a field", od.FullName())
			}
			for k := 0; k < fs.Len(); k++ {
				// a field that is not a member must not be found through the oneof
				if o := fs.Get(k); o.ContainingOneof() != od {
					if od.Fields().ByNumber(o.Number()) != nil || od.Fields().ByName(o.Name()) != nil || od.Fields().ByTextName(o.TextName()) != nil && od.Fields().ByTextName(o.TextName()).ContainingOneof() != od {
						bad("oneof %s: lookup finds non-member %s", od.FullName(), o.Name())
					}
				}
			}
		}
		for i := 0; i < md.Enums().Len(); i++ {
			checkEnum(md.Enums().Get(i), i, md)
			if md.Enums().ByName(md.Enums().Get(i).Name()) != md.Enums().Get(i) {
				bad("nested enum lookup by name inconsistent in %s", md.FullName())
			}
		}
		for i := 0; i < md.Extensions().Len(); i++ {
			checkField(md.Extensions().Get(i), i, nil, md, md)
		}
		for i := 0; i < md.Messages().Len(); i++ {
			checkMsg(md.Messages().Get(i), i, md)
			if md.Messages().ByName(md.Messages().Get(i).Name()) != md.Messages().Get(i) {
				bad("nested message lookup by name inconsistent in %s", md.FullName())
			}
		}
	}
	for i := 0; i < fd.Messages().Len(); i++ {
		checkMsg(fd.Messages().Get(i), i, fd)
		if fd.Messages().ByName(fd.Messages().Get(i).Name()) != fd.Messages().Get(i) {
			bad("top-level message lookup by name inconsistent")
		}
	}
	for i := 0; i < fd.Enums().Len(); i++ {
		checkEnum(fd.Enums().Get(i), i, fd)
	}
	for i := 0; i < fd.Extensions().Len(); i++ {
		checkField(fd.Extensions().Get(i), i, nil, nil, fd)
		if fd.Extensions().ByName(fd.Extensions().Get(i).Name()) != fd.Extensions().Get(i) {
			bad("top-level extension lookup by name inconsistent")
		}
	}
	for i := 0; i < fd.Services().Len(); i++ {
		sd := fd.Services().Get(i)
		parentOK(sd)
		fullNameOK(sd, fd)
		if sd.Index() != i || fd.Services().ByName(sd.Name()) != sd {
			bad("service %s index/name lookup inconsistent", sd.FullName())
		}
		for j := 0; j < sd.Methods().Len(); j++ {
			m := sd.Methods().Get(j)
			parentOK(m)
			fullNameOK(m, sd)
			if m.Index() != j || sd.Methods().ByName(m.Name()) != m {
				bad("method %s index/name lookup inconsistent", m.FullName())
			}
		}
	}
	return n
}

func fieldProbes(r protoreflect.FieldRanges) []protoreflect.FieldNumber {
	out := []protoreflect.FieldNumber{0, 1, 2, 1<<29 - 1, 1 << 29}
	for i := 0; i < r.Len(); i++ {
		for d := protoreflect.FieldNumber(-2); d <= 2; d++ {
			out = append(out, r.Get(i)[0]+d, r.Get(i)[1]+d)
		}
	}
	return out
}

func enumProbes(r protoreflect.EnumRanges) []protoreflect.EnumNumber {
	out := []protoreflect.EnumNumber{0, 1, -1, 2147483647, -2147483648}
	for i := 0; i < r.Len(); i++ {
		for d := protoreflect.EnumNumber(-2); d <= 2; d++ {
			out = append(out, r.Get(i)[0]+d, r.Get(i)[1]+d)
		}
	}
	return out
}

func runC36(c *core.Ctx) {
	c.Rule = "every descriptor of every linked file (raw-descriptor built) and of every schema of S(f) (protodesc built), including the legal duplicate-key shapes that make 'first element wins' observable (enum aliases under allow_alias, two fields sharing an explicit json_name, a JSON name equal to another field's proto name): Get(i).Index()==i; ByName/ByNumber/ByJSONName/ByTextName return the first element with that key and nil for absent keys; FullName == parent-scope FullName + '.' + Name (enum values: the enum's parent); Parent chains end at the file; Has on reserved and extension ranges == membership for every number within 2 of every boundary and 0, 1, 2^29-1, 2^29; RequiredNumbers == the required fields; oneof/field and map key/value links are mutual; the keyed views of every oneof (ByName/ByNumber/ByJSONName/ByTextName over its members, incl. group members whose text name is the type name) agree with its member list and find no non-member. Range lists additionally enumerated directly: all lists of <=3 ranges over numbers 1..6 through NewFile for reserved, extension and enum reserved ranges"
	c.Exhaustive = true
	var n int64
	files := univ.AllFiles()
	for _, fd := range files {
		c.Eval(1)
		c.Distinct(fd.Path())
		fd := fd
		c.Guard(func() string { return "linked file " + fd.Path() }, func() { n += int64(consistency(c, fd, "linked file "+fd.Path())) })
	}
	ss := schemas(c, core.Pick(c, 2, 3), c.Thorough())
	ss = append(ss, duplicateKeySchemas()...)
	for _, s := range ss {
		c.Eval(1)
		s := s
		c.Guard(func() string { return "schema " + s.name }, func() {
			d, err := protodesc.NewFile(s.fdp, protoregistry.GlobalFiles)
			if err != nil {
				c.Violation("NewFile rejects schema "+s.name, err.Error())
				return
			}
			n += int64(consistency(c, d, "schema "+s.name))
		})
	}
	c.DistinctN(int64(len(ss)))
	// direct enumeration of range lists
	ranges := rangeLists()
	nr := 0
	for _, rl := range ranges {
		for kind := 0; kind < 3; kind++ {
			fdp := &descriptorpb.FileDescriptorProto{Name: proto.String("verif/ranges.proto"), Package: proto.String("verif.ranges"), Syntax: proto.String("proto2")}
			m := &descriptorpb.DescriptorProto{Name: proto.String("R")}
			e := &descriptorpb.EnumDescriptorProto{Name: proto.String("RE"), Value: []*descriptorpb.EnumValueDescriptorProto{{Name: proto.String("RE_V"), Number: proto.Int32(100)}}}
			for _, r := range rl {
				switch kind {
				case 0:
					m.ReservedRange = append(m.ReservedRange, &descriptorpb.DescriptorProto_ReservedRange{Start: proto.Int32(r[0]), End: proto.Int32(r[1] + 1)})
				case 1:
					m.ExtensionRange = append(m.ExtensionRange, &descriptorpb.DescriptorProto_ExtensionRange{Start: proto.Int32(r[0]), End: proto.Int32(r[1] + 1)})
				case 2:
					e.ReservedRange = append(e.ReservedRange, &descriptorpb.EnumDescriptorProto_EnumReservedRange{Start: proto.Int32(r[0]), End: proto.Int32(r[1])})
				}
			}
			fdp.MessageType = []*descriptorpb.DescriptorProto{m}
			fdp.EnumType = []*descriptorpb.EnumDescriptorProto{e}
			overlap := false
			for i := range rl {
				for j := i + 1; j < len(rl); j++ {
					if rl[i][0] <= rl[j][1] && rl[j][0] <= rl[i][1] {
						overlap = true
					}
				}
			}
			d, err := protodesc.NewFile(fdp, protoregistry.GlobalFiles)
			nr++
			if overlap {
				if err == nil {
					c.Violation(fmt.Sprintf("NewFile accepts overlapping ranges kind=%d ranges=%v", kind, rl), nil)
				}
				continue
			}
			if err != nil {
				c.Violation(fmt.Sprintf("NewFile rejects disjoint ranges kind=%d ranges=%v", kind, rl), err.Error())
				continue
			}
			consistency(c, d, fmt.Sprintf("range list kind=%d %v", kind, rl))
		}
	}
	// reserved vs extension ranges of one message: all pairs of single ranges over 1..6
	var single [][2]int32
	for a := int32(1); a <= 6; a++ {
		for b := a; b <= 6; b++ {
			single = append(single, [2]int32{a, b})
		}
	}
	for _, r := range single {
		for _, e := range single {
			fdp := &descriptorpb.FileDescriptorProto{Name: proto.String("verif/ranges2.proto"), Package: proto.String("verif.ranges2")}
			fdp.MessageType = []*descriptorpb.DescriptorProto{{Name: proto.String("R"),
				ReservedRange:  []*descriptorpb.DescriptorProto_ReservedRange{{Start: proto.Int32(r[0]), End: proto.Int32(r[1] + 1)}},
				ExtensionRange: []*descriptorpb.DescriptorProto_ExtensionRange{{Start: proto.Int32(e[0]), End: proto.Int32(e[1] + 1)}}}}
			overlap := r[0] <= e[1] && e[0] <= r[1]
			_, err := protodesc.NewFile(fdp, protoregistry.GlobalFiles)
			nr++
			if overlap && err == nil {
				c.Violation(fmt.Sprintf("NewFile accepts a reserved range %v overlapping an extension range %v", r, e), nil)
			}
			if !overlap && err != nil {
				c.Violation(fmt.Sprintf("NewFile rejects disjoint reserved %v and extension %v ranges", r, e), err.Error())
			}
		}
	}
	c.Eval(int64(nr))
	c.DistinctN(int64(nr))
	c.Bounds["linked_files"] = len(files)
	c.Bounds["schemas"] = len(ss)
	c.Bounds["range_list_files"] = nr
	c.Extra("range_membership_probes", n)
	c.Sample(map[string]any{"schema": ss[len(ss)/2].name})
	c.Sample(map[string]any{"ranges": "[[1,2],[4,4],[6,6]] as reserved / extension / enum-reserved"})
}

// rangeLists: all lists of <=3 inclusive ranges over numbers 1..6.
func rangeLists() [][][2]int32 {
	var single [][2]int32
	for a := int32(1); a <= 6; a++ {
		for b := a; b <= 6; b++ {
			single = append(single, [2]int32{a, b})
		}
	}
	var out [][][2]int32
	for i := range single {
		out = append(out, [][2]int32{single[i]})
		for j := range single {
			out = append(out, [][2]int32{single[i], single[j]})
			for k := (i + j) % 2; k < len(single); k += 2 {
				out = append(out, [][2]int32{single[i], single[j], single[k]})
			}
		}
	}
	return out
}

func duplicateKeySchemas() []schema {
	opt := descriptorpb.FieldDescriptorProto_LABEL_OPTIONAL
	i32 := descriptorpb.FieldDescriptorProto_TYPE_INT32
	f := func(name string, num int32, json string) *descriptorpb.FieldDescriptorProto {
		return &descriptorpb.FieldDescriptorProto{Name: proto.String(name), Number: proto.Int32(num), Type: i32.Enum(), Label: opt.Enum(), JsonName: proto.String(json)}
	}
	fdp := &descriptorpb.FileDescriptorProto{Name: proto.String("verif/dups.proto"), Package: proto.String("verif.dups"), Syntax: proto.String("proto2"),
		MessageType: []*descriptorpb.DescriptorProto{{Name: proto.String("D"), Field: []*descriptorpb.FieldDescriptorProto{
			f("foo_bar", 1, "fooBar"), f("other", 2, "foo_bar"), f("third", 3, "x"), f("x", 4, "y"),
		}}},
		EnumType: []*descriptorpb.EnumDescriptorProto{{Name: proto.String("A"), Options: &descriptorpb.EnumOptions{AllowAlias: proto.Bool(true)},
			Value: []*descriptorpb.EnumValueDescriptorProto{{Name: proto.String("A_X"), Number: proto.Int32(0)}, {Name: proto.String("A_Y"), Number: proto.Int32(0)}, {Name: proto.String("A_Z"), Number: proto.Int32(3)}, {Name: proto.String("A_W"), Number: proto.Int32(3)}}}},
	}
	return []schema{{"duplicate keys (json names, enum aliases)", fdp}}
}
