package cgen

import (
	"crypto/sha256"
	"encoding/json"
	"fmt"
	"google.golang.org/protobuf/encoding/protowire"
	"os"
	"path/filepath"
	"sort"
	"strings"

	"google.golang.org/protobuf/proto"
	"google.golang.org/protobuf/reflect/protodesc"
	"google.golang.org/protobuf/types/descriptorpb"
	"google.golang.org/protobuf/types/pluginpb"
	"google.golang.org/protobuf/verifmc/core"
	"google.golang.org/protobuf/verifmc/gen"
	"google.golang.org/protobuf/verifmc/univ"
)

func init() {
	core.Register("C40", "exploration", runC40)
	core.Register("C40digest", "exploration", runC40Digest)
}

type genRequest struct {
	name string
	req  *pluginpb.CodeGeneratorRequest
}

func c40Params(path string) []string {
	return []string{"", "paths=source_relative", "default_api_level=API_HYBRID", "default_api_level=API_OPAQUE", "M" + path + "=example.com/remapped/pkg;renamed", "annotate_code=true"}
}

// c40Requests is the request universe, in a stable order.
func c40Requests(thorough bool) []genRequest {
	var out []genRequest
	for _, fd := range univ.AllFiles() {
		protos := gen.Closure(fd)
		params := c40Params(fd.Path())
		if !thorough {
			params = params[:1]
			// the other parameters are exercised on a sixth of the files in the quick tier
			if len(out)%6 == 0 {
				params = c40Params(fd.Path())
			}
		}
		// files without a go_package option need an M parameter (as on the protoc command line)
		var ms []string
		for _, q := range protos {
			if q.GetOptions().GetGoPackage() == "" {
				ms = append(ms, "M"+q.GetName()+"=example.com/nopkg/"+strings.NewReplacer("/", "_", ".", "_").Replace(q.GetName()))
			}
		}
		for _, p := range params {
			full := strings.Join(append(append([]string{}, ms...), p), ",")
			full = strings.Trim(full, ",")
			out = append(out, genRequest{fmt.Sprintf("linked %s param=%q", fd.Path(), full), gen.Request(protos, []string{fd.Path()}, full)})
		}
	}
	var synth []genSchema
	synth = append(synth, amplified("d")...)
	synth = append(synth, bigSchemas("d", true)...)
	synth = append(synth, nameSchemas("d")...)
	synth = append(synth, nestedSchemas("d")...)
	for _, s := range synth {
		for _, lv := range apiLevels {
			out = append(out, genRequest{fmt.Sprintf("synthetic %s (%s) level=%s", s.fdp.GetName(), s.name, lv), gen.Request(gen.WithGlobalDeps(s.fdp), []string{s.fdp.GetName()}, "default_api_level="+lv)})
		}
	}
	// a message-typed custom option (10 scalar fields and a map with 8 entries)
	// declared in the request and unknown to the plugin binary: protogen
	// re-parses such options into dynamic messages, whose field order is a Go
	// map's; the option is used on a message, a field and the file
	// several camelCase conflict groups that touch one oneof (the opaque name
	// resolution appends a suffix to the oneof per conflicting member: the order in
	// which groups are resolved must not reach the output)
	for _, lv := range apiLevels {
		cf := conflictGroupsFile()
		out = append(out, genRequest{fmt.Sprintf("synthetic %s (three camelCase conflict groups on one oneof) level=%s", cf.GetName(), lv),
			gen.Request(gen.WithGlobalDeps(cf), []string{cf.GetName()}, "default_api_level="+lv)})
	}
	rule, user := customOptionFiles()
	for _, lv := range apiLevels {
		out = append(out, genRequest{fmt.Sprintf("synthetic %s using a message-typed custom option of %s level=%s", user.GetName(), rule.GetName(), lv),
			gen.Request(gen.WithGlobalDeps(rule, user), []string{user.GetName()}, "default_api_level="+lv)})
		out = append(out, genRequest{fmt.Sprintf("synthetic %s + %s (custom option) level=%s", rule.GetName(), user.GetName(), lv),
			gen.Request(gen.WithGlobalDeps(rule, user), []string{rule.GetName(), user.GetName()}, "default_api_level="+lv)})
	}
	return out
}

func conflictGroupsFile() *descriptorpb.FileDescriptorProto {
	opt := descriptorpb.FieldDescriptorProto_LABEL_OPTIONAL.Enum()
	i32 := descriptorpb.FieldDescriptorProto_TYPE_INT32.Enum()
	m := &descriptorpb.DescriptorProto{Name: proto.String("M"), OneofDecl: []*descriptorpb.OneofDescriptorProto{{Name: proto.String("u")}}}
	num := int32(0)
	add := func(name string, inOneof bool) {
		num++
		f := &descriptorpb.FieldDescriptorProto{Name: proto.String(name), Number: proto.Int32(num), Type: i32, Label: opt, JsonName: proto.String(fmt.Sprintf("j%d", num))}
		if inOneof {
			f.OneofIndex = proto.Int32(0)
		}
		m.Field = append(m.Field, f)
	}
	for _, g := range []string{"foo", "bar", "baz"} {
		add("_"+g, true)
	}
	for _, g := range []string{"foo", "bar", "baz"} {
		add("X_"+g, false)
	}
	fdp := &descriptorpb.FileDescriptorProto{Name: proto.String("verif/c40/conflicts.proto"), Package: proto.String("verif.c40.conflicts"), Syntax: proto.String("proto3"), MessageType: []*descriptorpb.DescriptorProto{m}}
	setGoPackage(fdp, "conflictgroups")
	return fdp
}

func customOptionFiles() (rule, user *descriptorpb.FileDescriptorProto) {
	opt := descriptorpb.FieldDescriptorProto_LABEL_OPTIONAL.Enum()
	rm := &descriptorpb.DescriptorProto{Name: proto.String("Rule")}
	var body []byte
	for i := 1; i <= 10; i++ {
		name := fmt.Sprintf("f%d", i)
		rm.Field = append(rm.Field, &descriptorpb.FieldDescriptorProto{Name: proto.String(name), Number: proto.Int32(int32(i)), Type: descriptorpb.FieldDescriptorProto_TYPE_STRING.Enum(), Label: opt, JsonName: proto.String(name)})
		body = protowire.AppendString(protowire.AppendTag(body, protowire.Number(i), protowire.BytesType), fmt.Sprintf("value %d", i))
	}
	rm.NestedType = []*descriptorpb.DescriptorProto{{Name: proto.String("LabelsEntry"), Options: &descriptorpb.MessageOptions{MapEntry: proto.Bool(true)}, Field: []*descriptorpb.FieldDescriptorProto{
		{Name: proto.String("key"), Number: proto.Int32(1), Type: descriptorpb.FieldDescriptorProto_TYPE_STRING.Enum(), Label: opt, JsonName: proto.String("key")},
		{Name: proto.String("value"), Number: proto.Int32(2), Type: descriptorpb.FieldDescriptorProto_TYPE_INT32.Enum(), Label: opt, JsonName: proto.String("value")}}}}
	rm.Field = append(rm.Field, &descriptorpb.FieldDescriptorProto{Name: proto.String("labels"), Number: proto.Int32(20), Type: descriptorpb.FieldDescriptorProto_TYPE_MESSAGE.Enum(), TypeName: proto.String(".verif.c40.rule.Rule.LabelsEntry"), Label: descriptorpb.FieldDescriptorProto_LABEL_REPEATED.Enum(), JsonName: proto.String("labels")})
	for i := 0; i < 8; i++ {
		e := protowire.AppendString(protowire.AppendTag(nil, 1, protowire.BytesType), fmt.Sprintf("k%d", i))
		e = protowire.AppendVarint(protowire.AppendTag(e, 2, protowire.VarintType), uint64(i))
		body = protowire.AppendBytes(protowire.AppendTag(body, 20, protowire.BytesType), e)
	}
	ext := func(name string, num int32, extendee string) *descriptorpb.FieldDescriptorProto {
		return &descriptorpb.FieldDescriptorProto{Name: proto.String(name), Number: proto.Int32(num), Type: descriptorpb.FieldDescriptorProto_TYPE_MESSAGE.Enum(), TypeName: proto.String(".verif.c40.rule.Rule"), Label: opt, Extendee: proto.String(extendee)}
	}
	rule = &descriptorpb.FileDescriptorProto{
		Name: proto.String("verif/c40/rule.proto"), Package: proto.String("verif.c40.rule"), Syntax: proto.String("proto2"),
		Dependency:  []string{"google/protobuf/descriptor.proto"},
		MessageType: []*descriptorpb.DescriptorProto{rm},
		Extension:   []*descriptorpb.FieldDescriptorProto{ext("msg_rule", 50001, ".google.protobuf.MessageOptions"), ext("field_rule", 50002, ".google.protobuf.FieldOptions"), ext("file_rule", 50003, ".google.protobuf.FileOptions")},
	}
	setGoPackage(rule, "custrule")
	unk := func(num protowire.Number) []byte {
		return protowire.AppendBytes(protowire.AppendTag(nil, num, protowire.BytesType), body)
	}
	mo := &descriptorpb.MessageOptions{}
	mo.ProtoReflect().SetUnknown(unk(50001))
	fo := &descriptorpb.FieldOptions{}
	fo.ProtoReflect().SetUnknown(unk(50002))
	user = &descriptorpb.FileDescriptorProto{
		Name: proto.String("verif/c40/user.proto"), Package: proto.String("verif.c40.user"), Syntax: proto.String("proto2"),
		Dependency: []string{"verif/c40/rule.proto"},
		MessageType: []*descriptorpb.DescriptorProto{{Name: proto.String("User"), Options: mo, Field: []*descriptorpb.FieldDescriptorProto{
			{Name: proto.String("id"), Number: proto.Int32(1), Type: descriptorpb.FieldDescriptorProto_TYPE_INT64.Enum(), Label: opt, JsonName: proto.String("id"), Options: fo}}}},
	}
	setGoPackage(user, "custuser")
	user.Options.ProtoReflect().SetUnknown(unk(50003))
	return rule, user
}

func digest(resp *pluginpb.CodeGeneratorResponse, err error) string {
	if err != nil {
		return "ERR " + err.Error()
	}
	b, merr := proto.MarshalOptions{Deterministic: true}.Marshal(resp)
	if merr != nil {
		return "MARSHAL-ERR " + merr.Error()
	}
	return fmt.Sprintf("%x", sha256.Sum256(b))
}

func c40DigestPath(tier string) string {
	if p := os.Getenv("VERIF_C40_OUT"); p != "" {
		return p
	}
	return filepath.Join(core.Root, ".cache", "c40-digests-"+tier+".json")
}

// runC40Digest is the second process: it writes one digest per request.
func runC40Digest(c *core.Ctx) {
	c.Rule = "digest writer for C40 (second process)"
	c.Exhaustive = true
	reqs := c40Requests(!c.Quick())
	ds := make([]string, len(reqs))
	c.Par(len(reqs), func(i int) {
		c.Eval(1)
		ds[i] = digest(gen.Run(reqs[i].req))
	})
	c.DistinctN(int64(len(reqs)))
	c.Sample("digests")
	b, _ := json.Marshal(ds)
	os.MkdirAll(filepath.Dir(c40DigestPath(c.Tier)), 0o755)
	if err := os.WriteFile(c40DigestPath(c.Tier), b, 0o644); err != nil {
		fmt.Fprintln(os.Stderr, err)
		os.Exit(2)
	}
}

func trimErr(s string) string {
	if i := strings.LastIndex(s, ": "); i > 0 {
		s = s[i+2:]
	}
	if len(s) > 90 {
		s = s[:90]
	}
	return s
}

func firstDiffFile(a, b *pluginpb.CodeGeneratorResponse) string {
	if a == nil || b == nil {
		return "one run failed"
	}
	for i := 0; i < len(a.GetFile()) && i < len(b.GetFile()); i++ {
		fa, fb := a.File[i], b.File[i]
		if fa.GetName() != fb.GetName() {
			return fmt.Sprintf("file %d is %s in one run and %s in another", i, fa.GetName(), fb.GetName())
		}
		la, lb := strings.Split(fa.GetContent(), "\n"), strings.Split(fb.GetContent(), "\n")
		for j := 0; j < len(la) && j < len(lb); j++ {
			if la[j] != lb[j] {
				return fmt.Sprintf("%s line %d: %q vs %q", fa.GetName(), j+1, la[j], lb[j])
			}
		}
	}
	return "responses differ outside file contents"
}

func runC40(c *core.Ctx) {
	repeats := core.Pick(c, 6, 12)
	c.Rule = fmt.Sprintf("request universe: every linked file on its own (with its import closure) under 6 parameter strings (quick: all 6 on every sixth file, the default on the rest), plus synthetic files (9 extendee targets with interleaved extensions, 9 oneofs, 9 imports, 9 top-level and nested enums; every field shape of proto2/proto3/editions 2023/2024 in one message; colliding names; three camelCase conflict groups touching one oneof; a file using a message-typed custom option - 10 fields and an 8-entry map, on a file, a message and a field - that is declared in the request and not linked into the plugin) at API levels OPEN/HYBRID/OPAQUE. Every request is run %d times in this process and once in a second process: all responses byte-identical (deterministic marshal of CodeGeneratorResponse). Order independence: for 3 interdependent synthetic files, every permutation of file_to_generate and every permutation of the three as separate single-file requests yields the same content per generated file name; the same for an edition-2024 pair where one file uses custom options of the other through 'import option' (the declaring file is not a regular dependency), in both request orders. Go map iteration order is not a controlled seam: an unordered iteration over n>=8 entries survives r in-process repeats with probability <= 8^-r (documented in DESIGN.md)", repeats)
	c.Exhaustive = true
	var child *core.Child
	if !core.IsChild() {
		os.Remove(c40DigestPath(c.Tier))
		child = c.StartChild("default", "C40digest", "GOMAXPROCS=4", "VERIF_C40_OUT="+c40DigestPath(c.Tier))
	}
	reqs := c40Requests(!c.Quick())
	first := make([]string, len(reqs))
	c.Par(len(reqs), func(i int) {
		r := reqs[i]
		c.Guard(func() string { return "generator " + r.name }, func() {
			base, err := gen.Run(r.req)
			first[i] = digest(base, err)
			if err != nil || base.Error != nil {
				// a request this build rejects (e.g. MessageSet without protolegacy) must be rejected identically
				c.Outcome("generator-error: " + trimErr(fmt.Sprint(err, base.GetError())))
			}
			for k := 1; k < repeats; k++ {
				c.Eval(1)
				again, err := gen.Run(r.req)
				if d := digest(again, err); d != first[i] {
					c.Violation("code generation is not deterministic across runs in one process: "+r.name, firstDiffFile(base, again))
					return
				}
			}
			c.Outcome("identical")
		})
	})
	c.DistinctN(int64(len(reqs)))
	// order independence
	perms := orderIndependence(c)
	c.Bounds["requests"] = len(reqs)
	c.Bounds["in_process_repeats"] = repeats
	c.Bounds["order_permutations"] = perms
	if child != nil {
		c.Join(child)
		b, err := os.ReadFile(c40DigestPath(c.Tier))
		var other []string
		if err == nil {
			err = json.Unmarshal(b, &other)
		}
		if err != nil || len(other) != len(reqs) {
			fmt.Fprintln(os.Stderr, "C40: second process produced no usable digests:", err, len(other), len(reqs))
			os.Exit(2)
		}
		for i := range reqs {
			c.Eval(1)
			if other[i] == "" || first[i] == "" {
				// not reached before the time budget of one of the two processes ran out
				c.Exhaustive = false
				c.Outcome("second-process comparison skipped (budget)")
				continue
			}
			if other[i] != first[i] {
				c.Violation("code generation differs between two processes: "+reqs[i].name, map[string]any{"this": first[i], "other": other[i]})
			}
		}
	}
	c.Sample(map[string]any{"request": reqs[0].name, "digest": first[0]})
}

// orderIndependence: three files a <- b <- c (c imports b imports a), all
// generated: every order of file_to_generate gives the same content per file.
func orderIndependence(c *core.Ctx) int {
	mk := func(id string, dep string) *descriptorpb.FileDescriptorProto {
		s := univ.SchemaFile("verif/c40/"+id+".proto", "verif.c40."+id, univ.Proto2, univ.Shapes(univ.Proto2, false)[:12])
		setGoPackage(s, "ord"+id)
		if dep != "" {
			s.Dependency = append(s.Dependency, "verif/c40/"+dep+".proto")
			s.MessageType[0].Field = append(s.MessageType[0].Field, &descriptorpb.FieldDescriptorProto{Name: proto.String("dep"), Number: proto.Int32(900), Type: descriptorpb.FieldDescriptorProto_TYPE_MESSAGE.Enum(), TypeName: proto.String(".verif.c40." + dep + ".M"), Label: descriptorpb.FieldDescriptorProto_LABEL_OPTIONAL.Enum(), JsonName: proto.String("dep")})
		}
		return s
	}
	a, b, cc := mk("a", ""), mk("b", "a"), mk("c", "b")
	protos := gen.WithGlobalDeps(a, b, cc)
	if _, err := protodesc.NewFiles(&descriptorpb.FileDescriptorSet{File: protos}); err != nil {
		panic(err)
	}
	names := []string{a.GetName(), b.GetName(), cc.GetName()}
	var perms [][]string
	var rec func(cur []string, rest []string)
	rec = func(cur, rest []string) {
		if len(cur) > 0 {
			perms = append(perms, append([]string{}, cur...))
		}
		for i := range rest {
			r2 := append(append([]string{}, rest[:i]...), rest[i+1:]...)
			rec(append(cur, rest[i]), r2)
		}
	}
	rec(nil, names)
	want := map[string]string{}
	// edition 2024 "import option": the file declaring a custom option is not a regular dependency of the
	// file using it, so its place among the requested files is the only thing that orders the two
	optsFile := &descriptorpb.FileDescriptorProto{
		Name: proto.String("verif/c40/opts.proto"), Package: proto.String("verif.c40.opts"), Syntax: proto.String("editions"), Edition: descriptorpb.Edition_EDITION_2024.Enum(),
		Dependency: []string{"google/protobuf/descriptor.proto"},
		Extension: []*descriptorpb.FieldDescriptorProto{
			{Name: proto.String("tag"), Number: proto.Int32(50000), Type: descriptorpb.FieldDescriptorProto_TYPE_INT32.Enum(), Label: descriptorpb.FieldDescriptorProto_LABEL_OPTIONAL.Enum(), Extendee: proto.String(".google.protobuf.FieldOptions"), JsonName: proto.String("tag")},
			{Name: proto.String("note"), Number: proto.Int32(49999), Type: descriptorpb.FieldDescriptorProto_TYPE_STRING.Enum(), Label: descriptorpb.FieldDescriptorProto_LABEL_OPTIONAL.Enum(), Extendee: proto.String(".google.protobuf.FieldOptions"), JsonName: proto.String("note"),
				Options: &descriptorpb.FieldOptions{Retention: descriptorpb.FieldOptions_RETENTION_SOURCE.Enum()}},
		},
	}
	setGoPackage(optsFile, "ordopts")
	fo := &descriptorpb.FieldOptions{Deprecated: proto.Bool(true)}
	// custom options arrive as unknown fields (the plugin's own registry does not know them), higher number first
	unk := protowire.AppendVarint(protowire.AppendTag(nil, 50000, protowire.VarintType), 7)
	unk = protowire.AppendString(protowire.AppendTag(unk, 49999, protowire.BytesType), "n")
	fo.ProtoReflect().SetUnknown(unk)
	mainFile := &descriptorpb.FileDescriptorProto{
		Name: proto.String("verif/c40/main.proto"), Package: proto.String("verif.c40.main"), Syntax: proto.String("editions"), Edition: descriptorpb.Edition_EDITION_2024.Enum(),
		OptionDependency: []string{"verif/c40/opts.proto"},
		MessageType: []*descriptorpb.DescriptorProto{{Name: proto.String("T"), Field: []*descriptorpb.FieldDescriptorProto{
			{Name: proto.String("hello"), Number: proto.Int32(1), Type: descriptorpb.FieldDescriptorProto_TYPE_STRING.Enum(), Label: descriptorpb.FieldDescriptorProto_LABEL_OPTIONAL.Enum(), JsonName: proto.String("hello"), Options: fo}}}},
	}
	setGoPackage(mainFile, "ordmain")
	optProtos := gen.WithGlobalDeps(optsFile, mainFile)
	for _, lv := range apiLevels {
		for _, p := range [][]string{{optsFile.GetName(), mainFile.GetName()}, {mainFile.GetName(), optsFile.GetName()}} {
			c.Eval(1)
			resp, err := gen.Run(gen.Request(optProtos, p, "default_api_level="+lv))
			if err != nil || resp.Error != nil {
				c.Outcome("import-option request rejected: " + trimErr(fmt.Sprint(err, resp.GetError())))
				continue
			}
			for _, f := range resp.File {
				key := lv + " " + f.GetName()
				if w, ok := want[key]; !ok {
					want[key] = f.GetContent()
				} else if w != f.GetContent() {
					c.Violation(fmt.Sprintf("content of %s depends on the order of the requested files (import option): file_to_generate=%v level=%s", f.GetName(), p, lv), nil)
				}
			}
			c.Outcome("import-option request generated")
		}
	}
	for _, lv := range apiLevels {
		for _, p := range perms {
			c.Eval(1)
			resp, err := gen.Run(gen.Request(protos, p, "default_api_level="+lv))
			if err != nil || resp.Error != nil {
				c.Violation(fmt.Sprintf("generator fails for file_to_generate=%v", p), fmt.Sprint(err, resp.GetError()))
				continue
			}
			var got []string
			for _, f := range resp.File {
				got = append(got, f.GetName())
				key := lv + " " + f.GetName()
				if w, ok := want[key]; !ok {
					want[key] = f.GetContent()
				} else if w != f.GetContent() {
					c.Violation(fmt.Sprintf("content of %s depends on the order/selection of requested files: file_to_generate=%v level=%s", f.GetName(), p, lv), nil)
				}
			}
			sort.Strings(got)
			pkgs := map[string]bool{}
			for _, g := range got {
				pkgs[filepath.Dir(g)] = true
			}
			if len(pkgs) != len(p) {
				c.Violation(fmt.Sprintf("file_to_generate=%v produced files %v", p, got), nil)
			}
		}
	}
	c.DistinctN(int64(len(perms) * len(apiLevels)))
	return len(perms)
}
