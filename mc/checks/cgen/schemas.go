// Package cgen: checks of the code generator (C40 determinism, C41 generated
// code compiles and is faithful).
package cgen

import (
	"fmt"
	"strings"

	"google.golang.org/protobuf/internal/strs"
	"google.golang.org/protobuf/proto"
	"google.golang.org/protobuf/types/descriptorpb"
	"google.golang.org/protobuf/verifmc/univ"
)

type genSchema struct {
	name string
	fdp  *descriptorpb.FileDescriptorProto
}

var allSyntaxes = []univ.Syntax{univ.Proto2, univ.Proto3, univ.Ed2023, univ.Ed2024}

func synTag(s univ.Syntax) string {
	return map[univ.Syntax]string{univ.Proto2: "p2", univ.Proto3: "p3", univ.Ed2023: "e23", univ.Ed2024: "e24"}[s]
}

// setGoPackage gives the file a Go package inside the scratch module.
func setGoPackage(fdp *descriptorpb.FileDescriptorProto, pkg string) {
	if fdp.Options == nil {
		fdp.Options = &descriptorpb.FileOptions{}
	}
	fdp.Options.GoPackage = proto.String("verifgen/" + pkg)
}

// bigSchemas: per syntax one file whose message M holds every field shape.
func bigSchemas(tag string, full bool) []genSchema {
	var out []genSchema
	for _, syn := range allSyntaxes {
		id := fmt.Sprintf("big%s%s", synTag(syn), tag)
		fdp := univ.SchemaFile("verif/c41/"+id+".proto", "verif.c41."+id, syn, univ.Shapes(syn, full))
		setGoPackage(fdp, id)
		out = append(out, genSchema{"all " + string(syn) + " shapes in one message", fdp})
	}
	return out
}

// singleSchemas: one file per field shape (message M with just that field).
func singleSchemas(tag string) []genSchema {
	var out []genSchema
	for _, syn := range allSyntaxes {
		for i, sh := range univ.Shapes(syn, false) {
			id := fmt.Sprintf("one%s%s%d", synTag(syn), tag, i)
			fdp := univ.SchemaFile("verif/c41/"+id+".proto", "verif.c41."+id, syn, []univ.Shape{sh})
			setGoPackage(fdp, id)
			out = append(out, genSchema{string(syn) + " [" + sh.Name + "]", fdp})
		}
	}
	return out
}

// nameSchemas: field names that collide with generated identifiers (the
// combinations that are known findings of C42 are left out: no oneofs here).
func nameSchemas(tag string) []genSchema {
	names := []string{"x", "X", "x_", "_x", "get_x", "set_x", "has_x", "clear_x", "which_x", "reset", "string", "proto_message", "proto_reflect", "descriptor", "marshal", "build", "get", "get_reset", "type", "func", "m", "size_cache", "unknown_fields", "state"}
	opt := descriptorpb.FieldDescriptorProto_LABEL_OPTIONAL
	id := "names" + tag
	fdp := &descriptorpb.FileDescriptorProto{Name: proto.String("verif/c41/" + id + ".proto"), Package: proto.String("verif.c41." + id)}
	// every pair of names as its own message (no triples: hybrid three-way collisions are a known C42 finding)
	n := 0
	for i := range names {
		for j := range names {
			if i == j || strs.JSONCamelCase(names[i]) == strs.JSONCamelCase(names[j]) {
				continue // same JSON name: not a schema protoc accepts
			}
			n++
			m := &descriptorpb.DescriptorProto{Name: proto.String(fmt.Sprintf("P%d", n))}
			for k, nm := range []string{names[i], names[j]} {
				m.Field = append(m.Field, &descriptorpb.FieldDescriptorProto{Name: proto.String(nm), Number: proto.Int32(int32(k + 1)), Type: descriptorpb.FieldDescriptorProto_TYPE_STRING.Enum(), Label: opt.Enum(), JsonName: proto.String(strs.JSONCamelCase(nm))})
			}
			fdp.MessageType = append(fdp.MessageType, m)
		}
	}
	// nested types and enums whose Go names need the parent prefix; keywords as enum values
	fdp.MessageType = append(fdp.MessageType, &descriptorpb.DescriptorProto{Name: proto.String("Outer"),
		NestedType: []*descriptorpb.DescriptorProto{{Name: proto.String("Outer")}, {Name: proto.String("P1")}},
		EnumType:   []*descriptorpb.EnumDescriptorProto{{Name: proto.String("Kind"), Value: []*descriptorpb.EnumValueDescriptorProto{{Name: proto.String("type"), Number: proto.Int32(0)}, {Name: proto.String("Outer_value"), Number: proto.Int32(1)}}}},
		Field: []*descriptorpb.FieldDescriptorProto{
			{Name: proto.String("outer"), Number: proto.Int32(1), Type: descriptorpb.FieldDescriptorProto_TYPE_MESSAGE.Enum(), TypeName: proto.String(".verif.c41." + id + ".Outer.Outer"), Label: opt.Enum(), JsonName: proto.String("outer")},
			{Name: proto.String("kind"), Number: proto.Int32(2), Type: descriptorpb.FieldDescriptorProto_TYPE_ENUM.Enum(), TypeName: proto.String(".verif.c41." + id + ".Outer.Kind"), Label: opt.Enum(), JsonName: proto.String("kind")},
		}})
	// oneof wrapper types (M_Field) against nested enums / messages of the same Go name
	q := ".verif.c41." + id
	kindEnum := func() *descriptorpb.EnumDescriptorProto {
		return &descriptorpb.EnumDescriptorProto{Name: proto.String("Kind"), Value: []*descriptorpb.EnumValueDescriptorProto{{Name: proto.String("KIND_ZERO"), Number: proto.Int32(0)}}}
	}
	oneofFields := func(nums int32) []*descriptorpb.FieldDescriptorProto {
		return []*descriptorpb.FieldDescriptorProto{
			{Name: proto.String("kind"), Number: proto.Int32(nums), Type: descriptorpb.FieldDescriptorProto_TYPE_STRING.Enum(), Label: opt.Enum(), OneofIndex: proto.Int32(0), JsonName: proto.String("kind")},
			{Name: proto.String("other"), Number: proto.Int32(nums + 1), Type: descriptorpb.FieldDescriptorProto_TYPE_INT32.Enum(), Label: opt.Enum(), OneofIndex: proto.Int32(0), JsonName: proto.String("other")},
		}
	}
	fdp.MessageType = append(fdp.MessageType,
		&descriptorpb.DescriptorProto{Name: proto.String("WrapVsEnum"), EnumType: []*descriptorpb.EnumDescriptorProto{kindEnum()}, OneofDecl: []*descriptorpb.OneofDescriptorProto{{Name: proto.String("payload")}},
			Field: append([]*descriptorpb.FieldDescriptorProto{{Name: proto.String("level"), Number: proto.Int32(1), Type: descriptorpb.FieldDescriptorProto_TYPE_ENUM.Enum(), TypeName: proto.String(q + ".WrapVsEnum.Kind"), Label: opt.Enum(), JsonName: proto.String("level")}}, oneofFields(2)...)},
		&descriptorpb.DescriptorProto{Name: proto.String("WrapVsMessage"), NestedType: []*descriptorpb.DescriptorProto{{Name: proto.String("Kind")}}, OneofDecl: []*descriptorpb.OneofDescriptorProto{{Name: proto.String("payload")}}, Field: oneofFields(2)},
		&descriptorpb.DescriptorProto{Name: proto.String("WrapVsBoth"), NestedType: []*descriptorpb.DescriptorProto{{Name: proto.String("Other")}}, EnumType: []*descriptorpb.EnumDescriptorProto{kindEnum()}, OneofDecl: []*descriptorpb.OneofDescriptorProto{{Name: proto.String("payload")}}, Field: oneofFields(2)},
	)
	setGoPackage(fdp, id)
	return []genSchema{{"colliding names", fdp}}
}

// amplified: many declarations of every kind the generator keeps in a map or
// a list, so that an unordered iteration is visible with high probability.
func amplified(tag string) []genSchema {
	id := "amp" + tag
	pkg := "verif.c41." + id
	q := "." + pkg
	opt := descriptorpb.FieldDescriptorProto_LABEL_OPTIONAL
	i32 := descriptorpb.FieldDescriptorProto_TYPE_INT32
	msgT := descriptorpb.FieldDescriptorProto_TYPE_MESSAGE
	fdp := &descriptorpb.FileDescriptorProto{Name: proto.String("verif/c41/" + id + ".proto"), Package: proto.String(pkg)}
	deps := []struct{ path, typ string }{
		{"google/protobuf/any.proto", ".google.protobuf.Any"}, {"google/protobuf/duration.proto", ".google.protobuf.Duration"},
		{"google/protobuf/timestamp.proto", ".google.protobuf.Timestamp"}, {"google/protobuf/struct.proto", ".google.protobuf.Struct"},
		{"google/protobuf/wrappers.proto", ".google.protobuf.Int32Value"}, {"google/protobuf/empty.proto", ".google.protobuf.Empty"},
		{"google/protobuf/field_mask.proto", ".google.protobuf.FieldMask"}, {"google/protobuf/descriptor.proto", ".google.protobuf.FileOptions"},
		{"google/protobuf/type.proto", ".google.protobuf.Type"},
	}
	user := &descriptorpb.DescriptorProto{Name: proto.String("User")}
	for i, d := range deps {
		fdp.Dependency = append(fdp.Dependency, d.path)
		user.Field = append(user.Field, &descriptorpb.FieldDescriptorProto{Name: proto.String(fmt.Sprintf("d%d", i)), Number: proto.Int32(int32(i + 1)), Type: msgT.Enum(), TypeName: proto.String(d.typ), Label: opt.Enum(), JsonName: proto.String(fmt.Sprintf("d%d", i))})
	}
	for o := 0; o < 9; o++ {
		user.OneofDecl = append(user.OneofDecl, &descriptorpb.OneofDescriptorProto{Name: proto.String(fmt.Sprintf("choice%d", o))})
		for k := 0; k < 2; k++ {
			n := int32(100 + 2*o + k)
			user.Field = append(user.Field, &descriptorpb.FieldDescriptorProto{Name: proto.String(fmt.Sprintf("c%d_%d", o, k)), Number: proto.Int32(n), Type: i32.Enum(), Label: opt.Enum(), OneofIndex: proto.Int32(int32(o)), JsonName: proto.String(fmt.Sprintf("c%d%d", o, k))})
		}
	}
	fdp.MessageType = append(fdp.MessageType, user)
	for t := 0; t < 9; t++ {
		tn := fmt.Sprintf("Target%d", t)
		fdp.MessageType = append(fdp.MessageType, &descriptorpb.DescriptorProto{Name: proto.String(tn), ExtensionRange: []*descriptorpb.DescriptorProto_ExtensionRange{{Start: proto.Int32(100), End: proto.Int32(200)}},
			NestedType: []*descriptorpb.DescriptorProto{{Name: proto.String("In")}}, EnumType: []*descriptorpb.EnumDescriptorProto{{Name: proto.String("K"), Value: []*descriptorpb.EnumValueDescriptorProto{{Name: proto.String(strings.ToUpper(tn) + "_Z"), Number: proto.Int32(0)}}}}})
		fdp.EnumType = append(fdp.EnumType, &descriptorpb.EnumDescriptorProto{Name: proto.String(fmt.Sprintf("TopEnum%d", t)), Value: []*descriptorpb.EnumValueDescriptorProto{{Name: proto.String(fmt.Sprintf("TE%d_ZERO", t)), Number: proto.Int32(0)}, {Name: proto.String(fmt.Sprintf("TE%d_ONE", t)), Number: proto.Int32(1)}}})
	}
	// extensions interleaved over the targets (so grouping by target needs a stable order)
	for k := 0; k < 2; k++ {
		for t := 8; t >= 0; t-- {
			fdp.Extension = append(fdp.Extension, &descriptorpb.FieldDescriptorProto{Name: proto.String(fmt.Sprintf("ext_t%d_%d", t, k)), Number: proto.Int32(int32(100 + k)), Type: i32.Enum(), Label: opt.Enum(), Extendee: proto.String(fmt.Sprintf("%s.Target%d", q, t)), JsonName: proto.String(fmt.Sprintf("extT%d%d", t, k))})
		}
	}
	fdp.Service = []*descriptorpb.ServiceDescriptorProto{{Name: proto.String("Svc"), Method: []*descriptorpb.MethodDescriptorProto{{Name: proto.String("Do"), InputType: proto.String(q + ".User"), OutputType: proto.String(q + ".Target0")}}}}
	setGoPackage(fdp, id)
	return []genSchema{{"amplified declarations", fdp}}
}

var apiLevels = []string{"API_OPEN", "API_HYBRID", "API_OPAQUE"}

func levelTag(l string) string { return strings.ToLower(strings.TrimPrefix(l, "API_")) }

// nestedSchemas: declarations nested three levels deep, followed by later
// messages with their own nested declarations of every category (enum,
// message, map entry, extension), so that the generator's flattened
// declaration order matters.
func nestedSchemas(tag string) []genSchema {
	id := "nest" + tag
	pkg := "verif.c41." + id
	q := "." + pkg
	opt := descriptorpb.FieldDescriptorProto_LABEL_OPTIONAL
	rep := descriptorpb.FieldDescriptorProto_LABEL_REPEATED
	fld := func(name string, num int32, t descriptorpb.FieldDescriptorProto_Type, l descriptorpb.FieldDescriptorProto_Label, tn string) *descriptorpb.FieldDescriptorProto {
		f := &descriptorpb.FieldDescriptorProto{Name: proto.String(name), Number: proto.Int32(num), Type: t.Enum(), Label: l.Enum(), JsonName: proto.String(strs.JSONCamelCase(name))}
		if tn != "" {
			f.TypeName = proto.String(tn)
		}
		return f
	}
	enum := func(name, prefix string) *descriptorpb.EnumDescriptorProto {
		return &descriptorpb.EnumDescriptorProto{Name: proto.String(name), Value: []*descriptorpb.EnumValueDescriptorProto{{Name: proto.String(prefix + "_ZERO"), Number: proto.Int32(0)}, {Name: proto.String(prefix + "_TWO"), Number: proto.Int32(2)}}}
	}
	entry := func(name, owner string, k, v descriptorpb.FieldDescriptorProto_Type, vt string) *descriptorpb.DescriptorProto {
		return &descriptorpb.DescriptorProto{Name: proto.String(name), Options: &descriptorpb.MessageOptions{MapEntry: proto.Bool(true)}, Field: []*descriptorpb.FieldDescriptorProto{
			fld("key", 1, k, opt, ""), fld("value", 2, v, opt, vt)}}
	}
	ext := func(name string, num int32, t descriptorpb.FieldDescriptorProto_Type) *descriptorpb.FieldDescriptorProto {
		f := fld(name, num, t, opt, "")
		f.Extendee = proto.String(q + ".Ext")
		return f
	}
	str, i32, msgT, enT := descriptorpb.FieldDescriptorProto_TYPE_STRING, descriptorpb.FieldDescriptorProto_TYPE_INT32, descriptorpb.FieldDescriptorProto_TYPE_MESSAGE, descriptorpb.FieldDescriptorProto_TYPE_ENUM
	x := &descriptorpb.DescriptorProto{Name: proto.String("X"),
		EnumType:   []*descriptorpb.EnumDescriptorProto{enum("E", "E")},
		NestedType: []*descriptorpb.DescriptorProto{{Name: proto.String("P"), Field: []*descriptorpb.FieldDescriptorProto{fld("v", 1, i32, opt, "")}}, entry("MEntry", "X", str, i32, "")},
		Extension:  []*descriptorpb.FieldDescriptorProto{ext("xa", 100, i32)},
		Field:      []*descriptorpb.FieldDescriptorProto{fld("e", 1, enT, opt, q+".A.X.E"), fld("p", 2, msgT, opt, q+".A.X.P"), fld("m", 3, msgT, rep, q+".A.X.MEntry")}}
	a := &descriptorpb.DescriptorProto{Name: proto.String("A"), NestedType: []*descriptorpb.DescriptorProto{x, {Name: proto.String("Y"), EnumType: []*descriptorpb.EnumDescriptorProto{enum("G", "G")}, Field: []*descriptorpb.FieldDescriptorProto{fld("g", 1, enT, opt, q+".A.Y.G")}}},
		Field: []*descriptorpb.FieldDescriptorProto{fld("x", 1, msgT, opt, q+".A.X"), fld("y", 2, msgT, opt, q+".A.Y")}}
	b := &descriptorpb.DescriptorProto{Name: proto.String("B"),
		EnumType:   []*descriptorpb.EnumDescriptorProto{enum("F", "F")},
		NestedType: []*descriptorpb.DescriptorProto{{Name: proto.String("Z"), Field: []*descriptorpb.FieldDescriptorProto{fld("s", 1, str, opt, "")}}, entry("MzEntry", "B", i32, msgT, q+".B.Z")},
		Extension:  []*descriptorpb.FieldDescriptorProto{ext("xb", 101, str)},
		Field:      []*descriptorpb.FieldDescriptorProto{fld("f", 1, enT, opt, q+".B.F"), fld("z", 2, msgT, opt, q+".B.Z"), fld("mz", 3, msgT, rep, q+".B.MzEntry"), fld("ax", 4, msgT, opt, q+".A.X"), fld("ae", 5, enT, rep, q+".A.X.E")}}
	e := &descriptorpb.DescriptorProto{Name: proto.String("Ext"), ExtensionRange: []*descriptorpb.DescriptorProto_ExtensionRange{{Start: proto.Int32(100), End: proto.Int32(200)}}}
	fdp := &descriptorpb.FileDescriptorProto{Name: proto.String("verif/c41/" + id + ".proto"), Package: proto.String(pkg), MessageType: []*descriptorpb.DescriptorProto{a, b, e},
		EnumType: []*descriptorpb.EnumDescriptorProto{enum("Top", "TOP")}, Extension: []*descriptorpb.FieldDescriptorProto{ext("xtop", 102, i32)}}
	setGoPackage(fdp, id)
	return []genSchema{{"three-level nesting with later nested declarations", fdp}}
}

// defaultSchemas: fields whose unset value is not the Go zero value - enums
// whose first declared value is not numbered 0 (with and without a later 0),
// explicit defaults of every scalar kind - so that generated getters must
// consult presence rather than read the struct field.
func defaultSchemas(tag string) []genSchema {
	id := "dflt" + tag
	pkg := "verif.c41." + id
	q := "." + pkg
	opt := descriptorpb.FieldDescriptorProto_LABEL_OPTIONAL
	enum := func(name string, vals ...any) *descriptorpb.EnumDescriptorProto {
		e := &descriptorpb.EnumDescriptorProto{Name: proto.String(name)}
		for i := 0; i < len(vals); i += 2 {
			e.Value = append(e.Value, &descriptorpb.EnumValueDescriptorProto{Name: proto.String(vals[i].(string)), Number: proto.Int32(int32(vals[i+1].(int)))})
		}
		return e
	}
	var fields []*descriptorpb.FieldDescriptorProto
	add := func(name string, t descriptorpb.FieldDescriptorProto_Type, tn, def string) {
		f := &descriptorpb.FieldDescriptorProto{Name: proto.String(name), Number: proto.Int32(int32(len(fields) + 1)), Type: t.Enum(), Label: opt.Enum(), JsonName: proto.String(strs.JSONCamelCase(name))}
		if tn != "" {
			f.TypeName = proto.String(q + "." + tn)
		}
		if def != "-" {
			f.DefaultValue = proto.String(def)
		}
		fields = append(fields, f)
	}
	en := descriptorpb.FieldDescriptorProto_TYPE_ENUM
	add("r", en, "Reordered", "-")
	add("n", en, "NoZero", "-")
	add("p", en, "Plain", "P_ONE")
	add("rd", en, "Reordered", "R_ZERO")
	add("i", descriptorpb.FieldDescriptorProto_TYPE_INT32, "", "-7")
	add("u", descriptorpb.FieldDescriptorProto_TYPE_UINT64, "", "18446744073709551615")
	add("s", descriptorpb.FieldDescriptorProto_TYPE_STRING, "", "x\"y")
	add("b", descriptorpb.FieldDescriptorProto_TYPE_BYTES, "", "\\001\\377")
	add("f", descriptorpb.FieldDescriptorProto_TYPE_FLOAT, "", "inf")
	add("d", descriptorpb.FieldDescriptorProto_TYPE_DOUBLE, "", "-1.5")
	add("t", descriptorpb.FieldDescriptorProto_TYPE_BOOL, "", "true")
	add("s0", descriptorpb.FieldDescriptorProto_TYPE_STRING, "", "")
	m := &descriptorpb.DescriptorProto{Name: proto.String("D"), Field: fields}
	fdp := &descriptorpb.FileDescriptorProto{Name: proto.String("verif/c41/" + id + ".proto"), Package: proto.String(pkg), MessageType: []*descriptorpb.DescriptorProto{m},
		EnumType: []*descriptorpb.EnumDescriptorProto{enum("Reordered", "R_ONE", 1, "R_ZERO", 0), enum("NoZero", "N_FIVE", 5, "N_SEVEN", 7), enum("Plain", "P_ZERO", 0, "P_ONE", 1)}}
	setGoPackage(fdp, id)
	return []genSchema{{"defaults that are not the Go zero value", fdp}}
}
