// Package runner is linked, together with freshly generated packages, into the
// scratch binary that C41 builds: it checks that every generated file
// registered the descriptor it was generated from and that every generated
// message type behaves like dynamicpb over that descriptor.
package runner

import (
	"encoding/json"
	"fmt"
	"google.golang.org/protobuf/internal/strs"
	"math"
	"os"
	"reflect"
	"strings"

	"google.golang.org/protobuf/proto"
	"google.golang.org/protobuf/reflect/protodesc"
	"google.golang.org/protobuf/reflect/protoreflect"
	"google.golang.org/protobuf/reflect/protoregistry"
	"google.golang.org/protobuf/types/descriptorpb"
	"google.golang.org/protobuf/verifmc/core"
	"google.golang.org/protobuf/verifmc/ref/descdump"
	"google.golang.org/protobuf/verifmc/twin"
	"google.golang.org/protobuf/verifmc/univ"
)

// Entry describes one generated package.
type Entry struct {
	Path  string `json:"path"`  // proto file path
	Level string `json:"level"` // API level it was generated at
	Name  string `json:"name"`  // schema description
	Raw   []byte `json:"raw"`   // the FileDescriptorProto given to the generator
}

func init() { core.Register("C41run", "exploration", run) }

func firstDiff(a, b string) string {
	la, lb := strings.Split(a, "\n"), strings.Split(b, "\n")
	for i := 0; i < len(la) && i < len(lb); i++ {
		if la[i] != lb[i] {
			return fmt.Sprintf("line %d: registered %q / input %q", i, la[i], lb[i])
		}
	}
	return fmt.Sprintf("%d vs %d lines", len(la), len(lb))
}

func allMessages(fd protoreflect.FileDescriptor) []protoreflect.MessageDescriptor {
	var out []protoreflect.MessageDescriptor
	var walk func(ms protoreflect.MessageDescriptors)
	walk = func(ms protoreflect.MessageDescriptors) {
		for i := 0; i < ms.Len(); i++ {
			if !ms.Get(i).IsMapEntry() {
				out = append(out, ms.Get(i))
			}
			walk(ms.Get(i).Messages())
		}
	}
	walk(fd.Messages())
	return out
}

func run(c *core.Ctx) {
	c.Rule = "runner for C41 (binary built from freshly generated code)"
	c.Exhaustive = true
	b, err := os.ReadFile(os.Getenv("VERIF_C41_MANIFEST"))
	if err != nil {
		fmt.Fprintln(os.Stderr, "C41run:", err)
		os.Exit(2)
	}
	var entries []Entry
	if err := json.Unmarshal(b, &entries); err != nil {
		fmt.Fprintln(os.Stderr, "C41run:", err)
		os.Exit(2)
	}
	nmsg := 0
	for _, e := range entries {
		e := e
		tag := fmt.Sprintf("schema=%q level=%s", e.Name, e.Level)
		c.Eval(1)
		fd, err := protoregistry.GlobalFiles.FindFileByPath(e.Path)
		if err != nil {
			c.Violation("generated package does not register its file descriptor: "+tag, err.Error())
			continue
		}
		fdp := &descriptorpb.FileDescriptorProto{}
		if err := proto.Unmarshal(e.Raw, fdp); err != nil {
			panic(err)
		}
		want, err := protodesc.NewFile(fdp, protoregistry.GlobalFiles)
		if err != nil {
			panic(err)
		}
		if g, w := descdump.File(fd, descdump.Opt{}), descdump.File(want, descdump.Opt{}); g != w {
			c.Violation("registered file descriptor differs from the generator's input: "+tag, firstDiff(g, w))
		}
		if got := protodesc.ToFileDescriptorProto(fd); !proto.Equal(got, protodesc.ToFileDescriptorProto(want)) {
			c.Violation("ToFileDescriptorProto of the registered file differs from the generator's input: "+tag, nil)
		}
		for _, md := range allMessages(fd) {
			name := string(md.FullName())
			mt, err := protoregistry.GlobalTypes.FindMessageByName(md.FullName())
			if err != nil {
				c.Violation("generated message type is not registered: "+name+" "+tag, err.Error())
				continue
			}
			if mt.Descriptor() != md {
				c.Violation("registered message type has a different descriptor instance: "+name+" "+tag, nil)
			}
			nmsg++
			tw := twin.New("generated message ("+e.Level+")", name, univ.Gen(name), univ.Dyn(name))
			alpha := univ.Alphabet(md, 1, univ.Opt{Thin: true})
			k := 2
			if len(alpha) > 120 && c.Quick() {
				k = 1
			}
			n := univ.TupleCount(len(alpha), k)
			univ.ForTuples(c, len(alpha), k, func(idx []int) {
				twin.CompareBuilt(c, tw, univ.PickSlots(alpha, idx, nil))
			})
			c.DistinctN(int64(n))
			recs := univ.WireAlphabet(md, univ.WireOpt{Small: true, Depth: 1})
			kw := k
			if len(recs) > 200 && c.Quick() {
				kw = 1
			}
			nw := univ.TupleCount(len(recs), kw)
			univ.ForTuples(c, len(recs), kw, func(idx []int) {
				in, nm := univ.Concat(recs, idx)
				twin.CompareWire(c, tw, in, nm)
			})
			c.DistinctN(int64(nw))
			// generated getters, called on a freshly decoded message BEFORE any reflective access
			// (lazy fields are decoded by the getter itself)
			recs = append([]univ.Rec{{Name: "(empty input)"}}, recs...)
			for ri := range recs {
				in := recs[ri].B
				c.Eval(1)
				c.Guard(func() string { return "getters " + name + " wire=" + recs[ri].Name }, func() {
					g := tw.Leg.MT.New()
					if err := (proto.UnmarshalOptions{AllowPartial: true}).Unmarshal(in, g.Interface()); err != nil {
						return
					}
					d, err := tw.Dyn.Unmarshal(in, proto.UnmarshalOptions{AllowPartial: true})
					if err != nil {
						return
					}
					gv := reflect.ValueOf(g.Interface())
					plainNames := true
					seenKey := map[string]bool{}
					for i := 0; i < md.Fields().Len(); i++ {
						k := strings.ToLower(strings.ReplaceAll(string(md.Fields().Get(i).Name()), "_", ""))
						for _, pfx := range []string{"get", "set", "has", "clear", "which", "reset", "string", "proto", "descriptor", "build", "marshal"} {
							if strings.HasPrefix(k, pfx) {
								plainNames = false
							}
						}
						if seenKey[k] {
							plainNames = false
						}
						seenKey[k] = true
					}
					for i := 0; i < md.Fields().Len(); i++ {
						fd := md.Fields().Get(i)
						if fd.IsList() || fd.IsMap() {
							continue
						}
						gm := gv.MethodByName("Get" + strs.GoCamelCase(string(fd.Name())))
						if !gm.IsValid() || gm.Type().NumIn() != 0 || gm.Type().NumOut() != 1 {
							continue
						}
						out := gm.Call(nil)[0]
						if fd.Message() == nil {
							if !plainNames {
								continue // Get<Name> does not identify the field in name-collision schemas
							}
							// scalar getters: the value dynamicpb reports (the default when unset)
							var g, w string
							switch out.Kind() {
							case reflect.Int32, reflect.Int64:
								g = fmt.Sprint(out.Int())
							case reflect.Uint32, reflect.Uint64:
								g = fmt.Sprint(out.Uint())
							case reflect.Float32, reflect.Float64:
								g = fmt.Sprint(math.Float64bits(out.Float()))
							case reflect.Bool:
								g = fmt.Sprint(out.Bool())
							case reflect.String:
								g = fmt.Sprintf("%q", out.String())
							case reflect.Slice:
								g = fmt.Sprintf("%q", string(out.Bytes()))
							default:
								continue
							}
							switch x := d.Get(fd).Interface().(type) {
							case int32, int64, uint32, uint64, bool:
								w = fmt.Sprint(x)
							case protoreflect.EnumNumber:
								w = fmt.Sprint(int32(x))
							case float32:
								w = fmt.Sprint(math.Float64bits(float64(x)))
							case float64:
								w = fmt.Sprint(math.Float64bits(x))
							case string:
								w = fmt.Sprintf("%q", x)
							case []byte:
								w = fmt.Sprintf("%q", string(x))
							}
							if x, ok := d.Get(fd).Interface().(float64); ok && x != x || g == w {
								continue
							}
							if x, ok := d.Get(fd).Interface().(float32); ok && x != x {
								continue
							}
							c.Violation(fmt.Sprintf("generated getter Get%s returns %s, dynamicpb says %s (populated=%v): type=%s (%s) wire=%s", strs.GoCamelCase(string(fd.Name())), g, w, d.Has(fd), name, e.Level, recs[ri].Name), nil)
							continue
						}
						has := d.Has(fd)
						if out.Kind() != reflect.Ptr {
							continue
						}
						if out.IsNil() == has {
							c.Violation(fmt.Sprintf("generated getter Get%s returns nil=%v but the field is populated=%v after decoding: type=%s (%s) wire=%s", strs.GoCamelCase(string(fd.Name())), out.IsNil(), has, name, e.Level, recs[ri].Name), nil)
							continue
						}
						if has {
							if sub, ok := out.Interface().(proto.Message); ok && !proto.Equal(sub, d.Get(fd).Message().Interface()) {
								c.Violation(fmt.Sprintf("generated getter Get%s returns other content than dynamicpb decodes: type=%s (%s) wire=%s", strs.GoCamelCase(string(fd.Name())), name, e.Level, recs[ri].Name), nil)
							}
						}
					}
				})
			}
		}
	}
	c.Extra("generated_packages", len(entries))
	c.Extra("generated_message_types", nmsg)
	c.Sample(map[string]any{"packages": len(entries), "messages": nmsg})
}
