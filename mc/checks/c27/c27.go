// Package c27: size-delimited streams frame messages exactly.
package c27

import (
	"bufio"
	"bytes"
	"errors"
	"fmt"
	"io"
	"sync/atomic"

	"google.golang.org/protobuf/encoding/protodelim"
	"google.golang.org/protobuf/encoding/protowire"
	testpb "google.golang.org/protobuf/internal/testprotos/test"
	"google.golang.org/protobuf/proto"
	"google.golang.org/protobuf/types/known/wrapperspb"
	"google.golang.org/protobuf/verifmc/core"
)

func init() { core.Register("C27", "model_checking", run) }

// chunkReader returns at most k bytes per Read, optionally delivering io.EOF
// together with the last bytes, and counts what it handed out.
type chunkReader struct {
	data    []byte
	pos     int
	k       int
	eofWith bool
}

func (r *chunkReader) Read(p []byte) (int, error) {
	if r.pos >= len(r.data) {
		return 0, io.EOF
	}
	n := len(p)
	if r.k > 0 && n > r.k {
		n = r.k
	}
	if n > len(r.data)-r.pos {
		n = len(r.data) - r.pos
	}
	copy(p, r.data[r.pos:r.pos+n])
	r.pos += n
	if r.eofWith && r.pos == len(r.data) {
		return n, io.EOF
	}
	return n, nil
}

func (r *chunkReader) ReadByte() (byte, error) {
	if r.pos >= len(r.data) {
		return 0, io.EOF
	}
	b := r.data[r.pos]
	r.pos++
	return b, nil
}

type readerKind struct {
	name string
	mk   func(data []byte) (protodelim.Reader, func() int) // reader and "bytes consumed so far"
}

func kinds() []readerKind {
	var ks []readerKind
	for _, sz := range []int{16, 17, 64, 4096} {
		sz := sz
		ks = append(ks, readerKind{fmt.Sprintf("bufio(%d)", sz), func(data []byte) (protodelim.Reader, func() int) {
			under := &chunkReader{data: data}
			br := bufio.NewReaderSize(under, sz)
			return br, func() int { return under.pos - br.Buffered() }
		}})
	}
	for _, k := range []int{1, 2, 3} {
		k := k
		ks = append(ks, readerKind{fmt.Sprintf("direct-short-reads(%d)", k), func(data []byte) (protodelim.Reader, func() int) {
			r := &chunkReader{data: data, k: k}
			return r, func() int { return r.pos }
		}})
		ks = append(ks, readerKind{fmt.Sprintf("bufio(16)-over-short-reads(%d)", k), func(data []byte) (protodelim.Reader, func() int) {
			under := &chunkReader{data: data, k: k}
			br := bufio.NewReaderSize(under, 16)
			return br, func() int { return under.pos - br.Buffered() }
		}})
	}
	ks = append(ks, readerKind{"direct-data+EOF-in-one-call", func(data []byte) (protodelim.Reader, func() int) {
		r := &chunkReader{data: data, eofWith: true}
		return r, func() int { return r.pos }
	}})
	ks = append(ks, readerKind{"bufio(32)-over-data+EOF", func(data []byte) (protodelim.Reader, func() int) {
		under := &chunkReader{data: data, eofWith: true}
		br := bufio.NewReaderSize(under, 32)
		return br, func() int { return under.pos - br.Buffered() }
	}})
	return ks
}

func run(c *core.Ctx) {
	c.Rule = "environment exploration: streams of <=3 messages with encoded sizes drawn from {0, 2, 127, 128, 200} (+16384 in the thorough tier) written by MarshalTo, truncated at EVERY byte offset, read back by repeated UnmarshalFrom through 12 reader behaviours (bufio of size 16/17/64/4096, direct readers delivering 1-3 bytes per call, bufio over such readers, data+EOF in one call) under MaxSize in {-1, 0, size-1, size, size+1}, into a fresh destination per call or into one non-empty destination reused by every call; a reference framing model gives the expected result of every call: messages Equal and in order, io.EOF exactly at a clean boundary, io.ErrUnexpectedEOF inside a size prefix or body, *SizeTooLargeError iff size > MaxSize, and bytes consumed from the reader == frame length after every successful call. A state is (stream, truncation point, reader behaviour, MaxSize, destination policy, number of calls made). A second family frames messages with required fields (complete, partial, empty-and-partial) and demands that UnmarshalFrom with and without AllowPartial, fresh or reused destination, gives exactly the verdict and content of proto.Unmarshal on the frame body"
	c.Exhaustive = true
	mkMsg := func(size int) proto.Message {
		switch {
		case size == 0:
			return &wrapperspb.BytesValue{}
		case size == 2:
			return wrapperspb.Int32(1)
		case size < 130:
			return wrapperspb.Bytes(bytes.Repeat([]byte{0xab}, size-2))
		case size < 16386:
			return wrapperspb.Bytes(bytes.Repeat([]byte{0xcd}, size-3))
		default:
			return wrapperspb.Bytes(bytes.Repeat([]byte{0xef}, size-4))
		}
	}
	sizes := []int{0, 2, 127, 128, 200}
	if c.Thorough() {
		sizes = append(sizes, 16384, 16390)
	}
	for _, s := range sizes {
		if got := proto.Size(mkMsg(s)); got != s {
			c.Violation(fmt.Sprintf("harness: message for size %d has size %d", s, got), nil)
			return
		}
	}
	// all sequences of <= 3 sizes
	var seqs [][]int
	var rec func(cur []int)
	rec = func(cur []int) {
		if len(cur) > 0 {
			seqs = append(seqs, append([]int{}, cur...))
		}
		if len(cur) == core.Pick(c, 2, 3) {
			return
		}
		for _, s := range sizes {
			rec(append(cur, s))
		}
	}
	rec(nil)
	ks := kinds()
	var states, trans atomic.Int64
	c.Par(len(seqs), func(si int) {
		seq := seqs[si]
		var stream bytes.Buffer
		var frameEnd []int
		for _, s := range seq {
			n, err := protodelim.MarshalTo(&stream, mkMsg(s))
			if err != nil || n != s+protowire.SizeVarint(uint64(s)) {
				c.Violation(fmt.Sprintf("MarshalTo wrote %d bytes for a %d-byte message (err=%v)", n, s, err), nil)
				return
			}
			frameEnd = append(frameEnd, stream.Len())
		}
		full := stream.Bytes()
		maxes := map[int64]bool{-1: true, 0: true}
		for _, s := range seq {
			for d := int64(-1); d <= 1; d++ {
				if v := int64(s) + d; v > 0 {
					maxes[v] = true
				}
			}
		}
		cuts := make([]int, 0, len(full)+1)
		for t := 0; t <= len(full); t++ {
			// for big messages only cut around the frame structure
			if len(full) > 1200 && t > 40 && t < len(full)-40 {
				near := false
				for _, fe := range frameEnd {
					if t > fe-6 && t < fe+6 {
						near = true
					}
				}
				if !near && t%97 != 0 {
					continue
				}
			}
			cuts = append(cuts, t)
		}
		for _, t := range cuts {
			data := full[:t]
			for _, k := range ks {
				for mx := range maxes {
					for _, reuse := range []bool{false, true} {
						states.Add(1)
						// reuse: one destination per type serves every call and is not
						// empty before the first one (UnmarshalFrom must replace, not merge)
						reM := &wrapperspb.BytesValue{Value: []byte("stale")}
						reI := &wrapperspb.Int32Value{Value: 99}
						r, consumed := k.mk(data)
						pos := 0
						sig := func(call int) string {
							return fmt.Sprintf("sizes=%v cut=%d/%d reader=%s MaxSize=%d reusedDestination=%v call#%d", seq, t, len(full), k.name, mx, reuse, call)
						}
						for call := 0; call <= len(seq); call++ {
							trans.Add(1)
							var m wrapperspb.BytesValue
							var dst proto.Message = &m
							var im wrapperspb.Int32Value
							if call < len(seq) && seq[call] == 2 {
								dst = &im
							}
							if reuse {
								dst = reM
								if call < len(seq) && seq[call] == 2 {
									dst = reI
								}
							}
							var err error
							if c.Guard(func() string { return "UnmarshalFrom panics " + sig(call) }, func() {
								err = protodelim.UnmarshalOptions{MaxSize: mx}.UnmarshalFrom(r, dst)
							}) {
								break
							}
							// reference
							var want string
							switch {
							case pos == t:
								want = "EOF"
							case call >= len(seq):
								want = "EOF"
							default:
								s := seq[call]
								lim := mx
								if lim == 0 {
									lim = 4 << 20
								}
								prefix := protowire.SizeVarint(uint64(s))
								switch {
								case t < pos+prefix:
									want = "UnexpectedEOF"
								case lim >= 0 && int64(s) > lim:
									want = "TooLarge"
								case t < pos+prefix+s:
									want = "UnexpectedEOF"
								default:
									want = "ok"
								}
							}
							var got string
							var tl *protodelim.SizeTooLargeError
							switch {
							case err == nil:
								got = "ok"
							case err == io.EOF:
								got = "EOF"
							case errors.Is(err, io.ErrUnexpectedEOF):
								got = "UnexpectedEOF"
							case errors.As(err, &tl):
								got = "TooLarge"
							default:
								got = "other:" + err.Error()
							}
							if got != want {
								c.Violation(fmt.Sprintf("UnmarshalFrom result=%s want=%s %s", got, want, sig(call)), fmt.Sprint(err))
								break
							}
							if want != "ok" {
								break
							}
							if !proto.Equal(dst, mkMsg(seq[call])) {
								c.Violation("UnmarshalFrom returns a different message "+sig(call), nil)
								break
							}
							pos = frameEnd[call]
							if cns := consumed(); cns != pos {
								c.Violation(fmt.Sprintf("bytes consumed=%d want frame end=%d %s", cns, pos, sig(call)), nil)
								break
							}
						}
					}
				}
			}
		}
	})
	requiredFrames(c, ks)
	c.States(states.Load())
	c.Transitions(trans.Load())
	c.Traces(trans.Load())
	c.Eval(trans.Load())
	c.DistinctN(states.Load())
	c.Bounds["size_sequences"] = len(seqs)
	c.Bounds["reader_behaviours"] = len(ks)
	c.Sample(map[string]any{"sizes": []int{127, 128}, "cut": 129, "reader": "bufio(16)", "MaxSize": 127, "expect": []string{"ok", "UnexpectedEOF"}})
	c.Assume("a zero MaxSize means the documented 4 MiB default; when both truncation and size>MaxSize apply, the size check comes first once the size prefix is complete")
}

// requiredFrames: UnmarshalFrom of a complete frame is proto.Unmarshal of its
// body with the same options, whatever the body length (zero included).
func requiredFrames(c *core.Ctx, ks []readerKind) {
	msgs := []proto.Message{
		&testpb.TestRequired{},
		&testpb.TestRequired{RequiredField: proto.Int32(1)},
		&testpb.TestRequiredForeign{},
		&testpb.TestRequiredForeign{OptionalMessage: &testpb.TestRequired{}},
		&testpb.TestRequiredForeign{OptionalMessage: &testpb.TestRequired{RequiredField: proto.Int32(0)}},
	}
	for _, a := range msgs {
		for _, b := range msgs {
			if a.ProtoReflect().Descriptor() != b.ProtoReflect().Descriptor() {
				continue
			}
			var stream bytes.Buffer
			var bodies [][]byte
			for _, m := range []proto.Message{a, b} {
				body, _ := proto.MarshalOptions{AllowPartial: true}.Marshal(m)
				bodies = append(bodies, body)
				if _, err := (protodelim.MarshalOptions{MarshalOptions: proto.MarshalOptions{AllowPartial: true}}).MarshalTo(&stream, m); err != nil {
					c.Violation("MarshalTo{AllowPartial} fails", err.Error())
					return
				}
			}
			for _, k := range ks {
				for _, partial := range []bool{false, true} {
					for _, reuse := range []bool{false, true} {
						c.Eval(1)
						r, _ := k.mk(stream.Bytes())
						dst := a.ProtoReflect().New().Interface()
						for call, body := range bodies {
							if !reuse {
								dst = a.ProtoReflect().New().Interface()
							}
							sig := fmt.Sprintf("required-field frames bodies=%x,%x reader=%s AllowPartial=%v reusedDestination=%v call#%d", bodies[0], bodies[1], k.name, partial, reuse, call)
							uo := proto.UnmarshalOptions{AllowPartial: partial}
							ref := a.ProtoReflect().New().Interface()
							refErr := uo.Unmarshal(body, ref)
							var err error
							if c.Guard(func() string { return "UnmarshalFrom panics " + sig }, func() {
								err = protodelim.UnmarshalOptions{UnmarshalOptions: uo}.UnmarshalFrom(r, dst)
							}) {
								break
							}
							if (err == nil) != (refErr == nil) {
								c.Violation(fmt.Sprintf("UnmarshalFrom err=%v but proto.Unmarshal of the frame body err=%v: %s", err, refErr, sig), nil)
								break
							}
							if !proto.Equal(dst, ref) {
								c.Violation("UnmarshalFrom content differs from proto.Unmarshal of the frame body: "+sig, nil)
								break
							}
						}
					}
				}
			}
		}
	}
}
