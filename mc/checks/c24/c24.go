// Package c24: prototext round-trips every message; every float32 and double
// bit pattern survives the text encoder/decoder.
package c24

import (
	"fmt"
	"google.golang.org/protobuf/reflect/protodesc"
	"google.golang.org/protobuf/types/descriptorpb"
	"google.golang.org/protobuf/types/dynamicpb"
	"google.golang.org/protobuf/types/known/anypb"
	"math"
	"strings"
	"sync/atomic"

	"google.golang.org/protobuf/encoding/prototext"
	"google.golang.org/protobuf/internal/encoding/text"
	"google.golang.org/protobuf/proto"
	"google.golang.org/protobuf/reflect/protoreflect"
	"google.golang.org/protobuf/reflect/protoregistry"
	"google.golang.org/protobuf/verifmc/core"
	"google.golang.org/protobuf/verifmc/univ"
)

func init() { core.Register("C24", "exploration", run) }

type plan struct {
	name  string
	k     int
	depth int
	thin  bool
	dyn   bool
}

func plans(c *core.Ctx) []plan {
	q := c.Quick()
	return []plan{
		{name: "goproto.proto.test.TestAllTypes", k: core.Pick(c, 1, 2), depth: 2, dyn: true},
		{name: "goproto.proto.test.TestAllTypes", k: 2, depth: 2, thin: true},
		{name: "goproto.proto.test3.TestAllTypes", k: core.Pick(c, 1, 2), depth: 2, dyn: !q},
		{name: "goproto.proto.testeditions.TestAllTypes", k: 1, depth: 2},
		{name: "opaque.goproto.proto.testeditions.TestAllTypes", k: core.Pick(c, 1, 2), depth: 2, thin: !q},
		{name: "hybrid.goproto.proto.testeditions.TestAllTypes", k: 1, depth: 2},
		{name: "goproto.proto.test.TestAllExtensions", k: core.Pick(c, 1, 2), depth: 2, dyn: true},
		{name: "pb2.Scalars", k: 2, depth: 1, dyn: true},
		{name: "pb2.Nests", k: 3, depth: 3, thin: true, dyn: true},
		{name: "pb2.Maps", k: 2, depth: 2, dyn: true},
		{name: "pb3.Scalars", k: 2, depth: 1},
		{name: "pbeditions.Nests", k: 2, depth: 3, thin: true},
		{name: "opaque.lazy_tree.Node", k: 2, depth: 3, thin: true},
		{name: "google.golang.org.Article", k: 2, depth: 2},
		{name: "google.protobuf.Struct", k: 2, depth: 3, dyn: true},
	}
}

type tres interface {
	protoregistry.MessageTypeResolver
	protoregistry.ExtensionTypeResolver
}

func resolver(f univ.Flavor) tres {
	if f.Dynamic {
		return univ.DynTypes{}
	}
	return protoregistry.GlobalTypes
}

var optionSets = []prototext.MarshalOptions{
	{AllowPartial: true},
	{AllowPartial: true, Multiline: true},
	{AllowPartial: true, Multiline: true, Indent: "\t"},
	{AllowPartial: true, EmitASCII: true},
	{AllowPartial: true, Multiline: true, Indent: "  ", EmitASCII: true},
}

func oname(o prototext.MarshalOptions) string {
	return fmt.Sprintf("multiline=%v indent=%q ascii=%v", o.Multiline, o.Indent, o.EmitASCII)
}

func floatSweep(c *core.Ctx) {
	// every float32 bit pattern through the text encoder and decoder
	var lo, hi, chunk uint64 = 0, 1 << 32, 1 << 18
	stride := uint64(1)
	if c.Quick() {
		stride = 61 // thinned; the full sweep runs in the thorough tier
	}
	var n, bad atomic.Int64
	enc := func(f func(e *text.Encoder)) []byte {
		e, _ := text.NewEncoder(nil, "", [2]byte{}, false)
		e.WriteName("f")
		f(e)
		return e.Bytes()
	}
	check32 := func(bits uint32) {
		v := math.Float32frombits(bits)
		b := enc(func(e *text.Encoder) { e.WriteFloat(float64(v), 32) })
		d := text.NewDecoder(b)
		d.Read()
		tok, err := d.Read()
		got, ok := tok.Float32()
		if err != nil || !ok || !(math.Float32bits(got) == bits || (got != got && v != v)) {
			bad.Add(1)
			c.Violation(fmt.Sprintf("float32 text round trip bits=%#08x text=%q got=%#08x", bits, b, math.Float32bits(got)), nil)
		}
	}
	c.ParRange(lo, hi, chunk, func(a, b uint64) {
		cnt := int64(0)
		for x := a + (stride-a%stride)%stride; x < b; x += stride {
			check32(uint32(x))
			cnt++
		}
		n.Add(cnt)
	})
	// structured float32 set that is always swept in full: every exponent x {0, 1, max mantissa, alternating, known double-rounding witnesses}
	for e := uint32(0); e < 256; e++ {
		for _, m := range []uint32{0, 1, 2, 0x7fffff, 0x7ffffe, 0x2aaaaa, 0x555555, 0x400000, 0x3fffff, 0x2e43fd} {
			for _, s := range []uint32{0, 1 << 31} {
				check32(s | e<<23 | m)
				n.Add(1)
			}
		}
	}
	c.Bounds["float32_stride"] = stride
	// doubles: all values with <=2 set mantissa bits for every exponent (thorough: every 3rd exponent in quick), plus alphabet
	expStep := uint64(core.Pick(c, 7, 1))
	check64 := func(bits uint64) {
		v := math.Float64frombits(bits)
		b := enc(func(e *text.Encoder) { e.WriteFloat(v, 64) })
		d := text.NewDecoder(b)
		d.Read()
		tok, err := d.Read()
		got, ok := tok.Float64()
		if err != nil || !ok || !(math.Float64bits(got) == bits || (got != got && v != v)) {
			c.Violation(fmt.Sprintf("float64 text round trip bits=%#016x text=%q got=%#016x", bits, b, math.Float64bits(got)), nil)
		}
	}
	c.ParRange(0, 2048, 1, func(a, b uint64) {
		cnt := int64(0)
		for e := a; e < b; e++ {
			if e%expStep != 0 && e != 2047 && e != 2046 && e != 1 {
				continue
			}
			for i := 0; i <= 52; i++ {
				for j := i; j <= 52; j++ {
					var m uint64
					if i < 52 {
						m |= 1 << uint(i)
					}
					if j < 52 {
						m |= 1 << uint(j)
					}
					check64(e<<52 | m)
					check64(1<<63 | e<<52 | m)
					check64(e<<52 | (1<<52 - 1) ^ m)
					cnt += 3
				}
			}
		}
		n.Add(cnt)
	})
	c.Eval(n.Load())
	c.DistinctN(n.Load())
	c.OutcomeN("float-values", n.Load())
	c.Sample(map[string]any{"float32_bits": "0x3dcccccd", "text": "f:0.1"})
}

// runeFamily: strings built from runes at every UTF-8 length / bit-length
// boundary, through prototext with every option set, in a string field, a
// bytes field and a map key.
func runeFamily(c *core.Ctx) {
	f := univ.Gen("goproto.proto.test3.TestAllTypes")
	md := f.MT.Descriptor()
	var runes []rune
	for bl := 0; bl <= 21; bl++ {
		for _, r := range []rune{1<<uint(bl) - 1, 1 << uint(bl), 1<<uint(bl) + 1} {
			if r > 0 && r <= 0x10ffff && (r < 0xd800 || r > 0xdfff) {
				runes = append(runes, r)
			}
		}
	}
	runes = append(runes, 0xd7ff, 0xe000, 0xfffd, 0xe0001, 0xf0000, 0xffffd, 0x10fffd)
	n := 0
	for _, r := range runes {
		for _, suf := range []string{"", "0", "f", "\"", "\\"} {
			s := string(r) + suf
			m := f.MT.New()
			m.Set(md.Fields().ByName("singular_string"), protoreflect.ValueOfString(s))
			m.Set(md.Fields().ByName("singular_bytes"), protoreflect.ValueOfBytes([]byte(s)))
			m.Mutable(md.Fields().ByName("map_string_string")).Map().Set(protoreflect.ValueOfString(s).MapKey(), protoreflect.ValueOfString(s))
			want := univ.Snapshot(m)
			for _, o := range optionSets {
				n++
				tb, err := o.Marshal(m.Interface())
				if err != nil {
					c.Violation(fmt.Sprintf("prototext.Marshal fails %s rune=%#x suffix=%q", oname(o), r, suf), err.Error())
					continue
				}
				m2 := f.MT.New()
				if err := prototext.Unmarshal(tb, m2.Interface()); err != nil {
					c.Violation(fmt.Sprintf("prototext.Unmarshal rejects Marshal output %s rune=%#x suffix=%q", oname(o), r, suf), map[string]any{"err": err.Error(), "text": string(tb)})
					continue
				}
				if got := univ.Snapshot(m2); got != want {
					c.Violation(fmt.Sprintf("text round trip changes string %s rune=%#x suffix=%q", oname(o), r, suf), string(tb))
				}
			}
		}
	}
	c.Eval(int64(n))
	c.DistinctN(int64(n))
	c.Bounds["rune_family_cases"] = n
}

func run(c *core.Ctx) {
	c.Rule = "messages = all slot lists of length <=k over the slot alphabet of each type (groups, extensions, maps, oneofs, unknown fields, NaN/-0/inf/denormal floats, non-ASCII and control-character strings, arbitrary bytes); each is written with 5 option sets (Multiline, Indent, EmitASCII) and parsed back (into a fresh destination, or under EmitASCII into one that already holds another message); the result must be proto.Equal to the original with unknown fields removed recursively and have the same canonical snapshot (float bits identical, NaNs identified). Floats: every float32 bit pattern (thorough: all 2^32; quick: stride 61 plus a full structured exponent x mantissa set) and all doubles with <=2 set / cleared mantissa bits per exponent go through the text encoder and decoder and must come back bit-identical. Dynamic messages over a re-loaded instance of the descriptor of each extendable corpus type, with every extension (types of the global registry) set alone, round-trip under every option set. Any with a caller-supplied Resolver: an Any whose payload type and three extensions (int32, repeated string, message) exist only in a private protoregistry.Types (dynamic types, descriptor not in the global registry): every payload of <=2 setters x 5 option sets round-trips to an equal payload"
	c.Exhaustive = true
	floatSweep(c)
	runeFamily(c)
	var planOut []map[string]any
	for _, p := range plans(c) {
		if c.Expired() {
			break
		}
		md := univ.MT(p.name).Descriptor()
		alpha := univ.Alphabet(md, p.depth, univ.Opt{Thin: p.thin})
		flavors := []univ.Flavor{univ.Gen(p.name)}
		if p.dyn {
			flavors = append(flavors, univ.Dyn(p.name))
		}
		n := univ.TupleCount(len(alpha), p.k)
		for _, f := range flavors {
			f := f
			univ.ForTuples(c, len(alpha), p.k, func(idx []int) {
				slots := univ.PickSlots(alpha, idx, nil)
				name := univ.Names(slots)
				c.Guard(func() string { return "type=" + f.Name + " case=" + name }, func() {
					m := f.Build(slots)
					c.Eval(1)
					// reference: the message without unknown fields (recursively)
					b, err := proto.MarshalOptions{AllowPartial: true}.Marshal(m.Interface())
					if err != nil {
						return
					}
					ref, err := f.Unmarshal(b, proto.UnmarshalOptions{AllowPartial: true, DiscardUnknown: true})
					if err != nil {
						return
					}
					want := univ.Snapshot(ref)
					for _, o := range optionSets {
						tb, err := o.Marshal(m.Interface())
						if err != nil {
							c.Violation(fmt.Sprintf("prototext.Marshal fails %s type=%s case=%s", oname(o), f.Name, name), err.Error())
							continue
						}
						if o.EmitASCII {
							for _, ch := range tb {
								if ch > 0x7e || (ch < 0x20 && ch != '\n' && ch != '\t') {
									c.Violation(fmt.Sprintf("EmitASCII output contains byte %#x %s type=%s case=%s", ch, oname(o), f.Name, name), string(tb))
									break
								}
							}
						}
						m2 := f.MT.New()
						if o.EmitASCII && len(alpha) > 0 {
							// Unmarshal replaces the destination's content: under EmitASCII the
							// destination already holds another message
							m2 = f.Build([]*univ.Slot{alpha[len(alpha)/2]})
						}
						if err := (prototext.UnmarshalOptions{AllowPartial: true, Resolver: resolver(f)}).Unmarshal(tb, m2.Interface()); err != nil {
							c.Violation(fmt.Sprintf("prototext.Unmarshal rejects Marshal output %s type=%s case=%s", oname(o), f.Name, name), map[string]any{"err": err.Error(), "text": string(tb)})
							continue
						}
						if !proto.Equal(ref.Interface(), m2.Interface()) {
							c.Violation(fmt.Sprintf("text round trip not Equal %s type=%s case=%s", oname(o), f.Name, name), map[string]any{"text": string(tb), "want": want, "got": univ.Snapshot(m2)})
							continue
						}
						if got := univ.Snapshot(m2); got != want {
							c.Violation(fmt.Sprintf("text round trip snapshot differs %s type=%s case=%s", oname(o), f.Name, name), map[string]any{"text": string(tb), "want": want, "got": got})
						}
					}
				})
			})
		}
		c.DistinctN(int64(n))
		planOut = append(planOut, map[string]any{"type": p.name, "k": p.k, "slot_alphabet": len(alpha), "messages": n, "flavors": len(flavors), "option_sets": len(optionSets)})
		if len(alpha) > 2 {
			c.Sample(map[string]any{"type": p.name, "slots": univ.Names([]*univ.Slot{alpha[len(alpha)/3], alpha[len(alpha)/2]})})
		}
	}
	anyWithPrivateResolver(c)
	reloadedDescriptorExtensions(c)
	c.Bounds["plans"] = planOut
	c.Assume("EmitUnknown output is by design not parseable; it is covered by C25's no-panic clause only")
	var _ protoreflect.Message
}

// anyWithPrivateResolver: an Any whose payload type and extensions exist only
// in the caller's Resolver (dynamic types over a descriptor that is not in the
// global registry): every payload of <=2 slots must survive the text round
// trip through MarshalOptions.Resolver / UnmarshalOptions.Resolver.
func anyWithPrivateResolver(c *core.Ctx) {
	fdp := univ.SchemaFile("verif/c24/private.proto", "verif.c24.private", univ.Proto2, []univ.Shape{
		{Name: "optional int32", Type: descriptorpb.FieldDescriptorProto_TYPE_INT32, Label: descriptorpb.FieldDescriptorProto_LABEL_OPTIONAL, Ext: true},
		{Name: "repeated string", Type: descriptorpb.FieldDescriptorProto_TYPE_STRING, Label: descriptorpb.FieldDescriptorProto_LABEL_REPEATED, Ext: true},
		{Name: "optional message", Type: descriptorpb.FieldDescriptorProto_TYPE_MESSAGE, Label: descriptorpb.FieldDescriptorProto_LABEL_OPTIONAL, Ext: true},
	})
	fdp.MessageType[2].Field = append(fdp.MessageType[2].Field, &descriptorpb.FieldDescriptorProto{Name: proto.String("id"), Number: proto.Int32(1), Type: descriptorpb.FieldDescriptorProto_TYPE_INT32.Enum(), Label: descriptorpb.FieldDescriptorProto_LABEL_OPTIONAL.Enum(), JsonName: proto.String("id")})
	fd, err := protodesc.NewFile(fdp, protoregistry.GlobalFiles)
	if err != nil {
		panic(err)
	}
	types := &protoregistry.Types{}
	xmd := fd.Messages().ByName("X")
	types.RegisterMessage(dynamicpb.NewMessageType(xmd))
	types.RegisterMessage(dynamicpb.NewMessageType(fd.Messages().ByName("Sub")))
	var xts []protoreflect.ExtensionType
	for i := 0; i < fd.Extensions().Len(); i++ {
		xt := dynamicpb.NewExtensionType(fd.Extensions().Get(i))
		types.RegisterExtension(xt)
		xts = append(xts, xt)
	}
	type setter struct {
		name string
		f    func(m protoreflect.Message)
	}
	sub := func() protoreflect.Value {
		s := dynamicpb.NewMessage(fd.Messages().ByName("Sub"))
		s.Set(s.Descriptor().Fields().ByName("a"), protoreflect.ValueOfInt32(4))
		return protoreflect.ValueOfMessage(s)
	}
	setters := []setter{
		{"id=7", func(m protoreflect.Message) { m.Set(xmd.Fields().ByName("id"), protoreflect.ValueOfInt32(7)) }},
		{"ext int32=-1", func(m protoreflect.Message) { m.Set(xts[0].TypeDescriptor(), protoreflect.ValueOfInt32(-1)) }},
		{"ext repeated string+=\"é\"", func(m protoreflect.Message) {
			m.Mutable(xts[1].TypeDescriptor()).List().Append(protoreflect.ValueOfString("é"))
		}},
		{"ext repeated string+=\"\"", func(m protoreflect.Message) {
			m.Mutable(xts[1].TypeDescriptor()).List().Append(protoreflect.ValueOfString(""))
		}},
		{"ext message{a:4}", func(m protoreflect.Message) { m.Set(xts[2].TypeDescriptor(), sub()) }},
	}
	n := univ.TupleCount(len(setters), 2)
	univ.ForTuples(c, len(setters), 2, func(idx []int) {
		var names []string
		payload := dynamicpb.NewMessage(xmd)
		for _, i := range idx {
			setters[i].f(payload)
			names = append(names, setters[i].name)
		}
		name := strings.Join(names, " ; ")
		c.Eval(1)
		c.Guard(func() string { return "any with private resolver case=" + name }, func() {
			pb, err := proto.MarshalOptions{Deterministic: true}.Marshal(payload)
			if err != nil {
				panic(err)
			}
			a := &anypb.Any{TypeUrl: "type.googleapis.com/" + string(xmd.FullName()), Value: pb}
			for _, o := range optionSets {
				o.Resolver = types
				tb, err := o.Marshal(a)
				if err != nil {
					c.Violation(fmt.Sprintf("prototext.Marshal of an Any resolvable through MarshalOptions.Resolver fails %s case=[%s]", oname(o), name), err.Error())
					continue
				}
				var back anypb.Any
				if err := (prototext.UnmarshalOptions{Resolver: types}).Unmarshal(tb, &back); err != nil {
					c.Violation(fmt.Sprintf("prototext.Unmarshal rejects its own Any output %s case=[%s]", oname(o), name), map[string]any{"err": err.Error(), "text": string(tb)})
					continue
				}
				got := dynamicpb.NewMessage(xmd)
				if err := (proto.UnmarshalOptions{Resolver: types}).Unmarshal(back.Value, got); err != nil || back.TypeUrl != a.TypeUrl || !proto.Equal(got, payload) {
					c.Violation(fmt.Sprintf("Any payload changes in the text round trip with a caller-supplied Resolver %s case=[%s]", oname(o), name), map[string]any{"text": string(tb), "value_in": fmt.Sprintf("%x", pb), "value_out": fmt.Sprintf("%x", back.Value)})
				}
			}
		})
	})
	c.DistinctN(int64(n))
	c.Bounds["any_private_resolver_payloads"] = n
}

// reloadedDescriptorExtensions: a tool that loads descriptors from a descriptor
// set works with dynamic messages over ITS OWN instance of a message
// descriptor, while extension types (here: the generated ones in the global
// registry) refer to another instance with the same full name. Every
// extension of the extendable corpus types, set alone on such a dynamic
// message, must survive the text round trip under every option set.
func reloadedDescriptorExtensions(c *core.Ctx) {
	n := 0
	for _, name := range []string{"goproto.proto.test.TestAllExtensions", "goproto.proto.testeditions.TestAllExtensions", "pb2.Extensions"} {
		gmt, err := protoregistry.GlobalTypes.FindMessageByName(protoreflect.FullName(name))
		if err != nil {
			continue
		}
		fd2, err := protodesc.NewFile(protodesc.ToFileDescriptorProto(gmt.Descriptor().ParentFile()), protoregistry.GlobalFiles)
		if err != nil {
			c.Outcome("re-load skipped (file needs protolegacy): " + name)
			continue
		}
		md2 := fd2.Messages().ByName(gmt.Descriptor().Name())
		dmt := dynamicpb.NewMessageType(md2)
		var slots []*univ.Slot
		for _, s := range univ.Alphabet(gmt.Descriptor(), 1, univ.Opt{Thin: true, NoUnknown: true}) {
			if s.Ext {
				slots = append(slots, s)
			}
		}
		for _, s := range slots {
			for _, o := range optionSets {
				n++
				c.Eval(1)
				sig := fmt.Sprintf("dynamic message over a re-loaded descriptor, generated extension types: type=%s case=%s %s", name, s.Name, oname(o))
				c.Guard(func() string { return sig }, func() {
					m := univ.Build(dmt, []*univ.Slot{s}, protoregistry.GlobalTypes)
					tb, err := o.Marshal(m.Interface())
					if err != nil {
						c.Violation("prototext.Marshal fails: "+sig, err.Error())
						return
					}
					back := dmt.New()
					if err := (prototext.UnmarshalOptions{AllowPartial: true}).Unmarshal(tb, back.Interface()); err != nil {
						c.Violation("prototext.Unmarshal rejects Marshal output: "+sig, map[string]any{"err": err.Error(), "text": string(tb)})
						return
					}
					if !proto.Equal(m.Interface(), back.Interface()) {
						c.Violation("text round trip not Equal: "+sig, string(tb))
					}
				})
			}
		}
	}
	c.DistinctN(int64(n))
}
