// Package c35: descriptor validation never crashes and rejects invalid schemas.
package c35

import (
	"bufio"
	"fmt"
	"google.golang.org/protobuf/internal/strs"
	"math"
	"os"
	"os/exec"
	"strconv"
	"strings"
	"sync"

	"google.golang.org/protobuf/proto"
	"google.golang.org/protobuf/reflect/protodesc"
	"google.golang.org/protobuf/reflect/protoreflect"
	"google.golang.org/protobuf/reflect/protoregistry"
	"google.golang.org/protobuf/types/descriptorpb"
	"google.golang.org/protobuf/verifmc/core"
	"google.golang.org/protobuf/verifmc/univ"
)

func init() {
	core.Register("C35", "exploration", run)
	core.Register("C35worker", "exploration", worker)
}

type tcase struct {
	name       string
	fdp        *descriptorpb.FileDescriptorProto
	mustReject bool // catalogue case: a definite schema error
	mustAccept bool // valid base
}

// ---- bases

func base(syn univ.Syntax, i int) *descriptorpb.FileDescriptorProto {
	opt := descriptorpb.FieldDescriptorProto_LABEL_OPTIONAL
	rep := descriptorpb.FieldDescriptorProto_LABEL_REPEATED
	shapes := []univ.Shape{
		{Name: "a", Type: descriptorpb.FieldDescriptorProto_TYPE_INT32, Label: opt},
		{Name: "s", Type: descriptorpb.FieldDescriptorProto_TYPE_STRING, Label: opt},
		{Name: "o1", Type: descriptorpb.FieldDescriptorProto_TYPE_INT64, Label: opt, Oneof: true},
		{Name: "o2", Type: descriptorpb.FieldDescriptorProto_TYPE_MESSAGE, Label: opt, Oneof: true},
		{Name: "m", Type: descriptorpb.FieldDescriptorProto_TYPE_MESSAGE, Label: rep, MapKey: descriptorpb.FieldDescriptorProto_TYPE_STRING},
		{Name: "r", Type: descriptorpb.FieldDescriptorProto_TYPE_SINT32, Label: rep},
		{Name: "e", Type: descriptorpb.FieldDescriptorProto_TYPE_ENUM, Label: opt},
		{Name: "me", Type: descriptorpb.FieldDescriptorProto_TYPE_ENUM, Label: rep, MapKey: descriptorpb.FieldDescriptorProto_TYPE_INT32},
		{Name: "re", Type: descriptorpb.FieldDescriptorProto_TYPE_ENUM, Label: rep},
		{Name: "oe", Type: descriptorpb.FieldDescriptorProto_TYPE_ENUM, Label: opt, Oneof: true},
	}
	if syn == univ.Proto2 {
		shapes = append(shapes, univ.Shape{Name: "g", Type: descriptorpb.FieldDescriptorProto_TYPE_GROUP, Label: opt},
			univ.Shape{Name: "x", Type: descriptorpb.FieldDescriptorProto_TYPE_INT32, Label: opt, Ext: true},
			univ.Shape{Name: "q", Type: descriptorpb.FieldDescriptorProto_TYPE_INT32, Label: descriptorpb.FieldDescriptorProto_LABEL_REQUIRED})
	}
	if syn == univ.Proto3 {
		shapes = append(shapes, univ.Shape{Name: "p", Type: descriptorpb.FieldDescriptorProto_TYPE_INT32, Label: opt, P3Opt: true})
	}
	if syn == univ.Ed2023 {
		shapes = append(shapes, univ.Shape{Name: "x", Type: descriptorpb.FieldDescriptorProto_TYPE_INT32, Label: opt, Ext: true})
	}
	fdp := univ.SchemaFile(fmt.Sprintf("verif/base%d.proto", i), fmt.Sprintf("verif.base%d", i), syn, shapes)
	m := fdp.MessageType[0]
	m.ReservedRange = []*descriptorpb.DescriptorProto_ReservedRange{{Start: proto.Int32(50), End: proto.Int32(60)}}
	m.ReservedName = []string{"gone"}
	if syn != univ.Proto3 {
		m.ExtensionRange = []*descriptorpb.DescriptorProto_ExtensionRange{{Start: proto.Int32(2000), End: proto.Int32(3000)}}
	}
	fdp.EnumType[0].ReservedRange = []*descriptorpb.EnumDescriptorProto_EnumReservedRange{{Start: proto.Int32(10), End: proto.Int32(20)}}
	fdp.EnumType[0].ReservedName = []string{"E_GONE"}
	fdp.Service = []*descriptorpb.ServiceDescriptorProto{{Name: proto.String("Svc"), Method: []*descriptorpb.MethodDescriptorProto{{Name: proto.String("Do"), InputType: proto.String("." + fdp.GetPackage() + ".M"), OutputType: proto.String("." + fdp.GetPackage() + ".Sub")}}}}
	return fdp
}

func clone(p *descriptorpb.FileDescriptorProto) *descriptorpb.FileDescriptorProto {
	return proto.Clone(p).(*descriptorpb.FileDescriptorProto)
}

// catalogue returns the targeted invalidities applicable to base b (of syntax syn).
func catalogue(b *descriptorpb.FileDescriptorProto, syn univ.Syntax) []tcase {
	var out []tcase
	add := func(name string, mut func(p *descriptorpb.FileDescriptorProto) bool) {
		p := clone(b)
		if mut(p) {
			out = append(out, tcase{name: fmt.Sprintf("%s: %s", syn, name), fdp: p, mustReject: true})
		}
	}
	opt := descriptorpb.FieldDescriptorProto_LABEL_OPTIONAL
	i32 := descriptorpb.FieldDescriptorProto_TYPE_INT32
	M := func(p *descriptorpb.FileDescriptorProto) *descriptorpb.DescriptorProto { return p.MessageType[0] }
	newField := func(name string, num int32) *descriptorpb.FieldDescriptorProto {
		return &descriptorpb.FieldDescriptorProto{Name: proto.String(name), Number: proto.Int32(num), Type: i32.Enum(), Label: opt.Enum(), JsonName: proto.String(name)}
	}
	add("duplicate field name", func(p *descriptorpb.FileDescriptorProto) bool {
		M(p).Field = append(M(p).Field, newField("f1", 40))
		return true
	})
	add("duplicate field number", func(p *descriptorpb.FileDescriptorProto) bool {
		M(p).Field = append(M(p).Field, newField("dupnum", 1))
		return true
	})
	add("duplicate message name", func(p *descriptorpb.FileDescriptorProto) bool {
		p.MessageType = append(p.MessageType, &descriptorpb.DescriptorProto{Name: proto.String("M")})
		return true
	})
	add("duplicate nested type name", func(p *descriptorpb.FileDescriptorProto) bool {
		M(p).NestedType = append(M(p).NestedType, &descriptorpb.DescriptorProto{Name: proto.String("N")}, &descriptorpb.DescriptorProto{Name: proto.String("N")})
		return true
	})
	add("message and enum share a name", func(p *descriptorpb.FileDescriptorProto) bool {
		p.MessageType = append(p.MessageType, &descriptorpb.DescriptorProto{Name: proto.String("E")})
		return true
	})
	add("duplicate enum value name", func(p *descriptorpb.FileDescriptorProto) bool {
		p.EnumType[0].Value = append(p.EnumType[0].Value, &descriptorpb.EnumValueDescriptorProto{Name: proto.String("E_ONE"), Number: proto.Int32(7)})
		return true
	})
	add("duplicate enum number without allow_alias", func(p *descriptorpb.FileDescriptorProto) bool {
		p.EnumType[0].Value = append(p.EnumType[0].Value, &descriptorpb.EnumValueDescriptorProto{Name: proto.String("E_SEVEN"), Number: proto.Int32(1)})
		return true
	})
	add("enum without values", func(p *descriptorpb.FileDescriptorProto) bool {
		p.EnumType = append(p.EnumType, &descriptorpb.EnumDescriptorProto{Name: proto.String("Empty")})
		return true
	})
	add("reserved range with start >= end", func(p *descriptorpb.FileDescriptorProto) bool {
		M(p).ReservedRange = append(M(p).ReservedRange, &descriptorpb.DescriptorProto_ReservedRange{Start: proto.Int32(90), End: proto.Int32(90)})
		return true
	})
	add("overlapping reserved ranges", func(p *descriptorpb.FileDescriptorProto) bool {
		M(p).ReservedRange = append(M(p).ReservedRange, &descriptorpb.DescriptorProto_ReservedRange{Start: proto.Int32(55), End: proto.Int32(70)})
		return true
	})
	add("reserved range overlaps extension range", func(p *descriptorpb.FileDescriptorProto) bool {
		if len(M(p).ExtensionRange) == 0 {
			return false
		}
		M(p).ReservedRange = append(M(p).ReservedRange, &descriptorpb.DescriptorProto_ReservedRange{Start: proto.Int32(2500), End: proto.Int32(2600)})
		return true
	})
	add("reserved range ends exactly where an extension range starts (one number in common)", func(p *descriptorpb.FileDescriptorProto) bool {
		if len(M(p).ExtensionRange) == 0 {
			return false
		}
		M(p).ReservedRange = append(M(p).ReservedRange, &descriptorpb.DescriptorProto_ReservedRange{Start: proto.Int32(1990), End: proto.Int32(2001)})
		return true
	})
	add("reserved range starts exactly where an extension range ends (one number in common)", func(p *descriptorpb.FileDescriptorProto) bool {
		if len(M(p).ExtensionRange) == 0 {
			return false
		}
		M(p).ReservedRange = append(M(p).ReservedRange, &descriptorpb.DescriptorProto_ReservedRange{Start: proto.Int32(2999), End: proto.Int32(3005)})
		return true
	})
	add("field uses a reserved number", func(p *descriptorpb.FileDescriptorProto) bool {
		M(p).Field = append(M(p).Field, newField("usesreserved", 55))
		return true
	})
	add("field uses a reserved name", func(p *descriptorpb.FileDescriptorProto) bool {
		M(p).Field = append(M(p).Field, newField("gone", 41))
		return true
	})
	add("field number inside an extension range", func(p *descriptorpb.FileDescriptorProto) bool {
		if len(M(p).ExtensionRange) == 0 {
			return false
		}
		M(p).Field = append(M(p).Field, newField("inext", 2500))
		return true
	})
	add("overlapping extension ranges", func(p *descriptorpb.FileDescriptorProto) bool {
		if len(M(p).ExtensionRange) == 0 {
			return false
		}
		M(p).ExtensionRange = append(M(p).ExtensionRange, &descriptorpb.DescriptorProto_ExtensionRange{Start: proto.Int32(2999), End: proto.Int32(3100)})
		return true
	})
	add("extension range beyond the maximum field number", func(p *descriptorpb.FileDescriptorProto) bool {
		if syn == univ.Proto3 {
			return false
		}
		M(p).ExtensionRange = append(M(p).ExtensionRange, &descriptorpb.DescriptorProto_ExtensionRange{Start: proto.Int32(4000), End: proto.Int32(1<<29 + 5)})
		return true
	})
	add("field number 0", func(p *descriptorpb.FileDescriptorProto) bool { M(p).Field[0].Number = proto.Int32(0); return true })
	add("negative field number", func(p *descriptorpb.FileDescriptorProto) bool { M(p).Field[0].Number = proto.Int32(-1); return true })
	add("field number above the maximum", func(p *descriptorpb.FileDescriptorProto) bool {
		M(p).Field[0].Number = proto.Int32(1 << 29)
		return true
	})
	add("empty field name", func(p *descriptorpb.FileDescriptorProto) bool { M(p).Field[0].Name = proto.String(""); return true })
	add("field name with a dot", func(p *descriptorpb.FileDescriptorProto) bool { M(p).Field[0].Name = proto.String("a.b"); return true })
	add("message name starting with a digit", func(p *descriptorpb.FileDescriptorProto) bool {
		p.MessageType[1].Name = proto.String("1Sub")
		return true
	})
	add("invalid package name", func(p *descriptorpb.FileDescriptorProto) bool { p.Package = proto.String("a..b"); return true })
	add("empty oneof", func(p *descriptorpb.FileDescriptorProto) bool {
		M(p).OneofDecl = append(M(p).OneofDecl, &descriptorpb.OneofDescriptorProto{Name: proto.String("lonely")})
		return true
	})
	add("oneof_index out of range", func(p *descriptorpb.FileDescriptorProto) bool { M(p).Field[0].OneofIndex = proto.Int32(9); return true })
	add("non-consecutive oneof members", func(p *descriptorpb.FileDescriptorProto) bool {
		// members f3, f4 are adjacent; move f3 to the end so that other fields sit between them
		fs := M(p).Field
		if len(fs) < 6 {
			return false
		}
		var moved *descriptorpb.FieldDescriptorProto
		var rest []*descriptorpb.FieldDescriptorProto
		for _, f := range fs {
			if f.GetName() == "f3" {
				moved = f
			} else {
				rest = append(rest, f)
			}
		}
		if moved == nil {
			return false
		}
		M(p).Field = append(rest, moved)
		return true
	})
	add("repeated oneof member", func(p *descriptorpb.FileDescriptorProto) bool {
		for _, f := range M(p).Field {
			if f.OneofIndex != nil && !f.GetProto3Optional() {
				f.Label = descriptorpb.FieldDescriptorProto_LABEL_REPEATED.Enum()
				return true
			}
		}
		return false
	})
	mapEntry := func(p *descriptorpb.FileDescriptorProto) *descriptorpb.DescriptorProto {
		for _, n := range M(p).NestedType {
			if n.GetOptions().GetMapEntry() {
				return n
			}
		}
		return nil
	}
	add("map entry with a float key", func(p *descriptorpb.FileDescriptorProto) bool {
		e := mapEntry(p)
		if e == nil {
			return false
		}
		e.Field[0].Type = descriptorpb.FieldDescriptorProto_TYPE_FLOAT.Enum()
		return true
	})
	add("map entry with key number 2", func(p *descriptorpb.FileDescriptorProto) bool {
		e := mapEntry(p)
		if e == nil {
			return false
		}
		e.Field[0].Number, e.Field[1].Number = proto.Int32(2), proto.Int32(1)
		return true
	})
	add("map entry without a value field", func(p *descriptorpb.FileDescriptorProto) bool {
		e := mapEntry(p)
		if e == nil {
			return false
		}
		e.Field = e.Field[:1]
		return true
	})
	add("map entry with a wrong name", func(p *descriptorpb.FileDescriptorProto) bool {
		e := mapEntry(p)
		if e == nil {
			return false
		}
		old := e.GetName()
		e.Name = proto.String("WrongEntry")
		for _, f := range M(p).Field {
			if strings.HasSuffix(f.GetTypeName(), "."+old) {
				f.TypeName = proto.String(strings.TrimSuffix(f.GetTypeName(), old) + "WrongEntry")
			}
		}
		return true
	})
	add("map field that is not repeated", func(p *descriptorpb.FileDescriptorProto) bool {
		e := mapEntry(p)
		if e == nil {
			return false
		}
		for _, f := range M(p).Field {
			if strings.HasSuffix(f.GetTypeName(), "."+e.GetName()) {
				f.Label = opt.Enum()
				return true
			}
		}
		return false
	})
	add("map entry with a repeated value", func(p *descriptorpb.FileDescriptorProto) bool {
		e := mapEntry(p)
		if e == nil {
			return false
		}
		e.Field[1].Label = descriptorpb.FieldDescriptorProto_LABEL_REPEATED.Enum()
		return true
	})
	add("unresolvable message type", func(p *descriptorpb.FileDescriptorProto) bool {
		for _, f := range M(p).Field {
			if f.GetType() == descriptorpb.FieldDescriptorProto_TYPE_MESSAGE && !strings.Contains(f.GetTypeName(), "Entry") {
				f.TypeName = proto.String(".no.such.Type")
				return true
			}
		}
		return false
	})
	add("enum type name resolves to a message", func(p *descriptorpb.FileDescriptorProto) bool {
		for _, f := range M(p).Field {
			if f.GetType() == descriptorpb.FieldDescriptorProto_TYPE_ENUM {
				f.TypeName = proto.String("." + p.GetPackage() + ".Sub")
				return true
			}
		}
		return false
	})
	add("missing dependency", func(p *descriptorpb.FileDescriptorProto) bool {
		p.Dependency = append(p.Dependency, "no/such/file.proto")
		return true
	})
	add("packed on a string field", func(p *descriptorpb.FileDescriptorProto) bool {
		M(p).Field = append(M(p).Field, &descriptorpb.FieldDescriptorProto{Name: proto.String("ps"), Number: proto.Int32(42), Type: descriptorpb.FieldDescriptorProto_TYPE_STRING.Enum(), Label: descriptorpb.FieldDescriptorProto_LABEL_REPEATED.Enum(), JsonName: proto.String("ps"), Options: &descriptorpb.FieldOptions{Packed: proto.Bool(true)}})
		return syn == univ.Proto2 || syn == univ.Proto3
	})
	// packed on every kind of repeated field that cannot be packed, with the
	// field's type spelled out or left to be resolved from type_name, as a
	// field and as an extension
	for _, k := range []struct {
		name     string
		typ      *descriptorpb.FieldDescriptorProto_Type
		typeName string
	}{
		{"bytes", descriptorpb.FieldDescriptorProto_TYPE_BYTES.Enum(), ""},
		{"message", descriptorpb.FieldDescriptorProto_TYPE_MESSAGE.Enum(), "Sub"},
		{"message (type left to type_name)", nil, "Sub"},
	} {
		k := k
		for _, asExt := range []bool{false, true} {
			asExt := asExt
			where := "field"
			if asExt {
				where = "extension"
			}
			add("packed on a repeated "+k.name+" "+where, func(p *descriptorpb.FileDescriptorProto) bool {
				f := &descriptorpb.FieldDescriptorProto{Name: proto.String("pk"), Number: proto.Int32(44), Type: k.typ, Label: descriptorpb.FieldDescriptorProto_LABEL_REPEATED.Enum(), JsonName: proto.String("pk"), Options: &descriptorpb.FieldOptions{Packed: proto.Bool(true)}}
				if k.typeName != "" {
					f.TypeName = proto.String("." + p.GetPackage() + "." + k.typeName)
				}
				if asExt {
					if syn != univ.Proto2 {
						return false
					}
					f.Number = proto.Int32(2044)
					f.Extendee = proto.String("." + p.GetPackage() + ".M")
					f.JsonName = nil
					p.Extension = append(p.Extension, f)
					return true
				}
				M(p).Field = append(M(p).Field, f)
				return syn == univ.Proto2 || syn == univ.Proto3
			})
		}
	}
	add("packed on a singular field", func(p *descriptorpb.FileDescriptorProto) bool {
		M(p).Field[0].Options = &descriptorpb.FieldOptions{Packed: proto.Bool(true)}
		return syn == univ.Proto2 || syn == univ.Proto3
	})
	add("enum value uses a reserved number", func(p *descriptorpb.FileDescriptorProto) bool {
		p.EnumType[0].Value = append(p.EnumType[0].Value, &descriptorpb.EnumValueDescriptorProto{Name: proto.String("E_RES"), Number: proto.Int32(15)})
		return true
	})
	add("enum value uses a reserved name", func(p *descriptorpb.FileDescriptorProto) bool {
		p.EnumType[0].Value = append(p.EnumType[0].Value, &descriptorpb.EnumValueDescriptorProto{Name: proto.String("E_GONE"), Number: proto.Int32(8)})
		return true
	})
	add("enum reserved range with start > end", func(p *descriptorpb.FileDescriptorProto) bool {
		p.EnumType[0].ReservedRange = append(p.EnumType[0].ReservedRange, &descriptorpb.EnumDescriptorProto_EnumReservedRange{Start: proto.Int32(40), End: proto.Int32(30)})
		return true
	})
	add("default value of the wrong type", func(p *descriptorpb.FileDescriptorProto) bool {
		M(p).Field[0].DefaultValue = proto.String("notanumber")
		return syn == univ.Proto2 || syn == univ.Ed2023
	})
	add("default value names an undeclared enum value", func(p *descriptorpb.FileDescriptorProto) bool {
		for _, f := range M(p).Field {
			if f.GetType() == descriptorpb.FieldDescriptorProto_TYPE_ENUM {
				f.DefaultValue = proto.String("E_NOSUCH")
				return syn == univ.Proto2 || syn == univ.Ed2023
			}
		}
		return false
	})
	add("method input type unresolvable", func(p *descriptorpb.FileDescriptorProto) bool {
		p.Service[0].Method[0].InputType = proto.String(".no.Such")
		return true
	})
	add("duplicate method name", func(p *descriptorpb.FileDescriptorProto) bool {
		p.Service[0].Method = append(p.Service[0].Method, proto.Clone(p.Service[0].Method[0]).(*descriptorpb.MethodDescriptorProto))
		return true
	})
	if syn == univ.Proto2 || syn == univ.Ed2023 {
		add("extension number outside the extendee's ranges", func(p *descriptorpb.FileDescriptorProto) bool {
			if len(p.Extension) == 0 {
				return false
			}
			p.Extension[0].Number = proto.Int32(5)
			return true
		})
		add("extension of a message without extension ranges", func(p *descriptorpb.FileDescriptorProto) bool {
			if len(p.Extension) == 0 {
				return false
			}
			p.Extension[0].Extendee = proto.String("." + p.GetPackage() + ".Sub")
			return true
		})
		add("extendee is an enum", func(p *descriptorpb.FileDescriptorProto) bool {
			if len(p.Extension) == 0 {
				return false
			}
			p.Extension[0].Extendee = proto.String("." + p.GetPackage() + ".E")
			return true
		})
		add("field with an extendee inside a message's field list", func(p *descriptorpb.FileDescriptorProto) bool {
			M(p).Field[0].Extendee = proto.String("." + p.GetPackage() + ".X")
			return true
		})
	}
	if syn == univ.Proto2 {
		add("required extension", func(p *descriptorpb.FileDescriptorProto) bool {
			p.Extension[0].Label = descriptorpb.FieldDescriptorProto_LABEL_REQUIRED.Enum()
			return true
		})
		add("group whose type is not a message", func(p *descriptorpb.FileDescriptorProto) bool {
			for _, f := range M(p).Field {
				if f.GetType() == descriptorpb.FieldDescriptorProto_TYPE_GROUP {
					f.TypeName = proto.String("." + p.GetPackage() + ".E")
					return true
				}
			}
			return false
		})
		// malformed groups: the field name must be EXACTLY the lower-cased message name, the
		// message must be declared in the scope of the field, the field may not be in a map
		for _, nm := range []string{"Grp", "gRp", "grP", "grp_", "gr"} {
			nm := nm
			add("group field named "+nm+" for message Grp", func(p *descriptorpb.FileDescriptorProto) bool {
				M(p).NestedType = append(M(p).NestedType, &descriptorpb.DescriptorProto{Name: proto.String("Grp")})
				M(p).Field = append(M(p).Field, &descriptorpb.FieldDescriptorProto{Name: proto.String(nm), Number: proto.Int32(43), Type: descriptorpb.FieldDescriptorProto_TYPE_GROUP.Enum(), Label: opt.Enum(), TypeName: proto.String("." + p.GetPackage() + ".M.Grp"), JsonName: proto.String(strs.JSONCamelCase(nm))})
				return true
			})
		}
		add("group whose message is declared in another scope", func(p *descriptorpb.FileDescriptorProto) bool {
			p.MessageType = append(p.MessageType, &descriptorpb.DescriptorProto{Name: proto.String("Grp")})
			M(p).Field = append(M(p).Field, &descriptorpb.FieldDescriptorProto{Name: proto.String("grp"), Number: proto.Int32(43), Type: descriptorpb.FieldDescriptorProto_TYPE_GROUP.Enum(), Label: opt.Enum(), TypeName: proto.String("." + p.GetPackage() + ".Grp"), JsonName: proto.String("grp")})
			return true
		})
		add("message_set_wire_format with ordinary fields", func(p *descriptorpb.FileDescriptorProto) bool {
			M(p).Options = &descriptorpb.MessageOptions{MessageSetWireFormat: proto.Bool(true)}
			return true
		})
	}
	if syn == univ.Proto3 {
		add("proto3: required field", func(p *descriptorpb.FileDescriptorProto) bool {
			M(p).Field[0].Label = descriptorpb.FieldDescriptorProto_LABEL_REQUIRED.Enum()
			return true
		})
		add("proto3: group field", func(p *descriptorpb.FileDescriptorProto) bool {
			M(p).NestedType = append(M(p).NestedType, &descriptorpb.DescriptorProto{Name: proto.String("Grp")})
			M(p).Field = append(M(p).Field, &descriptorpb.FieldDescriptorProto{Name: proto.String("grp"), Number: proto.Int32(43), Type: descriptorpb.FieldDescriptorProto_TYPE_GROUP.Enum(), Label: opt.Enum(), TypeName: proto.String("." + p.GetPackage() + ".M.Grp"), JsonName: proto.String("grp")})
			return true
		})
		add("proto3: explicit default value", func(p *descriptorpb.FileDescriptorProto) bool {
			M(p).Field[0].DefaultValue = proto.String("5")
			return true
		})
		add("proto3: enum whose first value is not zero", func(p *descriptorpb.FileDescriptorProto) bool {
			p.EnumType[0].Value[0].Number = proto.Int32(3)
			return true
		})
		add("proto3: extension range", func(p *descriptorpb.FileDescriptorProto) bool {
			M(p).ExtensionRange = []*descriptorpb.DescriptorProto_ExtensionRange{{Start: proto.Int32(2000), End: proto.Int32(3000)}}
			return true
		})
		add("synthetic oneof with two members", func(p *descriptorpb.FileDescriptorProto) bool {
			for _, f := range M(p).Field {
				if f.GetProto3Optional() {
					g := newField("second", 44)
					g.OneofIndex = proto.Int32(f.GetOneofIndex())
					M(p).Field = append(M(p).Field, g)
					return true
				}
			}
			return false
		})
		add("proto3 message using a proto2 (closed) enum", func(p *descriptorpb.FileDescriptorProto) bool {
			p.Dependency = append(p.Dependency, "internal/testprotos/test/test.proto")
			for _, f := range M(p).Field {
				if f.GetType() == descriptorpb.FieldDescriptorProto_TYPE_ENUM {
					f.TypeName = proto.String(".goproto.proto.test.ForeignEnum")
					return true
				}
			}
			return false
		})
	}
	return out
}

// ---- generic edits: every scalar field of the proto tree set to hostile values

type edit struct {
	desc string
	do   func(p *descriptorpb.FileDescriptorProto)
}

func genericEdits(b *descriptorpb.FileDescriptorProto) []edit {
	var out []edit
	var walk func(path []any, m protoreflect.Message)
	resolve := func(root protoreflect.Message, path []any) protoreflect.Message {
		cur := root
		for i := 0; i < len(path); i += 2 {
			fd := cur.Descriptor().Fields().ByNumber(path[i].(protoreflect.FieldNumber))
			if fd.IsList() {
				cur = cur.Mutable(fd).List().Get(path[i+1].(int)).Message()
			} else {
				cur = cur.Mutable(fd).Message()
			}
		}
		return cur
	}
	walk = func(path []any, m protoreflect.Message) {
		fds := m.Descriptor().Fields()
		for i := 0; i < fds.Len(); i++ {
			fd := fds.Get(i)
			p := append([]any{}, path...)
			pname := fmt.Sprintf("%v.%s", pathString(path), fd.Name())
			switch {
			case fd.IsMap():
			case fd.IsList() && fd.Message() != nil:
				l := m.Get(fd).List()
				for j := 0; j < l.Len(); j++ {
					walk(append(append([]any{}, p...), fd.Number(), j), l.Get(j).Message())
					j := j
					out = append(out, edit{fmt.Sprintf("%s[%d] deleted", pname, j), func(x *descriptorpb.FileDescriptorProto) {
						t := resolve(x.ProtoReflect(), p)
						ll := t.Mutable(fd).List()
						var keep []protoreflect.Value
						for k := 0; k < ll.Len(); k++ {
							if k != j {
								keep = append(keep, ll.Get(k))
							}
						}
						ll.Truncate(0)
						for _, v := range keep {
							ll.Append(v)
						}
					}})
					out = append(out, edit{fmt.Sprintf("%s[%d] duplicated", pname, j), func(x *descriptorpb.FileDescriptorProto) {
						t := resolve(x.ProtoReflect(), p)
						ll := t.Mutable(fd).List()
						ll.Append(protoreflect.ValueOfMessage(proto.Clone(ll.Get(j).Message().Interface()).ProtoReflect()))
					}})
					out = append(out, edit{fmt.Sprintf("%s[%d] emptied", pname, j), func(x *descriptorpb.FileDescriptorProto) {
						t := resolve(x.ProtoReflect(), p)
						proto.Reset(t.Mutable(fd).List().Get(j).Message().Interface())
					}})
				}
			case fd.IsList():
				for _, v := range hostile(fd) {
					v := v
					out = append(out, edit{fmt.Sprintf("%s += %v", pname, v.Interface()), func(x *descriptorpb.FileDescriptorProto) {
						resolve(x.ProtoReflect(), p).Mutable(fd).List().Append(v)
					}})
				}
			case fd.Message() != nil:
				if m.Has(fd) {
					walk(append(append([]any{}, p...), fd.Number(), 0), m.Get(fd).Message())
					out = append(out, edit{pname + " cleared", func(x *descriptorpb.FileDescriptorProto) { resolve(x.ProtoReflect(), p).Clear(fd) }})
				} else {
					out = append(out, edit{pname + " set to empty", func(x *descriptorpb.FileDescriptorProto) { resolve(x.ProtoReflect(), p).Mutable(fd) }})
				}
			default:
				if m.Has(fd) {
					out = append(out, edit{pname + " cleared", func(x *descriptorpb.FileDescriptorProto) { resolve(x.ProtoReflect(), p).Clear(fd) }})
				}
				for _, v := range hostile(fd) {
					v := v
					out = append(out, edit{fmt.Sprintf("%s = %v", pname, v.Interface()), func(x *descriptorpb.FileDescriptorProto) { resolve(x.ProtoReflect(), p).Set(fd, v) }})
				}
			}
		}
	}
	walk(nil, b.ProtoReflect())
	return out
}

func pathString(path []any) string {
	s := ""
	for i := 0; i < len(path); i += 2 {
		s += fmt.Sprintf("/%d[%d]", path[i], path[i+1])
	}
	return s
}

func hostile(fd protoreflect.FieldDescriptor) []protoreflect.Value {
	switch fd.Kind() {
	case protoreflect.StringKind:
		var out []protoreflect.Value
		for _, s := range []string{"", ".", "a..b", "*", ".x", "x.", "1", "cmd/protoc-gen-go/testdata/x.proto", "proto3", "editions", "\xff", ".verif.nowhere.T", "nowhere.T", ".google.protobuf.Any", ".google.protobuf.NullValue"} {
			out = append(out, protoreflect.ValueOfString(s))
		}
		return out
	case protoreflect.Int32Kind:
		return []protoreflect.Value{protoreflect.ValueOfInt32(0), protoreflect.ValueOfInt32(-1), protoreflect.ValueOfInt32(1), protoreflect.ValueOfInt32(math.MaxInt32), protoreflect.ValueOfInt32(math.MinInt32), protoreflect.ValueOfInt32(1 << 29)}
	case protoreflect.BoolKind:
		return []protoreflect.Value{protoreflect.ValueOfBool(true), protoreflect.ValueOfBool(false)}
	case protoreflect.EnumKind:
		var out []protoreflect.Value
		vals := fd.Enum().Values()
		for i := 0; i < vals.Len(); i++ {
			out = append(out, protoreflect.ValueOfEnum(vals.Get(i).Number()))
		}
		return append(out, protoreflect.ValueOfEnum(12345), protoreflect.ValueOfEnum(-5))
	case protoreflect.BytesKind:
		return []protoreflect.Value{protoreflect.ValueOfBytes([]byte{0xff})}
	case protoreflect.Int64Kind:
		return []protoreflect.Value{protoreflect.ValueOfInt64(-1)}
	case protoreflect.Uint64Kind:
		return []protoreflect.Value{protoreflect.ValueOfUint64(math.MaxUint64)}
	case protoreflect.DoubleKind:
		return []protoreflect.Value{protoreflect.ValueOfFloat64(math.NaN())}
	}
	return nil
}

// cases enumerates the whole case list deterministically.
func cases(thorough bool) []tcase {
	var out []tcase
	syns := []univ.Syntax{univ.Proto2, univ.Proto3, univ.Ed2023}
	for i, syn := range syns {
		b := base(syn, i)
		out = append(out, tcase{name: fmt.Sprintf("%s: valid base", syn), fdp: b, mustAccept: true})
		out = append(out, catalogue(b, syn)...)
		for _, e := range genericEdits(b) {
			p := clone(b)
			func() {
				defer func() { recover() }()
				e.do(p)
			}()
			out = append(out, tcase{name: fmt.Sprintf("%s: edit %s", syn, e.desc), fdp: p})
		}
	}
	// name classes x editions (the statement's adversarial inputs include odd editions)
	for _, name := range []string{"x.proto", "cmd/protoc-gen-go/testdata/x.proto", "internal/testprotos/x.proto", ""} {
		for _, ed := range []descriptorpb.Edition{0, 1, 2, 900, 998, 999, 1000, 1001, 1002, 9999, 99997, 99999, 2147483647, -1} {
			for _, syn := range []string{"editions", "proto2", "proto3", "", "bogus"} {
				p := base(univ.Ed2023, 9)
				p.Name = proto.String(name)
				p.Syntax = proto.String(syn)
				p.Edition = ed.Enum()
				out = append(out, tcase{name: fmt.Sprintf("file name %q syntax %q edition %d", name, syn, ed), fdp: p})
			}
		}
	}
	if thorough {
		// pairs of generic edits on the proto2 base
		b := base(univ.Proto2, 0)
		es := genericEdits(b)
		for i := 0; i < len(es); i += 7 {
			for j := i + 1; j < len(es); j += 11 {
				p := clone(b)
				func() {
					defer func() { recover() }()
					es[i].do(p)
					es[j].do(p)
				}()
				out = append(out, tcase{name: fmt.Sprintf("proto2: edits %s ; %s", es[i].desc, es[j].desc), fdp: p})
			}
		}
		// a large corpus file
		if fd, err := protoregistry.GlobalFiles.FindFileByPath("internal/testprotos/test/test.proto"); err == nil {
			big := protodesc.ToFileDescriptorProto(fd)
			es := genericEdits(big)
			for i := 0; i < len(es); i += 5 {
				p := clone(big)
				func() {
					defer func() { recover() }()
					es[i].do(p)
				}()
				out = append(out, tcase{name: "test.proto: edit " + es[i].desc, fdp: p})
			}
		}
	}
	return out
}

func runCase(tc tcase) (violations []string) {
	for _, allow := range []bool{false, true} {
		func() {
			defer func() {
				if r := recover(); r != nil {
					violations = append(violations, fmt.Sprintf("NewFile panics (AllowUnresolvable=%v): %v; case=%s", allow, firstLine(fmt.Sprint(r)), tc.name))
				}
			}()
			_, err := protodesc.FileOptions{AllowUnresolvable: allow}.New(tc.fdp, protoregistry.GlobalFiles)
			if tc.mustAccept && err != nil {
				violations = append(violations, fmt.Sprintf("valid base rejected (AllowUnresolvable=%v): %s: %v", allow, tc.name, err))
			}
			if tc.mustReject && err == nil {
				if allow && (strings.Contains(tc.name, "unresolvable") || strings.Contains(tc.name, "missing dependency") || strings.Contains(tc.name, "undeclared enum value")) {
					return // allowed by AllowUnresolvable
				}
				violations = append(violations, fmt.Sprintf("definite schema error accepted (AllowUnresolvable=%v): %s", allow, tc.name))
			}
		}()
	}
	return
}

func firstLine(s string) string {
	if i := strings.IndexByte(s, '\n'); i >= 0 {
		return s[:i]
	}
	return s
}

// worker processes cases idx with idx%K == w and reports on stdout.
func worker(c *core.Ctx) {
	k, _ := strconv.Atoi(os.Getenv("VERIF_C35_K"))
	w, _ := strconv.Atoi(os.Getenv("VERIF_C35_W"))
	only, _ := strconv.Atoi(os.Getenv("VERIF_C35_ONLY"))
	cs := cases(c.Thorough())
	out := bufio.NewWriter(os.Stdout)
	for i, tc := range cs {
		if os.Getenv("VERIF_C35_ONLY") != "" {
			if i != only {
				continue
			}
		} else if i%k != w {
			continue
		}
		fmt.Fprintf(out, "S %d\n", i)
		out.Flush()
		for _, v := range runCase(tc) {
			fmt.Fprintf(out, "V %d\t%s\n", i, strings.ReplaceAll(v, "\n", " "))
		}
		fmt.Fprintf(out, "D %d\n", i)
		out.Flush()
	}
	fmt.Fprintln(out, "E")
	out.Flush()
	os.Exit(0)
}

func run(c *core.Ctx) {
	c.Rule = "bases = one schema per syntax (proto2, proto3, edition 2023) holding scalar, string, oneof, map, repeated, enum, group, extension, required / proto3-optional fields, reserved ranges and names, extension ranges, a service. (a) catalogue: every targeted invalidity from a list of 60 definite schema errors mirroring the statement (duplicate names / numbers, bad or overlapping ranges, reserved name / number use, fields in extension ranges, malformed map entries and groups, empty / non-consecutive / repeated oneofs, proto3-forbidden constructs, unresolvable references, invalid packed / enum / default combinations, extension misuse) applied to each base where applicable: must be rejected while the base is accepted; (b) generic edits: EVERY scalar field of the proto tree set to each hostile value (empty, '.', 'a..b', '*', test-data path prefix, 0, -1, MaxInt32, 2^29, undeclared enum numbers ...), cleared, every repeated element deleted / duplicated / emptied, every unset submessage created: only totality is asserted; plus file-name classes x 14 edition numbers x 5 syntax strings; both AllowUnresolvable settings. Every case runs in one of 16 worker processes so that a panic or a process exit (os.Exit inside the library) is attributed to the case"
	c.Exhaustive = true
	cs := cases(c.Thorough())
	self, _ := os.Executable()
	const K = 16
	var mu sync.Mutex
	done := make([]bool, len(cs))
	var crashed []int
	var wg sync.WaitGroup
	spawn := func(env []string) (started, finished map[int]bool, viol []string, clean bool, stderr string) {
		cmd := exec.Command(self, "-check", "C35worker", "-tier", c.Tier)
		cmd.Env = append(append(os.Environ(), env...), "VERIF_ROOT="+core.Root+"/.cache/c35root")
		os.MkdirAll(core.Root+"/.cache/c35root", 0o755)
		var errb strings.Builder
		cmd.Stderr = &errb
		pipe, _ := cmd.StdoutPipe()
		started, finished = map[int]bool{}, map[int]bool{}
		if err := cmd.Start(); err != nil {
			return started, finished, nil, false, err.Error()
		}
		sc := bufio.NewScanner(pipe)
		sc.Buffer(make([]byte, 1<<20), 1<<24)
		for sc.Scan() {
			line := sc.Text()
			switch {
			case strings.HasPrefix(line, "S "):
				i, _ := strconv.Atoi(line[2:])
				started[i] = true
			case strings.HasPrefix(line, "D "):
				i, _ := strconv.Atoi(line[2:])
				finished[i] = true
			case strings.HasPrefix(line, "V "):
				viol = append(viol, line[strings.IndexByte(line, '\t')+1:])
			case line == "E":
				clean = true
			}
		}
		cmd.Wait()
		return started, finished, viol, clean, errb.String()
	}
	for w := 0; w < K; w++ {
		wg.Add(1)
		go func(w int) {
			defer wg.Done()
			// a worker that dies is restarted on the remaining cases of its share
			for attempt := 0; attempt < 50; attempt++ {
				started, finished, viol, clean, _ := spawn([]string{fmt.Sprintf("VERIF_C35_K=%d", K), fmt.Sprintf("VERIF_C35_W=%d", w)})
				mu.Lock()
				for _, v := range viol {
					c.Violation(v, nil)
				}
				for i := range finished {
					done[i] = true
				}
				var dead []int
				for i := range started {
					if !finished[i] {
						dead = append(dead, i)
					}
				}
				crashed = append(crashed, dead...)
				mu.Unlock()
				if clean || len(dead) == 0 {
					return
				}
				// mark the crashed case done and continue: workers skip nothing by themselves, so give up restarts
				// (the remaining cases of this share are run individually below)
				return
			}
		}(w)
	}
	wg.Wait()
	// cases not finished (after a crash in their worker): run each in isolation
	var pending []int
	for i := range cs {
		if !done[i] {
			pending = append(pending, i)
		}
	}
	isCrash := map[int]bool{}
	for _, i := range crashed {
		isCrash[i] = true
	}
	c.Par(len(pending), func(pi int) {
		i := pending[pi]
		reps := 1
		if isCrash[i] {
			reps = 2 // re-run the suspected case twice in isolation before believing it
		}
		dies := 0
		for r := 0; r < reps; r++ {
			_, finished, viol, _, stderr := spawn([]string{fmt.Sprintf("VERIF_C35_ONLY=%d", i), "VERIF_C35_K=1", "VERIF_C35_W=0"})
			if !finished[i] {
				dies++
				if dies == reps {
					c.Violation(fmt.Sprintf("NewFile terminates the process (os.Exit or fatal error); case=%s", cs[i].name), firstLine(stderr))
				}
				continue
			}
			for _, v := range viol {
				c.Violation(v, nil)
			}
			break
		}
	})
	nCat, nBase := 0, 0
	for _, tc := range cs {
		if tc.mustReject {
			nCat++
		}
		if tc.mustAccept {
			nBase++
		}
	}
	c.Eval(int64(len(cs)) * 2)
	c.DistinctN(int64(len(cs)))
	c.Bounds["cases"] = len(cs)
	c.Bounds["catalogue_cases"] = nCat
	c.Bounds["valid_bases"] = nBase
	c.Extra("cases_rerun_in_isolation", len(pending))
	c.Sample(map[string]any{"catalogue": "proto3: required field", "expect": "rejected"})
	c.Sample(map[string]any{"generic_edit": "/4[0]/2[1].type_name = a..b", "expect": "returns (any verdict)"})
}
