// Package c14: decoded and cloned messages never alias caller memory.
package c14

import (
	"bufio"
	"bytes"
	"fmt"

	"google.golang.org/protobuf/encoding/protodelim"
	"google.golang.org/protobuf/encoding/protowire"
	"google.golang.org/protobuf/proto"
	"google.golang.org/protobuf/reflect/protoreflect"
	"google.golang.org/protobuf/verifmc/core"
	"google.golang.org/protobuf/verifmc/univ"
)

func init() { core.Register("C14", "exploration", run) }

// scramble mutates everything mutable that is reachable from m: bytes values
// and unknown-field buffers are complemented in place, lists are overwritten,
// appended to and truncated, map entries overwritten and added, scalars reset.
func scramble(m protoreflect.Message) {
	if u := m.GetUnknown(); len(u) > 0 {
		for i := range u {
			u[i] ^= 0xff
		}
	}
	var fds []protoreflect.FieldDescriptor
	var vals []protoreflect.Value
	m.Range(func(fd protoreflect.FieldDescriptor, v protoreflect.Value) bool {
		fds = append(fds, fd)
		vals = append(vals, v)
		return true
	})
	flip := func(v protoreflect.Value) {
		if b, ok := v.Interface().([]byte); ok {
			for i := range b {
				b[i] ^= 0xff
			}
		}
	}
	for i, fd := range fds {
		v := vals[i]
		switch {
		case fd.IsList():
			l := v.List()
			for j := 0; j < l.Len(); j++ {
				if fd.Message() != nil {
					scramble(l.Get(j).Message())
				} else {
					flip(l.Get(j))
				}
			}
			if l.Len() > 0 && fd.Message() == nil {
				l.Set(0, zeroVal(fd))
			}
			if fd.Message() != nil {
				l.Append(l.NewElement())
			} else {
				l.Append(zeroVal(fd))
			}
		case fd.IsMap():
			mp := v.Map()
			var keys []protoreflect.MapKey
			mp.Range(func(k protoreflect.MapKey, mv protoreflect.Value) bool {
				keys = append(keys, k)
				if fd.MapValue().Message() != nil {
					scramble(mv.Message())
				} else {
					flip(mv)
				}
				return true
			})
			for _, k := range keys {
				if fd.MapValue().Message() == nil {
					mp.Set(k, zeroVal(fd.MapValue()))
				}
			}
		case fd.Message() != nil:
			scramble(v.Message())
		default:
			flip(v)
			if fd.Kind() == protoreflect.BytesKind {
				m.Set(fd, protoreflect.ValueOfBytes([]byte("zz")))
			} else if fd.Kind() == protoreflect.StringKind {
				m.Set(fd, protoreflect.ValueOfString("zz"))
			} else {
				m.Clear(fd)
			}
		}
	}
	m.SetUnknown(append(m.GetUnknown(), 0x08, 0x01))
}

// zeroVal returns a fixed scalar value of the field's kind.
func zeroVal(fd protoreflect.FieldDescriptor) protoreflect.Value {
	switch fd.Kind() {
	case protoreflect.BoolKind:
		return protoreflect.ValueOfBool(true)
	case protoreflect.Int32Kind, protoreflect.Sint32Kind, protoreflect.Sfixed32Kind:
		return protoreflect.ValueOfInt32(77)
	case protoreflect.Int64Kind, protoreflect.Sint64Kind, protoreflect.Sfixed64Kind:
		return protoreflect.ValueOfInt64(77)
	case protoreflect.Uint32Kind, protoreflect.Fixed32Kind:
		return protoreflect.ValueOfUint32(77)
	case protoreflect.Uint64Kind, protoreflect.Fixed64Kind:
		return protoreflect.ValueOfUint64(77)
	case protoreflect.FloatKind:
		return protoreflect.ValueOfFloat32(77)
	case protoreflect.DoubleKind:
		return protoreflect.ValueOfFloat64(77)
	case protoreflect.StringKind:
		return protoreflect.ValueOfString("zz")
	case protoreflect.BytesKind:
		return protoreflect.ValueOfBytes([]byte("zz"))
	case protoreflect.EnumKind:
		return protoreflect.ValueOfEnum(fd.Enum().Values().Get(0).Number())
	}
	panic("zeroVal: " + fd.Kind().String())
}

func leafContent(md protoreflect.MessageDescriptor) []byte {
	// first scalar varint / bytes field gets a value, so that the innermost message is non-empty
	for _, fd := range univ.SortedFields(md) {
		if fd.IsList() || fd.IsMap() || fd.Message() != nil {
			continue
		}
		switch fd.Kind() {
		case protoreflect.Int32Kind, protoreflect.Int64Kind, protoreflect.Uint32Kind, protoreflect.Uint64Kind:
			return protowire.AppendVarint(protowire.AppendTag(nil, fd.Number(), protowire.VarintType), 42)
		case protoreflect.BytesKind, protoreflect.StringKind:
			return protowire.AppendBytes(protowire.AppendTag(nil, fd.Number(), protowire.BytesType), []byte("leaf"))
		}
	}
	return nil
}

type plan struct {
	name  string
	k     int
	depth int
	thin  bool
	wireN int
	nest  int
}

func plans(c *core.Ctx) []plan {
	q := c.Quick()
	return []plan{
		{name: "opaque.goproto.proto.testeditions.TestAllTypes", k: core.Pick(c, 1, 2), depth: 2, thin: true, wireN: core.Pick(c, 1, 2), nest: core.Pick(c, 4, 5)},
		{name: "goproto.proto.test.TestAllTypes", k: core.Pick(c, 1, 2), depth: 2, thin: true, wireN: 1, nest: 3},
		{name: "goproto.proto.test3.TestAllTypes", k: 1, depth: 2, thin: q, nest: 3},
		{name: "hybrid.goproto.proto.testeditions.TestAllTypes", k: 1, depth: 2, thin: true, wireN: 1, nest: 4},
		{name: "goproto.proto.test.TestAllExtensions", k: core.Pick(c, 1, 2), depth: 2, thin: true},
		{name: "opaque.lazy_tree.Node", k: 2, depth: 4, wireN: 2, nest: 5},
		{name: "hybrid.lazy_tree.Node", k: 2, depth: 3, thin: true, wireN: 2, nest: 4},
		{name: "goproto.proto.test.OpaqueLazy", k: 2, depth: 3, thin: true, wireN: 2, nest: 4},
		{name: "goproto.proto.test.HybridLazy", k: 2, depth: 3, thin: true, wireN: 2, nest: 4},
		{name: "goproto.proto.test.OpenLazy", k: 2, depth: 3, thin: true, nest: 4},
		{name: "goproto.proto.test.Open", k: 2, depth: 3, thin: true, nest: 4},
		{name: "goproto.proto.test.Hybrid", k: 2, depth: 3, thin: true, nest: 4},
		{name: "goproto.proto.test.Opaque", k: 2, depth: 3, thin: true, nest: 4},
		{name: "goproto.proto.test.TestRequiredLazy", k: 2, depth: 2, wireN: 2, nest: 3},
		{name: "pb2.Nests", k: 2, depth: 3, thin: true, nest: 4},
		{name: "pb2.Maps", k: 2, depth: 2, thin: true},
		{name: "google.protobuf.Struct", k: 2, depth: 3, nest: 3},
	}
}

func run(c *core.Ctx) {
	c.Rule = "inputs = encodings of all messages with <=k slots per type, all decodable sequences of <=n wire records, and nesting chains (message/group/map/lazy wrappers to depth <=5, innermost message non-empty); for each: decode from a private buffer (lazy / eager / Merge into a fresh message, generated and dynamicpb), complement every byte of the buffer BEFORE the message is first read, and compare its snapshot and deterministic bytes with those of a message decoded from a pristine copy; Clone and Merge(dst,src) with dst empty and with dst already holding the same fields: scramble every mutable part of the source (in-place byte flips of bytes fields and unknown buffers, list Set/Append, map Set, scalar resets, recursively) and require the clone/destination unchanged, and vice versa; protodelim over bufio readers of size 16..64: the first message must be unchanged after the next message overwrote the reader's buffer"
	c.Exhaustive = true
	var planOut []map[string]any
	for _, p := range plans(c) {
		if c.Expired() {
			break
		}
		md := univ.MT(p.name).Descriptor()
		alpha := univ.Alphabet(md, p.depth, univ.Opt{Thin: p.thin})
		gen, dyn := univ.Gen(p.name), univ.Dyn(p.name)
		// (1) decode aliasing
		var inputs []univ.Rec
		n := univ.TupleCount(len(alpha), p.k)
		for i := 0; i < n; i++ {
			slots := univ.PickSlots(alpha, univ.TupleAt(len(alpha), p.k, i, nil), nil)
			b, err := proto.MarshalOptions{AllowPartial: true}.Marshal(gen.Build(slots).Interface())
			if err == nil {
				inputs = append(inputs, univ.Rec{Name: "enc" + univ.Names(slots), B: b})
			}
		}
		nMsgs := len(inputs)
		if p.wireN > 0 {
			recs := univ.WireAlphabet(md, univ.WireOpt{Small: true, Depth: 1})
			t := univ.TupleCount(len(recs), p.wireN)
			for i := 0; i < t; i++ {
				b, name := univ.Concat(recs, univ.TupleAt(len(recs), p.wireN, i, nil))
				inputs = append(inputs, univ.Rec{Name: "wire" + name, B: b})
			}
		}
		if p.nest > 0 {
			ns := univ.Nestings(md, p.nest, leafContent)
			if len(ns) > 6000 {
				ns = ns[:6000]
			}
			for _, r := range ns {
				inputs = append(inputs, univ.Rec{Name: "nest(" + r.Name + ")", B: r.B})
			}
		}
		c.Par(len(inputs), func(i int) {
			in := inputs[i]
			for _, f := range []univ.Flavor{gen, dyn} {
				for mode := 0; mode < 3; mode++ {
					if f.Dynamic && mode == 0 {
						continue
					}
					uo := proto.UnmarshalOptions{AllowPartial: true, NoLazyDecoding: mode == 1, Merge: mode == 2}
					sig := func() string {
						return fmt.Sprintf("unmarshal-aliases-input type=%s mode=%d input=%s", f.Name, mode, in.Name)
					}
					c.Guard(sig, func() {
						ref, err := f.Unmarshal(append([]byte{}, in.B...), uo)
						if err != nil {
							return
						}
						c.Eval(1)
						want := univ.Snapshot(ref)
						buf := append(make([]byte, 0, len(in.B)+8), in.B...)
						m, err := f.Unmarshal(buf, uo)
						if err != nil {
							c.Violation("unmarshal verdict depends on buffer copy: "+sig(), nil)
							return
						}
						for j := range buf {
							buf[j] ^= 0xff
						}
						buf = buf[:cap(buf)]
						for j := range buf {
							buf[j] = 0x5a
						}
						// default marshal first (does not expand lazy fields), then the reflective snapshot
						b1, _ := proto.MarshalOptions{AllowPartial: true}.Marshal(m.Interface())
						m1, err := f.Unmarshal(b1, proto.UnmarshalOptions{AllowPartial: true})
						if err != nil || univ.Snapshot(m1) != want {
							c.Violation(sig()+" observed=marshal-before-access", map[string]any{"want": want})
							return
						}
						if got := univ.Snapshot(m); got != want {
							c.Violation(sig()+" observed=snapshot", map[string]any{"want": want, "got": got})
						}
					})
				}
			}
		})
		// (2),(3) Clone and Merge aliasing on the message universe
		c.Par(nMsgs, func(i int) {
			slots := univ.PickSlots(alpha, univ.TupleAt(len(alpha), p.k, i, nil), nil)
			name := univ.Names(slots)
			for _, f := range []univ.Flavor{gen, dyn} {
				c.Guard(func() string { return "clone/merge type=" + f.Name + " case=" + name }, func() {
					c.Eval(1)
					src := f.Build(slots)
					want := univ.Snapshot(src)
					cl := proto.Clone(src.Interface()).ProtoReflect()
					dst := f.MT.New()
					proto.Merge(dst.Interface(), src.Interface())
					// also a source that was decoded (lazy state) rather than built
					b, _ := proto.MarshalOptions{AllowPartial: true}.Marshal(src.Interface())
					dsrc, _ := f.Unmarshal(b, proto.UnmarshalOptions{AllowPartial: true})
					dcl := proto.Clone(dsrc.Interface()).ProtoReflect()
					ddst := f.MT.New()
					proto.Merge(ddst.Interface(), dsrc.Interface())
					dwant := univ.Snapshot(f.Build(slots))
					// a destination that already holds the same fields (same oneof members,
					// lists, maps, bytes): merging takes other paths than into an empty one
					full := f.Build(slots)
					proto.Merge(full.Interface(), src.Interface())
					fullWant := univ.Snapshot(full)
					scramble(src)
					scramble(dsrc)
					if got := univ.Snapshot(full); got != fullWant {
						c.Violation("merge-into-populated-dst-changes-when-source-mutated type="+f.Name+" case="+name, map[string]any{"want": fullWant, "got": got})
					}
					if got := univ.Snapshot(cl); got != want {
						c.Violation("clone-changes-when-source-mutated type="+f.Name+" case="+name, map[string]any{"want": want, "got": got})
					}
					if got := univ.Snapshot(dst); got != want {
						c.Violation("merge-dst-changes-when-source-mutated type="+f.Name+" case="+name, map[string]any{"want": want, "got": got})
					}
					if got := univ.SnapshotNorm(dcl); got != univ.NormSnap(dwant) && got != dwant {
						c.Violation("clone-of-decoded-changes-when-source-mutated type="+f.Name+" case="+name, map[string]any{"want": dwant, "got": got})
					}
					if got := univ.SnapshotNorm(ddst); got != univ.NormSnap(dwant) && got != dwant {
						c.Violation("merge-dst-of-decoded-changes-when-source-mutated type="+f.Name+" case="+name, map[string]any{"want": dwant, "got": got})
					}
					// the other direction: mutating the clone leaves the source alone
					src2 := f.Build(slots)
					cl2 := proto.Clone(src2.Interface()).ProtoReflect()
					scramble(cl2)
					if got := univ.Snapshot(src2); got != want {
						c.Violation("source-changes-when-clone-mutated type="+f.Name+" case="+name, map[string]any{"want": want, "got": got})
					}
				})
			}
		})
		c.DistinctN(int64(len(inputs) + nMsgs))
		planOut = append(planOut, map[string]any{"type": p.name, "decode_inputs": len(inputs), "clone_merge_messages": nMsgs})
		c.Sample(map[string]any{"type": p.name, "input": inputs[len(inputs)/2].Name})
	}
	// (4) protodelim
	delim(c)
	c.Bounds["plans"] = planOut
}

func delim(c *core.Ctx) {
	gen := univ.Gen("opaque.goproto.proto.testeditions.TestAllTypes")
	md := gen.MT.Descriptor()
	alpha := univ.Alphabet(md, 2, univ.Opt{Thin: true})
	ns := univ.Nestings(md, 3, leafContent)
	var msgs [][]byte
	for i := 0; i < len(alpha); i++ {
		b, err := proto.MarshalOptions{AllowPartial: true}.Marshal(gen.Build([]*univ.Slot{alpha[i]}).Interface())
		if err == nil && len(b) > 0 {
			msgs = append(msgs, b)
		}
	}
	for _, r := range ns {
		if len(r.B) > 0 && len(r.B) < 60 {
			msgs = append(msgs, r.B)
		}
	}
	filler := bytes.Repeat([]byte{0xff}, 40)
	var cases int
	c.Par(len(msgs), func(i int) {
		b := msgs[i]
		ref, err := gen.Unmarshal(b, proto.UnmarshalOptions{AllowPartial: true})
		if err != nil {
			return
		}
		want := univ.Snapshot(ref)
		var stream []byte
		stream = protowire.AppendVarint(stream, uint64(len(b)))
		stream = append(stream, b...)
		// second message: an unknown bytes field full of 0xff that will overwrite the reader's buffer
		second := protowire.AppendBytes(protowire.AppendTag(nil, 100000, protowire.BytesType), filler)
		stream = protowire.AppendVarint(stream, uint64(len(second)))
		stream = append(stream, second...)
		for _, size := range []int{16, 17, 32, 64, 128} {
			c.Guard(func() string { return fmt.Sprintf("protodelim bufio=%d msg=%x", size, b) }, func() {
				c.Eval(1)
				r := bufio.NewReaderSize(bytes.NewReader(stream), size)
				m := gen.MT.New()
				if err := (protodelim.UnmarshalOptions{}).UnmarshalFrom(r, m.Interface()); err != nil {
					// AllowPartial is not available through protodelim's zero options for required fields; skip
					return
				}
				m2 := gen.MT.New()
				if err := (protodelim.UnmarshalOptions{}).UnmarshalFrom(r, m2.Interface()); err != nil {
					c.Violation(fmt.Sprintf("protodelim second message fails bufio=%d msg=%x", size, b), err.Error())
					return
				}
				if got := univ.Snapshot(m); got != want {
					c.Violation(fmt.Sprintf("protodelim-message-aliases-reader-buffer bufio=%d msg=%x", size, b), map[string]any{"want": want, "got": got})
				}
			})
		}
	})
	cases = len(msgs) * 5
	c.DistinctN(int64(cases))
	c.Bounds["protodelim_cases"] = cases
}
