package wkt

import (
	"encoding/base64"
	"encoding/json"
	"fmt"
	"math"
	"reflect"
	"sync/atomic"
	"unicode/utf8"

	"google.golang.org/protobuf/encoding/protojson"
	"google.golang.org/protobuf/proto"
	"google.golang.org/protobuf/reflect/protoreflect"
	"google.golang.org/protobuf/types/known/anypb"
	"google.golang.org/protobuf/types/known/structpb"
	"google.golang.org/protobuf/verifmc/core"
	"google.golang.org/protobuf/verifmc/univ"
)

func protoreflectName(s string) protoreflect.Name { return protoreflect.Name(s) }

// conv is the documented conversion of NewValue: the value AsInterface must return.
func conv(v any) (any, bool) {
	switch x := v.(type) {
	case nil:
		return nil, true
	case bool:
		return x, true
	case int:
		return float64(x), true
	case int8:
		return float64(x), true
	case int16:
		return float64(x), true
	case int32:
		return float64(x), true
	case int64:
		return float64(x), true
	case uint:
		return float64(x), true
	case uint8:
		return float64(x), true
	case uint16:
		return float64(x), true
	case uint32:
		return float64(x), true
	case uint64:
		return float64(x), true
	case float32:
		return nonFinite(float64(x)), true
	case float64:
		return nonFinite(x), true
	case json.Number:
		f, err := x.Float64()
		return f, err == nil
	case string:
		return x, utf8.ValidString(x)
	case []byte:
		return base64.StdEncoding.EncodeToString(x), true
	case map[string]any:
		out := map[string]any{}
		for k, e := range x {
			if !utf8.ValidString(k) {
				return nil, false
			}
			ce, ok := conv(e)
			if !ok {
				return nil, false
			}
			out[k] = ce
		}
		return out, true
	case []any:
		out := make([]any, len(x))
		for i, e := range x {
			ce, ok := conv(e)
			if !ok {
				return nil, false
			}
			out[i] = ce
		}
		return out, true
	}
	return nil, false
}

// nonFinite: AsInterface documents that NaN and the infinities come back as
// the strings "NaN", "Infinity", "-Infinity" (compatibility with MarshalJSON).
func nonFinite(f float64) any {
	switch {
	case math.IsNaN(f):
		return "NaN"
	case math.IsInf(f, 1):
		return "Infinity"
	case math.IsInf(f, -1):
		return "-Infinity"
	}
	return f
}

func inputNonFinite(v any) bool {
	switch x := v.(type) {
	case float64:
		return math.IsNaN(x) || math.IsInf(x, 0)
	case float32:
		return math.IsNaN(float64(x)) || math.IsInf(float64(x), 0)
	case map[string]any:
		for _, e := range x {
			if inputNonFinite(e) {
				return true
			}
		}
	case []any:
		for _, e := range x {
			if inputNonFinite(e) {
				return true
			}
		}
	}
	return false
}

func leaves() []any {
	return []any{nil, true, false, 0, math.Copysign(0, -1), 1.5, math.MaxFloat64, math.SmallestNonzeroFloat64, int(7), int64(math.MaxInt64), uint64(math.MaxUint64), int32(-5), uint8(200), float32(1.5), "", "é", "a\xffb", []byte{1}, []byte{}, json.Number("12"), math.NaN(), math.Inf(1), struct{}{}}
}

func deepEq(a, b any) bool {
	// NaN-aware deep equality
	switch x := a.(type) {
	case float64:
		y, ok := b.(float64)
		return ok && (x == y && math.Signbit(x) == math.Signbit(y) || x != x && y != y)
	case map[string]any:
		y, ok := b.(map[string]any)
		if !ok || len(x) != len(y) {
			return false
		}
		for k, v := range x {
			w, ok := y[k]
			if !ok || !deepEq(v, w) {
				return false
			}
		}
		return true
	case []any:
		y, ok := b.([]any)
		if !ok || len(x) != len(y) {
			return false
		}
		for i := range x {
			if !deepEq(x[i], y[i]) {
				return false
			}
		}
		return true
	}
	return reflect.DeepEqual(a, b)
}

func hasNonFinite(v any) bool {
	switch x := v.(type) {
	case float64:
		return math.IsNaN(x) || math.IsInf(x, 0)
	case map[string]any:
		for _, e := range x {
			if hasNonFinite(e) {
				return true
			}
		}
	case []any:
		for _, e := range x {
			if hasNonFinite(e) {
				return true
			}
		}
	}
	return false
}

func runC45(c *core.Ctx) {
	c.Rule = "JSON-like Go values of depth <=2 (quick) / 3 (thorough) over 23 leaves (nil, bools, +-0, 1.5, MaxFloat64, denormal, int, MaxInt64, MaxUint64, int32, uint8, float32, strings incl. invalid UTF-8, []byte, json.Number, NaN, Inf, an unsupported type) with slices and maps of <=2 elements: NewValue fails iff the documented conversion is undefined (unsupported type, invalid UTF-8), otherwise AsInterface(NewValue(v)) deep-equals the documented conversion (integers and float32 to float64, []byte to base64), NewStruct/AsMap and NewList/AsSlice likewise, and for finite values encoding/json of AsInterface decodes to the same JSON value as protojson of the Value. anypb: for EVERY registered message type x every single-slot message: New / MarshalFrom / UnmarshalTo / UnmarshalNew / MessageIs / MessageName identities, MessageIs false for another type, UnmarshalTo into another type fails; MarshalFrom into an Any that already holds another case's message (the new message is held, a second Any sharing the old Value slice still denotes the old message, and wrapping the Any into itself yields the Any it was); UnmarshalTo into a destination that already holds another case's content, and UnmarshalNew, give exactly the verdict and content of proto.Unmarshal of the payload (partial and empty payloads included, with and without AllowPartial); for EVERY ordered pair of registered message types MessageIs is name equality and UnmarshalTo refuses the other type; 10 near-miss type URLs per type (prefix/suffix characters without a slash, trailing slash, nested slashes, empty): MessageName is the part after the last slash and MessageIs is equality with it"
	c.Exhaustive = true
	var n atomic.Int64
	var vals []any
	ls := leaves()
	vals = append(vals, ls...)
	depth := core.Pick(c, 2, 3)
	level := ls
	for d := 1; d < depth; d++ {
		var next []any
		for i, a := range level {
			next = append(next, []any{a}, map[string]any{"k": a})
			for j, b := range level {
				if (i+j)%core.Pick(c, 1, 3) != 0 && d > 1 {
					continue
				}
				next = append(next, []any{a, b}, map[string]any{"k": a, "é": b})
			}
		}
		next = append(next, []any{}, map[string]any{}, map[string]any{"\xff": 1})
		vals = append(vals, next...)
		level = next
	}
	c.Par(len(vals), func(i int) {
		v := vals[i]
		n.Add(1)
		want, ok := conv(v)
		pv, err := structpb.NewValue(v)
		if (err == nil) != ok {
			c.Violation(fmt.Sprintf("structpb.NewValue(%#v) error=%v but conversion defined=%v", v, err != nil, ok), fmt.Sprint(err))
			return
		}
		if err != nil {
			return
		}
		got := pv.AsInterface()
		if !deepEq(got, want) {
			c.Violation(fmt.Sprintf("AsInterface(NewValue(%#v)) = %#v want %#v", v, got, want), nil)
			return
		}
		if !inputNonFinite(v) {
			jb, err1 := json.Marshal(got)
			pb, err2 := protojson.Marshal(pv)
			if err1 != nil || err2 != nil {
				c.Violation(fmt.Sprintf("JSON marshal fails for finite value %#v", v), fmt.Sprint(err1, err2))
				return
			}
			var a, b any
			if json.Unmarshal(jb, &a) != nil || json.Unmarshal(pb, &b) != nil || !deepEq(a, b) {
				c.Violation(fmt.Sprintf("encoding/json of AsInterface (%s) and protojson of the Value (%s) differ for %#v", jb, pb, v), nil)
			}
		}
		if m, isMap := v.(map[string]any); isMap {
			st, err := structpb.NewStruct(m)
			if err != nil || !deepEq(st.AsMap(), want) {
				c.Violation(fmt.Sprintf("NewStruct(%#v).AsMap() = %#v (err=%v)", v, st.AsMap(), err), nil)
			}
		}
		if l, isList := v.([]any); isList {
			lv, err := structpb.NewList(l)
			if err != nil || !deepEq(lv.AsSlice(), want) {
				c.Violation(fmt.Sprintf("NewList(%#v).AsSlice() = %#v (err=%v)", v, lv.AsSlice(), err), nil)
			}
		}
	})
	c.Bounds["json_like_values"] = len(vals)
	// anypb over every registered type
	types := univ.AllMessageTypes()
	other := univ.MT("google.protobuf.Duration")
	var na atomic.Int64
	c.Par(len(types), func(i int) {
		mt := types[i]
		if _, ok := mt.New().Interface().(interface{ ProtoReflect() protoreflect.Message }); !ok {
			return
		}
		name := mt.Descriptor().FullName()
		if o, ok := mt.Descriptor().Options().(interface{ GetMessageSetWireFormat() bool }); ok && o.GetMessageSetWireFormat() {
			return // MessageSet needs -tags protolegacy (C47)
		}
		alpha := univ.Alphabet(mt.Descriptor(), 1, univ.Opt{Thin: true, NoExt: true})
		if len(alpha) > 40 {
			step := len(alpha) / 40
			var a2 []*univ.Slot
			for j := 0; j < len(alpha); j += step {
				a2 = append(a2, alpha[j])
			}
			alpha = a2
		}
		cases := [][]*univ.Slot{nil}
		for _, s := range alpha {
			cases = append(cases, []*univ.Slot{s})
		}
		for ci, slots := range cases {
			na.Add(1)
			c.Guard(func() string { return fmt.Sprintf("anypb type=%s case=%s", name, univ.Names(slots)) }, func() {
				m := univ.Build(mt, slots, nil).Interface()
				// UnmarshalTo / UnmarshalNew are proto.Unmarshal of the payload: same verdict
				// (required fields included) and same content, also when the destination
				// is not empty (it holds the neighbouring case's content) and when the
				// payload is empty
				if body, err := (proto.MarshalOptions{AllowPartial: true}).Marshal(m); err == nil {
					prev := cases[(ci+len(cases)-1)%len(cases)]
					x := &anypb.Any{TypeUrl: "type.googleapis.com/" + string(name), Value: body}
					for _, partial := range []bool{false, true} {
						uo := proto.UnmarshalOptions{AllowPartial: partial}
						ref := univ.Build(mt, prev, nil).Interface()
						refErr := uo.Unmarshal(body, ref)
						dst := univ.Build(mt, prev, nil).Interface()
						gotErr := anypb.UnmarshalTo(x, dst, uo)
						if (gotErr == nil) != (refErr == nil) || !proto.Equal(dst, ref) {
							c.Violation(fmt.Sprintf("anypb.UnmarshalTo into a used destination differs from proto.Unmarshal of the payload type=%s case=%s destination=%s AllowPartial=%v", name, univ.Names(slots), univ.Names(prev), partial), map[string]any{"err": fmt.Sprint(gotErr), "want_err": fmt.Sprint(refErr)})
						}
						if nm, err := anypb.UnmarshalNew(x, uo); (err == nil) != (uo.Unmarshal(body, mt.New().Interface()) == nil) || err == nil && !proto.Equal(nm, m) {
							c.Violation(fmt.Sprintf("anypb.UnmarshalNew differs from proto.Unmarshal of the payload type=%s case=%s AllowPartial=%v", name, univ.Names(slots), partial), fmt.Sprint(err))
						}
					}
				}
				// partial messages: Any helpers use default options, which require initialization
				if proto.CheckInitialized(m) != nil {
					return
				}
				// a reused Any: MarshalFrom replaces the payload; bytes handed out earlier
				// (another Any sharing the old Value slice) keep denoting the old message,
				// and wrapping an Any into itself yields the Any it was
				if m1 := univ.Build(mt, cases[(ci+len(cases)-1)%len(cases)], nil).Interface(); proto.CheckInitialized(m1) == nil {
					if a1, err := anypb.New(m1); err == nil {
						shared := &anypb.Any{TypeUrl: a1.TypeUrl, Value: a1.Value}
						if err := a1.MarshalFrom(m); err != nil {
							c.Violation(fmt.Sprintf("MarshalFrom into a used Any fails type=%s case=%s", name, univ.Names(slots)), err.Error())
						} else {
							if got, err := a1.UnmarshalNew(); err != nil || !proto.Equal(got, m) {
								c.Violation(fmt.Sprintf("MarshalFrom into a used Any does not hold the new message type=%s case=%s", name, univ.Names(slots)), fmt.Sprint(err))
							}
							if old, err := shared.UnmarshalNew(); err != nil || !proto.Equal(old, m1) {
								c.Violation(fmt.Sprintf("MarshalFrom into a used Any rewrites the payload bytes it handed out before type=%s case=%s", name, univ.Names(slots)), fmt.Sprint(err))
							}
							was := proto.Clone(a1)
							if err := a1.MarshalFrom(a1); err != nil {
								c.Violation(fmt.Sprintf("wrapping an Any into itself fails type=%s", name), err.Error())
							} else if inner, err := a1.UnmarshalNew(); err != nil || !proto.Equal(inner, was) {
								c.Violation(fmt.Sprintf("wrapping an Any into itself does not yield the Any it was type=%s case=%s", name, univ.Names(slots)), fmt.Sprint(err))
							}
						}
					}
				}
				a, err := anypb.New(m)
				if err != nil {
					c.Violation(fmt.Sprintf("anypb.New fails type=%s case=%s", name, univ.Names(slots)), err.Error())
					return
				}
				if a.MessageName() != name || !a.MessageIs(m) || a.MessageIs(other.New().Interface()) && name != "google.protobuf.Duration" {
					c.Violation(fmt.Sprintf("MessageName/MessageIs wrong type=%s url=%s", name, a.TypeUrl), nil)
				}
				dst := mt.New().Interface()
				if err := a.UnmarshalTo(dst); err != nil || !proto.Equal(dst, m) {
					c.Violation(fmt.Sprintf("UnmarshalTo does not reproduce the message type=%s case=%s", name, univ.Names(slots)), fmt.Sprint(err))
				}
				if name != "google.protobuf.Duration" {
					if err := a.UnmarshalTo(other.New().Interface()); err == nil {
						c.Violation(fmt.Sprintf("UnmarshalTo into a different type succeeds type=%s", name), nil)
					}
				}
				nm, err := a.UnmarshalNew()
				if err != nil || !proto.Equal(nm, m) || nm.ProtoReflect().Descriptor().FullName() != name {
					c.Violation(fmt.Sprintf("UnmarshalNew does not reproduce the message type=%s case=%s", name, univ.Names(slots)), fmt.Sprint(err))
				}
				var b anypb.Any
				if err := b.MarshalFrom(m); err != nil || b.MessageName() != name {
					c.Violation(fmt.Sprintf("MarshalFrom fails type=%s", name), fmt.Sprint(err))
				}
				back := mt.New().Interface()
				if err := anypb.UnmarshalTo(&b, back, proto.UnmarshalOptions{}); err != nil || !proto.Equal(back, m) {
					c.Violation(fmt.Sprintf("MarshalFrom/UnmarshalTo round trip differs type=%s case=%s", name, univ.Names(slots)), fmt.Sprint(err))
				}
				// URL forms: anything up to the last slash is ignored
				for _, url := range []string{string(name), "/" + string(name), "example.com/x/" + string(name)} {
					x := &anypb.Any{TypeUrl: url, Value: a.Value}
					if x.MessageName() != name || !x.MessageIs(m) {
						c.Violation(fmt.Sprintf("MessageName/MessageIs with url %q type=%s", url, name), nil)
					}
				}
			})
		}
	})
	// every ordered pair of registered types and every near-miss URL: MessageIs is name equality
	// on the part after the last slash, and UnmarshalTo refuses every other type
	var np atomic.Int64
	c.Par(len(types), func(i int) {
		ti := types[i]
		name := string(ti.Descriptor().FullName())
		c.Guard(func() string { return "anypb pairs type=" + name }, func() {
			a := &anypb.Any{TypeUrl: "type.googleapis.com/" + name}
			for j, tj := range types {
				np.Add(1)
				mj := tj.Zero().Interface()
				if got := a.MessageIs(mj); got != (i == j) {
					c.Violation(fmt.Sprintf("Any{%q}.MessageIs(%s)=%v", a.TypeUrl, tj.Descriptor().FullName(), got), nil)
				}
				if i != j {
					if err := a.UnmarshalTo(tj.New().Interface()); err == nil {
						c.Violation(fmt.Sprintf("Any{%q}.UnmarshalTo(%s) succeeds", a.TypeUrl, tj.Descriptor().FullName()), nil)
					}
				}
			}
			m := ti.Zero().Interface()
			for _, u := range []struct {
				url  string
				want string
			}{{"x" + name, "x" + name}, {name + "x", name + "x"}, {"a/x" + name, "x" + name}, {"a/x." + name, "x." + name}, {name + "/", ""}, {name + "/b", "b"}, {"a/" + name + "/" + name, name}, {"", ""}, {"/", ""}, {"type.googleapis.com/" + name[1:], name[1:]}} {
				np.Add(1)
				x := &anypb.Any{TypeUrl: u.url}
				if got := string(x.MessageName()); got != u.want {
					c.Violation(fmt.Sprintf("Any{%q}.MessageName()=%q want %q", u.url, got, u.want), nil)
				}
				if got := x.MessageIs(m); got != (u.want == name) {
					c.Violation(fmt.Sprintf("Any{%q}.MessageIs(%s)=%v", u.url, name, got), nil)
				}
			}
		})
	})
	c.Eval(np.Load())
	c.DistinctN(np.Load())
	c.Bounds["any_type_pairs_and_urls"] = np.Load()
	var nilAny *anypb.Any
	if nilAny.MessageName() != "" || nilAny.MessageIs(other.New().Interface()) {
		c.Violation("nil Any: MessageName/MessageIs", nil)
	}
	c.Eval(n.Load() + na.Load())
	c.DistinctN(n.Load() + na.Load())
	c.Bounds["any_cases"] = na.Load()
	c.Bounds["message_types"] = len(types)
	c.Sample(map[string]any{"value": "map[k:[]byte{1} é:MaxUint64]", "AsInterface": "map[k:\"AQ==\" é:1.8446744073709552e+19]"})
}
