package wkt

import (
	"fmt"
	"sort"
	"strings"
	"sync/atomic"

	"google.golang.org/protobuf/types/known/fieldmaskpb"
	"google.golang.org/protobuf/verifmc/core"
	"google.golang.org/protobuf/verifmc/univ"
)

// path universe: all paths of depth <= 3 over segments {a, b, ab}, plus "".
func pathUniverse(depth int) []string {
	segs := []string{"a", "b", "ab"}
	var out []string
	var rec func(cur string, d int)
	rec = func(cur string, d int) {
		if cur != "" {
			out = append(out, cur)
		}
		if d == depth {
			return
		}
		for _, s := range segs {
			if cur == "" {
				rec(s, d+1)
			} else {
				rec(cur+"."+s, d+1)
			}
		}
	}
	rec("", 0)
	return out
}

func covers(p, q string) bool { return q == p || strings.HasPrefix(q, p+".") }

// coverSet returns the set of probe paths covered by the path list.
func coverSet(list []string, probes []string) string {
	b := make([]byte, len(probes))
	for i, q := range probes {
		b[i] = '0'
		for _, p := range list {
			if covers(p, q) {
				b[i] = '1'
				break
			}
		}
	}
	return string(b)
}

func segLess(x, y string) bool {
	xs, ys := strings.Split(x, "."), strings.Split(y, ".")
	for i := 0; i < len(xs) && i < len(ys); i++ {
		if xs[i] != ys[i] {
			return xs[i] < ys[i]
		}
	}
	return len(xs) < len(ys)
}

func checkNormalized(c *core.Ctx, what string, in [][]string, out []string, wantCover string, probes []string) {
	if got := coverSet(out, probes); got != wantCover {
		c.Violation(fmt.Sprintf("%s%v = %v covers a different path set", what, in, out), nil)
		return
	}
	for i := range out {
		for j := range out {
			if i != j && covers(out[i], out[j]) {
				c.Violation(fmt.Sprintf("%s%v = %v is not prefix-free", what, in, out), nil)
				return
			}
		}
		if i > 0 && !segLess(out[i-1], out[i]) {
			c.Violation(fmt.Sprintf("%s%v = %v is not sorted", what, in, out), nil)
			return
		}
	}
	m := &fieldmaskpb.FieldMask{Paths: append([]string{}, out...)}
	m.Normalize()
	if strings.Join(m.Paths, ",") != strings.Join(out, ",") {
		c.Violation(fmt.Sprintf("Normalize is not idempotent on %s%v = %v", what, in, out), nil)
	}
}

func and(a, b string) string {
	o := make([]byte, len(a))
	for i := range a {
		o[i] = '0'
		if a[i] == '1' && b[i] == '1' {
			o[i] = '1'
		}
	}
	return string(o)
}

func or(a, b string) string {
	o := make([]byte, len(a))
	for i := range a {
		o[i] = '0'
		if a[i] == '1' || b[i] == '1' {
			o[i] = '1'
		}
	}
	return string(o)
}

func runC44(c *core.Ctx) {
	c.Rule = "path universe P = all paths of depth <=3 over segments {a, b, ab} (39 paths); coverage is judged over all paths of depth <=4 (120 probes): cover(S) = {q : some p in S equals q or is a dot-prefix of q}. Normalize on ALL lists of <=3 paths (61e3): result covers the same set, is prefix-free, sorted segment-wise and Normalize is idempotent on it; Union and Intersect on ALL pairs of lists of <=2 paths (2.4e6) and all triples of single-path lists for the variadic form: cover equals the union / intersection of the covers and the result is normalized. New / Append / IsValid on all paths of depth <=3 over 24 segment names of test and test3 TestAllTypes (singular message, repeated, map, the key / value names of map entries, oneof, scalar, unknown names, empty segments): accepted iff every segment names a field and every segment before the last is a singular message field"
	c.Exhaustive = true
	P := pathUniverse(3)
	probes := pathUniverse(4)
	var n atomic.Int64
	// lists of <= k paths
	lists := func(k int) [][]string {
		out := [][]string{{}}
		idx := univ.TupleCount(len(P), k)
		for i := 1; i < idx; i++ {
			t := univ.TupleAt(len(P), k, i, nil)
			l := make([]string, len(t))
			for j, x := range t {
				l[j] = P[x]
			}
			out = append(out, l)
		}
		return out
	}
	l3 := lists(core.Pick(c, 3, 3))
	c.Par(len(l3), func(i int) {
		m := &fieldmaskpb.FieldMask{Paths: append([]string{}, l3[i]...)}
		m.Normalize()
		checkNormalized(c, "Normalize", [][]string{l3[i]}, m.Paths, coverSet(l3[i], probes), probes)
		n.Add(1)
	})
	l2 := lists(2)
	covs := make([]string, len(l2))
	for i, l := range l2 {
		covs[i] = coverSet(l, probes)
	}
	c.Par(len(l2), func(i int) {
		for j := range l2 {
			x := &fieldmaskpb.FieldMask{Paths: append([]string{}, l2[i]...)}
			y := &fieldmaskpb.FieldMask{Paths: append([]string{}, l2[j]...)}
			u := fieldmaskpb.Union(x, y)
			checkNormalized(c, "Union", [][]string{l2[i], l2[j]}, u.Paths, or(covs[i], covs[j]), probes)
			it := fieldmaskpb.Intersect(x, y)
			checkNormalized(c, "Intersect", [][]string{l2[i], l2[j]}, it.Paths, and(covs[i], covs[j]), probes)
			if strings.Join(x.Paths, ",") != strings.Join(l2[i], ",") || strings.Join(y.Paths, ",") != strings.Join(l2[j], ",") {
				c.Violation(fmt.Sprintf("Union/Intersect modify their arguments %v %v", l2[i], l2[j]), nil)
			}
		}
		n.Add(int64(2 * len(l2)))
	})
	// variadic: triples of single-path lists
	c.Par(len(P), func(i int) {
		for j := range P {
			for k := range P {
				a, b, d := []string{P[i]}, []string{P[j]}, []string{P[k]}
				u := fieldmaskpb.Union(&fieldmaskpb.FieldMask{Paths: a}, &fieldmaskpb.FieldMask{Paths: b}, &fieldmaskpb.FieldMask{Paths: d})
				checkNormalized(c, "Union3", [][]string{a, b, d}, u.Paths, or(or(coverSet(a, probes), coverSet(b, probes)), coverSet(d, probes)), probes)
				it := fieldmaskpb.Intersect(&fieldmaskpb.FieldMask{Paths: a}, &fieldmaskpb.FieldMask{Paths: b}, &fieldmaskpb.FieldMask{Paths: d})
				checkNormalized(c, "Intersect3", [][]string{a, b, d}, it.Paths, and(and(coverSet(a, probes), coverSet(b, probes)), coverSet(d, probes)), probes)
			}
		}
		n.Add(int64(2 * len(P) * len(P)))
	})
	// validity against message types
	for _, name := range []string{"goproto.proto.test.TestAllTypes", "goproto.proto.test3.TestAllTypes"} {
		mt := univ.MT(name)
		m := mt.New().Interface()
		segs := []string{"optional_int32", "singular_int32", "optional_nested_message", "singular_nested_message", "a", "corecursive", "repeated_nested_message", "repeated_int32", "map_string_nested_message", "oneof_nested_message", "oneof_uint32", "optional_foreign_message", "singular_foreign_message", "c", "d", "nosuch", "", "optional_nested_enum", "optional_string", "recursive_message",
			// the synthetic entry message of a map field has fields named key and value: a path must not walk into it
			"key", "value", "map_int32_int32", "map_string_string"}
		var paths []string
		for _, s1 := range segs {
			paths = append(paths, s1)
			for _, s2 := range segs {
				paths = append(paths, s1+"."+s2)
				for _, s3 := range segs {
					paths = append(paths, s1+"."+s2+"."+s3)
				}
			}
		}
		valid := func(p string) bool {
			md := mt.Descriptor()
			parts := strings.Split(p, ".")
			for i, s := range parts {
				if md == nil {
					return false
				}
				fd := md.Fields().ByName(protoreflectName(s))
				if fd == nil {
					return false
				}
				md = nil
				if fd.Message() != nil && !fd.IsList() && !fd.IsMap() {
					md = fd.Message()
				}
				_ = i
			}
			return true
		}
		c.Par(len(paths), func(i int) {
			p := paths[i]
			want := valid(p)
			fm, err := fieldmaskpb.New(m, p)
			if (err == nil) != want {
				c.Violation(fmt.Sprintf("fieldmaskpb.New(%s, %q) error=%v want valid=%v", name, p, err != nil, want), nil)
			}
			if err == nil && (len(fm.Paths) != 1 || fm.Paths[0] != p) {
				c.Violation(fmt.Sprintf("fieldmaskpb.New(%s, %q) = %v", name, p, fm.Paths), nil)
			}
			if got := (&fieldmaskpb.FieldMask{Paths: []string{p}}).IsValid(m); got != want {
				c.Violation(fmt.Sprintf("FieldMask{%q}.IsValid(%s)=%v want %v", p, name, got, want), nil)
			}
			// Append: valid prefix kept, error on the first invalid path
			x := &fieldmaskpb.FieldMask{}
			err = x.Append(m, "optional_int32", p, "optional_string")
			if name == "goproto.proto.test.TestAllTypes" {
				if want && (err != nil || len(x.Paths) != 3) || !want && (err == nil || len(x.Paths) != 1) {
					c.Violation(fmt.Sprintf("Append(optional_int32, %q, optional_string) err=%v paths=%v (valid=%v)", p, err, x.Paths, want), nil)
				}
			}
			n.Add(3)
		})
	}
	c.Eval(n.Load())
	c.DistinctN(n.Load())
	c.Bounds["paths"] = len(P)
	c.Bounds["probe_paths"] = len(probes)
	c.Bounds["lists_le3"] = len(l3)
	c.Bounds["list_pairs"] = len(l2) * len(l2)
	c.Sample(map[string]any{"Intersect": [][]string{{"a", "ab.b"}, {"a.b", "ab"}}, "expect": []string{"a.b", "ab.b"}})
	_ = sort.Strings
	c.Assume("group fields are left out of the validity alphabet (they are addressed by their type name, a convention the statement does not cover)")
}
