// Package wkt holds C43 (Timestamp/Duration helpers), C44 (FieldMask algebra)
// and C45 (Struct/Value/Any conversions).
package wkt

import (
	"fmt"
	"math"
	"math/big"
	"time"

	"google.golang.org/protobuf/types/known/durationpb"
	"google.golang.org/protobuf/types/known/timestamppb"
	"google.golang.org/protobuf/verifmc/core"
)

func init() {
	core.Register("C43", "exploration", runC43)
	core.Register("C44", "exploration", runC44)
	core.Register("C45", "exploration", runC45)
}

func secLattice() []int64 {
	base := []int64{0, 1, 9223372035, 9223372036, 9223372037, 9223372038, 315576000000, 315576000001, 62135596800, 62135596801, 253402300799, 253402300800, math.MaxInt64, math.MaxInt64 - 1, 1 << 32, 1 << 53}
	seen := map[int64]bool{}
	var out []int64
	add := func(v int64) {
		if !seen[v] {
			seen[v] = true
			out = append(out, v)
		}
	}
	for _, b := range base {
		for d := int64(-2); d <= 2; d++ {
			if b+d >= b-2 { // no overflow at MaxInt64
				add(b + d)
			}
			add(-(b) + d)
		}
	}
	add(math.MinInt64)
	add(math.MinInt64 + 1)
	return out
}

func nanoLattice() []int32 {
	base := []int32{0, 1, 999999999, 1000000000, 854775807, 854775808, 145224192, 500000000}
	var out []int32
	for _, b := range base {
		for d := int32(-1); d <= 1; d++ {
			out = append(out, b+d, -(b + d))
		}
	}
	return append(out, math.MaxInt32, math.MinInt32, math.MinInt32+1)
}

func runC43(c *core.Ctx) {
	c.Rule = "the full product of a seconds lattice (0, +-1, +-9223372036 +-2, +-315576000000 +-2, -62135596800 +-2, 253402300799 +-2, 2^32, 2^53, MinInt64, MinInt64+1, MaxInt64-2..MaxInt64; 150 values) and a nanos lattice (0, +-1, +-999999999 +-1, +-10^9 +-1, +-854775807 +-1, +-145224192, MinInt32, MaxInt32; 51 values): Duration.AsDuration must equal clamp(seconds*10^9 + nanos) computed with math/big; IsValid / CheckValid of Duration and Timestamp must classify by the documented ranges; Timestamp.AsTime must denote seconds*10^9+nanos; time.Duration lattice (0, +-1, +-2^k +-1, multiples of 10^9 +-1, Min, Max): New(d).AsDuration()==d and New(d) is valid; time.Time lattice (unix seconds within the time.Time range x nsec {0,1,999999999} with UTC / fixed zone / monotonic reading): New(t).AsTime() equals t"
	c.Exhaustive = true
	secs, nanos := secLattice(), nanoLattice()
	maxD, minD := big.NewInt(math.MaxInt64), big.NewInt(math.MinInt64)
	n := 0
	for _, s := range secs {
		for _, ns := range nanos {
			n++
			exact := new(big.Int).Mul(big.NewInt(s), big.NewInt(1e9))
			exact.Add(exact, big.NewInt(int64(ns)))
			want := exact
			if exact.Cmp(maxD) > 0 {
				want = maxD
			} else if exact.Cmp(minD) < 0 {
				want = minD
			}
			d := &durationpb.Duration{Seconds: s, Nanos: ns}
			if got := d.AsDuration(); int64(got) != want.Int64() {
				c.Violation(fmt.Sprintf("Duration(%d,%d).AsDuration()=%d want clamp(exact)=%d", s, ns, int64(got), want.Int64()), nil)
			}
			dValid := s >= -315576000000 && s <= 315576000000 && ns > -1000000000 && ns < 1000000000 && !(s > 0 && ns < 0) && !(s < 0 && ns > 0)
			if d.IsValid() != dValid || (d.CheckValid() == nil) != dValid {
				c.Violation(fmt.Sprintf("Duration(%d,%d): IsValid=%v CheckValid=%v want valid=%v", s, ns, d.IsValid(), d.CheckValid(), dValid), nil)
			}
			t := &timestamppb.Timestamp{Seconds: s, Nanos: ns}
			tValid := s >= -62135596800 && s <= 253402300799 && ns >= 0 && ns < 1000000000
			if t.IsValid() != tValid || (t.CheckValid() == nil) != tValid {
				c.Violation(fmt.Sprintf("Timestamp(%d,%d): IsValid=%v CheckValid=%v want valid=%v", s, ns, t.IsValid(), t.CheckValid(), tValid), nil)
			}
			if tValid {
				at := t.AsTime()
				if at.Unix() != s || at.Nanosecond() != int(ns) || at.Location() != time.UTC {
					c.Violation(fmt.Sprintf("Timestamp(%d,%d).AsTime()=%v", s, ns, at), nil)
				}
			}
		}
	}
	var nilD *durationpb.Duration
	var nilT *timestamppb.Timestamp
	if nilD.IsValid() || nilD.CheckValid() == nil || nilT.IsValid() || nilT.CheckValid() == nil {
		c.Violation("nil Duration/Timestamp reported valid", nil)
	}
	// time.Duration lattice
	var ds []time.Duration
	ds = append(ds, 0, 1, -1, math.MaxInt64, math.MinInt64, math.MaxInt64-1, math.MinInt64+1)
	for k := uint(0); k < 63; k++ {
		for d := int64(-1); d <= 1; d++ {
			ds = append(ds, time.Duration(int64(1)<<k+d), time.Duration(-(int64(1)<<k)+d))
		}
	}
	for _, m := range []int64{1, 2, 59, 3600, 9223372036} {
		for d := int64(-1); d <= 1; d++ {
			ds = append(ds, time.Duration(m*1e9+d), time.Duration(-m*1e9+d))
		}
	}
	for _, d := range ds {
		n++
		p := durationpb.New(d)
		if got := p.AsDuration(); got != d {
			c.Violation(fmt.Sprintf("durationpb.New(%d).AsDuration()=%d", int64(d), int64(got)), nil)
		}
		if !p.IsValid() {
			c.Violation(fmt.Sprintf("durationpb.New(%d) is not valid: (%d,%d)", int64(d), p.Seconds, p.Nanos), nil)
		}
	}
	// time.Time lattice
	zones := []*time.Location{time.UTC, time.FixedZone("x", 3600*5+1800), time.FixedZone("y", -3600*11)}
	for _, s := range secs {
		if s < -62135596800-1000 || s > 253402300799+1000 {
			continue
		}
		for _, ns := range []int64{0, 1, 999999999} {
			for _, z := range zones {
				n++
				tm := time.Unix(s, ns).In(z)
				p := timestamppb.New(tm)
				if !p.AsTime().Equal(tm) || p.Seconds != s || int64(p.Nanos) != ns {
					c.Violation(fmt.Sprintf("timestamppb.New(%v) = (%d,%d), AsTime=%v", tm, p.Seconds, p.Nanos, p.AsTime()), nil)
				}
			}
		}
	}
	now := time.Now() // carries a monotonic reading
	if p := timestamppb.New(now); !p.AsTime().Equal(now) {
		c.Violation("timestamppb.New(time.Now()) does not round trip", nil)
	}
	c.Eval(int64(n))
	c.DistinctN(int64(n))
	c.Bounds["seconds_lattice"] = len(secs)
	c.Bounds["nanos_lattice"] = len(nanos)
	c.Sample(map[string]any{"seconds": 9223372037, "nanos": -999999999, "exact_ns": "9223372036000000001", "expect": "AsDuration == exact (fits)"})
}
