package c03

import (
	"fmt"
	"google.golang.org/protobuf/internal/impl"
	"reflect"

	"google.golang.org/protobuf/proto"
	"google.golang.org/protobuf/reflect/protoreflect"
	"google.golang.org/protobuf/types/dynamicpb"
	"google.golang.org/protobuf/verifmc/core"
	"google.golang.org/protobuf/verifmc/univ"
)

// nilComposites: content that exists only through the Go API of open-struct
// messages: a map<K, Message> entry whose Go value is a nil pointer and a
// repeated message element that is a nil pointer, and a oneof set to the wrapper
// of a message member whose message pointer is nil (all encoded as an empty
// message). Every such field of every registered open-struct type: Size must
// equal the length of the encoding, at top level and inside a length-prefixed
// parent, and the encoding must decode to the entry with an empty message.
// NilCompositesInitialized runs the same content through the required-field
// checks (C10): a nil message value / element / oneof payload is an empty
// message, so CheckInitialized and a strict Marshal must fail exactly when the
// independent walk over the decoded encoding finds a required field unset.
func NilCompositesInitialized(c *core.Ctx) { nilCompositesMode(c, true) }

func nilComposites(c *core.Ctx) { nilCompositesMode(c, false) }

func nilCompositesMode(c *core.Ctx, initOnly bool) {
	n := 0
	for _, mt := range univ.AllMessageTypes() {
		zero := mt.New().Interface()
		rt := reflect.TypeOf(zero)
		if rt.Kind() != reflect.Ptr || rt.Elem().Kind() != reflect.Struct {
			continue
		}
		md := mt.Descriptor()
		if o, ok := md.Options().(interface{ GetMessageSetWireFormat() bool }); ok && o.GetMessageSetWireFormat() {
			continue
		}
		type nilCase struct {
			name  string
			build func() proto.Message
		}
		var cases []nilCase
		// a oneof set to the wrapper of a message member whose message pointer is nil
		// ("set to the empty message"; only constructible through the struct)
		if mi, ok := mt.(*impl.MessageInfo); ok {
			for _, wr := range mi.OneofWrappers {
				wt := reflect.TypeOf(wr) // *Wrapper
				if wt.Kind() != reflect.Ptr || wt.Elem().Kind() != reflect.Struct || wt.Elem().NumField() != 1 {
					continue
				}
				ft := wt.Elem().Field(0).Type
				if ft.Kind() != reflect.Ptr || !ft.Implements(reflect.TypeOf((*proto.Message)(nil)).Elem()) {
					continue
				}
				for i := 0; i < rt.Elem().NumField(); i++ {
					sf := rt.Elem().Field(i)
					if sf.PkgPath != "" || sf.Tag.Get("protobuf_oneof") == "" || !wt.Implements(sf.Type) {
						continue
					}
					i, wt := i, wt
					cases = append(cases, nilCase{fmt.Sprintf("type=%s oneof-wrapper=%s (nil message inside)", md.FullName(), wt.Elem().Name()), func() proto.Message {
						m := reflect.New(rt.Elem())
						m.Elem().Field(i).Set(reflect.New(wt.Elem()))
						return m.Interface().(proto.Message)
					}})
				}
			}
		}
		for i := 0; i < rt.Elem().NumField(); i++ {
			sf := rt.Elem().Field(i)
			if sf.PkgPath != "" || sf.Tag.Get("protobuf") == "" {
				continue
			}
			isMapOfMsg := sf.Type.Kind() == reflect.Map && sf.Type.Elem().Kind() == reflect.Ptr && sf.Type.Elem().Implements(reflect.TypeOf((*proto.Message)(nil)).Elem())
			isListOfMsg := sf.Type.Kind() == reflect.Slice && sf.Type.Elem().Kind() == reflect.Ptr && sf.Type.Elem().Implements(reflect.TypeOf((*proto.Message)(nil)).Elem())
			if !isMapOfMsg && !isListOfMsg {
				continue
			}
			i, sf := i, sf
			cases = append(cases, nilCase{fmt.Sprintf("type=%s go-field=%s", md.FullName(), sf.Name), func() proto.Message {
				m := reflect.New(rt.Elem())
				if isMapOfMsg {
					mp := reflect.MakeMap(sf.Type)
					mp.SetMapIndex(reflect.Zero(sf.Type.Key()), reflect.Zero(sf.Type.Elem()))
					m.Elem().Field(i).Set(mp)
				} else {
					m.Elem().Field(i).Set(reflect.Append(reflect.MakeSlice(sf.Type, 0, 1), reflect.Zero(sf.Type.Elem())))
				}
				return m.Interface().(proto.Message)
			}})
		}
		for _, nc := range cases {
			n++
			name := nc.name
			c.Eval(1)
			c.Guard(func() string { return "nil composite " + name }, func() {
				msg := nc.build()
				if initOnly {
					b, err := proto.MarshalOptions{AllowPartial: true}.Marshal(msg)
					if err != nil {
						return
					}
					ref := dynamicpb.NewMessage(md)
					if err := (proto.UnmarshalOptions{AllowPartial: true}).Unmarshal(b, ref); err != nil {
						return
					}
					want := univ.Initialized(ref)
					if got := proto.CheckInitialized(msg) == nil; got != want {
						c.Violation(fmt.Sprintf("CheckInitialized says initialized=%v for content that is initialized=%v (nil message value/element/payload): %s", got, want, name), fmt.Sprintf("%x", b))
					}
					if _, err := proto.Marshal(msg); (err == nil) != want {
						c.Violation(fmt.Sprintf("strict Marshal error=%v for content that is initialized=%v (nil message value/element/payload): %s", err != nil, want, name), nil)
					}
					return
				}
				for _, det := range []bool{false, true} {
					mo := proto.MarshalOptions{AllowPartial: true, Deterministic: det}
					b, err := mo.Marshal(msg)
					if err != nil {
						c.Violation(fmt.Sprintf("Marshal fails for a nil message value/element: %s deterministic=%v", name, det), err.Error())
						return
					}
					if s := mo.Size(msg); s != len(b) {
						c.Violation(fmt.Sprintf("Size=%d != len(Marshal)=%d for a nil message value/element: %s deterministic=%v", s, len(b), name, det), fmt.Sprintf("%x", b))
					}
					pre := []byte{1, 2, 3}
					if b2, err := mo.MarshalAppend(pre, msg); err != nil || len(b2) != 3+len(b) {
						c.Violation(fmt.Sprintf("MarshalAppend length differs for a nil message value/element: %s", name), fmt.Sprint(err))
					}
					// inside a length-prefixed parent: a dynamic message of the same type holding msg in a field of its own type, if any
					for k := 0; k < md.Fields().Len(); k++ {
						fd := md.Fields().Get(k)
						if fd.Message() != nil && fd.Message() == md && !fd.IsList() && !fd.IsMap() && fd.ContainingOneof() == nil {
							parent := reflect.New(rt.Elem()).Interface().(proto.Message)
							parent.ProtoReflect().Set(fd, protoreflect.ValueOfMessage(msg.ProtoReflect()))
							pb, err := mo.Marshal(parent)
							if err != nil || mo.Size(parent) != len(pb) {
								c.Violation(fmt.Sprintf("Marshal/Size of a parent holding a message with a nil message value/element: %s", name), fmt.Sprint(err))
							}
							break
						}
					}
					back := dynamicpb.NewMessage(md)
					if err := (proto.UnmarshalOptions{AllowPartial: true}).Unmarshal(b, back); err != nil {
						c.Violation(fmt.Sprintf("encoding of a nil message value/element does not decode: %s", name), err.Error())
					} else if b3, _ := (proto.MarshalOptions{AllowPartial: true, Deterministic: true}).Marshal(back); len(b3) != len(b) {
						c.Violation(fmt.Sprintf("encoding of a nil message value/element re-encodes to a different length: %s", name), nil)
					}
				}
			})
		}
	}
	c.DistinctN(int64(n))
	if initOnly {
		c.Bounds["nil_composite_fields_init"] = n
	} else {
		c.Bounds["nil_composite_fields"] = n
	}
}
