// Package c03 holds C03 (binary round trip) and C04 (Size == len(Marshal)),
// which share one enumeration of the message and wire universes.
package c03

import (
	"bytes"
	"fmt"
	"time"

	"google.golang.org/protobuf/proto"
	"google.golang.org/protobuf/reflect/protoreflect"
	"google.golang.org/protobuf/verifmc/core"
	"google.golang.org/protobuf/verifmc/univ"
)

func init() {
	core.Register("C03", "exploration", func(c *core.Ctx) { run(c, false) })
	core.Register("C04", "exploration", func(c *core.Ctx) { run(c, true) })
}

type plan struct {
	name      string
	k, depth  int
	thin      bool
	dyn       bool
	wireN     int // wire-sequence length for decode-derived messages (0 = none)
	wireAll   bool
	wireSmall bool
}

func plans(c *core.Ctx) []plan {
	q := c.Quick()
	p := []plan{
		{name: "opaque.lazy_tree.Node", k: 3, depth: 3, thin: true, dyn: true, wireN: 3},
		{name: "goproto.proto.test.OpaqueLazy", k: 2, depth: 2, thin: true, wireN: 3, wireSmall: true},
		{name: "goproto.proto.test.HybridLazy", k: 2, depth: 2, thin: true, wireN: 3, wireSmall: true},
		{name: "goproto.proto.test.TestAllTypes", wireSmall: q, k: 2, depth: 2, dyn: true, wireN: 2, thin: q},
		{name: "goproto.proto.test3.TestAllTypes", wireSmall: q, k: 2, depth: 2, dyn: true, wireN: 2, thin: q},
		{name: "goproto.proto.testeditions.TestAllTypes", wireSmall: q, k: 2, depth: 2, thin: q, dyn: !q, wireN: 2},
		{name: "opaque.goproto.proto.testeditions.TestAllTypes", wireSmall: q, k: 2, depth: 2, wireN: 2, thin: q},
		{name: "hybrid.goproto.proto.testeditions.TestAllTypes", wireSmall: true, k: 2, depth: 2, thin: true, wireN: 2},
		{name: "opaque.goproto.proto.test3.TestAllTypes", k: 2, depth: 2, thin: q},
		{name: "goproto.proto.test.TestAllExtensions", k: 2, depth: 2, dyn: true, wireN: 2, thin: q},
		{name: "goproto.proto.test.TestPackedTypes", k: 2, depth: 1, dyn: true, wireN: 2},
		{name: "goproto.proto.test.TestUnpackedTypes", k: 2, depth: 1, dyn: true, wireN: 2},
		{name: "goproto.proto.test.TestPackedExtensions", k: 2, depth: 1, dyn: true},
		{name: "hybrid.lazy_tree.Node", k: 2, depth: 3, wireN: 2},
		{name: "lazy_tree.Node", k: 2, depth: 3, thin: true},
		{name: "goproto.proto.test.TestRequiredLazy", k: 2, depth: 2, wireN: 3, wireAll: true},
		{name: "goproto.proto.fuzz.Fuzz", k: 2, depth: 2, dyn: true},
		{name: "goproto.proto.test.TestAllTypesProto2", k: 2, depth: 2, thin: true, dyn: true},
		{name: "goproto.proto.test.TestAllTypesProto2Editions", k: 2, depth: 2, thin: true, dyn: true},
		{name: "goproto.proto.test.TestAllTypesProto3Editions", k: 2, depth: 2, thin: true},
		{name: "google.golang.org.Article", k: 3, depth: 2, dyn: true},
		{name: "google.protobuf.Struct", k: 3, depth: 3, dyn: true},
		{name: "google.protobuf.FieldDescriptorProto", k: 2, depth: 2, dyn: true},
		{name: "lazy_normalized_wire_test.FTop", k: 3, depth: 2, wireN: 3, wireAll: true},
		{name: "goproto.proto.test.OpenLazy", k: 2, depth: 2, thin: true, wireN: 2},
		{name: "pb2.Scalars", k: 3, depth: 1, dyn: true},
		{name: "pb2.Maps", k: 3, depth: 2, thin: true, dyn: true},
		{name: "pb2.Nests", k: 3, depth: 3, dyn: true, wireN: 2},
	}
	if c.Thorough() {
		p = append(p,
			plan{name: "goproto.proto.test.TestAllTypes", k: 3, depth: 2, thin: true, dyn: true, wireN: 3},
			plan{name: "opaque.goproto.proto.testeditions.TestAllTypes", k: 3, depth: 2, thin: true, wireN: 3},
			plan{name: "goproto.proto.test3.TestAllTypes", k: 3, depth: 2, thin: true, dyn: true},
			plan{name: "goproto.proto.test.TestAllExtensions", k: 3, depth: 2, thin: true, dyn: true},
			plan{name: "opaque.lazy_tree.Node", k: 3, depth: 3, dyn: true, wireN: 3, wireAll: true},
			plan{name: "hybrid.goproto.proto.testeditions.TestAllTypes", k: 2, depth: 2, dyn: true, wireN: 2},
			plan{name: "hybrid.goproto.proto.test3.TestAllTypes", k: 2, depth: 2},
			plan{name: "goproto.proto.test3.TestAllTypes", k: 2, depth: 3},
		)
	}
	return p
}

// prefix shapes (len, cap); cap<0 means a nil slice. Allocated per call.
var prefixShapes = [][2]int{{0, -1}, {0, 0}, {0, 64}, {1, 1}, {3, 64}, {3, 3}}

func mkPrefix(sh [2]int) []byte {
	if sh[1] < 0 {
		return nil
	}
	p := make([]byte, sh[0], sh[1])
	for i := range p {
		p[i] = byte(0xa0 + i)
	}
	return p
}

type checker struct {
	c      *core.Ctx
	size   bool // C04 assertions instead of C03 assertions
	f      univ.Flavor
	sample int
}

// one checks a single message. origin names the case for signatures.
func (k *checker) one(m protoreflect.Message, origin string) {
	c := k.c
	c.Eval(1)
	sig := func(clause string) string { return fmt.Sprintf("%s type=%s case=%s", clause, k.f.Name, origin) }
	if c.Guard(func() string { return sig("") }, func() { k.body(m, sig) }) {
		return
	}
}

func (k *checker) body(m protoreflect.Message, sig func(string) string) {
	c := k.c
	mi := m.Interface()
	if k.size {
		// Two passes: between them the message is traversed by reflection, which
		// expands lazily held submessages. Within a pass nothing expands, so the
		// documented exception (lazy + non-minimal input + expanding access
		// between Size and Marshal) cannot apply.
		for pass := 0; pass < 2; pass++ {
			if pass == 1 {
				univ.Snapshot(m)
			}
			for _, det := range []bool{false, true} {
				mo := proto.MarshalOptions{Deterministic: det, AllowPartial: true}
				sz := mo.Size(mi)
				b, err := mo.Marshal(mi)
				if err != nil {
					c.Violation(sig(fmt.Sprintf("marshal-error det=%v pass=%d", det, pass)), err.Error())
					continue
				}
				if sz != len(b) {
					c.Violation(sig(fmt.Sprintf("size!=len det=%v pass=%d size=%d len=%d", det, pass, sz, len(b))), nil)
				}
				// Size again after Marshal (cache warm) and UseCachedSize after Size
				if sz2 := mo.Size(mi); sz2 != len(b) {
					c.Violation(sig(fmt.Sprintf("size-after-marshal!=len det=%v pass=%d size=%d len=%d", det, pass, sz2, len(b))), nil)
				}
				mo2 := mo
				mo2.UseCachedSize = true
				b2, err := mo2.Marshal(mi)
				if err != nil || (det && !bytes.Equal(b, b2)) || len(b2) != len(b) {
					c.Violation(sig(fmt.Sprintf("usecachedsize det=%v pass=%d len=%d want=%d", det, pass, len(b2), len(b))), nil)
				}
				var ref protoreflect.Message
				for pi, sh := range prefixShapes {
					p := mkPrefix(sh)
					orig := append([]byte{}, p...)
					out, err := mo.MarshalAppend(p, mi)
					if err != nil {
						c.Violation(sig("marshalappend-error"), err.Error())
						continue
					}
					if len(out) != len(orig)+len(b) || !bytes.Equal(out[:len(orig)], orig) || (det && !bytes.Equal(out[len(orig):], b)) || !bytes.Equal(p[:len(orig)], orig) {
						c.Violation(sig(fmt.Sprintf("marshalappend prefix#%d det=%v pass=%d", pi, det, pass)), map[string]any{"out": fmt.Sprintf("%x", out), "marshal": fmt.Sprintf("%x", b)})
						continue
					}
					if !det && !bytes.Equal(out[len(orig):], b) {
						// default marshal may order map entries differently; the content must be the same
						if ref == nil {
							ref, _ = k.f.Unmarshal(b, proto.UnmarshalOptions{AllowPartial: true})
						}
						m2, err := k.f.Unmarshal(out[len(orig):], proto.UnmarshalOptions{AllowPartial: true})
						if err != nil || !proto.Equal(ref.Interface(), m2.Interface()) {
							c.Violation(sig(fmt.Sprintf("marshalappend-content prefix#%d pass=%d", pi, pass)), nil)
						}
					}
				}
			}
		}
		return
	}
	// C03: two passes; the second pass runs after reflection has touched (and
	// thereby expanded) any lazily held submessage.
	for pass := 0; pass < 2; pass++ {
		var snap string
		for _, det := range []bool{false, true} {
			mo := proto.MarshalOptions{Deterministic: det, AllowPartial: true}
			b, err := mo.Marshal(mi)
			if err != nil {
				c.Violation(sig(fmt.Sprintf("marshal-error det=%v pass=%d", det, pass)), err.Error())
				continue
			}
			for _, nolazy := range []bool{false, true} {
				m2, err := k.f.Unmarshal(b, proto.UnmarshalOptions{AllowPartial: true, NoLazyDecoding: nolazy})
				if err != nil {
					c.Violation(sig(fmt.Sprintf("unmarshal-error det=%v nolazy=%v pass=%d", det, nolazy, pass)), map[string]any{"err": err.Error(), "bytes": fmt.Sprintf("%x", b)})
					continue
				}
				if det {
					b2, err := mo.Marshal(m2.Interface())
					if err != nil || !bytes.Equal(b, b2) {
						c.Violation(sig(fmt.Sprintf("second-generation-bytes-differ nolazy=%v pass=%d", nolazy, pass)), map[string]any{"b1": fmt.Sprintf("%x", b), "b2": fmt.Sprintf("%x", b2)})
					}
				}
				if !proto.Equal(mi, m2.Interface()) {
					c.Violation(sig(fmt.Sprintf("roundtrip-not-equal det=%v nolazy=%v pass=%d", det, nolazy, pass)), map[string]any{"bytes": fmt.Sprintf("%x", b)})
					continue
				}
				if snap == "" {
					snap = univ.Snapshot(m)
				}
				if s2 := univ.Snapshot(m2); s2 != snap {
					c.Violation(sig(fmt.Sprintf("roundtrip-snapshot-differs det=%v nolazy=%v pass=%d", det, nolazy, pass)), map[string]any{"want": snap, "got": s2})
				}
			}
		}
	}
}

func run(c *core.Ctx, size bool) {
	c.Rule = "messages = all slot lists of length <= k over the descriptor-derived slot alphabet of each listed type (a slot = one singular value / list element / map entry / extension / unknown record, nesting depth <= d), built through protoreflect for the generated type and (where listed) its dynamicpb twin; plus every message obtained by successfully decoding (lazily and eagerly) a sequence of <= n records of the type's wire-record alphabet (valid, non-minimal, wrong-wire-type, unknown, malformed records). distinct_nontrivial counts distinct canonical snapshots of non-empty messages"
	c.Exhaustive = true
	var planOut []map[string]any
	for _, p := range plans(c) {
		if c.Expired() {
			break
		}
		md := univ.MT(p.name).Descriptor()
		alpha := univ.Alphabet(md, p.depth, univ.Opt{Thin: p.thin})
		var full []*univ.Slot
		if p.thin {
			full = univ.Alphabet(md, p.depth, univ.Opt{})
		}
		t0 := time.Now()
		flavors := []univ.Flavor{univ.Gen(p.name)}
		if p.dyn {
			flavors = append(flavors, univ.Dyn(p.name))
		}
		var nmsg int
		for _, f := range flavors {
			k := &checker{c: c, size: size, f: f}
			univ.ForTuples(c, len(alpha), p.k, func(idx []int) {
				slots := univ.PickSlots(alpha, idx, nil)
				var m protoreflect.Message
				if c.Guard(func() string { return "build type=" + f.Name + " case=" + univ.Names(slots) }, func() { m = f.Build(slots) }) {
					return
				}
				if len(idx) > 0 && !f.Dynamic {
					c.Distinct(p.name + univ.Snapshot(m))
				}
				k.one(m, univ.Names(slots))
			})
			nmsg = univ.TupleCount(len(alpha), p.k)
			if full != nil {
				// every single slot of the full alphabet
				univ.ForTuples(c, len(full), 1, func(idx []int) {
					slots := univ.PickSlots(full, idx, nil)
					var m protoreflect.Message
					if c.Guard(func() string { return "build type=" + f.Name + " case=" + univ.Names(slots) }, func() { m = f.Build(slots) }) {
						return
					}
					if len(idx) > 0 && !f.Dynamic {
						c.Distinct(p.name + univ.Snapshot(m))
					}
					k.one(m, univ.Names(slots))
				})
				nmsg += len(full)
			}
			if p.wireN > 0 {
				recs := univ.WireAlphabet(md, univ.WireOpt{AllFields: p.wireAll, Small: p.wireSmall || (p.wireN >= 3 && !p.wireAll), Depth: 1})
				univ.ForTuples(c, len(recs), p.wireN, func(idx []int) {
					in, name := univ.Concat(recs, idx)
					for _, nolazy := range []bool{false, true} {
						var m protoreflect.Message
						var err error
						if c.Guard(func() string { return "unmarshal type=" + f.Name + " wire=" + name }, func() {
							m, err = f.Unmarshal(in, proto.UnmarshalOptions{AllowPartial: true, NoLazyDecoding: nolazy})
						}) {
							return
						}
						if err != nil {
							c.Outcome("wire-input-rejected")
							continue
						}
						c.Outcome("wire-input-decoded")
						if !nolazy && !f.Dynamic {
							c.DistinctHash(hash(p.name, in))
						}
						k.one(m, fmt.Sprintf("decoded(nolazy=%v)%s", nolazy, name))
					}
				})
				planOut = append(planOut, map[string]any{"type": f.Name, "k": p.k, "depth": p.depth, "slot_alphabet": len(alpha), "messages": nmsg, "wire_alphabet": len(recs), "wire_n": p.wireN, "wire_sequences": univ.TupleCount(len(recs), p.wireN), "secs": time.Since(t0).Seconds()})
			} else {
				planOut = append(planOut, map[string]any{"type": f.Name, "k": p.k, "depth": p.depth, "slot_alphabet": len(alpha), "messages": nmsg, "secs": time.Since(t0).Seconds()})
			}
		}
		// length sweep: every length-delimited container class with payload sizes around the prefix boundaries
		if p.wireN > 0 || p.dyn {
			sw := univ.LengthSweep(md, univ.SweepLengths(c.Thorough()))
			for _, f := range flavors {
				k := &checker{c: c, size: size, f: f}
				c.Par(len(sw), func(i int) {
					var m protoreflect.Message
					if c.Guard(func() string { return "build type=" + f.Name + " case=" + univ.SweepName(sw[i]) }, func() { m = f.Build(sw[i]) }) {
						return
					}
					k.one(m, "sweep"+univ.SweepName(sw[i]))
				})
			}
			c.DistinctN(int64(len(sw)))
			planOut[len(planOut)-1]["length_sweep_cases"] = len(sw)
		}
		if len(alpha) > 3 {
			c.Sample(map[string]any{"type": p.name, "slots": univ.Names([]*univ.Slot{alpha[len(alpha)/3], alpha[2*len(alpha)/3]})})
		}
	}
	if size {
		nilComposites(c)
	}
	c.Bounds["plans"] = planOut
	c.Assume("marshal/unmarshal run with AllowPartial (required-field checks belong to C10)")
	c.Assume("closed-enum fields are never given undeclared numbers (not valid content: such values move to unknown fields by design)")
}

func hash(name string, b []byte) uint64 {
	var h uint64 = 14695981039346656037
	for i := 0; i < len(name); i++ {
		h = (h ^ uint64(name[i])) * 1099511628211
	}
	for _, x := range b {
		h = (h ^ uint64(x)) * 1099511628211
	}
	return h
}
