// Package gen drives protoc-gen-go in-process: CodeGeneratorRequest in,
// CodeGeneratorResponse out, exactly as cmd/protoc-gen-go's main does.
package gen

import (
	"fmt"
	"sort"

	gengo "google.golang.org/protobuf/cmd/protoc-gen-go/internal_gengo"
	"google.golang.org/protobuf/compiler/protogen"
	"google.golang.org/protobuf/proto"
	"google.golang.org/protobuf/reflect/protodesc"
	"google.golang.org/protobuf/reflect/protoreflect"
	"google.golang.org/protobuf/reflect/protoregistry"
	"google.golang.org/protobuf/types/descriptorpb"
	"google.golang.org/protobuf/types/pluginpb"
)

// Run is protoc-gen-go's main body for one request.
func Run(req *pluginpb.CodeGeneratorRequest) (resp *pluginpb.CodeGeneratorResponse, err error) {
	defer func() {
		if r := recover(); r != nil {
			err = fmt.Errorf("generator panic: %v", r)
		}
	}()
	// protogen owns its request and re-unmarshals file protos in place when it
	// finds extensions; never share one with another goroutine
	req = proto.Clone(req).(*pluginpb.CodeGeneratorRequest)
	g, err := protogen.Options{}.New(req)
	if err != nil {
		return nil, err
	}
	for _, f := range g.Files {
		if f.Generate {
			gengo.GenerateFile(g, f)
		}
	}
	g.SupportedFeatures = gengo.SupportedFeatures
	g.SupportedEditionsMinimum = gengo.SupportedEditionsMinimum
	g.SupportedEditionsMaximum = gengo.SupportedEditionsMaximum
	return g.Response(), nil
}

// Request builds a request that generates the named files; protos must hold
// them and all their dependencies (any order; they are emitted topologically
// as protoc does).
func Request(protos []*descriptorpb.FileDescriptorProto, toGenerate []string, param string) *pluginpb.CodeGeneratorRequest {
	byName := map[string]*descriptorpb.FileDescriptorProto{}
	for _, p := range protos {
		byName[p.GetName()] = p
	}
	var order []*descriptorpb.FileDescriptorProto
	seen := map[string]bool{}
	var visit func(n string)
	visit = func(n string) {
		if seen[n] || byName[n] == nil {
			return
		}
		seen[n] = true
		for _, d := range byName[n].Dependency {
			visit(d)
		}
		order = append(order, byName[n])
	}
	names := make([]string, 0, len(byName))
	for n := range byName {
		names = append(names, n)
	}
	sort.Strings(names)
	for _, n := range toGenerate {
		visit(n)
	}
	for _, n := range names {
		visit(n)
	}
	req := &pluginpb.CodeGeneratorRequest{FileToGenerate: toGenerate, ProtoFile: order}
	if param != "" {
		req.Parameter = proto.String(param)
	}
	return req
}

// Closure returns the FileDescriptorProtos of fd and its transitive imports.
func Closure(fds ...protoreflect.FileDescriptor) []*descriptorpb.FileDescriptorProto {
	var out []*descriptorpb.FileDescriptorProto
	seen := map[string]bool{}
	var visit func(fd protoreflect.FileDescriptor)
	visit = func(fd protoreflect.FileDescriptor) {
		if seen[fd.Path()] {
			return
		}
		seen[fd.Path()] = true
		imps := fd.Imports()
		for i := 0; i < imps.Len(); i++ {
			if imps.Get(i).FileDescriptor != nil && !imps.Get(i).IsPlaceholder() {
				visit(imps.Get(i).FileDescriptor)
			}
		}
		out = append(out, protodesc.ToFileDescriptorProto(fd))
	}
	for _, fd := range fds {
		visit(fd)
	}
	return out
}

// WithGlobalDeps adds the linked files that p imports (e.g. descriptor.proto).
func WithGlobalDeps(ps ...*descriptorpb.FileDescriptorProto) []*descriptorpb.FileDescriptorProto {
	have := map[string]bool{}
	for _, p := range ps {
		have[p.GetName()] = true
	}
	out := append([]*descriptorpb.FileDescriptorProto{}, ps...)
	for _, p := range ps {
		for _, d := range p.Dependency {
			if have[d] {
				continue
			}
			if fd, err := protoregistry.GlobalFiles.FindFileByPath(d); err == nil {
				for _, q := range Closure(fd) {
					if !have[q.GetName()] {
						have[q.GetName()] = true
						out = append(out, q)
					}
				}
			}
		}
	}
	return out
}
