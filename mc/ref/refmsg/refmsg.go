// Package refmsg is the abstract protobuf message model: a map from field
// number to value with the presence discipline read from the descriptor,
// oneof groups, lists, maps, an extension table and unknown bytes. It is the
// reference against which reflection histories on real messages are compared.
package refmsg

import (
	"fmt"
	"math"
	"sort"
	"strings"

	"google.golang.org/protobuf/reflect/protoreflect"
	"google.golang.org/protobuf/verifmc/univ"
)

// Elem is a scalar value or a nested model.
type Elem struct {
	V protoreflect.Value // scalar (valid iff Msg == nil)
	M *Msg
}

type entry struct {
	K protoreflect.MapKey
	E Elem
}

type field struct {
	fd   protoreflect.FieldDescriptor
	one  Elem             // singular
	list []Elem           // repeated
	mp   map[string]entry // map (key = formatted map key)
}

type Msg struct {
	MD      protoreflect.MessageDescriptor
	fields  map[string]*field // key: "n" or "xn" for extensions
	Unknown []byte
}

func New(md protoreflect.MessageDescriptor) *Msg {
	return &Msg{MD: md, fields: map[string]*field{}}
}

func key(fd protoreflect.FieldDescriptor) string {
	if fd.IsExtension() {
		return fmt.Sprintf("x%d", fd.Number())
	}
	return fmt.Sprintf("%d", fd.Number())
}

// isZero reports whether v is the zero value for implicit-presence purposes
// (a float -0 is not zero).
func isZero(fd protoreflect.FieldDescriptor, v protoreflect.Value) bool {
	switch x := v.Interface().(type) {
	case bool:
		return !x
	case int32:
		return x == 0
	case int64:
		return x == 0
	case uint32:
		return x == 0
	case uint64:
		return x == 0
	case float32:
		return x == 0 && !math.Signbit(float64(x))
	case float64:
		return x == 0 && !math.Signbit(x)
	case string:
		return x == ""
	case []byte:
		return len(x) == 0
	case protoreflect.EnumNumber:
		return x == 0
	}
	return false
}

func (m *Msg) clearOneofSiblings(fd protoreflect.FieldDescriptor) {
	od := fd.ContainingOneof()
	if od == nil {
		return
	}
	for i := 0; i < od.Fields().Len(); i++ {
		o := od.Fields().Get(i)
		if o.Number() != fd.Number() {
			delete(m.fields, key(o))
		}
	}
}

// Set stores a singular scalar value.
func (m *Msg) Set(fd protoreflect.FieldDescriptor, v protoreflect.Value) {
	if !univ.WantPresence(fd) && isZero(fd, v) {
		delete(m.fields, key(fd))
		return
	}
	m.clearOneofSiblings(fd)
	m.fields[key(fd)] = &field{fd: fd, one: Elem{V: v}}
}

// SetMsg stores a singular message value (a model, copied by reference).
func (m *Msg) SetMsg(fd protoreflect.FieldDescriptor, sub *Msg) {
	m.clearOneofSiblings(fd)
	m.fields[key(fd)] = &field{fd: fd, one: Elem{M: sub}}
}

func (m *Msg) Clear(fd protoreflect.FieldDescriptor) { delete(m.fields, key(fd)) }

func (m *Msg) Has(fd protoreflect.FieldDescriptor) bool {
	f := m.fields[key(fd)]
	if f == nil {
		return false
	}
	switch {
	case fd.IsList():
		return len(f.list) > 0
	case fd.IsMap():
		return len(f.mp) > 0
	}
	return true
}

// MutableMsg returns the submessage, creating (and populating) it if absent.
func (m *Msg) MutableMsg(fd protoreflect.FieldDescriptor) *Msg {
	if f := m.fields[key(fd)]; f != nil && f.one.M != nil {
		return f.one.M
	}
	sub := New(fd.Message())
	m.SetMsg(fd, sub)
	return sub
}

func (m *Msg) GetMsg(fd protoreflect.FieldDescriptor) *Msg {
	if f := m.fields[key(fd)]; f != nil {
		return f.one.M
	}
	return nil
}

func (m *Msg) GetScalar(fd protoreflect.FieldDescriptor) (protoreflect.Value, bool) {
	if f := m.fields[key(fd)]; f != nil && f.one.M == nil && f.one.V.IsValid() {
		return f.one.V, true
	}
	return protoreflect.Value{}, false
}

func (m *Msg) listField(fd protoreflect.FieldDescriptor) *field {
	f := m.fields[key(fd)]
	if f == nil {
		f = &field{fd: fd}
		m.fields[key(fd)] = f
	}
	return f
}

func (m *Msg) Append(fd protoreflect.FieldDescriptor, e Elem) {
	f := m.listField(fd)
	f.list = append(f.list, e)
}

func (m *Msg) ListLen(fd protoreflect.FieldDescriptor) int {
	if f := m.fields[key(fd)]; f != nil {
		return len(f.list)
	}
	return 0
}

func (m *Msg) ListGet(fd protoreflect.FieldDescriptor, i int) Elem { return m.fields[key(fd)].list[i] }

func (m *Msg) ListSet(fd protoreflect.FieldDescriptor, i int, e Elem) {
	m.fields[key(fd)].list[i] = e
}

func (m *Msg) Truncate(fd protoreflect.FieldDescriptor, n int) {
	if f := m.fields[key(fd)]; f != nil {
		f.list = f.list[:n]
	}
}

func fmtKey(k protoreflect.MapKey) string { return fmtScalar(k.Value()) }

func (m *Msg) MapSet(fd protoreflect.FieldDescriptor, k protoreflect.MapKey, e Elem) {
	f := m.listField(fd)
	if f.mp == nil {
		f.mp = map[string]entry{}
	}
	f.mp[fmtKey(k)] = entry{k, e}
}

func (m *Msg) MapClear(fd protoreflect.FieldDescriptor, k protoreflect.MapKey) {
	if f := m.fields[key(fd)]; f != nil {
		delete(f.mp, fmtKey(k))
	}
}

func (m *Msg) MapGet(fd protoreflect.FieldDescriptor, k protoreflect.MapKey) (Elem, bool) {
	if f := m.fields[key(fd)]; f != nil {
		e, ok := f.mp[fmtKey(k)]
		return e.E, ok
	}
	return Elem{}, false
}

func (m *Msg) MapLen(fd protoreflect.FieldDescriptor) int {
	if f := m.fields[key(fd)]; f != nil {
		return len(f.mp)
	}
	return 0
}

// MapMutable returns the message value at k, creating it if absent.
func (m *Msg) MapMutable(fd protoreflect.FieldDescriptor, k protoreflect.MapKey) *Msg {
	if e, ok := m.MapGet(fd, k); ok {
		return e.M
	}
	sub := New(fd.MapValue().Message())
	m.MapSet(fd, k, Elem{M: sub})
	return sub
}

// WhichOneof returns the populated member number (0 if none).
func (m *Msg) WhichOneof(od protoreflect.OneofDescriptor) protoreflect.FieldNumber {
	for i := 0; i < od.Fields().Len(); i++ {
		if fd := od.Fields().Get(i); m.Has(fd) {
			return fd.Number()
		}
	}
	return 0
}

// Populated returns the keys of populated fields ("n" / "xn"), sorted.
func (m *Msg) Populated() []string {
	var out []string
	for k, f := range m.fields {
		if m.Has(f.fd) {
			out = append(out, k)
		}
	}
	sort.Strings(out)
	return out
}

func (m *Msg) Reset() { m.fields = map[string]*field{}; m.Unknown = nil }

func fmtScalar(v protoreflect.Value) string {
	switch x := v.Interface().(type) {
	case bool:
		return fmt.Sprint(x)
	case int32:
		return fmt.Sprintf("i%d", x)
	case int64:
		return fmt.Sprintf("I%d", x)
	case uint32:
		return fmt.Sprintf("u%d", x)
	case uint64:
		return fmt.Sprintf("U%d", x)
	case float32:
		if x != x {
			return "f:nan"
		}
		return fmt.Sprintf("f:%08x", math.Float32bits(x))
	case float64:
		if x != x {
			return "d:nan"
		}
		return fmt.Sprintf("d:%016x", math.Float64bits(x))
	case string:
		return fmt.Sprintf("%q", x)
	case []byte:
		return fmt.Sprintf("y%x", x)
	case protoreflect.EnumNumber:
		return fmt.Sprintf("e%d", x)
	}
	return "?"
}

func sortedKeys(mp map[string]entry) []entry {
	es := make([]entry, 0, len(mp))
	for _, e := range mp {
		es = append(es, e)
	}
	sort.Slice(es, func(i, j int) bool {
		a, b := es[i].K.Interface(), es[j].K.Interface()
		switch x := a.(type) {
		case bool:
			return !x && b.(bool)
		case int32:
			return x < b.(int32)
		case int64:
			return x < b.(int64)
		case uint32:
			return x < b.(uint32)
		case uint64:
			return x < b.(uint64)
		case string:
			return x < b.(string)
		}
		return false
	})
	return es
}

// Snapshot renders the model in exactly the format of univ.Snapshot.
func (m *Msg) Snapshot() string {
	var sb strings.Builder
	m.snapshot(&sb)
	return sb.String()
}

func (m *Msg) snapshot(sb *strings.Builder) {
	sb.WriteByte('{')
	var fs, xs []*field
	for _, f := range m.fields {
		if !m.Has(f.fd) {
			continue
		}
		if f.fd.IsExtension() {
			xs = append(xs, f)
		} else {
			fs = append(fs, f)
		}
	}
	sort.Slice(fs, func(i, j int) bool { return fs[i].fd.Number() < fs[j].fd.Number() })
	sort.Slice(xs, func(i, j int) bool { return xs[i].fd.Number() < xs[j].fd.Number() })
	for _, f := range fs {
		fmt.Fprintf(sb, "%d:", f.fd.Number())
		f.snap(sb)
		sb.WriteByte(' ')
	}
	for _, f := range xs {
		fmt.Fprintf(sb, "x%d:", f.fd.Number())
		f.snap(sb)
		sb.WriteByte(' ')
	}
	if len(m.Unknown) > 0 {
		fmt.Fprintf(sb, "?:%x", m.Unknown)
	}
	sb.WriteByte('}')
}

func snapElem(sb *strings.Builder, fd protoreflect.FieldDescriptor, e Elem) {
	if e.M != nil {
		e.M.snapshot(sb)
		return
	}
	if fd.Kind() == protoreflect.BytesKind {
		fmt.Fprintf(sb, "y%x", e.V.Bytes())
		return
	}
	sb.WriteString(fmtScalar(e.V))
}

func (f *field) snap(sb *strings.Builder) {
	switch {
	case f.fd.IsList():
		sb.WriteByte('[')
		for i, e := range f.list {
			if i > 0 {
				sb.WriteByte(',')
			}
			snapElem(sb, f.fd, e)
		}
		sb.WriteByte(']')
	case f.fd.IsMap():
		sb.WriteByte('<')
		for i, e := range sortedKeys(f.mp) {
			if i > 0 {
				sb.WriteByte(',')
			}
			sb.WriteString(fmtKey(e.K))
			sb.WriteByte('=')
			snapElem(sb, f.fd.MapValue(), e.E)
		}
		sb.WriteByte('>')
	default:
		snapElem(sb, f.fd, f.one)
	}
}

// FromReal builds a model from a real message (used to model Merge / decode
// sources: the model of the source is read through reflection).
func FromReal(r protoreflect.Message) *Msg {
	m := New(r.Descriptor())
	r.Range(func(fd protoreflect.FieldDescriptor, v protoreflect.Value) bool {
		f := &field{fd: fd}
		conv := func(d protoreflect.FieldDescriptor, v protoreflect.Value) Elem {
			if d.Message() != nil {
				return Elem{M: FromReal(v.Message())}
			}
			if b, ok := v.Interface().([]byte); ok {
				return Elem{V: protoreflect.ValueOfBytes(append([]byte{}, b...))}
			}
			return Elem{V: v}
		}
		switch {
		case fd.IsList():
			for i := 0; i < v.List().Len(); i++ {
				f.list = append(f.list, conv(fd, v.List().Get(i)))
			}
		case fd.IsMap():
			f.mp = map[string]entry{}
			v.Map().Range(func(k protoreflect.MapKey, mv protoreflect.Value) bool {
				f.mp[fmtKey(k)] = entry{k, conv(fd.MapValue(), mv)}
				return true
			})
		default:
			f.one = conv(fd, v)
		}
		m.fields[key(fd)] = f
		return true
	})
	m.Unknown = append([]byte{}, r.GetUnknown()...)
	return m
}

// Merge implements the documented merge semantics on models.
func (m *Msg) Merge(src *Msg) {
	for k, sf := range src.fields {
		if !src.Has(sf.fd) {
			continue
		}
		fd := sf.fd
		switch {
		case fd.IsList():
			df := m.listField(fd)
			for _, e := range sf.list {
				df.list = append(df.list, cloneElem(e))
			}
		case fd.IsMap():
			for _, e := range sf.mp {
				m.MapSet(fd, e.K, cloneElem(e.E))
			}
		case fd.Message() != nil:
			if df := m.fields[k]; df != nil && df.one.M != nil {
				df.one.M.Merge(sf.one.M)
			} else {
				m.SetMsg(fd, cloneElem(sf.one).M)
			}
		default:
			m.clearOneofSiblings(fd)
			m.fields[k] = &field{fd: fd, one: cloneElem(sf.one)}
		}
	}
	m.Unknown = append(m.Unknown, src.Unknown...)
}

func cloneElem(e Elem) Elem {
	if e.M != nil {
		c := New(e.M.MD)
		c.Merge(e.M)
		return Elem{M: c}
	}
	if b, ok := e.V.Interface().([]byte); ok {
		return Elem{V: protoreflect.ValueOfBytes(append([]byte{}, b...))}
	}
	return e
}
