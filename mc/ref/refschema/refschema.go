// Package refschema is the schema-aware reference recogniser for the binary
// wire format: it decides, for a message descriptor, a byte string and a
// recursion limit, whether proto.Unmarshal (with AllowPartial) must accept.
// It is written from the wire-format specification, not from the decoder.
package refschema

import (
	"unicode/utf8"

	"google.golang.org/protobuf/reflect/protoreflect"
	"google.golang.org/protobuf/verifmc/ref/refwire"
)

// ExtFinder resolves extension fields of a message by number (nil result =
// unknown field).
type ExtFinder func(md protoreflect.MessageDescriptor, num protoreflect.FieldNumber) protoreflect.FieldDescriptor

const maxFieldNumber = 1<<29 - 1

type Walker struct {
	Limit int // RecursionLimit: top-level message costs 1, each nested message/group +1, each map entry +1 more
	Ext   ExtFinder
	// EnforceUTF8 reports whether a string field validates UTF-8.
	EnforceUTF8 func(fd protoreflect.FieldDescriptor) bool
}

// Reason is why an input is rejected.
type Reason string

const (
	Accept      Reason = ""
	BadGrammar  Reason = "grammar"
	BadNumber   Reason = "fieldnumber"
	BadEndGroup Reason = "endgroup"
	BadUTF8     Reason = "utf8"
	TooDeep     Reason = "depth"
	BadPacked   Reason = "packed"
)

func (w *Walker) Valid(md protoreflect.MessageDescriptor, b []byte) Reason {
	_, r := w.walk(md, b, 1, 0)
	return r
}

func wireType(k protoreflect.Kind) int {
	switch k {
	case protoreflect.Fixed32Kind, protoreflect.Sfixed32Kind, protoreflect.FloatKind:
		return 5
	case protoreflect.Fixed64Kind, protoreflect.Sfixed64Kind, protoreflect.DoubleKind:
		return 1
	case protoreflect.StringKind, protoreflect.BytesKind, protoreflect.MessageKind:
		return 2
	case protoreflect.GroupKind:
		return 3
	}
	return 0
}

// walk parses b as the body of a message of type md at nesting cost `cost`.
// If group != 0 the body is terminated by an end-group tag for that number
// and the consumed length (including the end tag) is returned.
func (w *Walker) walk(md protoreflect.MessageDescriptor, b []byte, cost int, group int64) (int, Reason) {
	if cost > w.Limit {
		return 0, TooDeep
	}
	pos := 0
	for pos < len(b) {
		tagv, n, d := refwire.ConsumeVarint(b[pos:])
		if d != refwire.OK {
			return 0, BadGrammar
		}
		num, typ := int64(tagv>>3), int(tagv&7)
		if num < 1 || num > maxFieldNumber {
			return 0, BadNumber
		}
		pos += n
		if typ == 4 {
			if group != 0 && num == group {
				return pos, Accept
			}
			return 0, BadEndGroup
		}
		vlen, d := refwire.ConsumeValue(num, typ, b[pos:], refwire.GroupLevels)
		if d != refwire.OK {
			return 0, BadGrammar
		}
		val := b[pos : pos+vlen]
		pos += vlen
		fd := md.Fields().ByNumber(protoreflect.FieldNumber(num))
		if fd == nil && w.Ext != nil {
			fd = w.Ext(md, protoreflect.FieldNumber(num))
		}
		if fd == nil {
			continue
		}
		if r := w.field(fd, typ, val, cost, num); r != Accept {
			return 0, r
		}
	}
	if group != 0 {
		return 0, BadEndGroup
	}
	return pos, Accept
}

func (w *Walker) field(fd protoreflect.FieldDescriptor, typ int, val []byte, cost int, num int64) Reason {
	exp := wireType(fd.Kind())
	switch {
	case fd.IsMap():
		if typ != 2 {
			return Accept // unknown
		}
		_, n, _ := refwire.ConsumeVarint(val)
		_, r := w.walk(fd.Message(), val[n:], cost+1, 0)
		return r
	case fd.IsList() && typ == 2 && exp != 2 && exp != 3:
		// packed encoding of a packable scalar
		_, n, _ := refwire.ConsumeVarint(val)
		p := val[n:]
		switch exp {
		case 0:
			for len(p) > 0 {
				_, k, d := refwire.ConsumeVarint(p)
				if d != refwire.OK {
					return BadPacked
				}
				p = p[k:]
			}
		case 5:
			if len(p)%4 != 0 {
				return BadPacked
			}
		case 1:
			if len(p)%8 != 0 {
				return BadPacked
			}
		}
		return Accept
	case typ != exp:
		return Accept // wrong wire type: kept as unknown
	}
	switch fd.Kind() {
	case protoreflect.StringKind:
		_, n, _ := refwire.ConsumeVarint(val)
		if w.EnforceUTF8(fd) && !utf8.Valid(val[n:]) {
			return BadUTF8
		}
	case protoreflect.MessageKind:
		_, n, _ := refwire.ConsumeVarint(val)
		_, r := w.walk(fd.Message(), val[n:], cost+1, 0)
		return r
	case protoreflect.GroupKind:
		n, r := w.walk(fd.Message(), val, cost+1, num)
		if r != Accept {
			return r
		}
		if n != len(val) {
			return BadGrammar
		}
	}
	return Accept
}
