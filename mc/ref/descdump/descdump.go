// Package descdump renders every accessor of every descriptor reachable from
// a file descriptor as canonical text, so that two descriptor implementations
// (or a descriptor and its round trip) can be compared accessor by accessor.
package descdump

import (
	"fmt"
	"strings"

	"google.golang.org/protobuf/proto"
	"google.golang.org/protobuf/reflect/protoreflect"
	"google.golang.org/protobuf/verifmc/univ"
)

type Opt struct {
	NoOptions    bool // skip Options() (e.g. when comparing across files whose option messages differ by design)
	NoSourceInfo bool
}

func opts(o Opt, d protoreflect.Descriptor) string {
	if o.NoOptions {
		return ""
	}
	m, ok := d.Options().(proto.Message)
	if !ok || m == nil || !m.ProtoReflect().IsValid() {
		return "opts=-"
	}
	b, err := proto.MarshalOptions{Deterministic: true, AllowPartial: true}.Marshal(m)
	if err != nil {
		return "opts=ERR"
	}
	return fmt.Sprintf("opts=%x", b)
}

func File(fd protoreflect.FileDescriptor, o Opt) string {
	var sb strings.Builder
	fmt.Fprintf(&sb, "file path=%s pkg=%s syntax=%v %s\n", fd.Path(), fd.Package(), fd.Syntax(), opts(o, fd))
	imps := fd.Imports()
	for i := 0; i < imps.Len(); i++ {
		im := imps.Get(i)
		fmt.Fprintf(&sb, " import %s public=%v weak=%v placeholder=%v\n", im.Path(), im.IsPublic, im.IsWeak, im.IsPlaceholder())
	}
	for i := 0; i < fd.Enums().Len(); i++ {
		enum(&sb, fd.Enums().Get(i), o, " ")
	}
	for i := 0; i < fd.Messages().Len(); i++ {
		message(&sb, fd.Messages().Get(i), o, " ")
	}
	for i := 0; i < fd.Extensions().Len(); i++ {
		field(&sb, fd.Extensions().Get(i), o, " ")
	}
	for i := 0; i < fd.Services().Len(); i++ {
		sd := fd.Services().Get(i)
		fmt.Fprintf(&sb, " service %s idx=%d %s\n", sd.FullName(), sd.Index(), opts(o, sd))
		for j := 0; j < sd.Methods().Len(); j++ {
			md := sd.Methods().Get(j)
			fmt.Fprintf(&sb, "  method %s idx=%d in=%s out=%s cs=%v ss=%v %s\n", md.FullName(), md.Index(), md.Input().FullName(), md.Output().FullName(), md.IsStreamingClient(), md.IsStreamingServer(), opts(o, md))
		}
	}
	return sb.String()
}

func enum(sb *strings.Builder, ed protoreflect.EnumDescriptor, o Opt, ind string) {
	fmt.Fprintf(sb, "%senum %s idx=%d closed=%v placeholder=%v parent=%s %s reservednames=%v", ind, ed.FullName(), ed.Index(), ed.IsClosed(), ed.IsPlaceholder(), ed.Parent().FullName(), opts(o, ed), names(ed.ReservedNames()))
	rr := ed.ReservedRanges()
	for i := 0; i < rr.Len(); i++ {
		fmt.Fprintf(sb, " rr[%d,%d]", rr.Get(i)[0], rr.Get(i)[1])
	}
	sb.WriteString("\n")
	for i := 0; i < ed.Values().Len(); i++ {
		v := ed.Values().Get(i)
		fmt.Fprintf(sb, "%s value %s=%d idx=%d full=%s %s\n", ind, v.Name(), v.Number(), v.Index(), v.FullName(), opts(o, v))
	}
}

func names(n protoreflect.Names) []string {
	var out []string
	for i := 0; i < n.Len(); i++ {
		out = append(out, string(n.Get(i)))
	}
	return out
}

func message(sb *strings.Builder, md protoreflect.MessageDescriptor, o Opt, ind string) {
	fmt.Fprintf(sb, "%smessage %s idx=%d mapentry=%v placeholder=%v parent=%s %s reservednames=%v", ind, md.FullName(), md.Index(), md.IsMapEntry(), md.IsPlaceholder(), md.Parent().FullName(), opts(o, md), names(md.ReservedNames()))
	rn := md.RequiredNumbers()
	sb.WriteString(" required=[")
	for i := 0; i < rn.Len(); i++ {
		fmt.Fprintf(sb, "%d ", rn.Get(i))
	}
	sb.WriteString("]")
	rr := md.ReservedRanges()
	for i := 0; i < rr.Len(); i++ {
		fmt.Fprintf(sb, " rr[%d,%d)", rr.Get(i)[0], rr.Get(i)[1])
	}
	er := md.ExtensionRanges()
	for i := 0; i < er.Len(); i++ {
		fmt.Fprintf(sb, " er[%d,%d)", er.Get(i)[0], er.Get(i)[1])
		if !o.NoOptions {
			if m, ok := md.ExtensionRangeOptions(i).(proto.Message); ok && m != nil && m.ProtoReflect().IsValid() {
				b, _ := proto.MarshalOptions{Deterministic: true}.Marshal(m)
				fmt.Fprintf(sb, "{%x}", b)
			}
		}
	}
	sb.WriteString("\n")
	for i := 0; i < md.Fields().Len(); i++ {
		field(sb, md.Fields().Get(i), o, ind+" ")
	}
	for i := 0; i < md.Oneofs().Len(); i++ {
		od := md.Oneofs().Get(i)
		fmt.Fprintf(sb, "%s oneof %s idx=%d synthetic=%v %s fields=[", ind, od.FullName(), od.Index(), od.IsSynthetic(), opts(o, od))
		for j := 0; j < od.Fields().Len(); j++ {
			fmt.Fprintf(sb, "%d ", od.Fields().Get(j).Number())
		}
		sb.WriteString("]\n")
	}
	for i := 0; i < md.Enums().Len(); i++ {
		enum(sb, md.Enums().Get(i), o, ind+" ")
	}
	for i := 0; i < md.Extensions().Len(); i++ {
		field(sb, md.Extensions().Get(i), o, ind+" ")
	}
	for i := 0; i < md.Messages().Len(); i++ {
		message(sb, md.Messages().Get(i), o, ind+" ")
	}
}

func field(sb *strings.Builder, fd protoreflect.FieldDescriptor, o Opt, ind string) {
	fmt.Fprintf(sb, "%sfield %s num=%d idx=%d kind=%v card=%v presence=%v packed=%v list=%v map=%v ext=%v weak=%v optkw=%v json=%q hasjson=%v text=%q", ind,
		fd.FullName(), fd.Number(), fd.Index(), fd.Kind(), fd.Cardinality(), fd.HasPresence(), fd.IsPacked(), fd.IsList(), fd.IsMap(), fd.IsExtension(), fd.IsWeak(), fd.HasOptionalKeyword(), fd.JSONName(), fd.HasJSONName(), fd.TextName())
	fmt.Fprintf(sb, " utf8=%v lazy=%v", univ.ImplEnforceUTF8(fd), univ.IsLazy(fd))
	if fd.HasDefault() {
		fmt.Fprintf(sb, " default=%s", univ.FormatValue(fd.Default()))
		if ev := fd.DefaultEnumValue(); ev != nil {
			fmt.Fprintf(sb, "(%s)", ev.Name())
		}
	} else if fd.Message() == nil && !fd.IsList() {
		fmt.Fprintf(sb, " zero=%s", univ.FormatValue(fd.Default()))
	}
	if od := fd.ContainingOneof(); od != nil {
		fmt.Fprintf(sb, " oneof=%s", od.Name())
	}
	if cm := fd.ContainingMessage(); cm != nil {
		fmt.Fprintf(sb, " in=%s", cm.FullName())
	}
	if ed := fd.Enum(); ed != nil {
		fmt.Fprintf(sb, " enum=%s", ed.FullName())
	}
	if md := fd.Message(); md != nil {
		fmt.Fprintf(sb, " msg=%s", md.FullName())
	}
	if fd.IsMap() {
		fmt.Fprintf(sb, " mapkey=%v mapval=%v", fd.MapKey().Kind(), fd.MapValue().Kind())
	}
	fmt.Fprintf(sb, " parent=%s %s\n", fd.Parent().FullName(), opts(o, fd))
}
