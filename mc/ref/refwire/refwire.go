// Package refwire is a deliberately boring reference model of the protobuf
// wire grammar: loop-based LEB128, and a recursive-descent recogniser that
// reports the first defect in left-to-right order.
package refwire

// Defect classes, in the vocabulary of protowire.ParseError.
type Defect int

const (
	OK Defect = iota
	Truncated
	FieldNumber
	Overflow
	Reserved
	EndGroup
	Depth
)

func (d Defect) String() string {
	return [...]string{"ok", "truncated", "fieldnumber", "overflow", "reserved", "endgroup", "depth"}[d]
}

const MaxValidNumber = 1<<31 - 1 // ConsumeTag documents 1..MaxInt32 (MessageSet)

// AppendVarint is textbook LEB128.
func AppendVarint(b []byte, v uint64) []byte {
	for v >= 0x80 {
		b = append(b, byte(v)|0x80)
		v >>= 7
	}
	return append(b, byte(v))
}

func SizeVarint(v uint64) int {
	n := 1
	for v >= 0x80 {
		n++
		v >>= 7
	}
	return n
}

// ConsumeVarint accepts at most 10 bytes, the 10th being 0 or 1.
func ConsumeVarint(b []byte) (v uint64, n int, d Defect) {
	for i := 0; i < 10; i++ {
		if i >= len(b) {
			return 0, 0, Truncated
		}
		c := b[i]
		if i == 9 {
			if c > 1 {
				return 0, 0, Overflow
			}
			return v | uint64(c)<<63, 10, OK
		}
		v |= uint64(c&0x7f) << (7 * uint(i))
		if c < 0x80 {
			return v, i + 1, OK
		}
	}
	panic("unreachable")
}

func ZigZag(x int64) uint64 {
	if x >= 0 {
		return uint64(x) * 2
	}
	return uint64(-(x+1))*2 + 1
}

func UnZigZag(u uint64) int64 {
	if u%2 == 0 {
		return int64(u / 2)
	}
	return -int64(u/2) - 1
}

// ConsumeTag returns number, type, length.
func ConsumeTag(b []byte) (num int64, typ int, n int, d Defect) {
	v, n, d := ConsumeVarint(b)
	if d != OK {
		return 0, 0, 0, d
	}
	if v>>3 > MaxValidNumber || v>>3 < 1 {
		return 0, 0, 0, FieldNumber
	}
	return int64(v >> 3), int(v & 7), n, OK
}

// ConsumeValue returns the length of a field value of the given number and
// type. depth is the number of group levels that may still be opened.
func ConsumeValue(num int64, typ int, b []byte, depth int) (n int, d Defect) {
	switch typ {
	case 0:
		_, n, d = ConsumeVarint(b)
		return n, d
	case 5:
		if len(b) < 4 {
			return 0, Truncated
		}
		return 4, OK
	case 1:
		if len(b) < 8 {
			return 0, Truncated
		}
		return 8, OK
	case 2:
		m, n, d := ConsumeVarint(b)
		if d != OK {
			return 0, d
		}
		if m > uint64(len(b)-n) {
			return 0, Truncated
		}
		return n + int(m), OK
	case 3:
		if depth <= 0 {
			return 0, Depth
		}
		pos := 0
		for {
			num2, typ2, n, d := ConsumeTag(b[pos:])
			if d != OK {
				return 0, d
			}
			pos += n
			if typ2 == 4 {
				if num2 != num {
					return 0, EndGroup
				}
				return pos, OK
			}
			n, d = ConsumeValue(num2, typ2, b[pos:], depth-1)
			if d != OK {
				return 0, d
			}
			pos += n
		}
	case 4:
		return 0, EndGroup
	default:
		return 0, Reserved
	}
}

// GroupLevels is the number of nested group levels ConsumeFieldValue admits
// (observed: DefaultRecursionLimit+1; the statement only says "within the
// recursion limit", so this constant pins the shipped behaviour).
const GroupLevels = 10001

func ConsumeField(b []byte) (num int64, typ int, n int, d Defect) {
	num, typ, n, d = ConsumeTag(b)
	if d != OK {
		return 0, 0, 0, d
	}
	m, d := ConsumeValue(num, typ, b[n:], GroupLevels)
	if d != OK {
		return 0, 0, 0, d
	}
	return num, typ, n + m, OK
}

// Record is one parsed top-level record.
type Record struct {
	Num    int64
	Typ    int
	Tag    []byte // raw tag bytes
	Val    []byte // raw value bytes (for groups: body + end tag)
	Raw    []byte // Tag+Val
	Varint uint64 // for typ 0
	Body   []byte // for typ 2: payload; for typ 3: body without end tag
}

// Split parses b into records; ok is false if b is not a well-formed sequence
// of fields.
func Split(b []byte) (recs []Record, ok bool) {
	for len(b) > 0 {
		num, typ, n, d := ConsumeTag(b)
		if d != OK {
			return recs, false
		}
		m, d := ConsumeValue(num, typ, b[n:], GroupLevels)
		if d != OK {
			return recs, false
		}
		r := Record{Num: num, Typ: typ, Tag: b[:n], Val: b[n : n+m], Raw: b[:n+m]}
		switch typ {
		case 0:
			r.Varint, _, _ = ConsumeVarint(b[n:])
		case 2:
			_, k, _ := ConsumeVarint(b[n:])
			r.Body = b[n+k : n+m]
		case 3:
			// strip the end tag: find it by re-walking
			body := b[n : n+m]
			pos := 0
			for {
				n2, t2, k, _ := ConsumeTag(body[pos:])
				if t2 == 4 {
					r.Body = body[:pos]
					break
				}
				l, _ := ConsumeValue(n2, t2, body[pos+k:], GroupLevels)
				pos += k + l
			}
		}
		recs = append(recs, r)
		b = b[n+m:]
	}
	return recs, true
}
