// Package refjson is an independent RFC 8259 recogniser (used next to
// encoding/json.Valid as a second opinion) and helpers to compare JSON values.
package refjson

import (
	"bytes"
	"encoding/json"
	"reflect"
)

// Valid reports whether b is exactly one JSON value with optional surrounding
// whitespace, per RFC 8259.
func Valid(b []byte) bool {
	p := &parser{b: b}
	p.ws()
	if !p.value(0) {
		return false
	}
	p.ws()
	return p.i == len(p.b)
}

type parser struct {
	b []byte
	i int
}

func (p *parser) ws() {
	for p.i < len(p.b) && (p.b[p.i] == ' ' || p.b[p.i] == '\t' || p.b[p.i] == '\n' || p.b[p.i] == '\r') {
		p.i++
	}
}

func (p *parser) lit(s string) bool {
	if bytes.HasPrefix(p.b[p.i:], []byte(s)) {
		p.i += len(s)
		return true
	}
	return false
}

func (p *parser) value(depth int) bool {
	if depth > 20000 || p.i >= len(p.b) {
		return false
	}
	switch c := p.b[p.i]; {
	case c == '{':
		p.i++
		p.ws()
		if p.i < len(p.b) && p.b[p.i] == '}' {
			p.i++
			return true
		}
		for {
			p.ws()
			if !p.str() {
				return false
			}
			p.ws()
			if p.i >= len(p.b) || p.b[p.i] != ':' {
				return false
			}
			p.i++
			p.ws()
			if !p.value(depth + 1) {
				return false
			}
			p.ws()
			if p.i >= len(p.b) {
				return false
			}
			if p.b[p.i] == ',' {
				p.i++
				continue
			}
			if p.b[p.i] == '}' {
				p.i++
				return true
			}
			return false
		}
	case c == '[':
		p.i++
		p.ws()
		if p.i < len(p.b) && p.b[p.i] == ']' {
			p.i++
			return true
		}
		for {
			p.ws()
			if !p.value(depth + 1) {
				return false
			}
			p.ws()
			if p.i >= len(p.b) {
				return false
			}
			if p.b[p.i] == ',' {
				p.i++
				continue
			}
			if p.b[p.i] == ']' {
				p.i++
				return true
			}
			return false
		}
	case c == '"':
		return p.str()
	case c == 't':
		return p.lit("true")
	case c == 'f':
		return p.lit("false")
	case c == 'n':
		return p.lit("null")
	case c == '-' || (c >= '0' && c <= '9'):
		return p.number()
	}
	return false
}

func (p *parser) digits() int {
	n := 0
	for p.i < len(p.b) && p.b[p.i] >= '0' && p.b[p.i] <= '9' {
		p.i++
		n++
	}
	return n
}

func (p *parser) number() bool {
	if p.b[p.i] == '-' {
		p.i++
	}
	if p.i >= len(p.b) {
		return false
	}
	if p.b[p.i] == '0' {
		p.i++
	} else if p.b[p.i] >= '1' && p.b[p.i] <= '9' {
		p.digits()
	} else {
		return false
	}
	if p.i < len(p.b) && p.b[p.i] == '.' {
		p.i++
		if p.digits() == 0 {
			return false
		}
	}
	if p.i < len(p.b) && (p.b[p.i] == 'e' || p.b[p.i] == 'E') {
		p.i++
		if p.i < len(p.b) && (p.b[p.i] == '+' || p.b[p.i] == '-') {
			p.i++
		}
		if p.digits() == 0 {
			return false
		}
	}
	return true
}

func hex(c byte) bool {
	return c >= '0' && c <= '9' || c >= 'a' && c <= 'f' || c >= 'A' && c <= 'F'
}

func (p *parser) str() bool {
	if p.i >= len(p.b) || p.b[p.i] != '"' {
		return false
	}
	p.i++
	for p.i < len(p.b) {
		c := p.b[p.i]
		switch {
		case c == '"':
			p.i++
			return true
		case c < 0x20:
			return false
		case c == '\\':
			if p.i+1 >= len(p.b) {
				return false
			}
			e := p.b[p.i+1]
			switch e {
			case '"', '\\', '/', 'b', 'f', 'n', 'r', 't':
				p.i += 2
			case 'u':
				if p.i+6 > len(p.b) || !hex(p.b[p.i+2]) || !hex(p.b[p.i+3]) || !hex(p.b[p.i+4]) || !hex(p.b[p.i+5]) {
					return false
				}
				p.i += 6
			default:
				return false
			}
		default:
			p.i++
		}
	}
	return false
}

// SameValue decodes a and b with encoding/json (numbers kept as literals)
// and compares the values.
func SameValue(a, b []byte) bool {
	var va, vb any
	da := json.NewDecoder(bytes.NewReader(a))
	da.UseNumber()
	db := json.NewDecoder(bytes.NewReader(b))
	db.UseNumber()
	if da.Decode(&va) != nil || db.Decode(&vb) != nil {
		return false
	}
	return reflect.DeepEqual(va, vb)
}
